# sourced by setup.sh / check.sh: offline Go environment able to load /repo (go.mod says go 1.25.0)
TC=/root/go/pkg/mod/golang.org/toolchain@v0.0.1-go1.25.0.linux-amd64
if [ -x "$TC/bin/go" ]; then
  export PATH="$TC/bin:$PATH"
elif [ -x /opt/veriftools/go1.26.8/bin/go ]; then
  export PATH="/opt/veriftools/go1.26.8/bin:$PATH"
fi
export GOFLAGS=-mod=mod GOPROXY=off GOSUMDB=off GOTOOLCHAIN=local
unset GOWORK
export VERIF_REPO="${VERIF_REPO:-/repo}"
