#!/bin/bash
# ./seedtest.sh <prop> <k> [checkprops...] : confirm a seeded change in its scratch worktree (demo fails with, passes without),
# store it under /verif/seeded/<prop>-<k>/, then apply it to /repo, run the property's check, and undo it.
set -u
prop=$1; k=$2; shift 2
WT=${SEED_WT:-/tmp/wt/$prop}; OUT=$WT/_out
. /verif/env.sh
diff=$OUT/change$k.diff; demo=$OUT/zz_demo_${k}_test.go.txt; meta=$OUT/meta$k.json
[ -f "$diff" ] && [ -f "$demo" ] || { echo "missing deliverables"; exit 2; }
dir=$(head -1 "$demo" | sed 's/.*package dir: *//; s/[[:space:]]*$//')
name=zz_demo_${k}_test.go
cd $WT && git checkout -q -- . && git clean -qfd -e _out >/dev/null
cp "$demo" "$WT/$dir/$name"
echo "== demo WITHOUT change (must pass)"
(cd $WT && go test -count=1 -run 'ZZ|Demo|zz' ./$dir/ 2>&1 | tail -3); r0=${PIPESTATUS[0]}
without=$(cd $WT && go test -count=1 ./$dir/ -run 'Demo|ZZ|zz' >/dev/null 2>&1; echo $?)
git -C $WT apply "$diff" || { echo "patch does not apply"; exit 2; }
echo "== build with change"; (cd $WT && go build ./... 2>&1 | tail -3)
with=$(cd $WT && go test -count=1 ./$dir/ -run 'Demo|ZZ|zz' >/dev/null 2>&1; echo $?)
echo "demo exit without=$without with=$with"
rm -f "$WT/$dir/$name"
echo "== existing tests of the package with change"
(cd $WT && go test -count=1 ./$dir/ 2>&1 | tail -2)
git -C $WT checkout -q -- .
if [ "$without" != 0 ] || [ "$with" = 0 ]; then echo "NOT CONFIRMED"; exit 3; fi
id=$prop-${SEED_K:-$k}; mkdir -p /verif/seeded/$id
cp "$diff" /verif/seeded/$id/patch.diff; cp "$demo" /verif/seeded/$id/$name.txt; cp "$meta" /verif/seeded/$id/agent_meta.json 2>/dev/null
echo "== applying to /repo and running checks"
cd /repo && git apply "$diff" || exit 2
res=""
for p in $prop "$@"; do
  out=$(cd /verif && ./check.sh $p quick 2>&1); rc=$?
  echo "$out" | grep -E "VIOLATION|rule violated|UNDECIDED" | head -6 | cut -c1-260
  res="$res $p:rc=$rc"
done
git -C /repo checkout -- .
echo "RESULT $id$res"
echo "$res" > /verif/seeded/$id/check_result.txt
python3 /verif/seeding/mkmeta.py $id
