#!/bin/bash
# ./refactortest.sh <prop> <k> [more props] : confirm a behaviour-preserving refactoring (builds, touched packages' tests pass),
# store it under /verif/refactors/<prop>-<k>/, apply it to a scratch worktree, run the property's check there: the check must stay silent.
set -u
prop=$1; k=$2; shift 2
WT=/tmp/wt/$prop-rf; OUT=$WT/_out
. /verif/env.sh
diff=$OUT/refactor$k.diff; meta=$OUT/rmeta$k.json
[ -f "$diff" ] || { echo "missing deliverables"; exit 2; }
cd $WT && git checkout -q -- . && git clean -qfd -e _out >/dev/null
git -C $WT apply "$diff" || { echo "patch does not apply"; exit 2; }
pk=$(git -C $WT diff --name-only | xargs -n1 dirname | sort -u | sed 's#^#./#' | tr '\n' ' ')
echo "== build + tests of touched packages: $pk"
(cd $WT && go build ./... 2>&1 | tail -3 && go test -count=1 $pk 2>&1 | tail -4); rc=${PIPESTATUS[0]}
id=$prop-$((k+${RF_OFFSET:-0})); mkdir -p /verif/refactors/$id
cp "$diff" /verif/refactors/$id/patch.diff; cp "$meta" /verif/refactors/$id/agent_meta.json 2>/dev/null
VD=/tmp/wt/rerun_verif; mkdir -p $VD/evidence/replay $VD/checker; cp /verif/known_findings.json $VD/; cp /verif/checker/param_names.json $VD/checker/
res=""
for p in $prop "$@"; do
  out=$(cd /verif && VERIF_REPO=$WT VERIF_DIR=$VD ./bin/tdcheck -prop $p 2>&1); r=$?
  echo "$out" | grep -E "VIOLATION|rule violated|UNDECIDED" | head -6 | cut -c1-300
  res="$res $p:rc=$r"
done
git -C $WT checkout -q -- .
echo "RESULT refactor $id$res"
echo "$res" > /verif/refactors/$id/check_result.txt
