#!/bin/bash
# ./check.sh Cnn quick|thorough   — decide the static rules of one property on /repo's working tree
# ./check.sh --replay <file>      — re-evaluate the obligation recorded in a replay file
cd "$(dirname "$0")"
. ./env.sh
export VERIF_DIR="$(pwd)"
(cd checker && go build -o ../bin/tdcheck ./cmd/tdcheck) || { echo "VIOLATION property=${1} replay=/verif/check.sh (checker failed to build)"; exit 1; }
if [ "$1" = "--replay" ]; then
  prop=$(jq -r .property "$2"); key=$(jq -r .obligation.key "$2")
  exec ./bin/tdcheck -prop "$prop" -only "$key"
fi
prop="$1"; tier="${2:-quick}"
exec ./bin/tdcheck -prop "$prop" -tier "$tier"
