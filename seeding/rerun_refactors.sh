#!/bin/bash
# ./seeding/rerun_refactors.sh [ids...] : re-apply every stored behaviour-preserving refactoring to a scratch
# worktree of /repo (never /repo itself) and run the properties recorded in its check_result.txt: all must be silent.
# Output: seeding/refactor_results.tsv (id, property:rc …, first rule keys of any alarm)
cd "$(dirname "$0")/.."
. ./env.sh
(cd checker && go build -o ../bin/tdcheck ./cmd/tdcheck) || exit 2
RW=/tmp/wt/rerun; VD=/tmp/wt/rerun_verif
[ -d $RW ] || git -C /repo worktree add -q --detach $RW HEAD || exit 2
git -C $RW checkout -q --detach "$(git -C /repo rev-parse HEAD)" && git -C $RW checkout -q -- . && git -C $RW clean -qfd
mkdir -p $VD/evidence/replay $VD/checker; cp known_findings.json $VD/; cp checker/param_names.json $VD/checker/
out=seeding/refactor_results.tsv
ids="$@"; [ -z "$ids" ] && ids=$(ls refactors | sort -V) && : > $out
bad=0
for id in $ids; do
  d=refactors/$id; p=${id%%-*}
  props=$(tr ' ' '\n' < $d/check_result.txt 2>/dev/null | sed -n 's/:rc=.*//p' | tr '\n' ' ')
  case " $props " in *" $p "*) ;; *) props="$p $props";; esac
  if ! git -C $RW apply /verif/$d/patch.diff 2>/dev/null; then
    printf "%s\tPATCH-DOES-NOT-APPLY\t\n" $id >> $out; bad=1; continue
  fi
  res=""; keys=""
  for q in $props; do
    o=$(VERIF_REPO=$RW VERIF_DIR=$VD ./bin/tdcheck -prop $q 2>&1); rc=$?
    res="$res $q:rc=$rc"; [ $rc -ne 0 ] && bad=1
    k=$(echo "$o" | sed -n 's/^  \(rule violated\|UNDECIDED[^:]*\): \([^ ]*\) at.*/\2/p' | head -3 | tr '\n' ' ')
    keys="$keys $k"
  done
  printf "%s\t%s\t%s\n" $id "$res" "$keys" >> $out
  git -C $RW checkout -q -- . && git -C $RW clean -qfd
done
echo "done: $(wc -l < $out) rows in $out; alarms: $(grep -c 'rc=[^0]' $out)"
exit $bad
