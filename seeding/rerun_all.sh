#!/bin/bash
# ./seeding/rerun_all.sh [ids...] : re-apply every stored seeded change to a scratch worktree of /repo
# (never /repo itself), run the check of its own property (plus any further properties recorded in
# check_result.txt) against that worktree with a scratch evidence directory, record the rules that fire.
# Output: seeding/rerun_results.tsv  (id, property:rc …, first rule keys)
cd "$(dirname "$0")/.."
. ./env.sh
(cd checker && go build -o ../bin/tdcheck ./cmd/tdcheck) || exit 2
RW=/tmp/wt/rerun; VD=/tmp/wt/rerun_verif
[ -d $RW ] || git -C /repo worktree add -q --detach $RW HEAD || exit 2
git -C $RW checkout -q --detach "$(git -C /repo rev-parse HEAD)" && git -C $RW checkout -q -- .
mkdir -p $VD/evidence/replay $VD/checker; cp known_findings.json $VD/; cp checker/param_names.json $VD/checker/
out=seeding/rerun_results.tsv
ids="$@"; [ -z "$ids" ] && ids=$(ls seeded | sort -V) && : > $out
for id in $ids; do
  d=seeded/$id; p=${id%%-*}
  props=$(tr ' ' '\n' < $d/check_result.txt 2>/dev/null | sed -n 's/:rc=.*//p' | tr '\n' ' ')
  case " $props " in *" $p "*) ;; *) props="$p $props";; esac
  if ! git -C $RW apply /verif/$d/patch.diff 2>/dev/null; then
    if ! git -C $RW apply -C1 /verif/$d/patch.diff 2>/dev/null; then
      printf "%s\tPATCH-DOES-NOT-APPLY\t\n" $id >> $out; continue
    fi
  fi
  res=""; keys=""
  for q in $props; do
    o=$(VERIF_REPO=$RW VERIF_DIR=$VD ./bin/tdcheck -prop $q 2>&1); rc=$?
    res="$res $q:rc=$rc"
    k=$(echo "$o" | sed -n 's/^  rule violated: \([^ ]*\) at.*/\1/p' | head -3 | tr '\n' ' ')
    keys="$keys $k"
  done
  git -C $RW checkout -q -- . ; git -C $RW clean -qfd
  printf "%s\t%s\t%s\n" $id "$res" "$keys" >> $out
done
echo "done: $(wc -l < $out) rows in $out"
