#!/bin/bash
# ./mkwt.sh Cnn [N] : create scratch worktree /tmp/wt/Cnn of /repo HEAD with _out/PROPERTY.txt, print the agent prompt
set -e
p=$1; n=${2:-2}; WT=/tmp/wt/$p
mkdir -p /tmp/wt
[ -d $WT ] || git -C /repo worktree add -q --detach $WT HEAD
mkdir -p $WT/_out
grep "\"id\": *\"$p\"" /verif/properties.jsonl | jq -r '"Property " + .id + ": " + .title + "\n\nStatement: " + .statement + "\n\nQuantified over: " + (.quantifier.over|join(", ")) + " — " + .quantifier.text + "\n\nWhy the existing tests cannot settle it: " + .why_tests_cant + "\n\nAnchors (where the mechanism lives): files " + (.anchors.files|join(", ")) + "; mechanisms: " + ([.anchors.mechanism[]| .name + " (" + .where + ")"]|join("; ")) + "; observable at: " + (.anchors.observe_at|join("; "))' > $WT/_out/PROPERTY.txt
sed "s#{WT}#$WT#g; s#{N}#$n#g" /verif/seeding/AGENT_PROMPT.md
