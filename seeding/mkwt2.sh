#!/bin/bash
# ./mkwt2.sh Cnn : second-round worktree /tmp/wt/Cnn-r2 (HEAD of /repo) with TASK.md that lists the ideas already used
set -e
p=$1; WT=/tmp/wt/$p-r2
[ -d $WT ] || git -C /repo worktree add -q --detach $WT HEAD
mkdir -p $WT/_out
grep "\"id\": *\"$p\"" /verif/properties.jsonl | jq -r '"Property " + .id + ": " + .title + "\n\nStatement: " + .statement + "\n\nQuantified over: " + (.quantifier.over|join(", ")) + " — " + .quantifier.text + "\n\nWhy the existing tests cannot settle it: " + .why_tests_cant + "\n\nAnchors (where the mechanism lives): files " + (.anchors.files|join(", ")) + "; mechanisms: " + ([.anchors.mechanism[]| .name + " (" + .where + ")"]|join("; ")) + "; observable at: " + (.anchors.observe_at|join("; "))' > $WT/_out/PROPERTY.txt
sed "s#{WT}#$WT#g; s#{N}#2#g" /verif/seeding/AGENT_PROMPT.md > $WT/_out/TASK.md
{
echo
echo "ADDITIONAL CONSTRAINT FOR THIS ROUND: other people already produced the changes summarised below for this property. Do NOT repeat them or trivial variants of them (same line / same idea); find different places and different kinds of mistakes — prefer subtle ones: two cooperating edits that each look fine alone, a changed default or constant far from the mechanism, an error path, a caller that stops meeting a callee's precondition, a wrapper/helper that silently changes what it forwards."
for d in /verif/seeded/$p-*/; do jq -r '"- " + .breaks' $d/meta.json; done
} >> $WT/_out/TASK.md
echo $WT
