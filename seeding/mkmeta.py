#!/usr/bin/env python3
"""mkmeta.py <seed-id> : write /verif/seeded/<id>/meta.json from the injector's agent_meta.json and the check result."""
import json, os, sys, glob
sid = sys.argv[1]
d = os.path.join("/verif/seeded", sid)
am = {}
try:
    am = json.load(open(os.path.join(d, "agent_meta.json")))
except Exception:
    pass
res = open(os.path.join(d, "check_result.txt")).read().split() if os.path.exists(os.path.join(d, "check_result.txt")) else []
demo = [os.path.basename(f) for f in glob.glob(os.path.join(d, "zz_demo_*"))]
meta = {
    "id": sid,
    "property": sid.split("-")[0],
    "breaks": am.get("summary", ""),
    "why_breaks": am.get("why_breaks", ""),
    "needs_to_manifest": am.get("needs", ""),
    "demonstration": demo,
    "confirmed_by": [
        "seedtest.sh: demo test run in a scratch worktree WITHOUT the change (passed) and WITH patch.diff applied (failed)",
        "go build ./... with the change; go test of the touched package with the change (existing tests pass)",
        "patch applied to /repo (git apply), ./check.sh <prop> quick run, patch undone (git checkout -- .)",
    ],
    "injector_tests_run": am.get("existing_tests_run", []),
    "check_results": {r.split(":rc=")[0]: ("detected (exit 1, VIOLATION)" if r.endswith("rc=1") else "missed (exit 0)") for r in res if ":rc=" in r},
}
json.dump(meta, open(os.path.join(d, "meta.json"), "w"), indent=1)
