#!/bin/bash
# ./mkwt3.sh Cnn [N] : refactoring-round (helper/control-flow emphasis) worktree /tmp/wt/Cnn-rf (HEAD of /repo) with _out/TASK.md (behaviour-preserving refactorings)
set -e
p=$1; n=${2:-3}; WT=/tmp/wt/$p-rf
[ -d $WT ] || git -C /repo worktree add -q --detach $WT HEAD
mkdir -p $WT/_out
grep "\"id\": *\"$p\"" /verif/properties.jsonl | jq -r '"Property " + .id + ": " + .title + "\n\nStatement: " + .statement + "\n\nQuantified over: " + (.quantifier.over|join(", ")) + " — " + .quantifier.text + "\n\nAnchors (where the mechanism lives): files " + (.anchors.files|join(", ")) + "; mechanisms: " + ([.anchors.mechanism[]| .name + " (" + .where + ")"]|join("; ")) + "; observable at: " + (.anchors.observe_at|join("; "))' > $WT/_out/PROPERTY.txt
sed "s#{WT}#$WT#g; s#{N}#$n#g" /verif/seeding/REFACTOR_PROMPT2.md > $WT/_out/TASK.md
echo $WT
