#!/usr/bin/env python3
"""./claim.py Cnn 'technique' 'level text' 'level note'  — add/replace a claim and regenerate MANIFEST.json"""
import json, sys, subprocess, os
here = os.path.dirname(os.path.abspath(__file__))
p = os.path.join(here, "claims.json")
c = json.load(open(p))
c[sys.argv[1]] = {"technique": sys.argv[2], "text": sys.argv[3], "note": sys.argv[4]}
json.dump(c, open(p, "w"), indent=1, sort_keys=True)
subprocess.check_call([sys.executable, os.path.join(here, "gen_manifest.py")])
