package rules

import (
	"fmt"
	"strings"

	"golang.org/x/tools/go/ssa"

	"tdverif/checker/engine"
)

// C36 — completed entities are ordered by offset, then by descending length.
func init() {
	register("C36", []string{"telegram/message/entity"}, func(c *engine.Ctx) {
		c.Explain("C36: (R1, exhaustive) entitySorter.Less depends on its inputs only through the order of the two offsets and the order of the two lengths; all 3×3 order classes are evaluated abstractly on the function's CFG and compared with the oracle Less ⇔ off< ∨ (off= ∧ len>); asymmetry is checked on mirrored classes. (R2) Builder.Complete sorts the slice it returns via SortEntities, and SortEntities sorts with entitySorter.")
		c.NotCover("sort.Sort itself; reflection-based length fixing")
		c36R1(c)
		c36R2(c)
	})
}

func c36R1(c *engine.Ctx) {
	fn := c.MustFunc("C36.R1", "telegram/message/entity", "entitySorter.Less")
	if fn == nil {
		return
	}
	var pi, pj ssa.Value = fn.Params[1], fn.Params[2]
	// the comparison may be delegated to a helper of the package applied to the
	// two elements (entityBefore(e[i], e[j])): the helper is then the function
	// evaluated, its parameters in the roles of element i and element j
	target := fn
	if rets := engine.Returns(fn); len(rets) == 1 {
		if call := engine.CallOf(rets[0].Results[0]); call != nil {
			if h := call.Common().StaticCallee(); h != nil && len(h.Blocks) > 0 && h.Pkg == fn.Pkg {
				var hi, hj ssa.Value
				for k, a := range engine.Args(call.Common()) {
					if k >= len(h.Params) {
						break
					}
					di, dj := engine.DependsOn(a, pi), engine.DependsOn(a, pj)
					if di && !dj {
						hi = h.Params[k]
					}
					if dj && !di {
						hj = h.Params[k]
					}
				}
				if hi != nil && hj != nil {
					target, pi, pj = h, hi, hj
				}
			}
		}
	}
	// symbol of an operand: which getter on which element
	sym := func(v ssa.Value) string {
		call := engine.CallOf(v)
		if call == nil {
			return ""
		}
		id := engine.CalleeID(call.Common())
		var kind string
		switch {
		case strings.HasSuffix(id, ".GetOffset"):
			kind = "off"
		case strings.HasSuffix(id, ".GetLength"):
			kind = "len"
		default:
			return ""
		}
		recv := engine.Args(call.Common())[0]
		di, dj := engine.DependsOn(recv, pi), engine.DependsOn(recv, pj)
		switch {
		case di && !dj:
			return kind + "I"
		case dj && !di:
			return kind + "J"
		}
		return ""
	}
	results := map[[2]int]bool{}
	classes := 0
	names := map[int]string{-1: "<", 0: "=", 1: ">"}
	for _, off := range []int{-1, 0, 1} {
		for _, ln := range []int{-1, 0, 1} {
			classes++
			key := fmt.Sprintf("entitySorter.Less/class(off%s,len%s)", names[off], names[ln])
			rel := func(x, y ssa.Value) (int, bool) {
				sx, sy := sym(x), sym(y)
				switch {
				case sx == "offI" && sy == "offJ":
					return off, true
				case sx == "offJ" && sy == "offI":
					return -off, true
				case sx == "lenI" && sy == "lenJ":
					return ln, true
				case sx == "lenJ" && sy == "lenI":
					return -ln, true
				}
				return 0, false
			}
			r, err := engine.AbstractRun(target, rel)
			if err != nil || r.Bool == nil {
				c.Undecided("C36.R1", key, fn.Pos(), "abstract evaluation failed: %v", err)
				continue
			}
			results[[2]int{off, ln}] = *r.Bool
			want := off < 0 || (off == 0 && ln > 0)
			c.Check(*r.Bool == want, "C36.R1", key, fn.Pos(),
				"Less(i,j) with offset_i %s offset_j and length_i %s length_j evaluates to %v; ordering by ascending offset then descending length requires %v",
				names[off], names[ln], *r.Bool, want)
		}
	}
	c.Extra["exhaustive"] = true
	c.Extra["classes"] = classes
	c.Floor("C36.R1", 9, classes)
}

func c36R2(c *engine.Ctx) {
	fn := c.MustFunc("C36.R2", "telegram/message/entity", "Builder.Complete")
	se := c.MustFunc("C36.R2", "telegram/message/entity", "SortEntities")
	if fn == nil || se == nil {
		return
	}
	// every return of Complete: result 1 must be an argument of a SortEntities call
	// (direct or deferred) that is executed on every path to the return.
	sorts := engine.CallsTo(fn, false, "telegram/message/entity.SortEntities")
	n := 0
	for _, r := range engine.Returns(fn) {
		n++
		ok := false
		for _, s := range sorts {
			arg := s.Common().Args[0]
			if engine.Dominates(s, r) && sameSliceOrigin(arg, engine.PassThrough(r.Results[1])) {
				ok = true
			}
		}
		c.Check(ok, "C36.R2", "Builder.Complete/return-sorted", r.Pos(), "the entity slice returned by Complete must be the one passed to SortEntities on every path")
	}
	c.Floor("C36.R2", 1, n)
	// SortEntities sorts with entitySorter
	ok := false
	for _, call := range engine.CallsTo(se, false, "sort.Sort", "sort.Stable") {
		if mi, isMI := call.Common().Args[0].(*ssa.MakeInterface); isMI && strings.HasSuffix(mi.X.Type().String(), "entity.entitySorter") {
			// the whole list, not a part of it (a sorted suffix leaves an earlier
			// run in place), and on every path
			whole := engine.Unwrap(mi.X) == ssa.Value(se.Params[0])
			every := true
			for _, r := range exits(se) {
				if (engine.PathQuery{Fn: se, Barrier: func(i ssa.Instruction) bool { return i == call.(ssa.Instruction) }}).Reaches(r) {
					every = false
				}
			}
			if whole && every {
				ok = true
			}
		}
	}
	c.Check(ok, "C36.R2", "SortEntities/uses-entitySorter", se.Pos(), "SortEntities must sort its whole argument with entitySorter on every path")
}

// sameSliceOrigin: both values denote the same slice variable (same leaves).
func sameSliceOrigin(a, b ssa.Value) bool {
	la, lb := engine.Leaves(a), engine.Leaves(b)
	if len(la) == 0 || len(la) != len(lb) {
		return false
	}
	for _, x := range la {
		found := false
		for _, y := range lb {
			if x == y || engine.Describe(x) == engine.Describe(y) {
				found = true
			}
		}
		if !found {
			return false
		}
	}
	return true
}
