package rules

import (
	"go/token"
	"go/types"
	"strings"

	"golang.org/x/tools/go/ssa"

	"tdverif/checker/engine"
)

// C32 — uploads split the source into a complete, well-formed part sequence
// (structural clauses only; the byte-level statement is a value property).
const upPkg = "telegram/uploader"

func init() {
	register("C32", []string{upPkg}, func(c *engine.Ctx) {
		c.Explain("C32 (structural clauses only): (R1, numbering) in bigLoop one producer goroutine numbers the parts: a part's id is sentParts.Load() of the upload, sentParts.Inc() happens exactly on the edge where that part was handed to the workers (not when the context ended), and every trip round the producer loop that handed a part on passes exactly that Inc; smallLoop numbers with sentParts.Load() and increments once per saved part. (R2, bytes) each part's bytes are buf[:n] with n the result of io.ReadFull into a buffer of upload.partSize taken in the same iteration (so every part but a short last one has the part size); a short read marks the last part and ends the producer after it was handed on, EOF ends it without a part, any other read error is returned. (R3, request origins) saveBigFilePart carries FileID = upload.id, FilePart = part.id, FileTotalParts = upload.totalParts, Bytes = the part's buffer; saveFilePart carries FileID = upload.id, FilePart from sentParts, Bytes = this iteration's buf[:n]. (R4) a save is repeated only after a flood wait or a false answer; every other error ends the upload. (R5, descriptor) small files return InputFile{ID: upload.id, Parts: sentParts, MD5: hex of the digest the source was tee'd into}, big files InputFileBig{ID, Parts: sentParts}; the kind is totalBytes > bigFileLimit (= 10 MiB) or unknown size. (R6, part sizing) computePartSize leaves its loop only when the part count fits partsLimit (= 3999 within the 4000-part limit: ids 0..3999) or the maximum part size is reached, grows by doubling from the default size, computeParts is the ceiling of total/size, and Upload validates the chosen size with checkPartSize before using it.")
		c.NotCover("byte equality of the concatenated parts with the source; worker interleavings; the unsynchronised read of upload.totalParts by workers while the producer sets it (observation O32); resumable uploads")
		c32(c)
	})
}

// c32NoReadAfterShort decides "after the short-read edge e no further
// ReadFull rf is executed". The repository's idiom is a boolean flag set on
// the short edge and tested after the part was handed on; the flag is the
// phi that merges the switch arms. The rule: some bool phi L is the constant
// true on every incoming edge reachable from e (without passing L's block
// again), and with the L==false edges removed rf is unreachable from e.
func c32NoReadAfterShort(fn *ssa.Function, e [2]*ssa.BasicBlock, rf ssa.Instruction) bool {
	if !(engine.PathQuery{Fn: fn, FromBlk: e[1]}).Reaches(rf) {
		return true
	}
	// knownTrue: on every way from the short-read edge into L's block (not passing
	// through that block) the incoming value of the bool phi L is the constant
	// true, or another phi that is known true the same way (a flag tested at the
	// loop header, for !last {…}, receives the flag merged in the body).
	var knownTrue func(L *ssa.Phi, depth int) bool
	knownTrue = func(L *ssa.Phi, depth int) bool {
		b := L.Block()
		reach := map[*ssa.BasicBlock]bool{e[1]: true}
		work := []*ssa.BasicBlock{e[1]}
		for len(work) > 0 {
			x := work[len(work)-1]
			work = work[:len(work)-1]
			if x == b {
				continue
			}
			for _, s := range x.Succs {
				if !reach[s] {
					reach[s] = true
					work = append(work, s)
				}
			}
		}
		if e[1] == b {
			reach = map[*ssa.BasicBlock]bool{}
		}
		n := 0
		for i, p := range b.Preds {
			if reach[p] && p != b || (e[1] == b && p == e[0]) {
				n++
				if v, isK := engine.ConstBool(L.Edges[i]); isK && v {
					continue
				}
				if inner, isPhi := L.Edges[i].(*ssa.Phi); isPhi && depth < 3 && inner != L && knownTrue(inner, depth+1) {
					continue
				}
				return false
			}
		}
		return n > 0
	}
	for _, b := range fn.Blocks {
		for _, in := range b.Instrs {
			L, ok := in.(*ssa.Phi)
			if !ok {
				break
			}
			if bt, isB := L.Type().Underlying().(*types.Basic); !isB || bt.Kind() != types.Bool {
				continue
			}
			if !knownTrue(L, 0) || reachesSelf(b, rf) {
				continue
			}
			cut := engine.EdgesWhere(fn, func(k engine.Cmp) bool {
				v, isK := engine.ConstBool(k.Y)
				return k.X == ssa.Value(L) && isK && !v && k.Op == token.EQL
			})
			if len(cut) > 0 && !(engine.PathQuery{Fn: fn, FromBlk: e[1], Cut: cut}).Reaches(rf) {
				return true
			}
		}
	}
	return false
}


// reachesSelf: block b can be re-entered without executing rf.
func reachesSelf(b *ssa.BasicBlock, rf ssa.Instruction) bool {
	seen := map[*ssa.BasicBlock]bool{}
	var walk func(x *ssa.BasicBlock) bool
	walk = func(x *ssa.BasicBlock) bool {
		for _, s := range x.Succs {
			if s == b {
				return true
			}
			if seen[s] || s == rf.Block() {
				continue
			}
			seen[s] = true
			if walk(s) {
				return true
			}
		}
		return false
	}
	return walk(b)
}

func c32(c *engine.Ctx) {
	big := c.MustFunc("C32.R1", upPkg, "Uploader.bigLoop")
	small := c.MustFunc("C32.R1", upPkg, "Uploader.smallLoop")
	part := c.MustFunc("C32.R3", upPkg, "Uploader.uploadBigFilePart")
	if big == nil || small == nil || part == nil {
		return
	}
	// ---- producer of bigLoop: closure with io.ReadFull
	var prod *ssa.Function
	for _, f := range engine.WithAnon(big) {
		if f != big && len(engine.CallsTo(f, false, "io.ReadFull")) > 0 {
			prod = f
		}
	}
	if prod == nil {
		c.Undecided("C32.R1", "bigLoop/producer", big.Pos(), "no closure of bigLoop reads the source with io.ReadFull")
		return
	}
	c.SawFunc(prod)
	n1, n2 := 0, 0
	var rf *ssa.Call
	for _, call := range engine.CallsTo(prod, false, "io.ReadFull") {
		rf, _ = call.(*ssa.Call)
	}
	// the send of the part
	var sendSel *ssa.Select
	var sendBody *ssa.BasicBlock
	var sent ssa.Value
	for _, sel := range selectsOf(prod) {
		for i, st := range sel.States {
			if st.Dir == types.SendOnly {
				sendSel = sel
				sent = st.Send
				sendBody = engine.SelectCases(sel)[i].Body
			}
		}
	}
	if sendSel == nil || sendBody == nil {
		c.Fail("C32.R1", "bigLoop/hand-over", prod.Pos(), "the producer must hand parts to the workers in a select with a send case")
		return
	}
	// id = sentParts.Load()
	idV := engine.StructFieldValue(sent, "id")
	bufV := engine.StructFieldValue(sent, "buf")
	n1++
	okID := idV != nil && strings.HasPrefix(descCell(idV), "(*go.uber.org/atomic.Int64).Load(p:upload.sentParts)")
	c.Check(okID, "C32.R1", "bigLoop/part-id-from-counter", sendSel.Pos(), "a part's id must be upload.sentParts.Load() (is %s)", descCell(idV))
	// Inc exactly on the send edge
	var incs []ssa.CallInstruction
	for _, call := range engine.CallsTo(prod, false, "(*go.uber.org/atomic.Int64).Inc", "(*go.uber.org/atomic.Int64).Add") {
		if strings.HasSuffix(descCell(engine.Args(call.Common())[0]), "upload.sentParts") {
			incs = append(incs, call)
		}
	}
	n1++
	okInc := len(incs) == 1
	if okInc {
		inc := incs[0]
		okInc = (sendBody == inc.Block() || sendBody.Dominates(inc.Block())) && !engine.PathQuery{Fn: prod, FromBlk: sendBody, Barrier: func(i ssa.Instruction) bool { return i == inc.(ssa.Instruction) }}.Reaches(rf)
		for _, r := range exits(prod) {
			if (sendBody == r.Block() || sendBody.Dominates(r.Block())) && (engine.PathQuery{Fn: prod, FromBlk: sendBody, Barrier: func(i ssa.Instruction) bool { return i == inc.(ssa.Instruction) }}).Reaches(r) {
				okInc = false
			}
		}
		// and not twice
		if (engine.PathQuery{Fn: prod, From: inc, Barrier: func(i ssa.Instruction) bool { return i == ssa.Instruction(rf) }}).Reaches(inc) {
			okInc = false
		}
	}
	c.Check(okInc, "C32.R1", "bigLoop/counter-advances-once-per-handed-part", sendSel.Pos(), "sentParts must be incremented exactly once on every path after a part was handed on, and nowhere else in the producer (%d increments)", len(incs))
	// single producer: the closure is started once, outside any loop
	for _, call := range engine.Calls(big) {
		if len(call.Common().Args) > 0 && closureOf(call.Common().Args[len(call.Common().Args)-1]) == prod {
			n1++
			c.Check(!engine.InCycle(call), "C32.R1", "bigLoop/one-producer", call.Pos(), "exactly one goroutine may read the source and number the parts")
		}
	}
	c.Floor("C32.R1", 3, n1)

	// ---- R2 bytes
	if rf != nil {
		gs := engine.CallOf(rf.Common().Args[1])
		n2++
		okBuf := false
		var getSize *ssa.Call
		if fl, isF := engine.Unwrap(rf.Common().Args[1]).(*ssa.UnOp); isF {
			_ = fl
		}
		for _, call := range engine.CallsTo(prod, false, "(*bin.Pool).GetSize") {
			getSize, _ = call.(*ssa.Call)
		}
		_ = gs
		if getSize != nil {
			okBuf = strings.HasSuffix(descCell(engine.Args(getSize.Common())[1]), "upload.partSize") && engine.DependsOn(rf.Common().Args[1], getSize) && engine.Dominates(getSize, rf) && engine.InCycle(getSize)
		}
		c.Check(okBuf, "C32.R2", "bigLoop/reads-part-size-buffer", rf.Pos(), "each iteration must read into a fresh buffer of upload.partSize (ReadFull fills it unless the source ends)")
		// part.buf is that buffer, cut to buf[:n]
		n2++
		okCut := false
		engine.Instrs(prod, func(i ssa.Instruction) {
			st, ok := i.(*ssa.Store)
			if !ok {
				return
			}
			fa, isFA := st.Addr.(*ssa.FieldAddr)
			if !isFA || engine.FieldNameOf(fa) != "Buf" || getSize == nil || engine.Unwrap(fa.X) != ssa.Value(getSize) {
				return
			}
			if sl, isSl := st.Val.(*ssa.Slice); isSl && sl.Low == nil && isResult(sl.High, rf, 0) && engine.Dominates(st, sendSel) {
				okCut = true
			}
		})
		c.Check(okCut && bufV != nil && getSize != nil && engine.Unwrap(bufV) == ssa.Value(getSize), "C32.R2", "bigLoop/part-bytes-are-read-bytes", sendSel.Pos(), "the part handed on must carry this iteration's buffer cut to the n bytes ReadFull returned")
		// short read → last: after sending, close and return; EOF → no part
		isErr := func(target string) map[[2]*ssa.BasicBlock]bool {
			return engine.EdgesWhere(prod, func(k engine.Cmp) bool {
				call, isC := engine.Unwrap(k.X).(*ssa.Call)
				b, isB := engine.ConstBool(k.Y)
				if !isC || !isB || !b || k.Op != token.EQL || !strings.HasSuffix(engine.CalleeID(call.Common()), "errors.Is") {
					return false
				}
				return isResult(call.Common().Args[0], rf, 1) && engine.Describe(call.Common().Args[1]) == target
			})
		}
		short, eof := isErr("g:io.ErrUnexpectedEOF"), isErr("g:io.EOF")
		n2++
		okEOF := len(eof) == 1
		for e := range eof {
			if (engine.PathQuery{Fn: prod, FromBlk: e[1]}).Reaches(sendSel) || (engine.PathQuery{Fn: prod, FromBlk: e[1]}).Reaches(rf) {
				okEOF = false
			}
		}
		c.Check(okEOF, "C32.R2", "bigLoop/eof-ends-without-part", rf.Pos(), "io.EOF (nothing read) must end the producer without handing on a part")
		n2++
		// after a short read the next ReadFull must not be reachable (through the hand-over)
		okShort := len(short) == 1
		for e := range short {
			// the short part is still handed on …
			if !(engine.PathQuery{Fn: prod, FromBlk: e[1]}).Reaches(sendSel) {
				okShort = false
			}
			// … and no further read happens
			if !c32NoReadAfterShort(prod, e, rf) {
				okShort = false
			}
		}
		c.Check(okShort, "C32.R2", "bigLoop/short-read-is-last-part", rf.Pos(), "a short read (io.ErrUnexpectedEOF) must be handed on as the last part and end the producer: only the last part may be shorter than the part size")
		// other errors returned
		n2++
		otherErr := true
		for _, r := range engine.Returns(prod) {
			if w := engine.CallOf(engine.RetVal(r, 0)); w != nil && strings.HasSuffix(engine.CalleeID(w.Common()), "errors.Wrap") && isResult(w.Common().Args[0], rf, 1) {
				otherErr = otherErr && true
			}
		}
		found := false
		for _, r := range engine.Returns(prod) {
			if w := engine.CallOf(engine.RetVal(r, 0)); w != nil && strings.HasSuffix(engine.CalleeID(w.Common()), "errors.Wrap") && isResult(w.Common().Args[0], rf, 1) {
				found = true
			}
		}
		c.Check(found && otherErr, "C32.R2", "bigLoop/read-error-returned", rf.Pos(), "any other read error must end the upload with that error")
	}
	c.Floor("C32.R2", 5, n2)

	// ---- R3 request origins + R4 retry discipline
	n3, n4 := 0, 0
	// savedEdge[anchor] = matcher of the edge on which the part was accepted,
	// in the function that contains anchor
	savedEdge := map[*ssa.Call]func(engine.Cmp) bool{}
	checkSave := func(outer *ssa.Function, method string, want map[string]func(ssa.Value) bool, label string) *ssa.Call {
		findSave := func(f *ssa.Function) *ssa.Call {
			var s *ssa.Call
			for _, call := range engine.Calls(f) {
				if call.Common().IsInvoke() && call.Common().Method.Name() == method {
					s, _ = call.(*ssa.Call)
				}
			}
			return s
		}
		fn := outer
		save := findSave(fn)
		var site *ssa.Call // the call of a helper that contains the save (an extracted retry loop)
		if save == nil {
			for _, call := range engine.Calls(outer) {
				h := call.Common().StaticCallee()
				if h == nil || h.Pkg != outer.Pkg || len(h.Blocks) == 0 {
					continue
				}
				if s := findSave(h); s != nil {
					if cl, isC := call.(*ssa.Call); isC {
						fn, save, site = h, s, cl
					}
				}
			}
		}
		if save == nil {
			c.Fail("C32.R3", label+"/save-call", outer.Pos(), "no %s call", method)
			return nil
		}
		// a value that is a parameter of the helper stands for the argument at its call site
		toOuter := func(v ssa.Value) ssa.Value {
			if site == nil || v == nil {
				return v
			}
			for i, p := range fn.Params {
				if engine.Unwrap(v) == ssa.Value(p) {
					return engine.Args(site.Common())[i]
				}
			}
			return v
		}
		req := save.Common().Args[1]
		for f, ok := range want {
			n3++
			v := engine.StructFieldValue(req, f)
			c.Check(v != nil && ok(toOuter(v)), "C32.R3", label+"/"+f, save.Pos(), "request field %s has the wrong origin (is %s)", f, descCell(toOuter(v)))
		}
		anchor := save
		if site == nil {
			savedEdge[anchor] = func(k engine.Cmp) bool {
				b, isB := engine.ConstBool(k.Y)
				return isResult(k.X, save, 0) && isB && b && k.Op == token.EQL
			}
		} else {
			anchor = site
			// the helper reports success only for an accepted part
			okH := true
			for _, r := range engine.SuccessReturns(fn) {
				if !engine.GuardedBy(r, func(k engine.Cmp) bool {
					b, isB := engine.ConstBool(k.Y)
					return isResult(k.X, save, 0) && isB && b && k.Op == token.EQL
				}) {
					okH = false
				}
			}
			n3++
			c.Check(okH && engine.ErrIndex(fn) >= 0, "C32.R3", label+"/helper-succeeds-only-for-a-saved-part", fn.Pos(), "%s must return a nil error only on the edge where the server answered true", fn.Name())
			savedEdge[anchor] = func(k engine.Cmp) bool {
				return engine.CallOf(k.X) == site && engine.IsNil(k.Y) && k.Op == token.EQL
			}
		}
		// R4
		var fw *ssa.Call
		for _, call := range engine.CallsTo(fn, false, "tgerr.FloodWait") {
			fw, _ = call.(*ssa.Call)
		}
		n4++
		okR := fw != nil && isResult(fw.Common().Args[1], save, 1)
		if okR {
			cut := engine.EdgesWhere(fn, callBoolExtract(fw, 0, true))
			for e := range engine.EdgesWhere(fn, func(k engine.Cmp) bool {
				b, isB := engine.ConstBool(k.Y)
				return isResult(k.X, save, 0) && isB && !b && k.Op == token.EQL
			}) {
				cut[e] = true
			}
			// a new read (the next part) is not a repetition
			okR = len(cut) == 2 && !(engine.PathQuery{Fn: fn, From: save, Cut: cut, Barrier: func(i ssa.Instruction) bool {
				cl, isC := i.(*ssa.Call)
				return isC && engine.CalleeID(cl.Common()) == "io.ReadFull"
			}}).Reaches(save)
		}
		c.Check(okR, "C32.R4", label+"/resend-only-on-flood-or-false", save.Pos(), "the save request may be repeated only after a flood wait or a false answer")
		return anchor
	}
	desc := func(want string) func(ssa.Value) bool {
		return func(v ssa.Value) bool { return descCell(v) == want }
	}
	checkSave(part, "UploadSaveBigFilePart", map[string]func(ssa.Value) bool{
		"FileID":         desc("p:p.upload.id"),
		"FilePart":       desc("p:p.id"),
		"FileTotalParts": desc("p:p.upload.totalParts"),
		"Bytes":          desc("p:p.buf.Buf"),
	}, "uploadBigFilePart")
	var srf *ssa.Call
	for _, call := range engine.CallsTo(small, false, "io.ReadFull") {
		srf, _ = call.(*ssa.Call)
	}
	sSave := checkSave(small, "UploadSaveFilePart", map[string]func(ssa.Value) bool{
		"FileID": desc("p:upload.id"),
		"FilePart": func(v ssa.Value) bool {
			return strings.Contains(descCell(v), "(*go.uber.org/atomic.Int64).Load(p:upload.sentParts)")
		},
		"Bytes": func(v ssa.Value) bool {
			sl, ok := v.(*ssa.Slice)
			return ok && sl.Low == nil && srf != nil && isResult(sl.High, srf, 0)
		},
	}, "smallLoop")
	// small: one Inc per saved part
	if sSave != nil {
		var incs []ssa.CallInstruction
		for _, call := range engine.CallsTo(small, false, "(*go.uber.org/atomic.Int64).Inc") {
			incs = append(incs, call)
		}
		n3++
		okI := len(incs) == 1 && srf != nil
		if okI {
			inc := incs[0]
			// reachable only via the "saved" (true answer) edge, and every path from there to the next read passes it
			okI = engine.PathExists(sSave, inc) && !(engine.PathQuery{Fn: small, From: inc, Barrier: func(i ssa.Instruction) bool { return i == ssa.Instruction(srf) }}).Reaches(inc)
			saved := engine.EdgesWhere(small, savedEdge[sSave])
			// (several edges may imply "saved": also one that is only reachable after it)
			okI = okI && len(saved) >= 1 && everyPathPasses(small, inc, saved, nil)
			for e := range saved {
				if (engine.PathQuery{Fn: small, FromBlk: e[1], Barrier: func(i ssa.Instruction) bool { return i == inc.(ssa.Instruction) }}).Reaches(srf) {
					okI = false
				}
			}
		}
		c.Check(okI, "C32.R1", "smallLoop/counter-advances-once-per-saved-part", small.Pos(), "sentParts must advance exactly once for every part the server accepted")
	}
	if sSave != nil && srf != nil {
		isErrS := func(target string) map[[2]*ssa.BasicBlock]bool {
			return engine.EdgesWhere(small, func(k engine.Cmp) bool {
				call, isC := engine.Unwrap(k.X).(*ssa.Call)
				b, isB := engine.ConstBool(k.Y)
				if !isC || !isB || !b || k.Op != token.EQL || !strings.HasSuffix(engine.CalleeID(call.Common()), "errors.Is") {
					return false
				}
				return isResult(call.Common().Args[0], srf, 1) && engine.Describe(call.Common().Args[1]) == target
			})
		}
		short, eof := isErrS("g:io.ErrUnexpectedEOF"), isErrS("g:io.EOF")
		okE := len(eof) == 1
		for e := range eof {
			if (engine.PathQuery{Fn: small, FromBlk: e[1]}).Reaches(sSave) {
				okE = false
			}
		}
		n2++
		c.Check(okE, "C32.R2", "smallLoop/eof-ends-without-part", srf.Pos(), "io.EOF (nothing read) must end the loop without saving a part")
		okS := len(short) == 1
		for e := range short {
			if !(engine.PathQuery{Fn: small, FromBlk: e[1]}).Reaches(sSave) || !c32NoReadAfterShort(small, e, srf) {
				okS = false
			}
		}
		n2++
		c.Check(okS, "C32.R2", "smallLoop/short-read-is-last-part", srf.Pos(), "a short read must be saved as the last part and end the loop")
		// the single buffer has the part size
		n2++
		okB := false
		if gs := engine.CallOf(engine.Unwrap(srf.Common().Args[1])); gs != nil || true {
			for _, call := range engine.CallsTo(small, false, "(*bin.Pool).GetSize") {
				okB = strings.HasSuffix(descCell(engine.Args(call.Common())[1]), "upload.partSize") && engine.DependsOn(srf.Common().Args[1], call.Value())
			}
		}
		c.Check(okB, "C32.R2", "smallLoop/reads-part-size-buffer", srf.Pos(), "smallLoop must read into a buffer of upload.partSize")
	}
	c.Floor("C32.R3", 7, n3)
	c.Floor("C32.R4", 2, n4)

	// ---- R5 descriptors and kind
	n5 := 0
	if us := c.MustFunc("C32.R5", upPkg, "Uploader.uploadSmall"); us != nil {
		var hashNew, loop *ssa.Call
		for _, call := range engine.Calls(us) {
			switch engine.CalleeID(call.Common()) {
			case "crypto/md5.New":
				hashNew, _ = call.(*ssa.Call)
			case "(*telegram/uploader.Uploader).smallLoop":
				loop, _ = call.(*ssa.Call)
			}
		}
		for _, r := range engine.SuccessReturns(us) {
			n5++
			v := r.Results[0]
			id, parts, sum := engine.StructFieldValue(v, "ID"), engine.StructFieldValue(v, "Parts"), engine.StructFieldValue(v, "MD5Checksum")
			ok := id != nil && parts != nil && sum != nil && engine.Describe(id) == "p:upload.id" && strings.Contains(engine.Describe(parts), "Load(p:upload.sentParts)")
			okSum := false
			if sum != nil && hashNew != nil && loop != nil {
				if hx := engine.CallOf(sum); hx != nil && engine.CalleeID(hx.Common()) == "encoding/hex.EncodeToString" {
					if sm := engine.CallOf(hx.Common().Args[0]); sm != nil && sm.Common().IsInvoke() && sm.Common().Method.Name() == "Sum" && engine.Unwrap(sm.Common().Value) == ssa.Value(hashNew) && engine.IsNil(sm.Common().Args[0]) {
						okSum = engine.Unwrap(engine.Args(loop.Common())[2]) == ssa.Value(hashNew) && engine.Dominates(loop, sm)
					}
				}
			}
			c.Check(ok && okSum, "C32.R5", "uploadSmall/descriptor", r.Pos(), "InputFile must state upload.id, sentParts parts and the hex MD5 of the digest smallLoop fed (after the loop)")
		}
		// smallLoop tees the source into its hash parameter
		tee := false
		for _, call := range engine.CallsTo(small, false, "io.TeeReader") {
			a := call.Common().Args
			if engine.Describe(a[0]) == "p:upload.from" && engine.Describe(a[1]) == "p:h" && srf != nil && engine.Unwrap(srf.Common().Args[0]) == call.Value() {
				tee = true
			}
		}
		n5++
		c.Check(tee, "C32.R5", "smallLoop/source-teed-into-digest", small.Pos(), "every byte read from the source must pass through the digest (io.TeeReader(upload.from, h) is what ReadFull reads)")
	}
	if ub := c.MustFunc("C32.R5", upPkg, "Uploader.uploadBig"); ub != nil {
		for _, r := range engine.SuccessReturns(ub) {
			n5++
			v := r.Results[0]
			id, parts := engine.StructFieldValue(v, "ID"), engine.StructFieldValue(v, "Parts")
			c.Check(id != nil && parts != nil && engine.Describe(id) == "p:upload.id" && strings.Contains(engine.Describe(parts), "Load(p:upload.sentParts)"), "C32.R5", "uploadBig/descriptor", r.Pos(), "InputFileBig must state upload.id and sentParts parts")
		}
	}
	if iu := c.MustFunc("C32.R5", upPkg, "Uploader.initUpload"); iu != nil {
		lim, _ := constInt(c, upPkg, "bigFileLimit")
		ok := false
		engine.Instrs(iu, func(i ssa.Instruction) {
			st, isS := i.(*ssa.Store)
			if !isS || engine.Describe(st.Addr) != "p:upload.big" {
				return
			}
			if b, isB := st.Val.(*ssa.BinOp); isB {
				// totalBytes > limit, however written (limit < totalBytes, totalBytes >= limit+1)
				if cm, isCmp := engine.CmpOf(b); isCmp && engine.Describe(cm.X) == "p:upload.totalBytes" {
					if k, isK := engine.ConstInt(cm.Y); isK && ((cm.Op == token.GTR && k == lim) || (cm.Op == token.GEQ && k == lim+1)) {
						ok = true
					}
				}
			}
		})
		n5++
		c.Check(ok && lim == 10*1024*1024, "C32.R5", "initUpload/kind-by-threshold", iu.Pos(), "a file is big exactly when totalBytes > bigFileLimit (10 MiB; constant is %d)", lim)
	}
	c.Floor("C32.R5", 4, n5)

	// ---- R6 part sizing
	n6 := 0
	if cp := c.MustFunc("C32.R6", upPkg, "computePartSize"); cp != nil {
		plim, _ := constInt(c, upPkg, "partsLimit")
		maxp, _ := constInt(c, upPkg, "MaximumPartSize")
		def, _ := constInt(c, upPkg, "defaultPartSize")
		for _, r := range engine.Returns(cp) {
			n6++
			v := r.Results[0]
			// every path to the return passes "partSize >= Maximum" or "computeParts(partSize,total) <= partsLimit"
			cut := engine.EdgesWhere(cp, func(k engine.Cmp) bool {
				if k.X == v {
					kv, isK := engine.ConstInt(k.Y)
					return isK && kv == maxp && k.Op == token.GEQ
				}
				if call := engine.CallOf(k.X); call != nil && engine.CalleeID(call.Common()) == "telegram/uploader.computeParts" && call.Common().Args[0] == v && engine.Describe(call.Common().Args[1]) == "p:total" {
					kv, isK := engine.ConstInt(k.Y)
					return isK && kv == plim && k.Op == token.LEQ
				}
				return false
			})
			c.Check(len(cut) == 2 && everyPathPasses(cp, r, cut, nil), "C32.R6", "computePartSize/exit-condition", r.Pos(), "the size is returned only when the part count fits partsLimit (%d) or the maximum part size (%d) is reached", plim, maxp)
			// growth: phi(default, prev*2)
			phi, isPhi := v.(*ssa.Phi)
			okG := isPhi
			if isPhi {
				for _, e := range phi.Edges {
					if k, isK := engine.ConstInt(e); isK {
						okG = okG && k == def
						continue
					}
					// prev * 2, 2 * prev, prev << 1, prev + prev
					b, isB := e.(*ssa.BinOp)
					dbl := false
					if isB {
						kx, isKx := engine.ConstInt(b.X)
						ky, isKy := engine.ConstInt(b.Y)
						switch {
						case b.Op == token.MUL && b.X == ssa.Value(phi) && isKy && ky == 2,
							b.Op == token.MUL && b.Y == ssa.Value(phi) && isKx && kx == 2,
							b.Op == token.SHL && b.X == ssa.Value(phi) && isKy && ky == 1,
							b.Op == token.ADD && b.X == ssa.Value(phi) && b.Y == ssa.Value(phi):
							dbl = true
						}
					}
					okG = okG && dbl
				}
			}
			c.Check(okG && def == 128*1024 && maxp%def == 0, "C32.R6", "computePartSize/doubling-from-default", r.Pos(), "the size must start at defaultPartSize (128 KiB) and double, so that it stays a divisor of the maximum part size")
		}
		c.Check(plim <= 3999+1 && plim >= 1, "C32.R6", "partsLimit/value", cp.Pos(), "partsLimit is %d (part ids range 0..3999)", plim)
	}
	if cs := c.MustFunc("C32.R6", upPkg, "computeParts"); cs != nil {
		// ceil: total/size, +1 exactly when total%size != 0; 0 for total <= 0
		// decided by evaluating the function on its three classes of input, so
		// that the way it is written does not matter: total ≤ 0 → 0;
		// total > 0, remainder 0 → total/size; remainder ≠ 0 → total/size + 1
		n6++
		ok := true
		isTotal := func(v ssa.Value) bool { return engine.Unwrap(v) == ssa.Value(cs.Params[1]) }
		isSize := func(v ssa.Value) bool { return engine.Unwrap(v) == ssa.Value(cs.Params[0]) }
		isRem := func(v ssa.Value) bool {
			b, isB := engine.Unwrap(v).(*ssa.BinOp)
			return isB && b.Op == token.REM && isTotal(b.X) && isSize(b.Y)
		}
		isQuo := func(v ssa.Value) bool {
			b, isB := engine.Unwrap(v).(*ssa.BinOp)
			return isB && b.Op == token.QUO && isTotal(b.X) && isSize(b.Y)
		}
		for _, cl := range []struct {
			name       string
			total, rem int
			want       string
		}{{"total<=0", -1, 0, "0"}, {"total=0", 0, 0, "0"}, {"exact-multiple", 1, 0, "q"}, {"with-remainder", 1, 1, "q+1"}} {
			cl := cl
			res, err := engine.AbstractRun(cs, func(x, y ssa.Value) (int, bool) {
				val := func(v ssa.Value) (int64, bool) {
					if k, isK := engine.ConstInt(v); isK {
						return k, true
					}
					switch {
					case isTotal(v):
						return int64(cl.total), true
					case isRem(v):
						return int64(cl.rem), true
					}
					return 0, false
				}
				a, ok1 := val(x)
				b, ok2 := val(y)
				if !ok1 || !ok2 {
					return 0, false
				}
				return cmp64(a, b), true
			})
			if err != nil {
				ok = false
				continue
			}
			got := "?"
			v := engine.RetValOnPath(res, 0)
			for i := 0; i < 6; i++ {
				if cv, isCv := v.(*ssa.Convert); isCv {
					v = cv.X
				}
				v = res.Resolve(v)
			}
			if k, isK := engine.ConstInt(v); isK && k == 0 {
				got = "0"
			} else if isQuo(res.Resolve(v)) {
				got = "q"
			} else if b, isB := v.(*ssa.BinOp); isB && b.Op == token.ADD {
				if k, isK := engine.ConstInt(b.Y); isK && k == 1 && isQuo(res.Resolve(b.X)) {
					got = "q+1"
				}
				if k, isK := engine.ConstInt(b.X); isK && k == 1 && isQuo(res.Resolve(b.Y)) {
					got = "q+1" // 1 + q
				}
			}
			if got != cl.want {
				ok = false
			}
		}
		c.Check(ok, "C32.R6", "computeParts/ceiling-division", cs.Pos(), "computeParts must be ⌈total / partSize⌉")
	}
	if up := c.MustFunc("C32.R6", upPkg, "Uploader.Upload"); up != nil {
		var chk, ini ssa.CallInstruction
		for _, call := range engine.Calls(up) {
			switch engine.CalleeID(call.Common()) {
			case "telegram/uploader.checkPartSize":
				chk = call
			case "(*telegram/uploader.Uploader).initUpload":
				ini = call
			}
		}
		n6++
		ok := chk != nil && ini != nil && engine.Unwrap(chk.Common().Args[0]) == engine.Unwrap(engine.Args(ini.Common())[2])
		if ok {
			cc := chk.(*ssa.Call)
			ok = engine.GuardedBy(ini, func(k engine.Cmp) bool { return engine.Unwrap(k.X) == ssa.Value(cc) && engine.IsNil(k.Y) && k.Op == token.EQL })
		}
		c.Check(ok, "C32.R6", "Upload/size-validated-before-use", up.Pos(), "the part size handed to initUpload must have passed checkPartSize")
	}
	c.Floor("C32.R6", 3, n6)
}
