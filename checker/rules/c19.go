package rules

import (
	"go/token"
	"go/types"
	"strings"

	"golang.org/x/tools/go/ssa"

	"tdverif/checker/engine"
)

// C19 — FakeTLS carries any write size intact and checks the server digest.
func init() {
	register("C19", []string{"mtproxy/faketls"}, func(c *engine.Ctx) {
		c.Explain("C19: (R1, narrowing rule) the conversion uint16(len(r.Data)) in faketls.writeRecord needs len(r.Data) ≤ 65535 from a dominating guard or from every caller constructing the record; (R2) readServerHello returns nil only under bytes.Equal(HMAC-SHA256(secret)(clientRandom ‖ packet-with-zeroed-digest), digest) == true; (R3) readRecord's allocation is bounded by the 16-bit length.")
		c.NotCover("byte equality of the carried stream; TLS camouflage contents of ClientHello")
		c19R1(c)
		c19R2(c)
		c19R3(c)
		c19R4(c)
	})
}

// c19R4: the carried stream comes back intact only if the reader side never
// reports an end that the peer did not send and never reads ahead of what it
// parses. (a) FakeTLS.Read returns the result of readBuf.Read only where the
// buffer is known to be non-empty (bytes.Buffer.Read answers io.EOF on an
// empty buffer: an empty application record must not end the stream);
// (b) in package faketls an io.Reader parameter is consumed only through
// io.ReadFull, io.TeeReader (whose result is held to the same rule) or a
// hand-over to another function of the package — a buffering wrapper that is
// dropped on return swallows the bytes that follow the ServerHello.
func c19R4(c *engine.Ctx) {
	n := 0
	if rd := c.MustFunc("C19.R4", "mtproxy/faketls", "FakeTLS.Read"); rd != nil {
		for _, call := range engine.CallsTo(rd, false, "(*bytes.Buffer).Read") {
			n++
			buf := engine.Describe(engine.Args(call.Common())[0])
			ok := engine.GuardedBy(call, func(k engine.Cmp) bool {
				for _, q := range []engine.Cmp{k, k.Swap()} {
					lc := engine.CallOf(q.X)
					if lc == nil || engine.CalleeID(lc.Common()) != "(*bytes.Buffer).Len" || engine.Describe(engine.Args(lc.Common())[0]) != buf {
						continue
					}
					v, isK := engine.ConstInt(q.Y)
					if isK && ((q.Op == token.GTR && v >= 0) || (q.Op == token.GEQ && v >= 1) || (q.Op == token.NEQ && v == 0)) {
						return true
					}
				}
				return false
			})
			c.Check(ok, "C19.R4", "FakeTLS.Read/buffer-read-only-when-non-empty#"+ordinalCall(rd, call), call.Pos(), "readBuf.Read on an empty buffer returns io.EOF: it must be behind readBuf.Len() > 0, otherwise an empty record ends the stream for the reader")
		}
	}
	sp := c.SSA["mtproxy/faketls"]
	for _, f := range allFunctions(c, sp) {
		for _, p := range f.Params {
			if p.Type().String() != "io.Reader" {
				continue
			}
			var check func(v ssa.Value, d int)
			check = func(v ssa.Value, d int) {
				if v.Referrers() == nil || d > 4 {
					return
				}
				for _, ref := range *v.Referrers() {
					switch x := ref.(type) {
					case *ssa.DebugRef:
					case *ssa.Phi:
						check(x, d+1)
					case ssa.CallInstruction:
						n++
						id := engine.CalleeID(x.Common())
						a := x.Common().Args
						ok := false
						switch {
						case id == "io.ReadFull" && len(a) > 0 && a[0] == v:
							ok = true
						case id == "io.TeeReader" && len(a) > 0 && a[0] == v:
							ok = true
							if val := x.Value(); val != nil {
								check(val, d+1)
							}
						case x.Common().StaticCallee() != nil && x.Common().StaticCallee().Pkg == f.Pkg:
							ok = true // the callee's own parameter is held to this rule
						}
						c.Check(ok, "C19.R4", engine.FuncID(f)+"/reader-use:"+engine.Short(id)+"#"+ordinalCall(f, x), x.Pos(), "the stream parameter is consumed by %s: only io.ReadFull (exact reads), io.TeeReader and functions of this package may read it (a read-ahead wrapper loses the bytes after the handshake)", engine.Short(id))
					default:
						if _, isInstr := ref.(ssa.Value); isInstr {
							if mi, isMI := ref.(*ssa.MakeInterface); isMI {
								check(mi, d+1)
								continue
							}
							if ct, isCT := ref.(*ssa.ChangeInterface); isCT {
								check(ct, d+1)
								continue
							}
						}
					}
				}
			}
			check(p, 0)
		}
	}
	c.Floor("C19.R4", 4, n)
}

func intWidth(t types.Type) int {
	b, ok := t.Underlying().(*types.Basic)
	if !ok || b.Info()&types.IsInteger == 0 {
		return 0
	}
	switch b.Kind() {
	case types.Int8, types.Uint8:
		return 8
	case types.Int16, types.Uint16:
		return 16
	case types.Int32, types.Uint32:
		return 32
	}
	return 64
}

func c19R1(c *engine.Ctx) {
	fn := c.MustFunc("C19.R1", "mtproxy/faketls", "writeRecord")
	if fn == nil {
		return
	}
	iv := engine.NewBounds().IV
	n := 0
	engine.Instrs(fn, func(i ssa.Instruction) {
		cv, ok := i.(*ssa.Convert)
		if !ok || intWidth(cv.Type()) == 0 || intWidth(cv.X.Type()) == 0 || intWidth(cv.Type()) >= intWidth(cv.X.Type()) {
			return
		}
		if _, isConst := cv.X.(*ssa.Const); isConst {
			return
		}
		n++
		key := "writeRecord/narrow#" + ordinal(fn, cv)
		in := iv.At(cv.X, cv)
		tr := engine.TypeRange(cv.Type())
		if in.Lo >= tr.Lo && in.Hi <= tr.Hi {
			c.Pass("C19.R1", key, cv.Pos(), "narrowing %s → %s: operand ∈ %s fits", cv.X.Type(), cv.Type(), in)
			return
		}
		// operand is len(param.Data)? then every caller must bound it
		call := engine.CallOf(cv.X)
		if call == nil || engine.CalleeID(call.Common()) != "builtin.len" || !strings.HasPrefix(engine.Describe(call.Common().Args[0]), "p:"+engine.ParamName(fn.Params[1])+".") {
			c.Fail("C19.R1", key, cv.Pos(), "narrowing %s → %s of %s ∈ %s may truncate", cv.X.Type(), cv.Type(), engine.Describe(cv.X), in)
			return
		}
		field := strings.TrimPrefix(engine.Describe(call.Common().Args[0]), "p:"+engine.ParamName(fn.Params[1])+".")
		sites := 0
		for _, sp := range c.SSA {
			for _, f := range allFunctions(c, sp) {
				for _, g := range engine.WithAnon(f) {
					for _, cs := range engine.Calls(g) {
						if cs.Common().StaticCallee() != fn {
							continue
						}
						sites++
						k := key + "@" + engine.FuncID(g) + "#" + ordinalCall(g, cs)
						dv := engine.StructFieldValue(cs.Common().Args[1], field)
						if dv == nil {
							c.Undecided("C19.R1", k, cs.Pos(), "cannot resolve the %s field of the record passed to writeRecord", field)
							continue
						}
						l := iv.LenOf(dv, cs)
						c.Check(l.Hi <= tr.Hi, "C19.R1", k, cs.Pos(),
							"record.%s = %s has length ∈ %s; writeRecord encodes the length as %s, so it must be ≤ %d (longer writes desynchronise the peer)", field, engine.Describe(dv), l, cv.Type(), tr.Hi)
					}
				}
			}
		}
		if sites == 0 {
			c.Fail("C19.R1", key, cv.Pos(), "narrowing of len(%s) not bounded and no caller found", field)
		}
	})
	c.Floor("C19.R1", 1, n)
}

func c19R2(c *engine.Ctx) {
	fn := c.MustFunc("C19.R2", "mtproxy/faketls", "readServerHello")
	if fn == nil {
		return
	}
	n := 0
	for _, r := range engine.SuccessReturns(fn) {
		n++
		var eq ssa.Instruction
		var eqArgs []ssa.Value
		var dg *digestExpr
		engine.GuardedBy(r, func(k engine.Cmp) bool {
			if k.Op != token.EQL || eq != nil || k.Via == nil {
				return false
			}
			for _, a := range []ssa.Value{k.X, k.Y} {
				// the HMAC may be computed in place or by a helper of the package
				if d, isD := digestOf(a, "crypto/hmac.New"); isD {
					eq, dg = k.Via, d
					eqArgs = []ssa.Value{k.X, k.Y}
					return true
				}
			}
			return false
		})
		if eq == nil {
			c.Fail("C19.R2", "readServerHello/success-guard", r.Pos(), "success return is not guarded by a digest comparison (bytes.Equal / hmac.Equal / ConstantTimeCompare) involving the HMAC")
			continue
		}
		// one side: Sum of hmac.New(sha256.New, secret)
		okMac :=len(dg.ctorArgs) == 2 && dg.ctorArgs[0] != nil && dg.ctorArgs[1] != nil && strings.Contains(engine.Describe(dg.ctorArgs[0]), "crypto/sha256.New") &&
			engine.Describe(dg.ctorArgs[1]) == "p:"+engine.ParamName(fn.Params[2])
		c.Check(okMac, "C19.R2", "readServerHello/mac-key", r.Pos(), "compared digest must be HMAC-SHA256 keyed with the secret parameter")
		// writes into the mac: clientRandom first, then the packet; both dominate the comparison
		okWrites := len(dg.inputs) == 2 && engine.Dominates(dg.at, eq) &&
			strings.HasPrefix(engine.Describe(dg.inputs[0]), "p:"+engine.ParamName(fn.Params[1])) &&
			strings.Contains(engine.Describe(dg.inputs[1]), "(*bytes.Buffer).Bytes")
		c.Check(okWrites, "C19.R2", "readServerHello/mac-input", r.Pos(), "MAC input must be clientRandom followed by the received packet, both before the comparison")
		// the digest bytes inside the packet are zeroed before hashing: a copy into packet[a:b] from a zero array dominates the packet write
		okZero := false
		if len(dg.inputs) == 2 {
			for _, call := range engine.CallsTo(fn, false, "builtin.copy") {
				dst := engine.Describe(call.Common().Args[0])
				src := engine.Unwrap(call.Common().Args[1])
				if sl, ok := src.(*ssa.Slice); ok {
					if a, ok := sl.X.(*ssa.Alloc); ok && zeroAlloc(a) && strings.Contains(dst, "(*bytes.Buffer).Bytes") && engine.Dominates(call, dg.at) {
						okZero = true
					}
				}
			}
		}
		c.Check(okZero, "C19.R2", "readServerHello/digest-zeroed", r.Pos(), "the digest field of the packet must be overwritten with zeros before the packet is hashed")
		// other side: the digest copied out of the packet before zeroing
		okDigest := false
		for _, a := range eqArgs {
			if sl, ok := engine.Unwrap(a).(*ssa.Slice); ok {
				if al, ok := sl.X.(*ssa.Alloc); ok {
					for _, call := range engine.CallsTo(fn, false, "builtin.copy") {
						if d, ok := engine.Unwrap(call.Common().Args[0]).(*ssa.Slice); ok && d.X == ssa.Value(al) &&
							strings.Contains(engine.Describe(call.Common().Args[1]), "(*bytes.Buffer).Bytes") && engine.Dominates(call, eq) {
							okDigest = true
						}
					}
				}
			}
		}
		// the received digest must survive until the comparison: the MAC must not be summed into its buffer
		if arg := dg.sumArg; arg == nil {
			okDigest = false // Sum into a buffer the rule cannot trace
		} else if !engine.IsNil(arg) {
			for _, a := range eqArgs {
				if sl, ok := engine.Unwrap(a).(*ssa.Slice); ok {
					if al, ok := sl.X.(*ssa.Alloc); ok && engine.DependsOn(arg, al) {
						okDigest = false
					}
				}
			}
		}
		c.Check(okDigest, "C19.R2", "readServerHello/digest-origin", r.Pos(), "the digest compared must be copied out of the received packet and not overwritten (e.g. by summing the MAC into its buffer) before the comparison")
	}
	c.Floor("C19.R2", 1, n)
}

// zeroAlloc: a local array that is never stored to (stays zero).
func zeroAlloc(a *ssa.Alloc) bool {
	for _, r := range *a.Referrers() {
		switch x := r.(type) {
		case *ssa.Store:
			if x.Addr == ssa.Value(a) {
				return false
			}
		case *ssa.IndexAddr, *ssa.FieldAddr:
			return false
		}
	}
	return true
}

func c19R3(c *engine.Ctx) {
	fn := c.MustFunc("C19.R3", "mtproxy/faketls", "readRecord")
	if fn == nil {
		return
	}
	iv := engine.NewIntervals()
	n := 0
	engine.Instrs(fn, func(i ssa.Instruction) {
		if ms, ok := i.(*ssa.MakeSlice); ok {
			n++
			l := iv.At(ms.Len, ms)
			c.Check(l.Lo >= 0 && l.Hi <= 65535, "C19.R3", "readRecord/make#"+ordinal(fn, ms), ms.Pos(), "allocation size ∈ %s must be within the 16-bit record length", l)
		}
	})
	c.Floor("C19.R3", 1, n)
}
