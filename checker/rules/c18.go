package rules

import (
	"fmt"
	"go/token"
	"sort"
	"strings"

	"golang.org/x/tools/go/ssa"

	"tdverif/checker/engine"
)

// C18 — obfuscated2 handshake agrees on protocol, DC and both byte streams.
func init() {
	register("C18", []string{"mtproxy/obfuscated2", "transport"}, func(c *engine.Ctx) {
		c.Explain("C18: (R1) generateInit returns only headers whose first byte is not 0xef, whose first word is none of HEAD, POST, GET, OPTI, 0x02010316, 0xdddddddd, 0xeeeeeeee and whose second word is non-zero (constants collected from the guards of the accepting exit). (R2) key schedule shape: encrypt key/iv = init[8:40]/init[40:56]; decrypt key/iv = reversed(init[8:56])[0:32]/[32:48]; with a secret both keys become SHA256(key ‖ secret[0:16]); the CTR streams are created from the matching key/iv pairs; generateKeys places the protocol tag at [56:60] and the DC at [60:62] before encrypting, and the header is init[0:56] ‖ encrypted[56:64]. (R3) Accept derives the streams from the received 64 bytes, swaps them, decrypts the header with the (swapped) decrypt stream and reads tag/DC from the same offsets; Write uses the encrypt stream, Read the decrypt stream.")
		c.NotCover("AES-CTR keystream equality under chunking (stdlib); the sign of the DC id (uint16 metadata)")
		c18R1(c)
		c18R2(c)
		c18R3(c)
		c18R4(c)
	})
}

// c18R4: the server-side listeners put the recovered protocol tag back in
// front of the decrypted stream so that codec detection sees what a plain TCP
// client would have sent: one byte 0xef for abridged, the four tag bytes
// otherwise. Both listeners (obfuscated TCP and websocket) are siblings; each
// must replay Protocol[:1] exactly on the Protocol[0] == 0xef edge and
// Protocol[:] on the other (three extra 0xef bytes corrupt the first frame).
func c18R4(c *engine.Ctx) {
	const ef = 0xef // codec.AbridgedClientStart[0]; C16.R5 decides that detectCodec tests the same byte
	n := 0
	for _, f := range allFunctions(c, c.SSA["transport"]) {
		for _, g := range engine.WithAnon(f) {
			var short, full []ssa.CallInstruction
			for _, call := range engine.CallsTo(g, false, "bytes.NewReader") {
				sl, ok := engine.Unwrap(call.Common().Args[0]).(*ssa.Slice)
				if !ok || !strings.HasSuffix(engine.Describe(sl.X), ".Protocol") {
					continue
				}
				if sl.High == nil {
					full = append(full, call)
				} else if k, isK := engine.ConstInt(sl.High); isK && k == 1 && sl.Low == nil {
					short = append(short, call)
				} else {
					short = append(short, nil)
				}
			}
			if len(short)+len(full) == 0 {
				continue
			}
			n++
			isEF := func(want token.Token) func(engine.Cmp) bool {
				return func(k engine.Cmp) bool {
					for _, q := range []engine.Cmp{k, k.Swap()} {
						if !strings.Contains(engine.Describe(q.X), ".Protocol[0]") || q.Op != want {
							continue
						}
						if v, isK := engine.ConstInt(q.Y); isK && (v == 0xef || v == ef) {
							return true
						}
						if strings.Contains(engine.Describe(q.Y), "AbridgedClientStart[0]") {
							return true
						}
					}
					return false
				}
			}
			ok := len(short) == 1 && len(full) == 1 && short[0] != nil &&
				engine.GuardedBy(short[0], isEF(token.EQL)) && engine.GuardedBy(full[0], isEF(token.NEQ))
			c.Check(ok, "C18.R4", engine.FuncID(g)+"/tag-replayed-as-a-plain-client-sends-it", g.Pos(), "the listener must replay Protocol[:1] when Protocol[0] is the abridged tag 0xef and Protocol[:] otherwise (one-byte replays: %d, four-byte replays: %d)", len(short), len(full))
		}
	}
	c.Floor("C18.R4", 2, n)
}

func c18R1(c *engine.Ctx) {
	fn := c.MustFunc("C18.R1", "mtproxy/obfuscated2", "generateInit")
	if fn == nil {
		return
	}
	n := 0
	for _, r := range engine.SuccessReturns(fn) {
		n++
		first := map[uint32]bool{}
		byte0, second := false, false
		// the header is the array the function returns (by that role, whatever it is
		// called); its first byte and its first two little-endian words are tested
		var hdr ssa.Value
		if ld, ok := engine.Unwrap(engine.RetVal(r, 0)).(*ssa.UnOp); ok && ld.Op == token.MUL {
			hdr = ld.X
		}
		wordAt := func(v ssa.Value) int64 { // offset of the 4-byte word of hdr that v reads, -1 if none
			call := engine.CallOf(v)
			if call == nil || hdr == nil || !strings.HasSuffix(engine.CalleeID(call.Common()), ".Uint32") {
				return -1
			}
			args := engine.Args(call.Common())
			sl, isSl := engine.Unwrap(args[len(args)-1]).(*ssa.Slice)
			if !isSl {
				return -1
			}
			root, lo, ok := sliceRoot(sl)
			hi, isK := engine.ConstInt(sl.High)
			if !ok || root != hdr || sl.High == nil || !isK || hi != lo+4 {
				return -1
			}
			return lo
		}
		for _, g := range engine.Guards(r) {
			k := g.Cmp()
			for _, kk := range []engine.Cmp{k, k.Swap()} {
				cst, isK := engine.ConstInt(kk.Y)
				if !isK || kk.Op != token.NEQ {
					continue
				}
				if ld, ok := engine.Unwrap(kk.X).(*ssa.UnOp); ok && ld.Op == token.MUL {
					if ia, isIA := ld.X.(*ssa.IndexAddr); isIA && ia.X == hdr {
						if i, isI := engine.ConstInt(ia.Index); isI && i == 0 && cst == 0xef {
							byte0 = true
						}
					}
				}
				switch wordAt(kk.X) {
				case 0:
					first[uint32(cst)] = true
				case 4:
					if cst == 0 {
						second = true
					}
				}
			}
		}
		want := []uint32{0x44414548, 0x54534f50, 0x20544547, 0x4954504f, 0x02010316, 0xdddddddd, 0xeeeeeeee}
		// the exclusion may be a predicate of the package applied to the first word
		// (isReserved(first) == false on the accepting path): the predicate is then
		// evaluated for each reserved word and must say true
		for _, g := range engine.Guards(r) {
			k := g.Cmp()
			call := engine.CallOf(k.X)
			b, isB := engine.ConstBool(k.Y)
			if call == nil || !isB || !((!b && k.Op == token.EQL) || (b && k.Op == token.NEQ)) {
				continue
			}
			h := call.Common().StaticCallee()
			if h == nil || len(h.Blocks) == 0 || h.Pkg != fn.Pkg || len(h.Params) != 1 || len(call.Common().Args) != 1 {
				continue
			}
			if wordAt(call.Common().Args[0]) != 0 {
				continue
			}
			for _, w := range want {
				w := w
				res, err := engine.AbstractRun(h, func(p, q ssa.Value) (int, bool) {
					if cst, isK := engine.ConstInt(q); isK && engine.Unwrap(p) == ssa.Value(h.Params[0]) {
						return cmp64(int64(w), cst), true
					}
					if cst, isK := engine.ConstInt(p); isK && engine.Unwrap(q) == ssa.Value(h.Params[0]) {
						return cmp64(cst, int64(w)), true
					}
					return 0, false
				})
				if err == nil && res.Bool != nil && *res.Bool {
					first[w] = true
				}
			}
		}
		var missing []string
		for _, w := range want {
			if !first[w] {
				missing = append(missing, fmt.Sprintf("%#x", w))
			}
		}
		c.Check(byte0, "C18.R1", "generateInit/first-byte-ef", r.Pos(), "a header starting with 0xef (abridged tag) must be regenerated")
		c.Check(len(missing) == 0, "C18.R1", "generateInit/reserved-first-word", r.Pos(), "reserved first words not excluded on the accepting path: %v", missing)
		c.Check(second, "C18.R1", "generateInit/second-word-nonzero", r.Pos(), "a zero second word must be regenerated")
		// the value returned is the buffer that was tested
		c.Check(hdr != nil, "C18.R1", "generateInit/returns-tested", r.Pos(), "the returned header must be the buffer that was tested (the tests above are looked for on the returned array)")
	}
	c.Floor("C18.R1", 1, n)
}

func spanStr(sc *engine.ShapeCtx, v ssa.Value, at ssa.Instruction) string {
	s, ok := sc.SpanOf(v, at)
	if !ok {
		return "?"
	}
	return s.String()
}

func c18R2(c *engine.Ctx) {
	fn := c.MustFunc("C18.R2", "mtproxy/obfuscated2", "keys.createStreams")
	if fn == nil {
		return
	}
	sc := shapeCtx(fn, -1)
	// appends that build key material: destination capacity identifies key (48) vs iv (16)
	var mats []string
	appends := map[ssa.Value]string{}
	for _, call := range engine.CallsTo(fn, false, "builtin.append") {
		src := spanStr(sc, call.Common().Args[1], call)
		mats = append(mats, src)
		appends[call.Value()] = src
	}
	// the copy may be made by a helper of the package whose only return is
	// append(make([]byte, 0, n), param...): its argument is then the material
	for _, call := range engine.Calls(fn) {
		h := call.Common().StaticCallee()
		if h == nil || len(h.Blocks) == 0 || h.Pkg != fn.Pkg || call.Value() == nil {
			continue
		}
		rets := engine.Returns(h)
		if len(rets) != 1 || len(rets[0].Results) != 1 {
			continue
		}
		ap := isCallTo(rets[0].Results[0], "builtin.append")
		if ap == nil {
			continue
		}
		mk, isMk := engine.Unwrap(ap.Common().Args[0]).(*ssa.MakeSlice)
		if !isMk {
			continue
		}
		if z, isK := engine.ConstInt(mk.Len); !isK || z != 0 {
			continue
		}
		if arg := argOfParam(ap.Common().Args[1], call); arg != nil {
			src := spanStr(sc, arg, call)
			mats = append(mats, src)
			appends[call.Value()] = src
		}
	}
	sort.Strings(mats)
	wantMats := []string{"P1[40:56]", "P1[8:40]", "mtproxy/obfuscated2.getDecryptInit(p:init)[0:32]", "mtproxy/obfuscated2.getDecryptInit(p:init)[32:48]"}
	sort.Strings(wantMats)
	c.Check(strings.Join(mats, ";") == strings.Join(wantMats, ";"), "C18.R2", "createStreams/key-material", fn.Pos(), "key material slices %v, specification %v", mats, wantMats)
	// CTR streams: (key, iv) pairs and destination fields
	type ctr struct{ key, iv, field string }
	var got []ctr
	for _, call := range engine.CallsTo(fn, false, "mtproxy/obfuscated2.createCTR") {
		origin := func(v ssa.Value) string {
			// through the optional SHA256(key, secret) mixing: phi(append, SHA256(append, secret[0:16]))
			var outs []string
			for _, l := range engine.Leaves(v) {
				if s, ok := appends[l]; ok {
					outs = append(outs, s)
					continue
				}
				if sh := isCallTo(l, "crypto.SHA256"); sh != nil {
					vs := variadicVals(sh.Common().Args[0])
					if len(vs) == 2 {
						k := ""
						for _, l2 := range engine.Leaves(vs[0]) {
							k += appends[l2]
						}
						outs = append(outs, "SHA256("+k+"‖"+spanStr(sc, vs[1], sh)+")")
					} else {
						outs = append(outs, "SHA256(?)")
					}
					continue
				}
				outs = append(outs, engine.Describe(l))
			}
			sort.Strings(outs)
			return strings.Join(outs, "|")
		}
		field := ""
		if v := call.Value(); v != nil {
			engine.Instrs(fn, func(i ssa.Instruction) {
				if st, ok := i.(*ssa.Store); ok && engine.CallOf(st.Val) == call.(*ssa.Call) {
					field = engine.Describe(st.Addr)
				}
			})
		}
		got = append(got, ctr{origin(call.Common().Args[0]), origin(call.Common().Args[1]), field})
	}
	wantE := ctr{"P1[8:40]|SHA256(P1[8:40]‖P2[0:16])", "P1[40:56]", "p:k.encrypt"}
	rev := "mtproxy/obfuscated2.getDecryptInit(p:init)"
	dk := []string{rev + "[0:32]", "SHA256(" + rev + "[0:32]‖P2[0:16])"}
	sort.Strings(dk)
	wantD := ctr{strings.Join(dk, "|"), rev + "[32:48]", "p:k.decrypt"}
	okE, okD := false, false
	for _, g := range got {
		if g == wantE {
			okE = true
		}
		if g == wantD {
			okD = true
		}
	}
	c.Check(okE, "C18.R2", "createStreams/encrypt-stream", fn.Pos(), "encrypt stream must be CTR(key init[8:40] (mixed with secret[0:16] when set), iv init[40:56]); got %v", got)
	c.Check(okD, "C18.R2", "createStreams/decrypt-stream", fn.Pos(), "decrypt stream must be CTR(key rev[0:32] (mixed with secret[0:16] when set), iv rev[32:48]); got %v", got)
	// getDecryptInit: copy of init[8:56] then full reversal
	if gd := c.MustFunc("C18.R2", "mtproxy/obfuscated2", "getDecryptInit"); gd != nil {
		cps, _ := shapeCtx(gd, -1).Copies()
		ok := len(cps) == 1 && cps[0].Src.String() == "P0[8:56]"
		// reversal loop swaps [left] and [right] with right starting at len-1
		swap := 0
		engine.Instrs(gd, func(i ssa.Instruction) {
			if st, isS := i.(*ssa.Store); isS {
				if _, isIA := st.Addr.(*ssa.IndexAddr); isIA && engine.InCycle(st) {
					swap++
				}
			}
		})
		c.Check(ok && swap == 2, "C18.R2", "getDecryptInit/reversed-8-56", gd.Pos(), "the decrypt init must be init[8:56] reversed byte by byte")
	}
	// generateKeys
	gk := c.MustFunc("C18.R2", "mtproxy/obfuscated2", "generateKeys")
	if gk == nil {
		return
	}
	sk := shapeCtx(gk, -1)
	cps, err := sk.Copies()
	var descs []string
	for _, cp := range cps {
		descs = append(descs, cp.String())
	}
	joined := strings.Join(descs, " ; ")
	okTag := err == nil && strings.Contains(joined, "[56:60] ← P1")
	// the encrypted copy of init: destination of XORKeyStream on the encrypt stream
	// (identified by that role, not by the name of the local)
	encBase := ""
	for _, call := range engine.Calls(gk) {
		if call.Common().IsInvoke() && call.Common().Method.Name() == "XORKeyStream" && strings.HasSuffix(engine.Describe(call.Common().Value), ".encrypt") {
			if sp, ok := sk.SpanOf(call.Common().Args[0], call); ok && sp.Full && sp.Lo == (engine.Lin{}) {
				encBase = sp.Base
			}
		}
	}
	okHdr := encBase != "" && strings.Contains(joined, "[0:56]") && strings.Contains(joined, "[56:] ← "+encBase+"[56:64]")
	c.Check(okTag, "C18.R2", "generateKeys/protocol-tag-56-60", gk.Pos(), "the protocol tag must be placed at init[56:60]; splices: %s", joined)
	c.Check(okHdr, "C18.R2", "generateKeys/header", gk.Pos(), "header must be init[0:56] ‖ encrypted[56:64]; splices: %s", joined)
	var dcPut, xor ssa.CallInstruction
	for _, call := range engine.Calls(gk) {
		id := engine.CalleeID(call.Common())
		if strings.HasSuffix(id, ".PutUint16") && strings.HasSuffix(engine.Describe(engine.Args(call.Common())[1]), "[60:62]") && strings.Contains(engine.Describe(engine.Args(call.Common())[2]), "p:dc") {
			dcPut = call
		}
		if call.Common().IsInvoke() && call.Common().Method.Name() == "XORKeyStream" && strings.HasSuffix(engine.Describe(call.Common().Value), ".encrypt") {
			xor = call
		}
	}
	okOrder := dcPut != nil && xor != nil && engine.Dominates(dcPut, xor)
	for _, cp := range cps {
		if strings.Contains(cp.String(), "[56:60] ← P1") && xor != nil && !engine.Dominates(cp.Call, xor) {
			okOrder = false
		}
	}
	c.Check(okOrder, "C18.R2", "generateKeys/dc-60-62-before-encrypt", gk.Pos(), "DC must be written little-endian at init[60:62], and tag and DC must be in place before the header is encrypted with the encrypt stream")
}

func c18R3(c *engine.Ctx) {
	fn := c.MustFunc("C18.R3", "mtproxy/obfuscated2", "Accept")
	if fn == nil {
		return
	}
	// createStreams(buf, secret) on the 64 bytes read from the connection
	okCS := false
	for _, call := range engine.CallsTo(fn, false, "(*mtproxy/obfuscated2.keys).createStreams") {
		buf := call.Common().Args[1]
		for _, rf := range engine.CallsTo(fn, false, "io.ReadFull") {
			if rf.Common().Args[1] == buf && lenIs(buf, rf, 64) && engine.Dominates(rf, call) && call.Common().Args[2] == ssa.Value(fn.Params[1]) {
				okCS = true
			}
		}
	}
	c.Check(okCS, "C18.R3", "Accept/streams-from-header", fn.Pos(), "the server must derive its streams from the 64 received bytes and the secret")
	// swap: k.encrypt ← old decrypt, k.decrypt ← old encrypt
	// (fields are identified by name on the keys value, loads by what they read: each
	// stored value must be the *old* content of the other field, i.e. loaded before
	// that field is overwritten)
	fieldOf := func(addr ssa.Value) string {
		if fa, ok := addr.(*ssa.FieldAddr); ok && strings.HasSuffix(fa.X.Type().String(), "obfuscated2.keys") {
			return engine.FieldNameOf(fa)
		}
		return ""
	}
	var stE, stD *ssa.Store
	var ldForE, ldForD *ssa.UnOp
	engine.Instrs(fn, func(i ssa.Instruction) {
		st, ok := i.(*ssa.Store)
		if !ok {
			return
		}
		ld, isL := engine.Unwrap(st.Val).(*ssa.UnOp)
		if !isL || ld.Op != token.MUL {
			return
		}
		switch {
		case fieldOf(st.Addr) == "encrypt" && fieldOf(ld.X) == "decrypt":
			stE, ldForE = st, ld
		case fieldOf(st.Addr) == "decrypt" && fieldOf(ld.X) == "encrypt":
			stD, ldForD = st, ld
		}
	})
	swapped := stE != nil && stD != nil &&
		engine.Dominates(ldForE, stD) && engine.Dominates(ldForD, stE) // old decrypt read before decrypt is overwritten, old encrypt before encrypt is
	c.Check(swapped, "C18.R3", "Accept/streams-swapped", fn.Pos(), "the accepting side must exchange the encrypt and decrypt streams (each field receives the other's previous value)")
	// the decrypted header: destination of XORKeyStream on the (swapped) decrypt
	// stream applied to the received 64 bytes; tag = [56:60], DC = [60:62] of it
	sc := shapeCtx(fn, -1)
	plainBase := ""
	var xorCall ssa.CallInstruction
	for _, call := range engine.Calls(fn) {
		if !call.Common().IsInvoke() || call.Common().Method.Name() != "XORKeyStream" {
			continue
		}
		if ld, isL := engine.Unwrap(call.Common().Value).(*ssa.UnOp); !isL || fieldOf(ld.X) != "decrypt" || stD == nil || !engine.Dominates(stD, call) {
			continue
		}
		if sp, ok := sc.SpanOf(call.Common().Args[0], call); ok && sp.Full && sp.Lo == (engine.Lin{}) {
			plainBase, xorCall = sp.Base, call
		}
	}
	cps, _ := sc.Copies()
	okTag := false
	for _, cp := range cps {
		if plainBase != "" && cp.Src.String() == plainBase+"[56:60]" && engine.Dominates(xorCall, cp.Call) {
			okTag = true
		}
	}
	okDC := false
	for _, call := range engine.Calls(fn) {
		if plainBase != "" && strings.HasSuffix(engine.CalleeID(call.Common()), ".Uint16") && spanStr(sc, engine.Args(call.Common())[1], call) == plainBase+"[60:62]" && engine.Dominates(xorCall, call) {
			okDC = true
		}
	}
	c.Check(okTag && okDC, "C18.R3", "Accept/tag-dc-offsets", fn.Pos(), "protocol tag and DC must be read from bytes [56:60] and [60:62] (little-endian) of the header decrypted with the decrypt stream (decrypted buffer: %q)", plainBase)
	// Write/Read stream use
	for _, spec := range []struct{ m, stream string }{{"Obfuscated2.Write", ".encrypt"}, {"Obfuscated2.Read", ".decrypt"}} {
		m := c.MustFunc("C18.R3", "mtproxy/obfuscated2", spec.m)
		if m == nil {
			continue
		}
		ok := false
		n := 0
		for _, call := range engine.Calls(m) {
			if call.Common().IsInvoke() && call.Common().Method.Name() == "XORKeyStream" {
				n++
				ok = strings.HasSuffix(engine.Describe(call.Common().Value), spec.stream)
			}
		}
		c.Check(ok && n == 1, "C18.R3", spec.m+"/stream", m.Pos(), "%s must transform data with the %s stream exactly once", spec.m, spec.stream)
	}
	// Read decrypts exactly the n bytes received
	if m := c.Func("mtproxy/obfuscated2", "Obfuscated2.Read"); m != nil {
		ok := false
		for _, call := range engine.Calls(m) {
			if call.Common().IsInvoke() && call.Common().Method.Name() == "XORKeyStream" {
				d0, d1 := engine.Describe(call.Common().Args[0]), engine.Describe(call.Common().Args[1])
				if d0 == d1 && strings.HasPrefix(d0, "p:b[:") && strings.Contains(d0, ".Read(") {
					ok = true
				}
			}
		}
		c.Check(ok, "C18.R3", "Obfuscated2.Read/exact-bytes", m.Pos(), "Read must decrypt exactly the bytes the connection returned (keeps the keystream aligned under any chunking)")
	}
}
