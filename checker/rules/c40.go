package rules

import (
	"go/constant"
	"go/token"
	"go/types"
	"sort"
	"strings"

	"golang.org/x/tools/go/ssa"

	"tdverif/checker/engine"
)

// C40 — RPC errors are parsed consistently; flood-wait waits.
func init() {
	register("C40", []string{"tgerr"}, func(c *engine.Ctx) {
		c.Explain("C40: (R1, table) FloodWaitErrors is exactly {FLOOD_WAIT, FLOOD_PREMIUM_WAIT}. (R2) AsFloodWait tests every entry of that table (a miss on one entry can only lead to the next entry or to the final 'not a flood wait' return), tests the error it was given, and on a hit returns time.Second × Argument of the matched error with true. (R3) FloodWait arms its timer with the duration AsFloodWait returned plus a constant margin of at least one second, only when AsFloodWait said ok, returns true only after the timer fired and (false, ctx.Err()) when the context ended first; any other error is handed back with false. (R4, structure of the parser) in Error.extractArgument a part of the message is converted with strconv.Atoi only after a loop over all runes of that same part ran to exhaustion with every rune passing ascii.IsDigit; the first non-digit rune sends the part — that same part — to the list the type is joined from (with \"_\") and never to the conversion; Argument is assigned the conversion result; Type is joined from that list; New calls extractArgument on the error it returns.")
		c.NotCover("the string-level result for arbitrary messages (value property); only the structural facts above are decided for the parsing clause")
		c40(c)
	})
}

func c40(c *engine.Ctx) {
	sp := c.SSA["tgerr"]
	// ---- R1 table
	want := []string{"FLOOD_PREMIUM_WAIT", "FLOOD_WAIT"}
	{
		var got []string
		g, _ := sp.Members["FloodWaitErrors"].(*ssa.Global)
		if g == nil {
			c.Undecided("C40.R1", "anchor:FloodWaitErrors", 0, "variable tgerr.FloodWaitErrors does not resolve")
		} else {
			initFn := sp.Func("init")
			engine.Instrs(initFn, func(i ssa.Instruction) {
				st, ok := i.(*ssa.Store)
				if !ok {
					return
				}
				ia, isIA := st.Addr.(*ssa.IndexAddr)
				if !isIA {
					return
				}
				// element of the array backing the slice stored into the global
				arr := ia.X
				backs := false
				for _, r := range *arr.Referrers() {
					if sl, isS := r.(*ssa.Slice); isS {
						for _, rr := range *sl.Referrers() {
							if s2, isSt := rr.(*ssa.Store); isSt && s2.Addr == ssa.Value(g) {
								backs = true
							}
						}
					}
				}
				if !backs {
					return
				}
				if k, isK := st.Val.(*ssa.Const); isK && k.Value != nil && k.Value.Kind() == constant.String {
					got = append(got, constant.StringVal(k.Value))
				}
			})
			sort.Strings(got)
			c.Check(strings.Join(got, ",") == strings.Join(want, ","), "C40.R1", "FloodWaitErrors/table", g.Pos(), "flood-wait error types must be exactly %v (found %v)", want, got)
			// nobody else writes the table
			writers := 0
			for _, f0 := range allFunctions(c, sp) {
				if f0 == initFn {
					continue
				}
				for _, f := range engine.WithAnon(f0) {
					engine.Instrs(f, func(i ssa.Instruction) {
						if st, ok := i.(*ssa.Store); ok && st.Addr == ssa.Value(g) {
							writers++
						}
					})
				}
			}
			c.Check(writers == 0, "C40.R1", "FloodWaitErrors/only-initialised", g.Pos(), "the table must not be reassigned outside its initialiser (%d stores found)", writers)
		}
		c.Floor("C40.R1", 1, len(got)/2)
	}

	// ---- R2 AsFloodWait
	n2 := 0
	if af := c.MustFunc("C40.R2", "tgerr", "AsFloodWait"); af != nil {
		calls := engine.CallsTo(af, false, "tgerr.AsType")
		c.Check(len(calls) == 1, "C40.R2", "AsFloodWait/one-test-site", af.Pos(), "one AsType test inside the table loop expected (found %d)", len(calls))
		for _, call := range calls {
			n2++
			at := call.(*ssa.Call)
			a := at.Common().Args
			elem := engine.Describe(a[1])
			c.Check(engine.Describe(a[0]) == "p:err" && strings.HasPrefix(elem, "g:tgerr.FloodWaitErrors["), "C40.R2", "AsFloodWait/tests-argument-against-table-entry", call.Pos(), "AsType must test the function's error against an entry of FloodWaitErrors (tests %s against %s)", engine.Describe(a[0]), elem)
			// the exhaustion test of the range loop over the table
			var exhaust *ssa.If
			for _, b := range af.Blocks {
				iff, ok := b.Instrs[len(b.Instrs)-1].(*ssa.If)
				if !ok {
					continue
				}
				k := engine.Guard{If: iff, Branch: true}.Cmp()
				if k.Op == token.LSS && strings.Contains(engine.Describe(k.Y), "builtin.len(g:tgerr.FloodWaitErrors)") {
					exhaust = iff
				}
			}
			if exhaust == nil {
				c.Fail("C40.R2", "AsFloodWait/loop-over-table", af.Pos(), "no range loop over FloodWaitErrors found")
				continue
			}
			miss := engine.EdgesWhere(af, callBoolExtract(at, 1, false))
			okMiss := len(miss) == 1
			for e := range miss {
				for _, r := range engine.Returns(af) {
					if (engine.PathQuery{Fn: af, FromBlk: e[1], Barrier: func(i ssa.Instruction) bool { return i == ssa.Instruction(exhaust) }}).Reaches(r) {
						okMiss = false
					}
				}
			}
			c.Check(okMiss, "C40.R2", "AsFloodWait/visits-every-entry", call.Pos(), "a miss on one table entry must lead to the next entry (no return reachable from the miss edge before the loop's exhaustion test): otherwise only the first kind of flood wait is recognised")
			// hit: Second * Argument of the matched error, true
			for _, r := range engine.Returns(af) {
				b, isB := engine.ConstBool(engine.RetVal(r, 1))
				if !isB || !b {
					continue
				}
				n2++
				okHit := engine.GuardedBy(r, callBoolExtract(at, 1, true))
				mul, isMul := engine.RetVal(r, 0).(*ssa.BinOp)
				okVal := false
				if isMul && mul.Op == token.MUL {
					for _, side := range [][2]ssa.Value{{mul.X, mul.Y}, {mul.Y, mul.X}} {
						k, isK := engine.ConstInt(side[0])
						d := engine.Describe(side[1])
						if isK && k == 1e9 && strings.HasSuffix(d, "#0.Argument") && strings.HasPrefix(d, "tgerr.AsType(p:err, ") {
							okVal = true
						}
					}
				}
				c.Check(okHit && okVal, "C40.R2", "AsFloodWait/hit-returns-seconds", r.Pos(), "on a hit the result must be time.Second × Argument of the matched error (returns %s)", engine.Describe(engine.RetVal(r, 0)))
			}
		}
	}
	if at := c.MustFunc("C40.R2", "tgerr", "AsType"); at != nil {
		for _, r := range engine.Returns(at) {
			b, isB := engine.ConstBool(engine.RetVal(r, 1))
			if !isB || !b {
				continue
			}
			n2++
			okT := engine.GuardedBy(r, func(k engine.Cmp) bool {
				return k.Op == token.EQL && strings.HasSuffix(engine.Describe(k.X), ".Type") && engine.Describe(k.Y) == "p:t"
			})
			okAs := engine.GuardedBy(r, func(k engine.Cmp) bool {
				call, isC := engine.Unwrap(k.X).(*ssa.Call)
				bb, isBB := engine.ConstBool(k.Y)
				return isC && isBB && bb && strings.HasSuffix(engine.CalleeID(call.Common()), "errors.As") && engine.Describe(call.Common().Args[0]) == "p:err"
			})
			c.Check(okT && okAs, "C40.R2", "AsType/matches-type-of-extracted-error", r.Pos(), "AsType must report a match only when errors.As extracted an *Error from its argument and its Type equals t")
		}
	}
	c.Floor("C40.R2", 3, n2)

	// ---- R3 FloodWait
	n3 := 0
	if fw := c.MustFunc("C40.R3", "tgerr", "FloodWait"); fw != nil {
		var af *ssa.Call
		for _, call := range engine.CallsTo(fw, false, "tgerr.AsFloodWait") {
			af, _ = call.(*ssa.Call)
		}
		if af == nil || engine.Describe(af.Common().Args[0]) != "p:err" {
			c.Fail("C40.R3", "FloodWait/asks-AsFloodWait", fw.Pos(), "FloodWait must classify its error argument with AsFloodWait")
		} else {
			var timerCall *ssa.Call
			for _, call := range engine.Calls(fw) {
				if strings.HasSuffix(engine.CalleeID(call.Common()), "Clock).Timer") {
					timerCall, _ = call.(*ssa.Call)
				}
			}
			if timerCall == nil {
				c.Fail("C40.R3", "FloodWait/timer", fw.Pos(), "FloodWait must arm a timer")
			} else {
				n3++
				arg := engine.Args(timerCall.Common())[1]
				add, isAdd := arg.(*ssa.BinOp)
				okArg := false
				var margin int64
				if isAdd && add.Op == token.ADD {
					for _, side := range [][2]ssa.Value{{add.X, add.Y}, {add.Y, add.X}} {
						ex, isE := engine.Unwrap(side[0]).(*ssa.Extract)
						k, isK := engine.ConstInt(side[1])
						if isE && ex.Tuple == ssa.Value(af) && ex.Index == 0 && isK {
							okArg, margin = true, k
						}
					}
				}
				c.Check(okArg && margin >= 1e9, "C40.R3", "FloodWait/timer-duration", timerCall.Pos(), "the timer must be armed with the flood-wait duration plus a constant margin ≥ 1 s (is %s, margin %d ns)", engine.Describe(arg), margin)
				c.Check(engine.GuardedBy(timerCall, callBoolExtract(af, 1, true)), "C40.R3", "FloodWait/waits-only-on-flood-wait", timerCall.Pos(), "the wait must happen only when AsFloodWait reported ok")
				for _, r := range engine.Returns(fw) {
					b, isB := engine.ConstBool(engine.RetVal(r, 0))
					if !isB {
						c.Undecided("C40.R3", "FloodWait/return#"+ordinal(fw, r), r.Pos(), "non-constant boolean result")
						continue
					}
					n3++
					if b {
						ok := false
						for _, rv := range recvsOf(fw) {
							if tc := engine.CallOf(engine.Unwrap(rv.Chan)); tc != nil && strings.HasSuffix(engine.CalleeID(tc.Common()), "Timer).C") && engine.Unwrap(engine.Args(tc.Common())[0]) == ssa.Value(timerCall) && rv.Blocking && afterRecv(rv, r) {
								ok = true
							}
						}
						c.Check(ok, "C40.R3", "FloodWait/return#"+ordinal(fw, r)+"/true-only-after-timer", r.Pos(), "FloodWait may report 'waited' only after its timer fired")
					} else {
						d := engine.Describe(engine.RetVal(r, 1))
						inCtx := false
						for _, rv := range recvsOf(fw) {
							if isDoneOf(rv.Chan, "p:ctx") && afterRecv(rv, r) {
								inCtx = true
							}
						}
						if inCtx {
							c.Check(d == "(context.Context).Err(p:ctx)", "C40.R3", "FloodWait/return#"+ordinal(fw, r)+"/context-error", r.Pos(), "when the context ends first the result is (false, ctx.Err()) (returns %s)", d)
						} else {
							c.Check(d == "p:err" && engine.GuardedBy(r, callBoolExtract(af, 1, false)), "C40.R3", "FloodWait/return#"+ordinal(fw, r)+"/other-error-passed-back", r.Pos(), "an error that is not a flood wait must be handed back unchanged with false, without waiting (returns %s)", d)
						}
					}
				}
			}
		}
	}
	c.Floor("C40.R3", 4, n3)

	// ---- R4 structure of the parser
	n4 := 0
	if ea := c.MustFunc("C40.R4", "tgerr", "Error.extractArgument"); ea != nil {
		atois := engine.CallsTo(ea, false, "strconv.Atoi")
		c.Check(len(atois) == 1, "C40.R4", "extractArgument/one-conversion-site", ea.Pos(), "one strconv.Atoi call expected (found %d)", len(atois))
		for _, call := range atois {
			atoi := call.(*ssa.Call)
			part := engine.Unwrap(atoi.Common().Args[0])
			// every part of the message is a candidate: the part is an element
			// of the whole strings.Split result, visited by a forward loop over
			// that whole list (the number may stand first, in the middle or last)
			n4++
			okAll := false
			if ld, isL := part.(*ssa.UnOp); isL && ld.Op == token.MUL {
				if ia, isIA := ld.X.(*ssa.IndexAddr); isIA {
					if sp := engine.CallOf(ia.X); sp != nil && engine.CalleeID(sp.Common()) == "strings.Split" {
						okAll, _ = c39RangeIndex(ia.Index, ia.X)
					}
				}
			}
			c.Check(okAll, "C40.R4", "extractArgument/every-part-is-a-candidate", call.Pos(), "the numeric part is looked for among all parts of strings.Split(message, \"_\"): the scanned part must be an element of that whole list in a loop over all of it (is %s)", engine.Describe(part))
			// range over the runes of the same part
			var rng *ssa.Range
			engine.Instrs(ea, func(i ssa.Instruction) {
				if r, ok := i.(*ssa.Range); ok && engine.Unwrap(r.X) == part {
					rng = r
				}
			})
			if rng == nil {
				// the scan may be a predicate of the package applied to the part
				// (digitsOnly(part)): the predicate must be the same rune-by-rune test,
				// and its two outcomes take the places of the loop's two exits
				var hc *ssa.Call
				for _, pc := range engine.Calls(ea) {
					k, isC := pc.(*ssa.Call)
					if !isC {
						continue
					}
					if h := k.Common().StaticCallee(); h != nil && len(h.Blocks) > 0 && h.Pkg == ea.Pkg && len(h.Params) == 1 && len(k.Common().Args) == 1 && engine.Unwrap(k.Common().Args[0]) == part {
						hc = k
					}
				}
				if hc == nil {
					c.Fail("C40.R4", "extractArgument/scans-part", call.Pos(), "the converted part is not scanned rune by rune (no range over %s)", engine.Describe(part))
					continue
				}
				okPred, why := c40DigitPredicate(hc.Common().StaticCallee())
				yes := engine.EdgesWhere(ea, callBool(hc, true))
				no := engine.EdgesWhere(ea, callBool(hc, false))
				n4++
				c.Check(okPred && len(yes) == 1 && everyPathPasses(ea, atoi, yes, nil), "C40.R4", "extractArgument/convert-only-after-full-scan", call.Pos(), "strconv.Atoi(part) must be reachable only when %s(part) said true, and that predicate must be true only after all runes passed ascii.IsDigit (%s)", hc.Common().StaticCallee().Name(), why)
				n4++
				okND := len(no) == 1
				for e := range no {
					if (engine.PathQuery{Fn: ea, FromBlk: e[1], Barrier: func(i ssa.Instruction) bool { return i == ssa.Instruction(hc) }}).Reaches(atoi) {
						okND = false
					}
					app := false
					for _, ac := range engine.CallsTo(ea, false, "builtin.append") {
						if engine.Dominates(firstInstr(e[1]), ac) || ac.Block() == e[1] {
							for _, v := range variadicVals(ac.Common().Args[1]) {
								if engine.Unwrap(v) == part {
									app = true
								}
							}
						}
					}
					c.Check(app, "C40.R4", "extractArgument/non-digit-part-goes-to-type", call.Pos(), "a part with a non-digit rune must be appended (that same part) to the list the type is built from")
				}
				c.Check(okND, "C40.R4", "extractArgument/non-digit-never-converted", call.Pos(), "after a non-digit rune the part must not reach strconv.Atoi")
				okArg := false
				engine.Instrs(ea, func(i ssa.Instruction) {
					st, ok := i.(*ssa.Store)
					if !ok || engine.Describe(st.Addr) != "p:e.Argument" {
						return
					}
					if ex, isE := engine.Unwrap(st.Val).(*ssa.Extract); isE && ex.Tuple == ssa.Value(atoi) && ex.Index == 0 {
						okArg = true
					}
				})
				n4++
				c.Check(okArg, "C40.R4", "extractArgument/argument-is-converted-part", call.Pos(), "Argument must be assigned the converted numeric part")
				continue
			}
			var next *ssa.Next
			for _, r := range *rng.Referrers() {
				if nx, ok := r.(*ssa.Next); ok {
					next = nx
				}
			}
			if next == nil {
				c.Undecided("C40.R4", "extractArgument/range-next", call.Pos(), "range without next")
				continue
			}
			n4++
			exhausted := engine.EdgesWhere(ea, func(k engine.Cmp) bool {
				ex, ok := engine.Unwrap(k.X).(*ssa.Extract)
				b, isB := engine.ConstBool(k.Y)
				return ok && ex.Tuple == ssa.Value(next) && ex.Index == 0 && isB && !b
			})
			c.Check(len(exhausted) == 1 && everyPathPasses(ea, atoi, exhausted, nil), "C40.R4", "extractArgument/convert-only-after-full-scan", call.Pos(), "strconv.Atoi(part) must be reachable only through the exhausted edge of the loop over all runes of that part")
			// every rune is tested with IsDigit; the non-digit edge never reaches Atoi before the next part
			var isd *ssa.Call
			for _, dc := range engine.CallsTo(ea, false, "ascii.IsDigit") {
				d := dc.(*ssa.Call)
				if ex, ok := engine.Unwrap(d.Common().Args[0]).(*ssa.Extract); ok && ex.Tuple == ssa.Value(next) && ex.Index == 2 {
					isd = d
				}
			}
			if isd == nil {
				c.Fail("C40.R4", "extractArgument/tests-each-rune", call.Pos(), "the runes of the part must be tested with ascii.IsDigit")
				continue
			}
			n4++
			nd := engine.EdgesWhere(ea, callBool(isd, false))
			dg := engine.EdgesWhere(ea, callBool(isd, true))
			okND := len(nd) == 1
			for e := range nd {
				if (engine.PathQuery{Fn: ea, FromBlk: e[1], Barrier: func(i ssa.Instruction) bool { return i == ssa.Instruction(rng) }}).Reaches(atoi) {
					okND = false
				}
				// the same part is appended to the list on that edge before the next part
				app := false
				for _, ac := range engine.CallsTo(ea, false, "builtin.append") {
					if engine.Dominates(firstInstr(e[1]), ac) || ac.Block() == e[1] {
						for _, v := range variadicVals(ac.Common().Args[1]) {
							if engine.Unwrap(v) == part {
								app = true
							}
						}
					}
				}
				c.Check(app, "C40.R4", "extractArgument/non-digit-part-goes-to-type", call.Pos(), "a part with a non-digit rune must be appended (that same part) to the list the type is built from")
			}
			c.Check(okND, "C40.R4", "extractArgument/non-digit-never-converted", call.Pos(), "after a non-digit rune the part must not reach strconv.Atoi")
			// a digit rune continues the scan (goes back to next) and nowhere else
			okD := len(dg) == 1
			for e := range dg {
				if e[1] != next.Block() {
					okD = false
				}
			}
			c.Check(okD, "C40.R4", "extractArgument/digit-continues-scan", call.Pos(), "a digit rune must continue the scan with the next rune")
			// Argument := result
			okArg := false
			engine.Instrs(ea, func(i ssa.Instruction) {
				st, ok := i.(*ssa.Store)
				if !ok || engine.Describe(st.Addr) != "p:e.Argument" {
					return
				}
				if ex, isE := engine.Unwrap(st.Val).(*ssa.Extract); isE && ex.Tuple == ssa.Value(atoi) && ex.Index == 0 {
					okArg = true
				}
			})
			n4++
			c.Check(okArg, "C40.R4", "extractArgument/argument-is-converted-part", call.Pos(), "Argument must be assigned the converted numeric part")
		}
		// Type := strings.Join(list, "_") with the message split by "_"
		okJoin, okSplit := false, false
		for _, jc := range engine.CallsTo(ea, false, "strings.Join") {
			sep, _ := jc.Common().Args[1].(*ssa.Const)
			if sep != nil && sep.Value != nil && constant.StringVal(sep.Value) == "_" {
				engine.Instrs(ea, func(i ssa.Instruction) {
					if st, ok := i.(*ssa.Store); ok && engine.Describe(st.Addr) == "p:e.Type" && engine.Unwrap(st.Val) == jc.Value() {
						okJoin = true
					}
				})
			}
		}
		for _, scall := range engine.CallsTo(ea, false, "strings.Split") {
			sep, _ := scall.Common().Args[1].(*ssa.Const)
			if engine.Describe(scall.Common().Args[0]) == "p:e.Message" && sep != nil && sep.Value != nil && constant.StringVal(sep.Value) == "_" {
				okSplit = true
			}
		}
		n4++
		c.Check(okJoin && okSplit, "C40.R4", "extractArgument/type-joined-from-non-numeric-parts", ea.Pos(), "the message must be split by \"_\" and Type joined with \"_\" from the non-numeric parts")
	}
	if nw := c.MustFunc("C40.R4", "tgerr", "New"); nw != nil {
		ok := false
		for _, call := range engine.CallsTo(nw, false, "(*tgerr.Error).extractArgument") {
			for _, r := range engine.Returns(nw) {
				if engine.Dominates(call, r) && engine.Unwrap(engine.Args(call.Common())[0]) == engine.Unwrap(engine.RetVal(r, 0)) {
					ok = true
				}
			}
		}
		n4++
		c.Check(ok, "C40.R4", "New/parses-what-it-returns", nw.Pos(), "New must run extractArgument on the error it returns")
		_ = types.Typ
	}
	c.Floor("C40.R4", 5, n4)
}

// callBoolExtract matches "result idx of call == want".
func callBoolExtract(call *ssa.Call, idx int, want bool) func(engine.Cmp) bool {
	return func(k engine.Cmp) bool {
		ex, ok := engine.Unwrap(k.X).(*ssa.Extract)
		if !ok || ex.Tuple != ssa.Value(call) || ex.Index != idx {
			return false
		}
		b, isB := engine.ConstBool(k.Y)
		if !isB {
			return false
		}
		switch k.Op {
		case token.EQL:
			return b == want
		case token.NEQ:
			return b != want
		}
		return false
	}
}

func firstInstr(b *ssa.BasicBlock) ssa.Instruction { return b.Instrs[0] }

// c40DigitPredicate: h(s string) bool is "every rune of s passes ascii.IsDigit":
// it ranges over its parameter, tests each rune, a failing rune leads only to
// returns of false, a passing rune only to the next rune, and true is returned
// only on the exhausted edge of the loop.
func c40DigitPredicate(h *ssa.Function) (bool, string) {
	if h == nil || len(h.Params) != 1 || h.Signature.Results().Len() != 1 {
		return false, "not a one-argument predicate"
	}
	var rng *ssa.Range
	engine.Instrs(h, func(i ssa.Instruction) {
		if r, ok := i.(*ssa.Range); ok && engine.Unwrap(r.X) == ssa.Value(h.Params[0]) {
			rng = r
		}
	})
	if rng == nil {
		return false, "no range over its argument"
	}
	var next *ssa.Next
	for _, r := range *rng.Referrers() {
		if nx, ok := r.(*ssa.Next); ok {
			next = nx
		}
	}
	if next == nil {
		return false, "range without next"
	}
	var isd *ssa.Call
	for _, dc := range engine.CallsTo(h, false, "ascii.IsDigit") {
		d := dc.(*ssa.Call)
		if ex, ok := engine.Unwrap(d.Common().Args[0]).(*ssa.Extract); ok && ex.Tuple == ssa.Value(next) && ex.Index == 2 {
			isd = d
		}
	}
	if isd == nil {
		return false, "the runes are not tested with ascii.IsDigit"
	}
	exhausted := engine.EdgesWhere(h, func(k engine.Cmp) bool {
		ex, ok := engine.Unwrap(k.X).(*ssa.Extract)
		b, isB := engine.ConstBool(k.Y)
		return ok && ex.Tuple == ssa.Value(next) && ex.Index == 0 && isB && !b
	})
	nd := engine.EdgesWhere(h, callBool(isd, false))
	dg := engine.EdgesWhere(h, callBool(isd, true))
	if len(exhausted) != 1 || len(nd) != 1 || len(dg) != 1 {
		return false, "loop exits not recognised"
	}
	for e := range dg {
		if e[1] != next.Block() {
			return false, "a digit rune does not continue with the next rune"
		}
	}
	for _, r := range engine.Returns(h) {
		b, isB := engine.ConstBool(r.Results[0])
		if !isB {
			return false, "returns a computed value"
		}
		if b {
			if !everyPathPasses(h, r, exhausted, nil) {
				return false, "true can be returned before all runes were tested"
			}
			for e := range nd {
				if (engine.PathQuery{Fn: h, FromBlk: e[1]}).Reaches(r) {
					return false, "true can be returned after a non-digit rune"
				}
			}
		}
	}
	return true, "ok"
}
