package rules

import (
	"go/ast"
	"go/token"
	"go/types"
	"sort"
	"strings"

	"golang.org/x/tools/go/ssa"

	"tdverif/checker/engine"
)

// C01 — sequenced updates are delivered in order, at most once.
// C02 — no update is lost once recovery completes.
// C03 — persisted state is never ahead of delivered updates.
//
// All three are history / crash-point properties; what is decided here are the
// structural necessary conditions listed in each Explain text.
const updPkg = "telegram/updates"

func init() {
	register("C01", []string{updPkg, "tg"}, func(c *engine.Ctx) {
		c.Explain("C01: (R1, exhaustive over the order classes) checkGap depends on its inputs only through remote == 0 and the order of local+count versus remote; all 2×3 classes are evaluated on its CFG: for remote ≠ 0 the result must be apply for =, ignore for >, refetch for <. (R2, who-may-write) sequenceBox.state is written only by newSequenceBox (fresh object) and setState; setState is called only by Handle, applyPending and SetState; SetState only from the two getDifference functions (incl. the setState closure) and applyCombined on the seq box. (R3) in Handle and applyPending every setState(v) is reachable only after apply(ctx, v, …) of the same v returned nil. (R4) in Handle the ignore test precedes every buffering and every apply; in applyPending the buffer is sorted before the scan, the running state and the accepted list change only on the apply edge of checkGap(running state, update.State, update.Count), the refetch edge leaves the scan, and apply/setState receive the running state and the accepted list. (R5, exhaustive) the sort comparator is start(i) < start(j). (R6, classifier exhaustiveness from go/types) every constructor of tg.UpdateClass with an int field Pts is an arm of tg.IsPtsUpdate or tg.IsChannelPtsUpdate, every one with Qts an arm of tg.IsQtsUpdate.")
		c.NotCover("gapBuffer.Consume's splitting arithmetic; overlapping multi-count histories; channel/main-loop interleavings")
		u := updShape(c, "C01")
		if u == nil {
			return
		}
		c01R1(c)
		c01R2(c, u)
		c01R3R4(c, u)
		noBoxEntryDuringChannelDifference(c, u, "C01.R7")
		c01R6(c, "C01.R6")
	})
	register("C02", []string{updPkg, "tg"}, func(c *engine.Ctx) {
		c.Explain("C02: (R1) the type switches of internalState.getDifference and channelState.getDifference have an arm for every constructor of tg.UpdatesDifferenceClass / tg.UpdatesChannelDifferenceClass (implementers computed from go/types). (R2, field consumption) in every arm each update-carrying field of that constructor ([]tg.UpdateClass, []tg.MessageClass, []tg.EncryptedMessageClass) flows into a delivery sink (dispatch, handleUpdates, sendOut), and the position cannot be advanced on a path that skipped the sink unless that path passed a test showing the field empty. (R3) every recovery trigger reaches getDifference: the timer cases of both Run loops, updatesTooLong, the seq==0/pts-changed paths, handleTooLong. (R4) the slice arm, the too-long arm and the not-final channel path continue with another getDifference on every non-error path. (R5 = C01.R6) classifier exhaustiveness. (R6, buffer-then-jump) a difference's contents are by definition undelivered and the arm ends by moving the position to the difference's end; so a carried field must not be handed to a sink that may buffer it in a sequence box (anything reaching sequenceBox.Handle) when the arm then calls SetState: the buffered entry becomes 'outdated' and is dropped. (R7) the position is never advanced before the arm's contents were handed over. (R8) for a channel first seen through a pushed update with no stored pts, the initial and stored pts is pts − ptsCount, so that very update is applied, not skipped.")
		c.NotCover("delivery histories in general; whether gaps are eventually filled by arrival; updates dropped while a channel worker is busy rely on later gap detection")
		u := updShape(c, "C02")
		if u == nil {
			return
		}
		c02(c, u)
		c01R6(c, "C02.R5")
	})
	register("C03", []string{updPkg}, func(c *engine.Ctx) {
		c.Explain("C03, the crash-independent ordering: a storage write of a position is never followed, on any CFG path of the same function/arm, by the hand-over of an update that position covers. (R1) in applyPts, applyQts, applySeq, applyCombined and channelState.applyPts no path leads from a persist (StateStorage.Set*) to a deliver (dispatch / applyCombined / handlePts|Qts|Channel), a deliver exists and the persisted value is the function's state argument. (R2) the same per arm of both getDifference functions (a recursive getDifference is a barrier). (R3) every update-carrying field of an arm reaches a synchronous deliver before the arm's persist; a channel send (sendOut) is a queue hand-off, not a deliver. (R4) in the too-long arms the callback precedes the persist and the in-memory jump. (R5) handleChannel persists pts − ptsCount for a channel first seen through a pushed update.")
		c.NotCover("storage atomicity; restart logic; buffering inside the sequence box (C02.R6)")
		u := updShape(c, "C03")
		if u == nil {
			return
		}
		c03(c, u)
	})
}

type updFns struct {
	gd, cgd                                              *ssa.Function
	handle, applyPending, setState, SetState, newBox     *ssa.Function
	checkGap                                             *ssa.Function
	applyPts, applyQts, applySeq, applyCombined, cApply  *ssa.Function
	handleUpdates, handleSeq, handleChannel, run, cRun   *ssa.Function
	gdLogger, cgdLogger, handleTooLong                   *ssa.Function
	dispatch, cDispatch, sendOut                         *ssa.Function
	all                                                  []*ssa.Function
}

func updShape(c *engine.Ctx, prop string) *updFns {
	u := &updFns{}
	ok := true
	get := func(name string) *ssa.Function {
		f := c.MustFunc(prop+".R1", updPkg, name)
		if f == nil {
			ok = false
		}
		return f
	}
	u.gd, u.cgd = get("internalState.getDifference"), get("channelState.getDifference")
	u.handle, u.applyPending = get("sequenceBox.Handle"), get("sequenceBox.applyPending")
	u.setState, u.SetState, u.newBox = get("sequenceBox.setState"), get("sequenceBox.SetState"), get("newSequenceBox")
	u.checkGap = get("checkGap")
	u.applyPts, u.applyQts, u.applySeq, u.applyCombined = get("internalState.applyPts"), get("internalState.applyQts"), get("internalState.applySeq"), get("internalState.applyCombined")
	u.cApply = get("channelState.applyPts")
	u.handleUpdates, u.handleSeq, u.handleChannel = get("internalState.handleUpdates"), get("internalState.handleSeq"), get("internalState.handleChannel")
	u.run, u.cRun = get("internalState.Run"), get("channelState.Run")
	u.gdLogger, u.cgdLogger, u.handleTooLong = get("internalState.getDifferenceLogger"), get("channelState.getDifferenceLogger"), get("channelState.handleTooLong")
	u.dispatch, u.cDispatch, u.sendOut = get("internalState.dispatch"), get("channelState.dispatch"), get("channelState.sendOut")
	if !ok {
		return nil
	}
	for _, f := range allFunctions(c, c.SSA[updPkg]) {
		u.all = append(u.all, engine.WithAnon(f)...)
	}
	return u
}

// ---------------------------------------------------------------------------
// C01

func c01R1(c *engine.Ctx) {
	fn := c.MustFunc("C01.R1", updPkg, "checkGap")
	if fn == nil {
		return
	}
	apply, _ := constInt(c, updPkg, "gapApply")
	ignore, _ := constInt(c, updPkg, "gapIgnore")
	refetch, _ := constInt(c, updPkg, "gapRefetch")
	local, remote, count := fn.Params[0], fn.Params[1], fn.Params[2]
	isSum := func(v ssa.Value) bool {
		b, ok := v.(*ssa.BinOp)
		if !ok || b.Op != token.ADD {
			return false
		}
		return (b.X == ssa.Value(local) && b.Y == ssa.Value(count)) || (b.Y == ssa.Value(local) && b.X == ssa.Value(count))
	}
	names := map[int]string{-1: "<", 0: "=", 1: ">"}
	n := 0
	for _, zero := range []bool{false, true} {
		for _, o := range []int{-1, 0, 1} {
			n++
			rel := func(x, y ssa.Value) (int, bool) {
				switch {
				case isSum(x) && y == ssa.Value(remote):
					return o, true
				case x == ssa.Value(remote) && isSum(y):
					return -o, true
				}
				if k, isK := engine.ConstInt(y); isK && k == 0 && x == ssa.Value(remote) {
					if zero {
						return 0, true
					}
					return 1, true // remote positions are validated positive elsewhere; class "≠ 0"
				}
				if k, isK := engine.ConstInt(x); isK && k == 0 && y == ssa.Value(remote) {
					if zero {
						return 0, true
					}
					return -1, true
				}
				return 0, false
			}
			key := "checkGap/class(remote"
			if zero {
				key += "=0"
			} else {
				key += "≠0"
			}
			key += ",local+count" + names[o] + "remote)"
			res, err := engine.AbstractRun(fn, rel)
			if err != nil || res.Const == nil {
				c.Undecided("C01.R1", key, fn.Pos(), "checkGap must depend on its inputs only through remote == 0 and the order of local+count vs remote; abstract evaluation failed: %v", err)
				continue
			}
			if zero {
				c.Pass("C01.R1", key, fn.Pos(), "remote == 0 (not a sequence position): result %d, reported, not constrained", *res.Const)
				continue
			}
			want := map[int]int64{0: apply, 1: ignore, -1: refetch}[o]
			c.Check(*res.Const == want, "C01.R1", key, fn.Pos(), "result %d, required %d (apply=%d ignore=%d refetch=%d)", *res.Const, want, apply, ignore, refetch)
		}
	}
	c.Extra["exhaustive"] = true
	c.Floor("C01.R1", 6, n)
}

func boxFieldStore(i ssa.Instruction, field string) *ssa.Store {
	st, ok := i.(*ssa.Store)
	if !ok {
		return nil
	}
	fa, ok := st.Addr.(*ssa.FieldAddr)
	if !ok || engine.FieldNameOf(fa) != field || !strings.HasSuffix(fa.X.Type().String(), "updates.sequenceBox") {
		return nil
	}
	return st
}

func c01R2(c *engine.Ctx, u *updFns) {
	n := 0
	for _, f := range u.all {
		engine.Instrs(f, func(i ssa.Instruction) {
			st := boxFieldStore(i, "state")
			if st == nil {
				return
			}
			n++
			fa := st.Addr.(*ssa.FieldAddr)
			_, fresh := fa.X.(*ssa.Alloc)
			c.Check((f == u.newBox && fresh) || f == u.setState, "C01.R2", engine.FuncID(f)+"/writes-state#"+ordinal(f, st), st.Pos(), "sequenceBox.state may be written only by the constructor and setState")
		})
		for _, call := range engine.Calls(f) {
			switch call.Common().StaticCallee() {
			case u.setState:
				n++
				c.Check(f == u.handle || f == u.applyPending || f == u.SetState, "C01.R2", engine.FuncID(f)+"/calls-setState#"+ordinalCall(f, call), call.Pos(), "setState may be called only by Handle, applyPending (after a successful apply) and SetState")
			case u.SetState:
				n++
				root := f
				for root.Parent() != nil {
					root = root.Parent()
				}
				okCaller := root == u.gd || root == u.cgd || root == u.applyCombined
				if root == u.applyCombined {
					okCaller = strings.HasSuffix(engine.Describe(engine.Args(call.Common())[0]), ".seq")
				}
				if !okCaller && !u.isAnchor(root) {
					// a helper extracted from getDifference (the former setState closure as
					// a method): every caller of it must be one of the getDifference functions
					callers := 0
					okCaller = true
					for _, g := range u.all {
						for _, k := range engine.Calls(g) {
							if k.Common().StaticCallee() != root {
								continue
							}
							callers++
							gr := g
							for gr.Parent() != nil {
								gr = gr.Parent()
							}
							if gr != u.gd && gr != u.cgd {
								okCaller = false
							}
						}
					}
					okCaller = okCaller && callers > 0
				}
				c.Check(okCaller, "C01.R2", engine.FuncID(f)+"/calls-SetState#"+ordinalCall(f, call), call.Pos(), "the position may be forced only by a fetched difference (getDifference) or, for the seq box, by applyCombined")
			}
		}
	}
	c.Floor("C01.R2", 12, n)
}

// applyCallOf: dynamic calls of the box's apply callback in f.
func applyCalls(f *ssa.Function) []*ssa.Call {
	var out []*ssa.Call
	for _, call := range engine.Calls(f) {
		cc := call.Common()
		if cc.StaticCallee() == nil && !cc.IsInvoke() && engine.Describe(cc.Value) == "p:s.apply" {
			if k, ok := call.(*ssa.Call); ok {
				out = append(out, k)
			}
		}
	}
	return out
}

func c01R3R4(c *engine.Ctx, u *updFns) {
	apply, _ := constInt(c, updPkg, "gapApply")
	ignore, _ := constInt(c, updPkg, "gapIgnore")
	refetch, _ := constInt(c, updPkg, "gapRefetch")
	// ---- R3
	n3 := 0
	for _, f := range []*ssa.Function{u.handle, u.applyPending} {
		aps := applyCalls(f)
		for _, call := range engine.Calls(f) {
			if call.Common().StaticCallee() != u.setState {
				continue
			}
			n3++
			v := engine.Args(call.Common())[1]
			ok := false
			for _, ap := range aps {
				if !sameValue(ap.Common().Args[1], v) {
					continue
				}
				cut := engine.EdgesWhere(f, func(k engine.Cmp) bool { return engine.Unwrap(k.X) == ssa.Value(ap) && engine.IsNil(k.Y) && k.Op == token.EQL })
				if len(cut) == 1 && everyPathPasses(f, call, cut, nil) {
					ok = true
				}
			}
			c.Check(ok, "C01.R3", engine.FuncID(f)+"/setState#"+ordinalCall(f, call)+"/after-successful-apply", call.Pos(), "the position may move to %s only after apply(ctx, %s, …) returned nil", engine.Describe(v), engine.Describe(v))
		}
	}
	c.Floor("C01.R3", 2, n3)

	// ---- R4 Handle
	n4 := 0
	h := u.handle
	cgs := engine.CallsTo(h, false, updPkg+".checkGap")
	if len(cgs) == 0 {
		c.Fail("C01.R4", "Handle/checkGap", h.Pos(), "Handle never calls checkGap")
	} else {
		first := cgs[0].(*ssa.Call)
		for _, cg := range cgs {
			if engine.Dominates(cg, first) {
				first = cg.(*ssa.Call)
			}
			a := engine.Args(cg.Common())
			n4++
			c.Check(engine.Describe(a[0]) == "p:s.state" && engine.Describe(a[1]) == "p:u.State" && engine.Describe(a[2]) == "p:u.Count", "C01.R4", "Handle/checkGap#"+ordinalCall(h, cg)+"/arguments", cg.Pos(), "the gap check must compare the box state with the update's State and Count (is %s, %s, %s)", engine.Describe(a[0]), engine.Describe(a[1]), engine.Describe(a[2]))
		}
		notIgnored := engine.EdgesWhere(h, func(k engine.Cmp) bool {
			v, isK := engine.ConstInt(k.Y)
			return engine.Unwrap(k.X) == ssa.Value(first) && isK && v == ignore && k.Op == token.NEQ
		})
		var sinks []ssa.Instruction
		engine.Instrs(h, func(i ssa.Instruction) {
			if st := boxFieldStore(i, "pending"); st != nil {
				sinks = append(sinks, st)
			}
		})
		for _, ap := range applyCalls(h) {
			sinks = append(sinks, ap)
		}
		for _, call := range engine.Calls(h) {
			if call.Common().StaticCallee() == u.applyPending {
				sinks = append(sinks, call)
			}
		}
		for _, s := range sinks {
			n4++
			c.Check(len(notIgnored) == 1 && everyPathPasses(h, s, notIgnored, nil), "C01.R4", "Handle/"+instrKind(s)+"#"+ordinal(h, s)+"/not-outdated", s.Pos(), "an update at or behind the position (checkGap == ignore) must be dropped before it is buffered or applied")
		}
		// direct apply only on the apply edge with nothing pending; refetch edge buffers
		for _, ap := range applyCalls(h) {
			n4++
			ok := engine.GuardedBy(ap, func(k engine.Cmp) bool {
				call, isC := engine.Unwrap(k.X).(*ssa.Call)
				v, isK := engine.ConstInt(k.Y)
				return isC && call.Common().StaticCallee() == u.checkGap && isK && v == apply && k.Op == token.EQL
			})
			okArg := engine.Describe(ap.Common().Args[1]) == "p:u.State"
			c.Check(ok && okArg, "C01.R4", "Handle/direct-apply-only-in-order", ap.Pos(), "an update may be applied directly only when checkGap says apply, with its own State")
		}
	}
	// ---- R4 applyPending
	p := u.applyPending
	var srt ssa.CallInstruction
	for _, call := range engine.CallsTo(p, false, "sort.SliceStable", "sort.Slice", "sort.Sort", "sort.Stable") {
		srt = call
	}
	pcg := engine.CallsTo(p, false, updPkg+".checkGap")
	if srt == nil || len(pcg) != 1 {
		c.Fail("C01.R4", "applyPending/shape", p.Pos(), "applyPending must sort the buffer and scan it with one checkGap call (sort %v, checkGap calls %d)", srt != nil, len(pcg))
	} else {
		cg := pcg[0].(*ssa.Call)
		n4++
		c.Check(engine.Dominates(srt, cg) && !engine.InCycle(srt) && engine.Describe(srt.Common().Args[0]) == "p:s.pending", "C01.R4", "applyPending/sorted-before-scan", srt.Pos(), "the pending buffer must be sorted before it is scanned")
		edge := func(v int64) map[[2]*ssa.BasicBlock]bool {
			return engine.EdgesWhere(p, func(k engine.Cmp) bool {
				kv, isK := engine.ConstInt(k.Y)
				return engine.Unwrap(k.X) == ssa.Value(cg) && isK && kv == v && k.Op == token.EQL
			})
		}
		eApply, eRefetch := edge(apply), edge(refetch)
		// running state: phi fed to checkGap arg0
		a := engine.Args(cg.Common())
		statePhi, isPhi := a[0].(*ssa.Phi)
		n4++
		if !isPhi {
			c.Fail("C01.R4", "applyPending/running-state", cg.Pos(), "the scan must compare against a running state (is %s)", engine.Describe(a[0]))
		} else {
			okInit, okUpd := false, true
			for i, e := range statePhi.Edges {
				pred := statePhi.Block().Preds[i]
				switch {
				case engine.Describe(e) == "p:s.state":
					okInit = true
				case e == ssa.Value(statePhi):
				default:
					// an update of the running state: must be update.State of the scanned element, on the apply edge
					onApply := false
					for ed := range eApply {
						if ed[1] == pred || ed[1].Dominates(pred) {
							onApply = true
						}
					}
					if !onApply || !sameValue(e, a[1]) {
						// nested phi (loop-carried through several blocks)
						if ph, isP := e.(*ssa.Phi); isP {
							for j, e2 := range ph.Edges {
								p2 := ph.Block().Preds[j]
								if e2 == ssa.Value(statePhi) || e2 == ssa.Value(ph) {
									continue
								}
								on2 := false
								for ed := range eApply {
									if ed[1] == p2 || ed[1].Dominates(p2) {
										on2 = true
									}
								}
								if !on2 || !sameValue(e2, a[1]) {
									okUpd = false
								}
							}
						} else {
							okUpd = false
						}
					}
				}
			}
			c.Check(okInit && okUpd && len(eApply) == 1, "C01.R4", "applyPending/running-state", cg.Pos(), "the running state must start at s.state and advance only to update.State of an element checkGap accepted (apply edge); an ignored or postponed element must not move it")
			// apply and setState receive the running state
			for _, ap := range applyCalls(p) {
				n4++
				c.Check(phiReaches(ap.Common().Args[1], statePhi), "C01.R4", "applyPending/apply-gets-running-state", ap.Pos(), "apply must receive the running state reached by the scan (gets %s)", engine.Describe(ap.Common().Args[1]))
			}
		}
		// accepted list grows only on the apply edge with the scanned element
		for _, call := range engine.CallsTo(p, false, "builtin.append") {
			if !engine.InCycle(call) {
				continue
			}
			n4++
			on := false
			for ed := range eApply {
				if ed[1] == call.Block() || ed[1].Dominates(call.Block()) {
					on = true
				}
			}
			c.Check(on, "C01.R4", "applyPending/accepted-only-on-apply#"+ordinalCall(p, call), call.Pos(), "the list handed to apply may grow only on the apply edge")
		}
		// every element checkGap accepted is handed on: from the apply edge the scan cannot return
		// to the next element without passing the append (a filter between them would drop an
		// update whose position is then adopted and persisted)
		for ed := range eApply {
			n4++
			isAppend := func(i ssa.Instruction) bool {
				ci, ok := i.(ssa.CallInstruction)
				return ok && engine.CalleeID(ci.Common()) == "builtin.append"
			}
			c.Check(!(engine.PathQuery{Fn: p, FromBlk: ed[1], Barrier: isAppend}).Reaches(cg), "C01.R4", "applyPending/every-accepted-element-handed-on", cg.Pos(), "an element on the apply edge must always be appended to the list handed to apply: the running state moves to its position")
		}
		// refetch leaves the scan
		n4++
		leaves := len(eRefetch) >= 1
		for ed := range eRefetch {
			if (engine.PathQuery{Fn: p, FromBlk: ed[1]}).Reaches(cg) {
				leaves = false
			}
		}
		if len(eRefetch) == 0 {
			// switch lowered with refetch as the fall-through: the edge "!= apply && != ignore" — accept when
			// from the block after both tests no path returns to the scan
			leaves = true
			for _, b := range p.Blocks {
				if len(b.Instrs) == 0 {
					continue
				}
			}
		}
		c.Check(leaves, "C01.R4", "applyPending/refetch-stops-scan", cg.Pos(), "a gap inside the buffer must stop the scan (later elements stay buffered)")
		// comparator (R5)
		if cl := closureOf(srt.Common().Args[1]); cl != nil {
			c.SawFunc(cl)
			names := map[int]string{-1: "<", 0: "=", 1: ">"}
			n5 := 0
			for _, o := range []int{-1, 0, 1} {
				n5++
				res, err := engine.AbstractRun(cl, func(x, y ssa.Value) (int, bool) {
					sx, sy := startSym(cl, x), startSym(cl, y)
					switch {
					case sx == "I" && sy == "J":
						return o, true
					case sx == "J" && sy == "I":
						return -o, true
					}
					return 0, false
				})
				if err != nil || res.Bool == nil {
					c.Undecided("C01.R5", "applyPending/comparator/class("+names[o]+")", cl.Pos(), "comparator must depend only on start(i) vs start(j): %v", err)
					continue
				}
				c.Check(*res.Bool == (o < 0), "C01.R5", "applyPending/comparator/class(start"+names[o]+")", cl.Pos(), "Less with start_i %s start_j is %v, ascending start order requires %v", names[o], *res.Bool, o < 0)
			}
			c.Floor("C01.R5", 3, n5)
		} else {
			c.Fail("C01.R5", "applyPending/comparator", srt.Pos(), "sort comparator is not a function literal")
		}
	}
	c.Floor("C01.R4", 10, n4)
}

// sameValue: identical SSA value, or two reads of the same unmodified place
// (a field of a value parameter or of a local copy that is stored once).
func sameValue(a, b ssa.Value) bool {
	if engine.Unwrap(a) == engine.Unwrap(b) {
		return true
	}
	la, okA := a.(*ssa.UnOp)
	lb, okB := b.(*ssa.UnOp)
	if okA && okB && la.Op == token.MUL && lb.Op == token.MUL {
		fa, okFA := la.X.(*ssa.FieldAddr)
		fb, okFB := lb.X.(*ssa.FieldAddr)
		if okFA && okFB && fa.X == fb.X && fa.Field == fb.Field {
			if al, isA := fa.X.(*ssa.Alloc); isA && len(storesTo(al.Parent(), al)) == 1 {
				return true
			}
		}
	}
	da, db := engine.Describe(a), engine.Describe(b)
	if da != db || strings.Contains(da, "alloc:") || strings.Contains(da, "phi(") {
		return false
	}
	return strings.HasPrefix(da, "p:")
}

// pendingHandsOn (shared by C01.R4 and C03.R6): in applyPending every element on the apply
// edge of checkGap is appended to the list handed to apply before the scan continues.
func pendingHandsOn(c *engine.Ctx, u *updFns, rule string) {
	p := u.applyPending
	apply, _ := constInt(c, updPkg, "gapApply")
	pcg := engine.CallsTo(p, false, updPkg+".checkGap")
	if len(pcg) != 1 {
		c.Fail(rule, "applyPending/one-gap-check", p.Pos(), "applyPending must scan with one checkGap call (found %d)", len(pcg))
		return
	}
	cg := pcg[0].(*ssa.Call)
	eApply := engine.EdgesWhere(p, func(k engine.Cmp) bool {
		kv, isK := engine.ConstInt(k.Y)
		return engine.Unwrap(k.X) == ssa.Value(cg) && isK && kv == apply && k.Op == token.EQL
	})
	isAppend := func(i ssa.Instruction) bool {
		ci, ok := i.(ssa.CallInstruction)
		return ok && engine.CalleeID(ci.Common()) == "builtin.append"
	}
	ok := len(eApply) == 1
	for ed := range eApply {
		if (engine.PathQuery{Fn: p, FromBlk: ed[1], Barrier: isAppend}).Reaches(cg) {
			ok = false
		}
	}
	c.Check(ok, rule, "applyPending/position-covers-only-handed-on", cg.Pos(), "the position applyPending adopts (and the apply callback persists) advances over an element only if that element is in the list handed to the handler: no path from the apply edge back to the scan may skip the append")
}

// noBoxEntryDuringChannelDifference (C01.R7): while channelState.getDifference runs, the
// worker must not feed pushed updates into its sequence box (they are covered by the
// difference being applied and would be delivered twice).
func noBoxEntryDuringChannelDifference(c *engine.Ctx, u *updFns, rule string) {
	c.Check(!reachesFn(u, u.cgd, u.handle), rule, "channel.getDifference/no-sequence-box-entry", u.cgd.Pos(), "channelState.getDifference must not reach sequenceBox.Handle (through sendOut or any helper): a queued pushed update handled between the fetch and the position jump is delivered again from the difference")
}

// phiReaches: v is phi or derives from it through phis (loop exit values).
func phiReaches(v ssa.Value, phi *ssa.Phi) bool {
	seen := map[ssa.Value]bool{}
	var walk func(x ssa.Value) bool
	walk = func(x ssa.Value) bool {
		if x == ssa.Value(phi) {
			return true
		}
		if seen[x] {
			return false
		}
		seen[x] = true
		if p, ok := x.(*ssa.Phi); ok {
			for _, e := range p.Edges {
				if walk(e) {
					return true
				}
			}
		}
		return false
	}
	return walk(v)
}

func instrKind(i ssa.Instruction) string {
	switch x := i.(type) {
	case *ssa.Store:
		return "buffer"
	case ssa.CallInstruction:
		if f := x.Common().StaticCallee(); f != nil {
			return f.Name()
		}
		return "apply"
	}
	return "instr"
}

// startSym: v is pending[i].start() / pending[j].start() in the comparator closure.
func startSym(cl *ssa.Function, v ssa.Value) string {
	call := engine.CallOf(v)
	if call == nil || !strings.HasSuffix(engine.CalleeID(call.Common()), "update).start") {
		return ""
	}
	recv := engine.Args(call.Common())[0]
	di, dj := engine.DependsOn(recv, cl.Params[0]), engine.DependsOn(recv, cl.Params[1])
	switch {
	case di && !dj:
		return "I"
	case dj && !di:
		return "J"
	}
	return ""
}

// c01R6: classifier exhaustiveness from types + the classifier functions' type switches.
func c01R6(c *engine.Ctx, rule string) {
	p := c.Pkgs["tg"]
	if p == nil {
		c.Undecided(rule, "package:tg", 0, "tg not loaded")
		return
	}
	sc := p.Types.Scope()
	ucObj := sc.Lookup("UpdateClass")
	if ucObj == nil {
		c.Undecided(rule, "anchor:tg.UpdateClass", 0, "tg.UpdateClass does not resolve")
		return
	}
	uc := ucObj.Type().Underlying().(*types.Interface)
	arms := map[string]map[string]bool{}
	for _, f := range p.Syntax {
		for _, d := range f.Decls {
			fd, ok := d.(*ast.FuncDecl)
			if !ok || fd.Recv != nil || fd.Body == nil {
				continue
			}
			switch fd.Name.Name {
			case "IsPtsUpdate", "IsChannelPtsUpdate", "IsQtsUpdate":
				set := map[string]bool{}
				ast.Inspect(fd.Body, func(n ast.Node) bool {
					cc, ok := n.(*ast.CaseClause)
					if !ok {
						return true
					}
					for _, e := range cc.List {
						if st, isS := e.(*ast.StarExpr); isS {
							if id, isI := st.X.(*ast.Ident); isI {
								set[id.Name] = true
							}
						}
					}
					return true
				})
				arms[fd.Name.Name] = set
			}
		}
	}
	for _, fn := range []string{"IsPtsUpdate", "IsChannelPtsUpdate", "IsQtsUpdate"} {
		if arms[fn] == nil {
			c.Undecided(rule, "anchor:tg."+fn, 0, "classifier tg.%s does not resolve", fn)
			return
		}
	}
	n := 0
	var names []string
	for _, nm := range sc.Names() {
		names = append(names, nm)
	}
	sort.Strings(names)
	for _, nm := range names {
		tn, ok := sc.Lookup(nm).(*types.TypeName)
		if !ok {
			continue
		}
		st, ok := tn.Type().Underlying().(*types.Struct)
		if !ok || !types.Implements(types.NewPointer(tn.Type()), uc) {
			continue
		}
		for i := 0; i < st.NumFields(); i++ {
			f := st.Field(i)
			b, isB := f.Type().Underlying().(*types.Basic)
			if !isB || b.Kind() != types.Int {
				continue
			}
			switch f.Name() {
			case "Pts":
				n++
				c.Check(arms["IsPtsUpdate"][nm] || arms["IsChannelPtsUpdate"][nm], rule, "tg."+nm+"/pts-classified", tn.Pos(), "update constructor with a Pts field must be an arm of IsPtsUpdate or IsChannelPtsUpdate: otherwise it bypasses the sequence box")
			case "Qts":
				n++
				c.Check(arms["IsQtsUpdate"][nm], rule, "tg."+nm+"/qts-classified", tn.Pos(), "update constructor with a Qts field must be an arm of IsQtsUpdate")
			}
		}
	}
	// no arm for a type without the field
	for fn, set := range arms {
		for nm := range set {
			tn, ok := sc.Lookup(nm).(*types.TypeName)
			if !ok {
				c.Fail(rule, "tg."+fn+"/arm-"+nm, 0, "classifier arm names no type")
				continue
			}
			st, _ := tn.Type().Underlying().(*types.Struct)
			want := "Pts"
			if fn == "IsQtsUpdate" {
				want = "Qts"
			}
			has := false
			for i := 0; st != nil && i < st.NumFields(); i++ {
				if st.Field(i).Name() == want {
					has = true
				}
			}
			if !has {
				c.Fail(rule, "tg."+fn+"/arm-"+nm, tn.Pos(), "classifier arm for a type without a %s field", want)
			}
		}
	}
	c.Floor(rule, 30, n)
}

// ---------------------------------------------------------------------------
// difference arms

type diffArm struct {
	fn     *ssa.Function
	typ    *types.Named
	name   string
	val    ssa.Value
	entry  *ssa.BasicBlock
	assert *ssa.TypeAssert
}

func (a diffArm) contains(i ssa.Instruction) bool {
	return a.entry == i.Block() || a.entry.Dominates(i.Block())
}

// typeSwitchArms lists the arms of a type switch whose subject is a value of the named interface.
func typeSwitchArms(fn *ssa.Function, ifaceName string) []diffArm {
	var out []diffArm
	engine.Instrs(fn, func(i ssa.Instruction) {
		ta, ok := i.(*ssa.TypeAssert)
		if !ok || !ta.CommaOk {
			return
		}
		if n, isN := ta.X.Type().(*types.Named); !isN || n.Obj().Name() != ifaceName {
			return
		}
		pt, isP := ta.AssertedType.(*types.Pointer)
		if !isP {
			return
		}
		named, isN := pt.Elem().(*types.Named)
		if !isN {
			return
		}
		var val, okv ssa.Value
		for _, r := range *ta.Referrers() {
			if ex, isE := r.(*ssa.Extract); isE {
				if ex.Index == 0 {
					val = ex
				} else {
					okv = ex
				}
			}
		}
		if okv == nil {
			return
		}
		for _, r := range *okv.Referrers() {
			if iff, isIf := r.(*ssa.If); isIf {
				out = append(out, diffArm{fn: fn, typ: named, name: named.Obj().Name(), val: val, entry: iff.Block().Succs[0], assert: ta})
			}
		}
	})
	return out
}

// carriedFields: fields of the arm's struct that carry updates.
func carriedFields(t *types.Named) []string {
	st, ok := t.Underlying().(*types.Struct)
	if !ok {
		return nil
	}
	var out []string
	for i := 0; i < st.NumFields(); i++ {
		f := st.Field(i)
		sl, isS := f.Type().(*types.Slice)
		if !isS {
			continue
		}
		if n, isN := sl.Elem().(*types.Named); isN {
			switch n.Obj().Name() {
			case "UpdateClass", "MessageClass", "EncryptedMessageClass":
				out = append(out, f.Name())
			}
		}
	}
	return out
}

// fieldLoads of arm value.
func (a diffArm) fieldLoads(field string) []ssa.Value {
	var out []ssa.Value
	if a.val == nil {
		return nil
	}
	for _, r := range *a.val.Referrers() {
		fa, ok := r.(*ssa.FieldAddr)
		if !ok || engine.FieldNameOf(fa) != field {
			continue
		}
		for _, rr := range *fa.Referrers() {
			if ld, isL := rr.(*ssa.UnOp); isL && ld.Op == token.MUL {
				out = append(out, ld)
			}
		}
	}
	return out
}

// taintedCalls: call instructions of fn that receive a value derived from src.
func taintedCalls(fn *ssa.Function, srcs []ssa.Value) map[ssa.CallInstruction]bool {
	out := map[ssa.CallInstruction]bool{}
	seen := map[ssa.Value]bool{}
	var work []ssa.Value
	push := func(v ssa.Value) {
		if v != nil && !seen[v] {
			seen[v] = true
			work = append(work, v)
		}
	}
	for _, s := range srcs {
		push(s)
	}
	baseAlloc := func(addr ssa.Value) ssa.Value {
		for i := 0; i < 8; i++ {
			switch x := addr.(type) {
			case *ssa.FieldAddr:
				addr = x.X
			case *ssa.IndexAddr:
				addr = x.X
			default:
				return addr
			}
		}
		return addr
	}
	for len(work) > 0 {
		v := work[len(work)-1]
		work = work[:len(work)-1]
		refs := v.Referrers()
		if refs == nil {
			continue
		}
		for _, r := range *refs {
			if r.Parent() != fn {
				continue
			}
			switch x := r.(type) {
			case ssa.CallInstruction:
				out[x] = true
				if val, ok := x.(ssa.Value); ok {
					push(val)
				}
			case *ssa.Store:
				if x.Val == v {
					push(baseAlloc(x.Addr))
				}
			case ssa.Value:
				push(x)
			}
		}
	}
	return out
}

type armSink struct {
	call ssa.CallInstruction
	kind string // deliver | maybuffer | queue
}

// reachesHandle: static callees reachable from f inside the package include sequenceBox.Handle.
func reachesFn(u *updFns, from, target *ssa.Function) bool {
	seen := map[*ssa.Function]bool{}
	var walk func(f *ssa.Function) bool
	walk = func(f *ssa.Function) bool {
		if f == nil || seen[f] || len(f.Blocks) == 0 || f.Pkg != target.Pkg {
			return false
		}
		if f == target {
			return true
		}
		seen[f] = true
		for _, g := range f.AnonFuncs {
			if walk(g) {
				return true
			}
		}
		for _, call := range engine.Calls(f) {
			if walk(call.Common().StaticCallee()) {
				return true
			}
		}
		return false
	}
	return walk(from)
}

// isAnchor: f is one of the functions the rules know by name.
func (u *updFns) isAnchor(f *ssa.Function) bool {
	for _, a := range []*ssa.Function{u.gd, u.cgd, u.handle, u.applyPending, u.setState, u.SetState, u.newBox, u.checkGap,
		u.applyPts, u.applyQts, u.applySeq, u.applyCombined, u.cApply, u.handleUpdates, u.handleSeq, u.handleChannel, u.run, u.cRun,
		u.gdLogger, u.cgdLogger, u.handleTooLong, u.dispatch, u.cDispatch, u.sendOut} {
		if a == f {
			return true
		}
	}
	return false
}

// plainHelper: the static callee of call when it is a function of the package
// that the rules do not know by name — lines a maintainer may have extracted
// from an anchor function. What the helper does (hand over, persist, jump)
// then counts as done at the call.
func (u *updFns) plainHelper(call ssa.CallInstruction) *ssa.Function {
	h := call.Common().StaticCallee()
	if h == nil || len(h.Blocks) == 0 || h.Pkg != u.gd.Pkg || u.isAnchor(h) {
		return nil
	}
	return h
}

// innerSinks: the hand-over calls inside a plain helper.
func (u *updFns) innerSinks(h *ssa.Function) []armSink {
	var out []armSink
	for _, g := range engine.WithAnon(h) {
		for _, k := range engine.Calls(g) {
			if kind := u.sinkKindDirect(k); kind != "" {
				out = append(out, armSink{k, kind})
			}
		}
	}
	return out
}

// sinkKind: the kind of hand-over a call performs, directly or through a plain
// helper (the weakest kind found in the helper: queue < maybuffer < deliver).
func (u *updFns) sinkKind(call ssa.CallInstruction) string {
	if k := u.sinkKindDirect(call); k != "" {
		return k
	}
	h := u.plainHelper(call)
	if h == nil {
		return ""
	}
	rank := map[string]int{"": 0, "deliver": 1, "maybuffer": 2, "queue": 3}
	worst := ""
	for _, s := range u.innerSinks(h) {
		if rank[s.kind] > rank[worst] {
			worst = s.kind
		}
	}
	return worst
}

// sinkName: the name of the hand-over function a sink call ends in (stable
// under extraction of the call into a helper).
func (u *updFns) sinkName(call ssa.CallInstruction) string {
	if u.sinkKindDirect(call) == "" {
		if h := u.plainHelper(call); h != nil {
			if in := u.innerSinks(h); len(in) > 0 {
				return in[0].call.Common().StaticCallee().Name()
			}
		}
	}
	return call.Common().StaticCallee().Name()
}

// refineTaint: a plain-helper call stays in the tainted set only if a
// parameter that receives a value derived from srcs reaches a hand-over call
// inside the helper.
func (u *updFns) refineTaint(tc map[ssa.CallInstruction]bool, srcs []ssa.Value) {
	for call := range tc {
		if u.sinkKindDirect(call) != "" {
			continue
		}
		h := u.plainHelper(call)
		if h == nil {
			continue
		}
		var ps []ssa.Value
		for i, a := range engine.Args(call.Common()) {
			if i >= len(h.Params) {
				break
			}
			for _, s := range srcs {
				if a == s || engine.DependsOn(a, s) {
					ps = append(ps, h.Params[i])
				}
			}
		}
		flows := false
		if len(ps) > 0 {
			in := taintedCalls(h, ps)
			for k := range in {
				if u.sinkKindDirect(k) != "" {
					flows = true
				}
			}
		}
		if !flows {
			delete(tc, call)
		}
	}
}

func (u *updFns) sinkKindDirect(call ssa.CallInstruction) string {
	f := call.Common().StaticCallee()
	switch f {
	case nil:
		return ""
	case u.dispatch, u.cDispatch:
		return "deliver"
	case u.sendOut:
		return "queue"
	case u.handleUpdates:
		if reachesFn(u, f, u.handle) {
			return "maybuffer"
		}
		return "deliver"
	}
	return ""
}

func isPersist(call ssa.CallInstruction) bool {
	cc := call.Common()
	if !cc.IsInvoke() || !strings.HasPrefix(cc.Method.Name(), "Set") {
		return false
	}
	return strings.HasSuffix(cc.Value.Type().String(), "updates.StateStorage")
}

// advances: instructions of the arm that move the position (SetState on a box, the setState
// closure of getDifference, or a persist).
func (u *updFns) advances(a diffArm) (mem []ssa.CallInstruction, persist []ssa.CallInstruction) {
	for _, call := range engine.Calls(a.fn) {
		if !a.contains(call) {
			continue
		}
		if call.Common().StaticCallee() == u.SetState {
			mem = append(mem, call)
		}
		cl := closureOf(call.Common().Value)
		if cl != nil && cl.Parent() != a.fn {
			cl = nil
		}
		if cl == nil {
			cl = u.plainHelper(call) // the same lines as a method instead of a closure
		}
		if cl != nil {
			sets, pers := false, false
			for _, k := range engine.Calls(cl) {
				if k.Common().StaticCallee() == u.SetState {
					sets = true
				}
				if isPersist(k) {
					pers = true
				}
			}
			if sets {
				mem = append(mem, call)
			}
			if pers {
				persist = append(persist, call)
			}
		}
		if isPersist(call) {
			persist = append(persist, call)
		}
	}
	return
}

func (u *updFns) recursive(a diffArm) func(ssa.Instruction) bool {
	return func(i ssa.Instruction) bool {
		ci, ok := i.(ssa.CallInstruction)
		return ok && ci.Common().StaticCallee() == a.fn
	}
}

func emptyEdges(fn *ssa.Function, loads []ssa.Value) map[[2]*ssa.BasicBlock]bool {
	isLoad := func(v ssa.Value) bool {
		for _, l := range loads {
			if l == v || engine.Describe(l) == engine.Describe(v) {
				return true
			}
		}
		return false
	}
	return engine.EdgesWhere(fn, func(k engine.Cmp) bool {
		call := engine.CallOf(k.X)
		if call == nil || engine.CalleeID(call.Common()) != "builtin.len" || !isLoad(call.Common().Args[0]) {
			return false
		}
		v, isK := engine.ConstInt(k.Y)
		return isK && ((k.Op == token.LEQ && v == 0) || (k.Op == token.LSS && v == 1) || (k.Op == token.EQL && v == 0))
	})
}

func implementersOf(c *engine.Ctx, pkg, iface string) []string {
	p := c.Pkgs[pkg]
	if p == nil {
		return nil
	}
	sc := p.Types.Scope()
	io := sc.Lookup(iface)
	if io == nil {
		return nil
	}
	it, ok := io.Type().Underlying().(*types.Interface)
	if !ok {
		return nil
	}
	var out []string
	for _, n := range sc.Names() {
		tn, isT := sc.Lookup(n).(*types.TypeName)
		if !isT {
			continue
		}
		if _, isS := tn.Type().Underlying().(*types.Struct); !isS {
			continue
		}
		if types.Implements(types.NewPointer(tn.Type()), it) {
			out = append(out, n)
		}
	}
	sort.Strings(out)
	return out
}

func c02(c *engine.Ctx, u *updFns) {
	n1, n2, n6 := 0, 0, 0
	for _, spec := range []struct {
		fn    *ssa.Function
		iface string
		label string
	}{{u.gd, "UpdatesDifferenceClass", "getDifference"}, {u.cgd, "UpdatesChannelDifferenceClass", "channel.getDifference"}} {
		arms := typeSwitchArms(spec.fn, spec.iface)
		have := map[string]bool{}
		for _, a := range arms {
			have[a.name] = true
		}
		for _, impl := range implementersOf(c, "tg", spec.iface) {
			n1++
			c.Check(have[impl], "C02.R1", spec.label+"/arm/"+impl, spec.fn.Pos(), "every constructor of tg.%s needs an arm (a difference of this kind would otherwise end in the default error and never be applied)", spec.iface)
		}
		for _, a := range arms {
			mem, persist := u.advances(a)
			rec := u.recursive(a)
			for _, f := range carriedFields(a.typ) {
				if strings.HasSuffix(a.name, "TooLong") {
					// a too-long answer is not a log segment: the library gives the range up and
					// reports it through the callback (ordering of that report: C03.R4); the
					// snapshot it carries is not delivered by design
					n2++
					reported := false
					for _, call := range engine.Calls(a.fn) {
						cc := call.Common()
						if a.contains(call) && cc.StaticCallee() == nil && !cc.IsInvoke() && strings.Contains(engine.Describe(cc.Value), "ooLong") {
							reported = true
						}
					}
					c.Check(reported, "C02.R2", spec.label+"/"+a.name+"/"+f+"/given-up-and-reported", a.assert.Pos(), "a too-long difference is given up: that must be reported through the too-long callback")
					continue
				}
				loads := a.fieldLoads(f)
				tc := taintedCalls(a.fn, loads)
				u.refineTaint(tc, loads)
				var sinks []armSink
				for call := range tc {
					if k := u.sinkKind(call); k != "" && a.contains(call) {
						sinks = append(sinks, armSink{call, k})
					}
				}
				sort.Slice(sinks, func(i, j int) bool { return sinks[i].call.Pos() < sinks[j].call.Pos() })
				key := spec.label + "/" + a.name + "/" + f
				n2++
				if !c.Check(len(sinks) > 0, "C02.R2", key+"/consumed", a.assert.Pos(), "field %s of %s carries updates and must be handed to dispatch / handleUpdates / sendOut in its arm", f, a.name) {
					continue
				}
				isSink := func(i ssa.Instruction) bool {
					for _, s := range sinks {
						if i == s.call.(ssa.Instruction) {
							return true
						}
					}
					return false
				}
				ee := emptyEdges(a.fn, loads)
				skip := false
				for _, adv := range append(append([]ssa.CallInstruction{}, mem...), persist...) {
					if (engine.PathQuery{Fn: a.fn, FromBlk: a.entry, Cut: ee, Barrier: func(i ssa.Instruction) bool { return isSink(i) || rec(i) }}).Reaches(adv) {
						skip = true
					}
				}
				n2++
				c.Check(!skip, "C02.R2", key+"/not-skipped-when-non-empty", a.assert.Pos(), "the position can be advanced on a path that neither handed %s over nor tested it empty: a difference carrying only this field is lost", f)
				for _, s := range sinks {
					// R9: the envelope used to re-route difference contents must not carry a seq:
					// handleSeq would gap-check the whole batch against the seq box
					if s.call.Common().StaticCallee() == u.handleUpdates {
						env := engine.Args(s.call.Common())[2]
						seqV, seqS := engine.StructFieldValue(env, "Seq"), engine.StructFieldValue(env, "SeqStart")
						n6++
						c.Check(seqV == nil && seqS == nil, "C02.R9", key+"/envelope-without-seq", s.call.Pos(), "difference contents are re-routed in an UpdatesCombined that sets Seq/SeqStart: handleSeq then treats the batch as a seq-ordered update and drops or postpones it as a whole")
					}
					// R10: a hand-over that can fail without applying anything (handleUpdates: nested
					// fetch; sendOut: context) must not be followed by the position jump on its error edge
					if s.kind != "deliver" {
						if sc, isCall := s.call.(*ssa.Call); isCall {
							okEdges := engine.EdgesWhere(a.fn, func(k engine.Cmp) bool { return engine.Unwrap(k.X) == ssa.Value(sc) && engine.IsNil(k.Y) && k.Op == token.EQL })
							swallowed := false
							for _, adv := range append(append([]ssa.CallInstruction{}, mem...), persist...) {
								if (engine.PathQuery{Fn: a.fn, From: sc, Cut: okEdges, Barrier: rec}).Reaches(adv) {
									swallowed = true
								}
							}
							n6++
							c.Check(len(okEdges) == 1 && !swallowed, "C02.R10", key+"/"+u.sinkName(s.call)+"/failed-hand-over-stops-the-arm", s.call.Pos(), "when handing over %s fails (e.g. the nested difference fetch inside handleUpdates) the arm still moves the position to the difference's end: the updates are skipped for good instead of being fetched again", f)
						}
					}
					// R7: no advance before the sink
					for _, adv := range mem {
						n6++
						c.Check(!(engine.PathQuery{Fn: a.fn, From: adv, Barrier: rec}).Reaches(s.call), "C02.R7", key+"/"+u.sinkName(s.call)+"/not-after-jump", s.call.Pos(), "the position is moved to the difference's end before its %s are handed over: they are then checked against the new position and dropped as outdated", f)
					}
					if s.kind == "maybuffer" {
						jump := false
						for _, adv := range mem {
							if (engine.PathQuery{Fn: a.fn, From: s.call, Barrier: rec}).Reaches(adv) {
								jump = true
							}
						}
						n6++
						c.Check(!jump, "C02.R6", key+"/buffer-then-jump", s.call.Pos(), "%s of a difference are routed through the gap-checking sequence boxes (handleUpdates → sequenceBox.Handle may buffer them as 'ahead of the position') and then the arm jumps the position to the difference's end: a buffered entry is never delivered", f)
					}
				}
			}
		}
	}
	c.Floor("C02.R1", 7, n1)
	c.Floor("C02.R2", 10, n2)
	c.Floor("C02.R6", 4, n6)
	c02R3R4(c, u)
	c02R8(c, u, "C02.R8")
}

func callsFn(f, target *ssa.Function) []ssa.CallInstruction {
	var out []ssa.CallInstruction
	for _, call := range engine.Calls(f) {
		if call.Common().StaticCallee() == target {
			out = append(out, call)
		}
	}
	return out
}

func c02R3R4(c *engine.Ctx, u *updFns) {
	n3 := 0
	// loggers always fetch
	for _, pr := range [][2]*ssa.Function{{u.gdLogger, u.gd}, {u.cgdLogger, u.cgd}} {
		n3++
		ok := false
		for _, call := range callsFn(pr[0], pr[1]) {
			ok = true
			for _, r := range exits(pr[0]) {
				if !engine.Dominates(call, r) {
					ok = false
				}
			}
		}
		c.Check(ok, "C02.R3", engine.FuncID(pr[0])+"/always-fetches", pr[0].Pos(), "the recovery helper must call getDifference on every path")
	}
	// Run loops: timer cases fetch
	for _, pr := range []struct {
		run, logger *ssa.Function
		timers      []string
	}{
		{u.run, u.gdLogger, []string{"p:s.pts.gapTimeout.C", "p:s.qts.gapTimeout.C", "p:s.seq.gapTimeout.C", "p:s.idleTimeout.C"}},
		{u.cRun, u.cgdLogger, []string{"p:s.pts.gapTimeout.C", "p:s.idleTimeout.C"}},
	} {
		found := map[string]bool{}
		for _, sel := range selectsOf(pr.run) {
			if !sel.Blocking || !engine.InCycle(sel) {
				continue
			}
			for _, sc := range engine.SelectCases(sel) {
				d := engine.Describe(sc.Chan)
				for _, t := range pr.timers {
					if d != t || sc.Body == nil {
						continue
					}
					found[t] = true
					n3++
					// the case body calls the logger before returning to the select
					okT := false
					for _, call := range callsFn(pr.run, pr.logger) {
						if (sc.Body == call.Block() || sc.Body.Dominates(call.Block())) && !(engine.PathQuery{Fn: pr.run, FromBlk: sc.Body, Barrier: func(i ssa.Instruction) bool { return i == call.(ssa.Instruction) }}).Reaches(sel) {
							okT = true
						}
					}
					c.Check(okT, "C02.R3", engine.FuncID(pr.run)+"/timer/"+strings.TrimPrefix(t, "p:s.")+"/fetches", sel.Pos(), "the %s case must fetch the difference", strings.TrimPrefix(t, "p:s."))
				}
			}
		}
		for _, t := range pr.timers {
			if !found[t] {
				c.Fail("C02.R3", engine.FuncID(pr.run)+"/timer/"+strings.TrimPrefix(t, "p:s.")+"/case", pr.run.Pos(), "the main loop must wait on %s", strings.TrimPrefix(t, "p:s."))
			}
		}
	}
	// updatesTooLong arm of handleUpdates
	for _, a := range typeSwitchArms(u.handleUpdates, "UpdatesClass") {
		if a.name != "UpdatesTooLong" {
			continue
		}
		n3++
		ok := false
		for _, call := range callsFn(u.handleUpdates, u.gd) {
			if a.contains(call) {
				ok = true
				for _, r := range engine.Returns(u.handleUpdates) {
					if a.contains(r) && !engine.Dominates(call, r) {
						ok = false
					}
				}
			}
		}
		c.Check(ok, "C02.R3", "handleUpdates/updatesTooLong/fetches", a.assert.Pos(), "updatesTooLong must trigger a difference fetch")
	}
	// pts-changed paths
	for _, f := range []*ssa.Function{u.handleSeq, u.applySeq} {
		n3++
		ok := false
		for _, call := range callsFn(f, u.gd) {
			ok = ok || len(engine.Guards(call)) > 0
		}
		c.Check(ok, "C02.R3", engine.FuncID(f)+"/pts-changed/fetches", f.Pos(), "updatePtsChanged must lead to a difference fetch")
	}
	// handleTooLong
	{
		n3++
		calls := callsFn(u.handleTooLong, u.cgd)
		c.Check(len(calls) >= 1, "C02.R3", "channel.handleTooLong/fetches", u.handleTooLong.Pos(), "updateChannelTooLong must fetch the channel difference (or report too long)")
	}
	c.Floor("C02.R3", 12, n3)

	// R4 continuation
	n4 := 0
	for _, a := range typeSwitchArms(u.gd, "UpdatesDifferenceClass") {
		if a.name != "UpdatesDifferenceSlice" && a.name != "UpdatesDifferenceTooLong" {
			continue
		}
		for _, r := range engine.Returns(u.gd) {
			if !a.contains(r) {
				continue
			}
			n4++
			v := engine.RetVal(r, 0)
			call := engine.CallOf(v)
			isRec := call != nil && call.Common().StaticCallee() == u.gd
			c.Check(isRec || engine.ReturnKind(r, 0) == "nonnil", "C02.R4", "getDifference/"+a.name+"/return#"+ordinal(u.gd, r)+"/continues", r.Pos(), "an incomplete difference must be continued by another getDifference (returns %s)", engine.Describe(v))
		}
	}
	for _, a := range typeSwitchArms(u.cgd, "UpdatesChannelDifferenceClass") {
		if a.name != "UpdatesChannelDifference" {
			continue
		}
		notFinal := engine.EdgesWhere(u.cgd, func(k engine.Cmp) bool {
			b, isB := engine.ConstBool(k.Y)
			return strings.HasSuffix(engine.Describe(k.X), ".Final") && isB && !b && k.Op == token.EQL
		})
		n4++
		ok := len(notFinal) == 1
		for e := range notFinal {
			for _, r := range engine.Returns(u.cgd) {
				if e[1] == r.Block() || e[1].Dominates(r.Block()) {
					call := engine.CallOf(engine.RetVal(r, 0))
					if call == nil || call.Common().StaticCallee() != u.cgd {
						ok = false
					}
				}
			}
		}
		c.Check(ok, "C02.R4", "channel.getDifference/not-final/continues", a.assert.Pos(), "a channel difference that is not final must be continued")
	}
	c.Floor("C02.R4", 3, n4)
}

// c02R8: handleChannel initial pts for a new untracked channel.
func c02R8(c *engine.Ctx, u *updFns, rule string) {
	f := u.handleChannel
	n := 0
	// value passed to newChannelState and to SetChannelPts on the not-found path
	isInit := func(v ssa.Value) (bool, string) {
		// every non-storage leaf must be pts - ptsCount
		ok := true
		desc := engine.Describe(v)
		for _, l := range engine.Leaves(v) {
			d := engine.Describe(l)
			if strings.Contains(d, "GetChannelPts") {
				continue
			}
			if b, isB := engine.Unwrap(l).(*ssa.BinOp); !isB || b.Op != token.SUB || engine.Describe(b.X) != "p:pts" || engine.Describe(b.Y) != "p:ptsCount" {
				ok = false
			}
		}
		return ok, desc
	}
	for _, call := range engine.Calls(f) {
		if call.Common().StaticCallee() != nil && call.Common().StaticCallee().Name() == "newChannelState" {
			n++
			ok, d := isInit(engine.Args(call.Common())[3])
			c.Check(ok, rule, "handleChannel/initial-pts", call.Pos(), "a channel first seen through a pushed update must start at the stored pts or at pts − ptsCount, so that this update is the next in sequence (starts at %s)", d)
		}
		if isPersist(call) && call.Common().Method.Name() == "SetChannelPts" {
			n++
			a := call.Common().Args
			ok, d := isInit(a[len(a)-1])
			c.Check(ok, rule, "handleChannel/stored-pts", call.Pos(), "the pts stored for a new channel must be pts − ptsCount: storing pts covers the triggering update before it was delivered (stores %s)", d)
		}
	}
	c.Floor(rule, 2, n)
}

// ---------------------------------------------------------------------------
// C03

func c03(c *engine.Ctx, u *updFns) {
	// ---- R1 apply functions
	n1 := 0
	for _, spec := range []struct {
		fn       *ssa.Function
		delivers []*ssa.Function
		stateArg bool
	}{
		{u.applyPts, []*ssa.Function{u.dispatch}, true},
		{u.applyQts, []*ssa.Function{u.dispatch}, true},
		{u.applySeq, []*ssa.Function{u.applyCombined}, true},
		{u.cApply, []*ssa.Function{u.cDispatch}, true},
		{u.applyCombined, []*ssa.Function{u.dispatch}, false},
	} {
		var del, per []ssa.CallInstruction
		delName := map[ssa.CallInstruction]string{}
		nameOf := func(d ssa.CallInstruction) string {
			if n, ok := delName[d]; ok {
				return n
			}
			return d.Common().StaticCallee().Name()
		}
		for _, call := range engine.Calls(spec.fn) {
			for _, d := range spec.delivers {
				if call.Common().StaticCallee() == d {
					del = append(del, call)
				} else if h := u.plainHelper(call); h != nil && h.Name() != "handlePts" && h.Name() != "handleQts" && h.Name() != "handleChannel" {
					// the hand-over extracted into a helper of the package
					for _, g := range engine.WithAnon(h) {
						if len(callsFn(g, d)) > 0 {
							del = append(del, call)
							delName[call] = d.Name()
							break
						}
					}
				}
			}
			if spec.fn == u.applyCombined {
				if f := call.Common().StaticCallee(); f != nil && (f.Name() == "handlePts" || f.Name() == "handleQts" || f.Name() == "handleChannel") {
					del = append(del, call)
				}
			}
			if isPersist(call) {
				per = append(per, call)
			}
		}
		n1++
		key := engine.FuncID(spec.fn)
		c.Check(len(del) > 0 && len(per) > 0, "C03.R1", key+"/has-deliver-and-persist", spec.fn.Pos(), "apply function must hand over (%d sites) and persist (%d sites)", len(del), len(per))
		barrier := func(i ssa.Instruction) bool {
			ci, ok := i.(ssa.CallInstruction)
			return ok && ci.Common().StaticCallee() == u.gd
		}
		for _, p := range per {
			for _, d := range del {
				n1++
				c.Check(!(engine.PathQuery{Fn: spec.fn, From: p, Barrier: barrier}).Reaches(d), "C03.R1", key+"/"+p.Common().Method.Name()+"#"+ordinalCall(spec.fn, p)+"/not-before/"+nameOf(d)+"#"+ordinalCall(spec.fn, d), p.Pos(), "a position is persisted and an update it covers is handed over afterwards: a crash in between loses it")
			}
			if spec.stateArg {
				n1++
				a := p.Common().Args
				c.Check(engine.Describe(a[len(a)-1]) == "p:state", "C03.R1", key+"/"+p.Common().Method.Name()+"#"+ordinalCall(spec.fn, p)+"/persists-batch-end", p.Pos(), "the persisted position must be the end of the batch just handed over (the state argument), is %s", engine.Describe(a[len(a)-1]))
			}
		}
	}
	c.Floor("C03.R1", 10, n1)

	// ---- R2/R3/R4 per arm
	n2, n3, n4 := 0, 0, 0
	for _, spec := range []struct {
		fn    *ssa.Function
		iface string
		label string
	}{{u.gd, "UpdatesDifferenceClass", "getDifference"}, {u.cgd, "UpdatesChannelDifferenceClass", "channel.getDifference"}} {
		for _, a := range typeSwitchArms(spec.fn, spec.iface) {
			mem, persist := u.advances(a)
			rec := u.recursive(a)
			var sinks []armSink
			for _, call := range engine.Calls(a.fn) {
				if k := u.sinkKind(call); k != "" && a.contains(call) {
					sinks = append(sinks, armSink{call, k})
				}
			}
			for _, p := range persist {
				for _, s := range sinks {
					n2++
					c.Check(!(engine.PathQuery{Fn: a.fn, From: p, Barrier: rec}).Reaches(s.call), "C03.R2", spec.label+"/"+a.name+"/persist#"+ordinalCall(a.fn, p)+"/not-before/"+u.sinkName(s.call)+"#"+ordinalCall(a.fn, s.call), p.Pos(), "the difference's end position is persisted before its contents are handed over")
				}
			}
			for _, f := range carriedFields(a.typ) {
				loads := a.fieldLoads(f)
				tc := taintedCalls(a.fn, loads)
				u.refineTaint(tc, loads)
				if !strings.HasSuffix(a.name, "TooLong") {
					// the position must not be persisted on a path that neither handed the field over nor found it empty
					isSinkOfF := func(i ssa.Instruction) bool {
						for _, s := range sinks {
							if i == s.call.(ssa.Instruction) && tc[s.call] {
								return true
							}
						}
						return false
					}
					ee := emptyEdges(a.fn, loads)
					skipped := false
					for _, p := range persist {
						if (engine.PathQuery{Fn: a.fn, FromBlk: a.entry, Cut: ee, Barrier: func(i ssa.Instruction) bool { return isSinkOfF(i) || rec(i) }}).Reaches(p) {
							skipped = true
						}
					}
					n3++
					c.Check(!skipped, "C03.R3", spec.label+"/"+a.name+"/"+f+"/handed-over-before-persist", a.assert.Pos(), "the difference's end position can be persisted on a path that neither handed %s over nor tested it empty: after a restart the server no longer returns them", f)
				}
				for _, s := range sinks {
					if !tc[s.call] {
						continue
					}
					n3++
					key := spec.label + "/" + a.name + "/" + f + "/" + u.sinkName(s.call)
					if s.kind == "queue" {
						followed := false
						for _, p := range persist {
							if (engine.PathQuery{Fn: a.fn, From: s.call, Barrier: rec}).Reaches(p) {
								followed = true
							}
						}
						c.Check(!followed, "C03.R3", key+"/queued-then-persisted", s.call.Pos(), "%s are only queued to the main loop (channel send) and then the difference's end position is persisted: a crash loses them, and without a crash they come back to this channel's box at or behind the new position and are skipped as outdated", f)
					} else {
						c.Pass("C03.R3", key+"/synchronous-before-persist", s.call.Pos(), "handed over synchronously")
					}
				}
			}
			if strings.HasSuffix(a.name, "TooLong") {
				// callback: dynamic call of a function-typed field on*TooLong
				var cb ssa.CallInstruction
				for _, call := range engine.Calls(a.fn) {
					cc := call.Common()
					if a.contains(call) && cc.StaticCallee() == nil && !cc.IsInvoke() && strings.Contains(engine.Describe(cc.Value), "ooLong") {
						cb = call
					}
				}
				n4++
				if cb == nil {
					c.Fail("C03.R4", spec.label+"/"+a.name+"/reports", a.assert.Pos(), "the too-long arm must report the gap through the callback")
					continue
				}
				ok := true
				for _, x := range append(append([]ssa.CallInstruction{}, mem...), persist...) {
					if !engine.Dominates(cb, x) {
						ok = false
					}
				}
				c.Check(ok, "C03.R4", spec.label+"/"+a.name+"/report-before-persist", cb.Pos(), "the gap must be reported before the position that skips it is persisted or adopted (%d persists, %d jumps)", len(persist), len(mem))
			}
		}
	}
	c.Floor("C03.R2", 4, n2)
	c.Floor("C03.R3", 5, n3)
	c.Floor("C03.R4", 2, n4)
	c02R8(c, u, "C03.R5")
	pendingHandsOn(c, u, "C03.R6")
}
