package rules

import (
	"go/token"
	"strings"

	"golang.org/x/tools/go/ssa"

	"tdverif/checker/engine"
)

// C14 — RSA padding schemes round-trip and follow the specification.
func init() {
	register("C14", []string{"crypto"}, func(c *engine.Ctx) {
		c.Explain("C14: RSA_PAD construction and its inverse, decided on value identity (which buffer flows where): (R1) RSAPad rejects len(data) > 144 and RSAEncryptHashed rejects len(data) > 235; (R2) rsaEncrypt in RSAPad's retry loop is guarded by key_aes_encrypted < N; (R3) DecodeRSAPad returns data only under rsaDecrypt == true and hash == SHA256(temp_key ‖ data_with_padding) with the reversal undone before hashing; RSADecryptHashed only under rsaDecrypt == true and SHA1(data) == hash; (R4) layout: data_with_padding is 192 bytes with data copied to its front, the reversed copy (not the original) is followed by SHA256(temp_key ‖ data_with_padding) of the unreversed buffer, temp_key is 32 random bytes and is the AES key, temp_key_xor = temp_key XOR SHA256(aes_encrypted), RSA input = temp_key_xor ‖ aes_encrypted.")
		c.NotCover("RSA arithmetic, AES-IGE, SHA; value equality of the round trip")
		c14Pad(c)
		c14Decode(c)
		c14Hashed(c)
		// rsaDecrypt writes the RSA result through crypto.FillBytes: an altered
		// ciphertext must come back as "does not fit", never as a panic
		cFillBytesGuard(c, "C14.R3")
	})
}

func lenIs(v ssa.Value, at ssa.Instruction, n int64) bool {
	l := engine.NewIntervals().LenOf(v, at)
	return l.Lo == n && l.Hi == n
}

func c14Pad(c *engine.Ctx) {
	fn := c.MustFunc("C14.R1", "crypto", "RSAPad")
	if fn == nil {
		return
	}
	data := fn.Params[0]
	limit, _ := constInt(c, "crypto", "rsaPadDataLimit")
	iv := engine.NewIntervals()
	encs := engine.CallsTo(fn, false, "crypto.rsaEncrypt")
	for _, enc := range encs {
		// R1
		lc := iv.LenOf(data, enc)
		c.Check(lc.Hi <= 144 && limit == 144, "C14.R1", "RSAPad/data-limit", enc.Pos(), "len(data) at encryption ∈ %s, RSA_PAD allows at most 144 bytes", lc)
		// R2
		ok := engine.GuardedBy(enc, func(k engine.Cmp) bool {
			call := isCallTo(k.X, "(*math/big.Int).Cmp")
			z, isZ := engine.ConstInt(k.Y)
			if call == nil || !isZ || z != 0 || k.Op != token.LSS {
				return false
			}
			sb := isCallTo(call.Common().Args[0], "(*math/big.Int).SetBytes")
			return sb != nil && sb.Common().Args[1] == enc.Common().Args[0] && engine.Describe(call.Common().Args[1]) == "p:key.N"
		})
		c.Check(ok, "C14.R2", "RSAPad/value-below-modulus", enc.Pos(), "rsaEncrypt must run only when the padded value, as a big-endian number, is < key.N")
		// R4 layout by identity
		var dwp, rev, tempKey ssa.Value
		for _, cp := range engine.CallsTo(fn, false, "builtin.copy") {
			if cp.Common().Args[1] == ssa.Value(data) {
				dwp = cp.Common().Args[0]
			}
		}
		for _, rc := range engine.CallsTo(fn, false, "crypto.reverseBytes") {
			rev = rc.Common().Args[0]
		}
		okBuf := dwp != nil && rev != nil && dwp != rev && lenIs(dwp, enc, 192) && lenIs(rev, enc, 192)
		okRevCopy := false
		for _, cp := range engine.CallsTo(fn, false, "builtin.copy") {
			if rev != nil && cp.Common().Args[0] == rev && cp.Common().Args[1] == dwp {
				okRevCopy = true
			}
		}
		// random fill of the tail dataWithPadding[len(data):]
		okFill := false
		for _, rf := range engine.CallsTo(fn, false, "io.ReadFull") {
			if sl, ok := rf.Common().Args[1].(*ssa.Slice); ok && sl.X == dwp && sl.High == nil && sl.Low != nil {
				if lc := engine.CallOf(sl.Low); lc != nil && engine.CalleeID(lc.Common()) == "builtin.len" && lc.Common().Args[0] == ssa.Value(data) {
					okFill = true
				}
			}
			if lenIs(rf.Common().Args[1], rf, 32) && engine.InCycle(rf) {
				tempKey = rf.Common().Args[1]
			}
		}
		c.Check(okBuf && okRevCopy && okFill, "C14.R4", "RSAPad/data-with-padding", enc.Pos(), "data_with_padding must be a 192-byte buffer = data ‖ random, and the reversed copy a distinct 192-byte buffer")
		// hash inputs
		var writes []ssa.Value
		var hash ssa.Value
		for _, call := range engine.Calls(fn) {
			cc := call.Common()
			if cc.IsInvoke() && cc.Method.Name() == "Write" && isCallTo(cc.Value, "crypto/sha256.New") != nil {
				writes = append(writes, cc.Args[0])
				hash = cc.Value
			}
		}
		okHash := len(writes) == 2 && tempKey != nil && writes[0] == tempKey && writes[1] == dwp
		c.Check(okHash, "C14.R4", "RSAPad/hash-inputs", enc.Pos(), "the hash must be SHA256(temp_key ‖ data_with_padding) over the unreversed buffer")
		// data_with_hash = reversed ‖ hash
		okDWH := false
		var dwh ssa.Value
		for _, call := range engine.Calls(fn) {
			cc := call.Common()
			if cc.IsInvoke() && cc.Method.Name() == "Sum" && cc.Value == hash {
				if ap := isCallTo(cc.Args[0], "builtin.append"); ap != nil && ap.Common().Args[1] == rev && lenIs(ap.Common().Args[0], call, 0) {
					okDWH = true
					dwh = call.Value()
				}
			}
		}
		c.Check(okDWH, "C14.R4", "RSAPad/data-with-hash", enc.Pos(), "data_with_hash must be data_pad_reversed followed by the hash")
		// AES: key temp_key, zero IV, input data_with_hash
		okAES := false
		var aesOut ssa.Value
		for _, e := range engine.CallsTo(fn, false, "github.com/gotd/ige.EncryptBlocks") {
			a := e.Common().Args
			nc := isCallTo(a[0], "crypto/aes.NewCipher")
			ivOK := false
			if sl, ok := a[1].(*ssa.Slice); ok {
				if al, ok := sl.X.(*ssa.Alloc); ok && zeroAlloc(al) {
					ivOK = true
				}
			}
			src := a[3]
			srcOK := dwh != nil && engine.DependsOn(src, dwh)
			if nc != nil && nc.Common().Args[0] == tempKey && ivOK && srcOK {
				okAES = true
				aesOut = a[2]
			}
		}
		c.Check(okAES, "C14.R4", "RSAPad/aes", enc.Pos(), "aes_encrypted must be AES-IGE(data_with_hash, key = temp_key, iv = 0)")
		// temp_key_xor and the RSA input
		okXor := false
		var tkx ssa.Value
		for _, x := range engine.CallsTo(fn, false, "github.com/go-faster/xor.Bytes") {
			a := x.Common().Args
			sum := engine.FindCallBack(a[2], "crypto/sha256.Sum256")
			if a[1] == tempKey && len(sum) == 1 && sum[0].Common().Args[0] == aesOut && lenIs(a[0], x, 32) {
				okXor = true
				tkx = a[0]
			}
		}
		c.Check(okXor, "C14.R4", "RSAPad/temp-key-xor", enc.Pos(), "temp_key_xor must be temp_key XOR SHA256(aes_encrypted)")
		okIn := false
		if ap2 := isCallTo(enc.Common().Args[0], "builtin.append"); ap2 != nil && ap2.Common().Args[1] == aesOut {
			if ap1 := isCallTo(ap2.Common().Args[0], "builtin.append"); ap1 != nil && ap1.Common().Args[1] == tkx && lenIs(ap1.Common().Args[0], enc, 0) {
				okIn = true
			}
		}
		c.Check(okIn, "C14.R4", "RSAPad/rsa-input", enc.Pos(), "the RSA input must be temp_key_xor ‖ aes_encrypted")
	}
	c.Floor("C14.R1", 1, len(encs))
}

func c14Decode(c *engine.Ctx) {
	fn := c.MustFunc("C14.R3", "crypto", "DecodeRSAPad")
	if fn == nil {
		return
	}
	n := 0
	for _, r := range engine.SuccessReturns(fn) {
		n++
		okDec := engine.GuardedBy(r, func(k engine.Cmp) bool {
			call := isCallTo(k.X, "crypto.rsaDecrypt")
			b, isB := engine.ConstBool(k.Y)
			return call != nil && isB && b && k.Op == token.EQL && call.Common().Args[0] == ssa.Value(fn.Params[0]) && call.Common().Args[1] == ssa.Value(fn.Params[1])
		})
		c.Check(okDec, "C14.R3", "DecodeRSAPad/rsa-ok", r.Pos(), "data may be returned only when rsaDecrypt reported success (no overflow)")
		ret := engine.RetVal(r, 0)
		okEq := engine.GuardedBy(r, func(k engine.Cmp) bool {
			if k.Op != token.EQL || k.Via == nil {
				return false
			}
			for _, pair := range [][2]ssa.Value{{k.X, k.Y}, {k.Y, k.X}} {
				// one side: SHA256 over (temp_key, returned buffer), computed in place or by a helper
				inputs, at, isSum := sha256Concat(pair[1])
				if !isSum || len(inputs) != 2 {
					continue
				}
				// other side: the tail [192:] of the decrypted buffer the returned data is the head of
				hs, ok1 := pair[0].(*ssa.Slice)
				rs, ok2 := ret.(*ssa.Slice)
				if !ok1 || !ok2 || hs.X != rs.X {
					continue
				}
				lo, _ := engine.ConstInt(hs.Low)
				hi, _ := engine.ConstInt(rs.High)
				if lo != 192 || hi != 192 || hs.High != nil || rs.Low != nil {
					continue
				}
				// hash inputs: temp_key (xor output keyed AES) then the returned buffer, hashed after the reversal
				if inputs[1] != ret {
					continue
				}
				revOK := false
				for _, rc := range engine.CallsTo(fn, false, "crypto.reverseBytes") {
					if rc.Common().Args[0] == ret && engine.Dominates(rc, at) {
						revOK = true
					}
				}
				keyOK := false
				for _, nc := range engine.CallsTo(fn, false, "crypto/aes.NewCipher") {
					if nc.Common().Args[0] == inputs[0] {
						keyOK = true
					}
				}
				if revOK && keyOK {
					return true
				}
			}
			return false
		})
		c.Check(okEq, "C14.R3", "DecodeRSAPad/hash-check", r.Pos(), "data may be returned only when the trailing 32 bytes equal SHA256(temp_key ‖ data_with_padding) computed after undoing the reversal")
		// temp_key = temp_key_xor XOR SHA256(aes_encrypted), with the 32/rest split of the decrypted block
		okXor := false
		for _, f := range withHelpers(fn, 1) {
			for _, x := range engine.CallsTo(f, false, "github.com/go-faster/xor.Bytes") {
				a := x.Common().Args
				sum := engine.FindCallBack(a[2], "crypto/sha256.Sum256")
				if len(sum) != 1 {
					continue
				}
				// in a helper the two operands are parameters: judge the arguments of its call(s)
				sites := []ssa.CallInstruction{nil}
				if f != fn {
					sites = staticCallsOf(fn, f)
				}
				all := len(sites) > 0
				for _, site := range sites {
					x1, s1 := a[1], sum[0].Common().Args[0]
					if site != nil {
						x1, s1 = argOfParam(x1, site), argOfParam(s1, site)
					}
					if x1 == nil || s1 == nil || !strings.HasSuffix(engine.Describe(x1), "[:32]") || !strings.HasSuffix(engine.Describe(s1), "[32:]") {
						all = false
					}
				}
				if all {
					okXor = true
				}
			}
		}
		c.Check(okXor, "C14.R3", "DecodeRSAPad/temp-key", r.Pos(), "temp_key must be recovered as block[:32] XOR SHA256(block[32:])")
	}
	c.Floor("C14.R3", 1, n)
}

// sha256Concat: v is SHA256 over the concatenation of inputs — h := sha256.New();
// h.Write(in0); h.Write(in1); …; h.Sum(nil) in the function of v, or the result
// of a same-package helper that does exactly that with its parameters (inputs are
// then the call's arguments). at is where the last input is consumed in v's
// function (the last Write, or the helper call). Sum must append to nil:
// Sum(buf[:0]) would write the digest over bytes it may be compared with.
func sha256Concat(v ssa.Value) (inputs []ssa.Value, at ssa.Instruction, ok bool) {
	d, isD := digestOf(v, "crypto/sha256.New")
	if !isD || d.sumArg == nil || !engine.IsNil(d.sumArg) {
		return nil, nil, false
	}
	return d.inputs, d.at, true
}

func c14Hashed(c *engine.Ctx) {
	if fn := c.MustFunc("C14.R1", "crypto", "RSAEncryptHashed"); fn != nil {
		iv := engine.NewIntervals()
		for _, enc := range engine.CallsTo(fn, false, "crypto.rsaEncrypt") {
			l := iv.LenOf(fn.Params[0], enc)
			c.Check(l.Hi <= 235, "C14.R1", "RSAEncryptHashed/data-limit", enc.Pos(), "len(data) at encryption ∈ %s, the hashed scheme holds at most 255-20 = 235 bytes", l)
			sc := shapeCtx(fn, -1)
			cps, err := sc.Copies()
			var got []string
			for _, cp := range cps {
				got = append(got, cp.Dst.String()+" ← "+cp.Src.String())
			}
			// (the block is whichever local the two copies fill: names are normalised)
			want := "alloc:#1[0:20] ← crypto/sha1.Sum(p:data) ; alloc:#1[20:] ← P0"
			layout := normAllocs(normSpans(got))
			c.Check(err == nil && layout == want, "C14.R4", "RSAEncryptHashed/layout", enc.Pos(), "layout [%s], specification SHA1(data) ‖ data ‖ random: [%s]", layout, want)
			blockBase := ""
			if len(cps) > 0 {
				blockBase = cps[0].Dst.Base
			}
			argSpan, okSpan := sc.SpanOf(enc.Common().Args[0], enc)
			okArg := okSpan && blockBase != "" && argSpan.Base == blockBase && lenIs(enc.Common().Args[0], enc, 255)
			c.Check(okArg, "C14.R4", "RSAEncryptHashed/rsa-input", enc.Pos(), "the RSA input must be the 255-byte data_with_hash block")
		}
	}
	if fn := c.MustFunc("C14.R3", "crypto", "RSADecryptHashed"); fn != nil {
		n := 0
		for _, r := range engine.SuccessReturns(fn) {
			n++
			okDec := engine.GuardedBy(r, func(k engine.Cmp) bool {
				call := isCallTo(k.X, "crypto.rsaDecrypt")
				b, isB := engine.ConstBool(k.Y)
				return call != nil && isB && b && k.Op == token.EQL
			})
			ret := engine.RetVal(r, 0)
			// the decrypted block: the array rsaDecrypt fills (identified by that role,
			// not by the name of the local); hash = block[:20], data = a prefix of block[20:]
			var block ssa.Value
			for _, dc := range engine.CallsTo(fn, false, "crypto.rsaDecrypt") {
				if root, lo, ok := sliceRoot(dc.Common().Args[2]); ok && lo == 0 {
					block = root
				}
			}
			okEq := engine.GuardedBy(r, func(k engine.Cmp) bool {
				if k.Op != token.EQL || k.Via == nil {
					return false
				}
				for _, pair := range [][2]ssa.Value{{k.X, k.Y}, {k.Y, k.X}} {
					sums := engine.FindCallBack(pair[0], "crypto/sha1.Sum")
					if len(sums) != 1 || sums[0].Common().Args[0] != ret {
						continue
					}
					if sl, isSl := engine.Unwrap(pair[1]).(*ssa.Slice); isSl && block != nil {
						hi, isK := engine.ConstInt(sl.High)
						if root, lo, ok := sliceRoot(sl); ok && root == block && lo == 0 && sl.High != nil && isK && hi == 20 {
							return true
						}
					}
				}
				return false
			})
			okFrom := false
			if root, lo, ok := sliceRoot(ret); ok && block != nil && root == block && lo == 20 {
				okFrom = true
			}
			// the guess must range over every possible data length 0..235 (necessary: the interval of the
			// candidate length reaches both ends)
			if sl, isSl := ret.(*ssa.Slice); isSl && sl.High != nil {
				li := engine.NewIntervals().At(sl.High, sl)
				c.Check(li.Lo <= 0 && li.Hi >= 235, "C14.R3", "RSADecryptHashed/guesses-every-length", sl.Pos(), "the candidate data lengths tried are within %s; every length 0..235 must be tried (data of exactly 235 bytes fills the block)", li)
			} else {
				c.Undecided("C14.R3", "RSADecryptHashed/guesses-every-length", r.Pos(), "returned data is not a prefix slice of the decrypted block")
			}
			c.Check(okDec && okEq && okFrom, "C14.R3", "RSADecryptHashed/hash-check", r.Pos(), "data may be returned only when rsaDecrypt succeeded and SHA1(data) equals the leading 20 bytes (rsa-ok=%v hash=%v data-from-block=%v)", okDec, okEq, okFrom)
		}
		c.Floor("C14.R3b", 1, n)
	}
}
