package rules

import (
	"go/token"
	"strings"

	"golang.org/x/tools/go/ssa"

	"tdverif/checker/engine"
)

// C25 — unacknowledged requests are retransmitted with the same identity, boundedly.
func init() {
	register("C25", []string{"rpc"}, func(c *engine.Ctx) {
		c.Explain("C25: (R1) every call of the engine's send function reachable from retryUntilAck passes req.MsgID, req.SeqNo, req.Input of the one request parameter. (R2, cycle rule) every CFG cycle through a send passes the increment of the retry counter (initialised to 0, step 1) and the continue-edge of the limit test counter >= e.maxRetries, whose other edge returns *RetryLimitReachedErr. (R3) in the retry select the ack, caller-context and engine-context cases leave the loop (no send reachable from their bodies), and because select chooses randomly among ready cases the send of the timer case is preceded on every path by a non-blocking poll of the ack channel and of the loop context. (R4) waitAck registers and returns one channel under the id, NotifyAcks closes and deletes exactly the channel found under each listed id, visiting every id of the batch, all under e.mux. (R5) the retry timer is created and re-armed with e.retryInterval; the handler of Do cancels the context the retry loop runs on.")
		c.NotCover("exact tick timing; what the send function does with a cancelled context")
		c25(c)
	})
}

func isEngineSend(call ssa.CallInstruction) bool {
	cc := call.Common()
	if cc.IsInvoke() {
		return false
	}
	if w := cc.StaticCallee(); w != nil {
		return engineSendWrapper(w) >= 0
	}
	return descCell(cc.Value) == "p:e.send"
}

// engineSendWrapper recognises a method of the engine that does nothing but
// forward one Request parameter to the send function as (req.MsgID,
// req.SeqNo, req.Input) on every path; it returns the index of that parameter
// (a helper extracted from the retry loop is the same send), or -1.
func engineSendWrapper(w *ssa.Function) int {
	if w == nil || len(w.Blocks) == 0 || w.Pkg == nil || !strings.HasSuffix(w.Pkg.Pkg.Path(), "/rpc") {
		return -1
	}
	var direct []ssa.CallInstruction
	for _, call := range engine.Calls(w) {
		cc := call.Common()
		if !cc.IsInvoke() && cc.StaticCallee() == nil && descCell(cc.Value) == "p:e.send" {
			direct = append(direct, call)
		}
	}
	if len(direct) != 1 {
		return -1
	}
	a := direct[0].Common().Args
	if len(a) != 4 {
		return -1
	}
	for i, p := range w.Params {
		n := "p:" + engine.ParamName(p)
		if descCell(a[1]) == n+".MsgID" && descCell(a[2]) == n+".SeqNo" && descCell(a[3]) == n+".Input" {
			// on every path: no exit of w avoids the send
			for _, r := range exits(w) {
				if (engine.PathQuery{Fn: w, Barrier: func(in ssa.Instruction) bool { return in == direct[0].(ssa.Instruction) }}).Reaches(r) {
					return -1
				}
			}
			return i
		}
	}
	return -1
}

func c25(c *engine.Ctx) {
	ru := c.MustFunc("C25.R1", "rpc", "Engine.retryUntilAck")
	if ru == nil {
		return
	}
	// ---- R1 identity of every send
	var sends []ssa.CallInstruction
	var loopFn *ssa.Function
	for _, f := range engine.WithAnon(ru) {
		c.SawFunc(f)
		for _, call := range engine.Calls(f) {
			if isEngineSend(call) {
				sends = append(sends, call)
				if engine.InCycle(call) {
					loopFn = f
				}
			}
		}
	}
	for _, s := range sends {
		a := s.Common().Args
		f := s.Parent()
		ok := len(a) == 4 && descCell(a[1]) == "p:req.MsgID" && descCell(a[2]) == "p:req.SeqNo" && descCell(a[3]) == "p:req.Input"
		got := ""
		if len(a) == 4 {
			got = descCell(a[1]) + ", " + descCell(a[2]) + ", " + descCell(a[3])
		}
		if w := s.Common().StaticCallee(); w != nil {
			// a forwarding helper: it must be handed the request itself
			i := engineSendWrapper(w)
			all := engine.Args(s.Common())
			ok = i >= 0 && i < len(all) && descCell(all[i]) == "p:req"
			if i >= 0 && i < len(all) {
				got = "via " + w.Name() + ": " + descCell(all[i])
			}
		}
		c.Check(ok, "C25.R1", engine.FuncID(f)+"/send#"+ordinal(f, s), s.Pos(), "send must carry (req.MsgID, req.SeqNo, req.Input) of the request being retried; carries (%s)", got)
	}
	c.Floor("C25.R1", 2, len(sends))
	if loopFn == nil {
		c.Fail("C25.R2", "retry-cycle", ru.Pos(), "no send inside a cycle: the retry loop is not recognised")
		return
	}

	// ---- R2 cycle rule
	var cyc []ssa.CallInstruction
	for _, s := range sends {
		if s.Parent() == loopFn && engine.InCycle(s) {
			cyc = append(cyc, s)
		}
	}
	// the counter: a cell stored with (load cell + 1) inside the loop function
	var inc *ssa.Store
	engine.Instrs(loopFn, func(i ssa.Instruction) {
		st, ok := i.(*ssa.Store)
		if !ok {
			return
		}
		b, ok := st.Val.(*ssa.BinOp)
		if !ok || b.Op != token.ADD {
			return
		}
		if k, isK := engine.ConstInt(b.Y); isK && k == 1 && cell(b.X) == cell(st.Addr) {
			inc = st
		}
	})
	n2 := 0
	if inc == nil {
		c.Fail("C25.R2", "counter", loopFn.Pos(), "no retry counter incremented by 1 in the retry loop")
	} else {
		counter := cell(inc.Addr)
		// initial value 0 in the enclosing function
		initOK := false
		if a, ok := counter.(*ssa.Alloc); ok {
			for _, st := range storesTo(a.Parent(), a) {
				if k, isK := engine.ConstInt(st.Val); isK && k == 0 {
					initOK = true
				}
			}
		}
		c.Check(initOK, "C25.R2", "counter/init-0", inc.Pos(), "the retry counter must start at 0")
		// limit test
		isLimit := func(k engine.Cmp) bool {
			return cell(k.X) == counter && descCell(k.Y) == "p:e.maxRetries"
		}
		var contEdges = map[[2]*ssa.BasicBlock]bool{}
		var limitIf *ssa.If
		var limitFailBranch bool
		for _, b := range loopFn.Blocks {
			iff, ok := b.Instrs[len(b.Instrs)-1].(*ssa.If)
			if !ok {
				continue
			}
			for k := 0; k < 2; k++ {
				cm := engine.Guard{If: iff, Branch: k == 0}.Cmp()
				// the test may be a predicate of the engine applied to the counter
				// (retriesExhausted(retries)) whose only return is the comparison of its
				// parameter with e.maxRetries: read as that comparison (negated on the
				// false edge)
				if hc := engine.CallOf(cm.X); hc != nil {
					if b, isB := engine.ConstBool(cm.Y); isB && (cm.Op == token.EQL || cm.Op == token.NEQ) {
						if h := hc.Common().StaticCallee(); h != nil && len(h.Blocks) > 0 && h.Pkg == loopFn.Pkg {
							if rets := engine.Returns(h); len(rets) == 1 && len(rets[0].Results) == 1 {
								if raw, isBin := rets[0].Results[0].(*ssa.BinOp); isBin {
									if in, isCmp := engine.CmpOf(raw); isCmp {
										for _, ic := range []engine.Cmp{in, in.Swap()} {
											arg := argOfParam(ic.X, hc)
											if arg != nil && cell(arg) == counter && len(h.Params) > 0 && engine.Describe(ic.Y) == "p:"+engine.ParamName(h.Params[0])+".maxRetries" {
												holds := (cm.Op == token.EQL) == b
												op := ic.Op
												if !holds {
													op = engine.NegateOp(op)
												}
												cm = engine.Cmp{Op: op, X: arg, Y: ic.Y}
											}
										}
									}
								}
							}
						}
					}
				}
				for _, cc := range []engine.Cmp{cm, cm.Swap()} {
					if !(isLimit(cc) || (cell(cc.X) == counter && strings.HasSuffix(engine.Describe(cc.Y), ".maxRetries") && cc.Y.Parent() != loopFn)) {
						continue
					}
					switch cc.Op {
					case token.GEQ, token.EQL:
						// this edge is the "limit reached" edge
						limitIf, limitFailBranch = iff, k == 0
						contEdges[[2]*ssa.BasicBlock{b, b.Succs[1-k]}] = true
					case token.GTR:
						limitIf, limitFailBranch = iff, k == 0
						c.Fail("C25.R2", "limit/comparison", iff.Pos(), "limit test is counter > maxRetries: allows one resend more than configured (must be >=)")
					}
				}
			}
		}
		if limitIf == nil {
			c.Fail("C25.R2", "limit/exists", loopFn.Pos(), "no test of the retry counter against e.maxRetries in the retry loop")
		} else {
			n2++
			// the reached edge returns *RetryLimitReachedErr
			tgt := limitIf.Block().Succs[1]
			if limitFailBranch {
				tgt = limitIf.Block().Succs[0]
			}
			retOK := engine.RejectEdge(limitIf, limitFailBranch)
			typOK := false
			for _, r := range engine.Returns(loopFn) {
				if r.Block() == tgt || tgt.Dominates(r.Block()) {
					if strings.Contains(engine.Describe(engine.RetVal(r, engine.ErrIndex(loopFn))), "RetryLimitReachedErr") || strings.Contains(engine.RetVal(r, engine.ErrIndex(loopFn)).Type().String(), "error") && allocOfType(engine.RetVal(r, engine.ErrIndex(loopFn)), "RetryLimitReachedErr") {
						typOK = true
					}
				}
			}
			c.Check(retOK && typOK, "C25.R2", "limit/returns-retry-limit-error", limitIf.Pos(), "reaching the limit must end the call with *RetryLimitReachedErr")
		}
		for _, s := range cyc {
			n2++
			key := "cycle/send#" + ordinal(loopFn, s)
			viaInc := !engine.PathQuery{Fn: loopFn, From: s, Barrier: func(i ssa.Instruction) bool { return i == ssa.Instruction(inc) }}.Reaches(s)
			c.Check(viaInc, "C25.R2", key+"/passes-increment", s.Pos(), "every cycle through the retransmission must increment the retry counter")
			if limitIf != nil {
				// every cycle passes the limit test: cutting the continue edge(s) must break all cycles through s
				viaTest := !engine.PathQuery{Fn: loopFn, From: s, Cut: contEdges}.Reaches(s)
				c.Check(viaTest, "C25.R2", key+"/passes-limit-test", s.Pos(), "every cycle through the retransmission must pass the retry-limit test")
			}
		}
	}
	c.Floor("C25.R2", 2, n2)

	// ---- R3 select cases
	n3 := 0
	var loopSel *ssa.Select
	for _, sel := range selectsOf(loopFn) {
		if sel.Blocking && engine.InCycle(sel) {
			loopSel = sel
		}
	}
	if loopSel == nil {
		c.Fail("C25.R3", "select", loopFn.Pos(), "no blocking select in the retry loop")
		return
	}
	// the ack channel: result of waitAck(req.MsgID) in retryUntilAck
	isAck := func(v ssa.Value) bool {
		return strings.HasPrefix(descCell(v), "(*rpc.Engine).waitAck(p:e, p:req.MsgID)")
	}
	loopCtxCell := ssa.Value(nil)
	var timerBody *ssa.BasicBlock
	seen := map[string]bool{}
	for _, sc := range engine.SelectCases(loopSel) {
		kind := ""
		switch {
		case isAck(sc.Chan):
			kind = "ack"
		case isDoneOf(sc.Chan, "p:e.reqCtx"):
			kind = "engine-ctx"
		case strings.Contains(descCell(sc.Chan), ".C("):
			kind = "timer"
			timerBody = sc.Body
		default:
			if call := engine.CallOf(engine.Unwrap(sc.Chan)); call != nil && engine.CalleeID(call.Common()) == "(context.Context).Done" {
				kind = "ctx"
				loopCtxCell = cell(engine.Args(call.Common())[0])
			}
		}
		if kind == "" {
			c.Undecided("C25.R3", "select/case#"+itoa(int64(sc.Index)), loopSel.Pos(), "unrecognised select case on %s", descCell(sc.Chan))
			continue
		}
		seen[kind] = true
		if kind == "timer" || sc.Body == nil {
			continue
		}
		n3++
		leaves := true
		for _, s := range cyc {
			if (engine.PathQuery{Fn: loopFn, FromBlk: sc.Body}).Reaches(s) {
				leaves = false
			}
		}
		c.Check(leaves, "C25.R3", "select/"+kind+"/leaves-loop", loopSel.Pos(), "after the %s case no retransmission may be reachable", kind)
	}
	for _, k := range []string{"ack", "engine-ctx", "ctx", "timer"} {
		c.Check(seen[k], "C25.R3", "select/has-"+k, loopSel.Pos(), "the retry select must have a %s case", k)
	}
	// the loop context is derived from the parameter ctx (which Do cancels on result)
	if loopCtxCell != nil {
		der := false
		if a, ok := loopCtxCell.(*ssa.Alloc); ok {
			for _, st := range storesTo(a.Parent(), a) {
				if call := engine.CallOf(st.Val); call != nil && strings.HasPrefix(engine.CalleeID(call.Common()), "context.With") {
					if cell(call.Common().Args[0]) == loopCtxCell || engine.Describe(call.Common().Args[0]) == "p:ctx" {
						der = true
					}
				}
				if p, isP := st.Val.(*ssa.Parameter); isP && p.Name() == "ctx" {
					der = true
				}
			}
		} else if p, ok := loopCtxCell.(*ssa.Parameter); ok && p == ru.Params[1] {
			der = true
		}
		c.Check(der, "C25.R3", "select/ctx-derived-from-param", loopSel.Pos(), "the loop's context case must watch a context derived from retryUntilAck's ctx parameter")
	}
	// priority polls before the timer-case send
	if timerBody != nil {
		for _, s := range cyc {
			if !(engine.PathQuery{Fn: loopFn, FromBlk: timerBody}).Reaches(s) {
				continue
			}
			n3++
			pollAck := func(i ssa.Instruction) bool {
				sel, ok := i.(*ssa.Select)
				if !ok || sel.Blocking {
					return false
				}
				for _, sc := range engine.SelectCases(sel) {
					if !sc.Send && isAck(sc.Chan) && sc.Body != nil && !(engine.PathQuery{Fn: loopFn, FromBlk: sc.Body}).Reaches(s) {
						return true
					}
				}
				return false
			}
			pollCtx := func(i ssa.Instruction) bool {
				sel, ok := i.(*ssa.Select)
				if !ok || sel.Blocking {
					return false
				}
				for _, sc := range engine.SelectCases(sel) {
					if sc.Send || sc.Body == nil {
						continue
					}
					if call := engine.CallOf(engine.Unwrap(sc.Chan)); call != nil && engine.CalleeID(call.Common()) == "(context.Context).Done" &&
						cell(engine.Args(call.Common())[0]) == loopCtxCell && !(engine.PathQuery{Fn: loopFn, FromBlk: sc.Body}).Reaches(s) {
						return true
					}
				}
				return false
			}
			key := "timer-case/send#" + ordinal(loopFn, s)
			c.Check(!engine.PathQuery{Fn: loopFn, FromBlk: timerBody, Barrier: pollAck}.Reaches(s), "C25.R3", key+"/polls-ack-first", s.Pos(),
				"select picks randomly among ready cases: the tick can be chosen although the ack channel is already closed, so the timer case must poll the ack channel (non-blocking, leaving the loop) before it resends")
			c.Check(!engine.PathQuery{Fn: loopFn, FromBlk: timerBody, Barrier: pollCtx}.Reaches(s), "C25.R3", key+"/polls-ctx-first", s.Pos(),
				"the timer case must poll the loop context (cancelled by the result handler) before it resends")
		}
	}
	c.Floor("C25.R3", 4, n3)

	// ---- R4 ack channel bookkeeping
	c25R4(c, "C25.R4")

	// ---- R5 timer interval; handler cancels the retry context
	n5 := 0
	for _, call := range engine.Calls(loopFn) {
		id := engine.CalleeID(call.Common())
		if id == "(clock.Clock).Timer" {
			n5++
			c.Check(descCell(engine.Args(call.Common())[1]) == "p:e.retryInterval", "C25.R5", "timer/created-with-retry-interval", call.Pos(), "retry timer must be created with e.retryInterval")
		}
		if strings.HasSuffix(id, ".Reset") && strings.Contains(id, "Timer") {
			n5++
			c.Check(descCell(engine.Args(call.Common())[1]) == "p:e.retryInterval", "C25.R5", "timer/reset-with-retry-interval", call.Pos(), "retry timer must be re-armed with e.retryInterval")
		}
	}
	if s := rpcDoShape(c, "C25.R5"); s != nil {
		// retryUntilAck receives WithCancel(ctx)#0 and the handler calls #1 of the same call
		for _, call := range engine.CallsTo(s.do, false, "(*rpc.Engine).retryUntilAck") {
			n5++
			ctxArg := engine.CallOf(call.Common().Args[1])
			ok := ctxArg != nil && engine.CalleeID(ctxArg.Common()) == "context.WithCancel"
			cancels := false
			if ok {
				for _, hc := range engine.Calls(s.handler) {
					v := hc.Common().Value
					if hc.Common().StaticCallee() != nil || hc.Common().IsInvoke() {
						continue
					}
					if b := cell(v); b != nil {
						if a, isA := b.(*ssa.Alloc); isA {
							for _, st := range storesTo(a.Parent(), a) {
								if ex, isE := st.Val.(*ssa.Extract); isE && ex.Tuple == ssa.Value(ctxArg) && ex.Index == 1 && guardedByCall(hc, s.cas, true) {
									cancels = true
								}
							}
						}
					}
				}
			}
			c.Check(ok && cancels, "C25.R5", "Do/handler-cancels-retry-context", call.Pos(), "the result handler must cancel the context retryUntilAck runs on, so that a result stops the retransmission")
		}
	}
	c.Floor("C25.R5", 3, n5)
}

func allocOfType(v ssa.Value, name string) bool {
	found := false
	engine.WalkBack(v, func(x ssa.Value) bool {
		if a, ok := x.(*ssa.Alloc); ok && strings.Contains(a.Type().String(), name) {
			found = true
		}
		return !found
	})
	return found
}

func c25R4(c *engine.Ctx, R string) {
	n := 0
	if wa := c.MustFunc(R, "rpc", "Engine.waitAck"); wa != nil {
		ls := engine.Locksets(wa)
		ups := mapUpdatesOf(wa, "p:e.ack")
		for _, mu := range ups {
			n++
			_, isMk := engine.Unwrap(mu.Value).(*ssa.MakeChan)
			c.Check(engine.Describe(mu.Key) == "p:id" && isMk, R, "waitAck/registers-new-chan-under-id", mu.Pos(), "waitAck must register a fresh channel under its id")
			c.Check(heldAt(ls, mu, "p:e.mux"), R, "waitAck/lock", mu.Pos(), "e.ack must be written under e.mux")
			// the return on this path returns the registered channel
			okRet := false
			for _, r := range engine.Returns(wa) {
				if engine.Dominates(mu, r) && engine.Unwrap(engine.RetVal(r, 0)) == engine.Unwrap(mu.Value) {
					okRet = true
				}
			}
			c.Check(okRet, R, "waitAck/returns-registered", mu.Pos(), "waitAck must return the channel it registered")
		}
		c.Check(len(ups) == 1, R, "waitAck/one-registration", wa.Pos(), "exactly one registration expected")
		// the already-registered path returns the found channel
		for _, lk := range lookupsOf(wa, "p:e.ack") {
			c.Check(engine.Describe(lk.Index) == "p:id" && heldAt(ls, lk, "p:e.mux"), R, "waitAck/lookup", lk.Pos(), "lookup by id under e.mux")
		}
	}
	if na := c.MustFunc(R, "rpc", "Engine.NotifyAcks"); na != nil {
		ls := engine.Locksets(na)
		var closeCall ssa.CallInstruction
		for _, call := range engine.Calls(na) {
			if engine.CalleeID(call.Common()) == "builtin.close" {
				closeCall = call
			}
		}
		lks := lookupsOf(na, "p:e.ack")
		if closeCall == nil || len(lks) != 1 {
			c.Fail(R, "NotifyAcks/close", na.Pos(), "NotifyAcks must close the channel found in e.ack (close calls found: %v, lookups: %d)", closeCall != nil, len(lks))
		} else {
			n++
			lk := lks[0]
			c.Check(engine.DependsOn(closeCall.Common().Args[0], lk) && heldAt(ls, closeCall, "p:e.mux"), R, "NotifyAcks/closes-found-chan", closeCall.Pos(), "the closed channel must be the one found under the id, under e.mux")
			// the lookup index is the range element of the ids parameter
			idx := engine.Describe(lk.Index)
			c.Check(strings.Contains(idx, "p:ids"), R, "NotifyAcks/key-from-ids", lk.Pos(), "the id looked up must be an element of the ids parameter (is %s)", idx)
			// deletion of the same key
			del := false
			for _, call := range engine.Calls(na) {
				if engine.CalleeID(call.Common()) == "builtin.delete" && descCell(call.Common().Args[0]) == "p:e.ack" && engine.Describe(call.Common().Args[1]) == idx && engine.Dominates(closeCall, call) {
					del = true
				}
			}
			c.Check(del, R, "NotifyAcks/deletes-closed", closeCall.Pos(), "a closed channel must be removed from e.ack (double close otherwise)")
			// every id of the batch is visited: no return / loop exit reachable from the miss edge other than through the loop head
			n++
			whole := true
			for _, r := range exits(na) {
				// a return that is reachable from the lookup without passing the loop's exhausted test is an early exit
				if engine.PathExists(lk, r) {
					// acceptable only if every path lk→r passes the range-exhausted edge: approximate by requiring
					// that r is not dominated by the lookup's block (the loop exit block is dominated by the loop head, not by the body)
					if lk.Block().Dominates(r.Block()) {
						whole = false
					}
				}
			}
			c.Check(whole, R, "NotifyAcks/visits-every-id", lk.Pos(), "an id without a waiter must not end the processing of the batch (later ids would never be acknowledged)")
		}
	}
	if ru := c.Func("rpc", "Engine.retryUntilAck"); ru != nil {
		for _, call := range engine.CallsTo(ru, false, "(*rpc.Engine).removeAck") {
			n++
			_, isDefer := call.(*ssa.Defer)
			c.Check(isDefer && engine.Describe(call.Common().Args[1]) == "p:req.MsgID", R, "retryUntilAck/removes-ack", call.Pos(), "the ack registration must be removed (deferred) under the same id")
		}
	}
	c.Floor(R, 4, n)
}
