package rules

import (
	"fmt"
	"go/token"
	"strings"

	"golang.org/x/tools/go/ssa"

	"tdverif/checker/engine"
)

// C15 — 2FA SRP answers follow the specification (two clauses only).
func init() {
	register("C15", []string{"crypto/srp", "crypto"}, func(c *engine.Ctx) {
		c.Explain("C15 (partial): (R1) SRP.Hash and SRP.NewHash validate the group with checkInput(i.G, p) — p built from i.P — before any modular exponentiation or use of the group, and checkInput applies the DH prime/generator checks; (R2) the hash compositions have the specification's shape: SH(data,salt)=H(salt‖data‖salt), PH1=SH(SH(pw,s1),s2), PH2=SH(PBKDF2-HMAC-SHA512(PH1,s1,100000,64),s2), x=PH2, v=g^x mod p, k=H(p‖g), u=H(g_a‖g_b), k_a=H(s_a), M1=H(H(p)⊕H(g)‖H(s1)‖H(s2)‖g_a‖g_b‖k_a), A=g_a; H writes its inputs in order into one SHA-256.")
		c.NotCover("the big-integer algebra (s_a computation, range checks on B), verifier acceptance — only group validation and hash shapes are decided")
		c15(c)
	})
}

// variadicVals lists the element values of a variadic argument built at the call site.
func variadicVals(v ssa.Value) []ssa.Value {
	sl, ok := v.(*ssa.Slice)
	if !ok {
		return nil
	}
	a, ok := sl.X.(*ssa.Alloc)
	if !ok {
		return nil
	}
	vals := map[int64]ssa.Value{}
	for _, r := range *a.Referrers() {
		ia, ok := r.(*ssa.IndexAddr)
		if !ok {
			continue
		}
		idx, _ := engine.ConstInt(ia.Index)
		for _, rr := range *ia.Referrers() {
			if st, ok := rr.(*ssa.Store); ok {
				vals[idx] = st.Val
			}
		}
	}
	var out []ssa.Value
	for i := int64(0); i < int64(len(vals)); i++ {
		out = append(out, vals[i])
	}
	return out
}

// descCall renders a call with variadic arguments expanded.
func descArgs(call *ssa.Call) string {
	var parts []string
	for i, a := range call.Common().Args {
		if i == 0 && call.Common().Signature().Recv() != nil {
			continue
		}
		if vs := variadicVals(a); vs != nil {
			for _, v := range vs {
				parts = append(parts, descHash(v))
			}
			continue
		}
		parts = append(parts, descHash(a))
	}
	return strings.Join(parts, ", ")
}

// descHash renders nested hash-helper calls readably: hash(a, b), saltHash(x, s) …
// asModExp: v is new(big.Int).Exp(base, exp, mod), in place or as the result of a
// same-package helper whose only return is that expression over its parameters.
func asModExp(v ssa.Value) (base, exp, mod ssa.Value, ok bool) {
	call := engine.CallOf(v)
	if call == nil {
		return nil, nil, nil, false
	}
	if engine.CalleeID(call.Common()) == "(*math/big.Int).Exp" {
		a := call.Common().Args
		return a[1], a[2], a[3], true
	}
	h := call.Common().StaticCallee()
	if h == nil || len(h.Blocks) == 0 || call.Parent() == nil || h.Pkg != call.Parent().Pkg {
		return nil, nil, nil, false
	}
	rets := engine.Returns(h)
	if len(rets) != 1 || len(rets[0].Results) != 1 {
		return nil, nil, nil, false
	}
	inner := isCallTo(rets[0].Results[0], "(*math/big.Int).Exp")
	if inner == nil {
		return nil, nil, nil, false
	}
	a := inner.Common().Args
	base, exp, mod = argOfParam(a[1], call), argOfParam(a[2], call), argOfParam(a[3], call)
	return base, exp, mod, base != nil && exp != nil && mod != nil
}

// asBigFromBytes: v is new(big.Int).SetBytes(b), in place or through such a helper.
func asBigFromBytes(v ssa.Value) (ssa.Value, bool) {
	call := engine.CallOf(v)
	if call == nil {
		return nil, false
	}
	if engine.CalleeID(call.Common()) == "(*math/big.Int).SetBytes" {
		return call.Common().Args[1], true
	}
	h := call.Common().StaticCallee()
	if h == nil || len(h.Blocks) == 0 || call.Parent() == nil || h.Pkg != call.Parent().Pkg {
		return nil, false
	}
	rets := engine.Returns(h)
	if len(rets) != 1 || len(rets[0].Results) != 1 {
		return nil, false
	}
	inner := isCallTo(rets[0].Results[0], "(*math/big.Int).SetBytes")
	if inner == nil {
		return nil, false
	}
	b := argOfParam(inner.Common().Args[1], call)
	return b, b != nil
}

func descHash(v ssa.Value) string {
	if call := engine.CallOf(v); call != nil {
		id := engine.CalleeID(call.Common())
		if strings.HasPrefix(id, "(crypto/srp.SRP).") {
			name := strings.TrimPrefix(id, "(crypto/srp.SRP).")
			s := name + "(" + descArgs(call) + ")"
			if e, ok := engine.Unwrap(v).(*ssa.Extract); ok {
				s += "#" + string(rune('0'+e.Index))
			}
			return s
		}
	}
	return engine.DescribeVal(v)
}

func c15(c *engine.Ctx) {
	// R1 group validation dominates the group's use
	for _, name := range []string{"SRP.Hash", "SRP.NewHash"} {
		fn := c.MustFunc("C15.R1", "crypto/srp", name)
		if fn == nil {
			continue
		}
		isCheck := func(k engine.Cmp) bool {
			call := isCallTo(k.X, "crypto/srp.checkInput")
			if call == nil || k.Op != token.EQL || !engine.IsNil(k.Y) {
				return false
			}
			return engine.Describe(call.Common().Args[0]) == "p:i.G" && strings.Contains(engine.Describe(call.Common().Args[1]), "p:i.P")
		}
		n := 0
		for _, r := range engine.SuccessReturns(fn) {
			n++
			c.Check(engine.GuardedBy(r, isCheck), "C15.R1", name+"/success-after-check", r.Pos(), "an answer may be produced only after checkInput(i.G, p(i.P)) == nil")
		}
		for _, call := range engine.Calls(fn) {
			id := engine.CalleeID(call.Common())
			if id == "(crypto/srp.SRP).bigExp" || id == "(crypto/srp.SRP).computeXV" || id == "(*math/big.Int).Exp" {
				n++
				c.Check(engine.GuardedBy(call, isCheck), "C15.R1", name+"/"+id+"#"+ordinalCall(fn, call), call.Pos(), "modular exponentiation in an unvalidated group: %s must be dominated by the accepting edge of checkInput", id)
			}
		}
		c.Floor("C15.R1/"+name, 2, n)
	}
	if ci := c.MustFunc("C15.R1", "crypto/srp", "checkInput"); ci != nil {
		for _, r := range engine.SuccessReturns(ci) {
			ok := engine.GuardedBy(r, func(k engine.Cmp) bool {
				call := engine.CallOf(k.X)
				if call == nil || k.Op != token.EQL || !engine.IsNil(k.Y) {
					return false
				}
				id := engine.CalleeID(call.Common())
				return (id == "crypto.CheckGP" || id == "crypto.CheckDH") && call.Common().Args[0] == ssa.Value(ci.Params[0]) && call.Common().Args[1] == ssa.Value(ci.Params[1])
			})
			if !ok {
				// tail call: return crypto.CheckX(g, p)
				if call := engine.CallOf(engine.RetVal(r, 0)); call != nil {
					id := engine.CalleeID(call.Common())
					ok = (id == "crypto.CheckGP" || id == "crypto.CheckDH") && call.Common().Args[0] == ssa.Value(ci.Params[0]) && call.Common().Args[1] == ssa.Value(ci.Params[1])
				}
			}
			c.Check(ok, "C15.R1", "checkInput/group-check", r.Pos(), "checkInput must accept only when the generator/prime check of (g, p) passes")
		}
	}
	// R2 shapes
	type shape struct{ fn, want string }
	shapes := []shape{
		{"SRP.saltHash", "hash(p:salt, p:data, p:salt)"},
		{"SRP.primary", "saltHash(saltHash(p:password, p:salt1), p:salt2)"},
		{"SRP.secondary", "saltHash(pbkdf2(primary(p:password, p:salt1, p:salt2), p:salt1, 100000), p:salt2)"},
		{"SRP.pbkdf2", "golang.org/x/crypto/pbkdf2.Key(p:ph1, p:salt1, p:n, 64, fn:crypto/sha512.New)"},
	}
	n := 0
	for _, sh := range shapes {
		fn := c.MustFunc("C15.R2", "crypto/srp", sh.fn)
		if fn == nil {
			continue
		}
		n++
		rets := engine.Returns(fn)
		got := ""
		if len(rets) == 1 {
			got = descHash(rets[0].Results[0])
		}
		c.Check(got == sh.want, "C15.R2", sh.fn+"/shape", fn.Pos(), "composition is %s, specification %s", got, sh.want)
	}
	if fn := c.MustFunc("C15.R2", "crypto/srp", "SRP.computeXV"); fn != nil {
		n++
		rets := engine.Returns(fn)
		got := ""
		if len(rets) == 1 {
			got = descHash(rets[0].Results[0]) + " | " + descHash(rets[0].Results[1])
		}
		// x = big-endian integer of secondary(password, salt1, salt2); v = Exp(g, x, p)
		// — each written in place or through a one-line helper (bigFromBytes, bigExp)
		okX, okV := false, false
		if len(rets) == 1 {
			if bs, isB := asBigFromBytes(rets[0].Results[0]); isB {
				if sc := isCallTo(bs, "(crypto/srp.SRP).secondary"); sc != nil {
					a := sc.Common().Args
					okX = len(a) == 4 && a[1] == ssa.Value(fn.Params[1]) && a[2] == ssa.Value(fn.Params[2]) && a[3] == ssa.Value(fn.Params[3])
				}
			}
			if base, exp, mod, isE := asModExp(rets[0].Results[1]); isE {
				okV = base == ssa.Value(fn.Params[4]) && mod == ssa.Value(fn.Params[5]) && engine.CallOf(exp) != nil && exp == rets[0].Results[0]
			}
		}
		c.Check(okX && okV, "C15.R2", "SRP.computeXV/shape", fn.Pos(), "x must be PH2(password, salt1, salt2) and v = g^x mod p; got %s", got)
	}
	if fn := c.MustFunc("C15.R2", "crypto/srp", "SRP.hash"); fn != nil {
		n++
		// one sha256.New; Write(data[i]) in a loop over data in index order; returns Sum(nil)
		var h ssa.Value
		writes := 0
		okIdx := false
		for _, call := range engine.Calls(fn) {
			cc := call.Common()
			if cc.IsInvoke() && cc.Method.Name() == "Write" {
				writes++
				h = cc.Value
				d := engine.Describe(cc.Args[0])
				okIdx = strings.HasPrefix(d, "p:data[") && engine.InCycle(call)
			}
		}
		okSum := false
		for _, r := range engine.Returns(fn) {
			if s := engine.CallOf(r.Results[0]); s != nil && s.Common().IsInvoke() && s.Common().Method.Name() == "Sum" && s.Common().Value == h && engine.IsNil(s.Common().Args[0]) {
				okSum = isCallTo(h, "crypto/sha256.New") != nil
			}
		}
		c.Check(writes == 1 && okIdx && okSum, "C15.R2", "SRP.hash/shape", fn.Pos(), "H must feed its arguments in order into one SHA-256 and return its digest")
	}
	if fn := c.MustFunc("C15.R2", "crypto/srp", "SRP.Hash"); fn != nil {
		// collect hash(...) calls and identify k, u, M1
		var kOK, uOK, m1OK, kaOK, aOK bool
		m1Detail := ""
		var gaAlloc, gbAlloc ssa.Value
		for _, call := range engine.CallsTo(fn, false, "(crypto/srp.SRP).pad256FromBig") {
			if e := isCallTo(call.Common().Args[1], "(crypto/srp.SRP).bigExp"); e != nil && strings.Contains(engine.Describe(e.Common().Args[1]), "p:i.G") && gaAlloc == nil {
				gaAlloc = call.Value()
			}
		}
		for _, call := range engine.CallsTo(fn, false, "(crypto/srp.SRP).pad256") {
			if call.Common().Args[1] == ssa.Value(fn.Params[2]) {
				gbAlloc = call.Value()
			}
		}
		from := func(v ssa.Value, src ssa.Value) bool { return src != nil && engine.DependsOn(v, src) }
		for _, call := range engine.CallsTo(fn, false, "(crypto/srp.SRP).hash") {
			vs := variadicVals(call.Common().Args[1])
			switch len(vs) {
			case 2:
				d0, d1 := engine.DescribeVal(vs[0]), engine.Describe(vs[1])
				if d0 == "p:i.P" && strings.Contains(d1, "gBytes") {
					kOK = true
				}
				if from(vs[0], gaAlloc) && from(vs[1], gbAlloc) && !from(vs[0], gbAlloc) {
					uOK = true
				}
			case 6:
				x := engine.Describe(vs[0])
				okXor := strings.Contains(x, "xorHpHg") || strings.Contains(x, "xor32")
				var xorCall *ssa.Call
				for _, xc := range engine.CallsTo(fn, false, "crypto/srp.xor32") {
					xorCall, _ = xc.(*ssa.Call)
				}
				if xorCall != nil {
					a0 := engine.Describe(xorCall.Common().Args[0])
					a1 := engine.Describe(xorCall.Common().Args[1])
					okXor = okXor && a0 == "crypto/sha256.Sum256(p:i.P)" && strings.HasPrefix(a1, "crypto/sha256.Sum256(") && strings.Contains(a1, "gBytes")
				} else {
					okXor = false
				}
				h1 := isCallTo(vs[1], "(crypto/srp.SRP).hash")
				h2 := isCallTo(vs[2], "(crypto/srp.SRP).hash")
				okSalts := h1 != nil && h2 != nil
				if okSalts {
					s1 := variadicVals(h1.Common().Args[1])
					s2 := variadicVals(h2.Common().Args[1])
					okSalts = len(s1) == 1 && len(s2) == 1 && engine.Describe(s1[0]) == "p:i.Salt1" && engine.Describe(s2[0]) == "p:i.Salt2"
				}
				okG := from(vs[3], gaAlloc) && from(vs[4], gbAlloc) && !from(vs[3], gbAlloc)
				ka := engine.FindCallBack(vs[5], "crypto/sha256.Sum256")
				// k_a = H(s_a) where s_a is the 256-byte padded big-endian form of the exponentiation
				// result: the hashed value must be, directly, pad256FromBig(bigExp(…))#0[:] (hashing
				// Bytes() drops leading zero bytes for about one secret in 256)
				kaOK = false
				if len(ka) == 1 {
					if sl, isSl := ka[0].Common().Args[0].(*ssa.Slice); isSl && sl.Low == nil && sl.High == nil {
						if al, isA := sl.X.(*ssa.Alloc); isA {
							sts := storesTo(fn, al)
							if len(sts) == 1 {
								if ex, isE := sts[0].Val.(*ssa.Extract); isE && ex.Index == 0 {
									if pc, isC := ex.Tuple.(*ssa.Call); isC && engine.CalleeID(pc.Common()) == "(crypto/srp.SRP).pad256FromBig" {
										kaOK = isCallTo(pc.Common().Args[1], "(crypto/srp.SRP).bigExp") != nil
									}
								}
							}
						}
					}
				}
				m1OK = okXor && okSalts && okG && kaOK
				m1Detail = fmt.Sprintf("xor=%v (%s) salts=%v g=%v ka=%v", okXor, x, okSalts, okG, kaOK)
			}
		}
		for _, r := range engine.SuccessReturns(fn) {
			res := engine.RetVal(r, 0)
			if u, ok := res.(*ssa.UnOp); ok {
				for _, av := range engine.FieldPathStores(u.X, []string{"A"}) {
					if from(av, gaAlloc) {
						aOK = true
					}
				}
			}
		}
		n++
		c.Check(kOK, "C15.R2", "SRP.Hash/k", fn.Pos(), "k must be H(p ‖ pad256(g))")
		c.Check(uOK, "C15.R2", "SRP.Hash/u", fn.Pos(), "u must be H(g_a ‖ g_b) with g_a = pad(g^a mod p), g_b = pad(B)")
		c.Check(m1OK, "C15.R2", "SRP.Hash/M1", fn.Pos(), "M1 must be H(H(p)⊕H(g) ‖ H(salt1) ‖ H(salt2) ‖ g_a ‖ g_b ‖ k_a) with k_a = H(s_a) %s", m1Detail)
		c.Check(aOK, "C15.R2", "SRP.Hash/A", fn.Pos(), "the answer's A must be g_a")
	}
	c.Floor("C15.R2", 7, n)
	// "invalid groups are refused" rests on the generator/prime table checkInput delegates to:
	// the table rule of C13 (rule id C13.R1, shared) is decided here as well
	c13R1(c)
}
