package rules

import (
	"go/token"
	"go/types"
	"strings"

	"golang.org/x/tools/go/ssa"

	"tdverif/checker/engine"
)

// C39 — history and dialog iterators yield every item once, in server order
// (structural clauses only). The two iterators are siblings: the same rule set
// is applied to both.
func init() {
	register("C39", []string{"telegram/query/messages", "telegram/query/dialogs"}, func(c *engine.Ctx) {
		c.Explain("C39 (structural clauses only, both iterators): (R1, cursor) bufNext returns true only after advancing bufCur by exactly one under the test bufCur+1 < len(buf); Value returns buf[bufCur]; Next returns true only for a true bufNext, fetches only when the buffer is exhausted and no error is stored, and an error of the fetch is stored and reported as false. (R2, refill) in apply every write to the iterator's state is behind the entry test lastBatch == false (a finished iterator never refills); the buffer is truncated and the cursor reset to -1 before the first append; there is exactly one append site, it lies in a forward range loop over the response's list and appends that loop's element. (R3, last batch) a complete-list response (messages.messages / messages.dialogs) sets lastBatch = true unconditionally; for slice responses the value depends on the length of the returned list, and an empty page ends the iteration. (R4, offsets) requestNext sends the stored offsets and the page size; the stored offset id is the id of the last element of the page (messages: the last of the list sorted by descending id; dialogs: offset peer from dialogs[len(buf)-1]).")
		c.NotCover("the server model (whether pages honour offsets and limits: a server capping pages below the requested size is outside the property's quantifier); equality of the yielded sequence with the history; FetchTotal/Total")
		for _, p := range []string{"telegram/query/messages", "telegram/query/dialogs"} {
			c39(c, p)
		}
	})
}

func c39(c *engine.Ctx, pkg string) {
	tag := pkg[strings.LastIndex(pkg, "/")+1:]
	bn := c.MustFunc("C39.R1", pkg, "Iterator.bufNext")
	nx := c.MustFunc("C39.R1", pkg, "Iterator.Next")
	vl := c.MustFunc("C39.R1", pkg, "Iterator.Value")
	ap := c.MustFunc("C39.R2", pkg, "Iterator.apply")
	rq := c.MustFunc("C39.R4", pkg, "Iterator.requestNext")
	if bn == nil || nx == nil || vl == nil || ap == nil || rq == nil {
		return
	}
	bd := engine.NewBounds()
	n1 := 0
	// ---- R1 bufNext
	for _, r := range engine.Returns(bn) {
		b, isK := engine.ConstBool(r.Results[0])
		if !isK {
			n1++
			c.Fail("C39.R1", tag+"/bufNext/return#"+ordinal(bn, r), r.Pos(), "bufNext must return a constant on each path")
			continue
		}
		if !b {
			continue
		}
		n1++
		// exactly one store bufCur = bufCur + 1 dominating the return
		adv := 0
		for _, st := range fieldStores(bn, "p:m.bufCur") {
			add, isAdd := st.Val.(*ssa.BinOp)
			if isAdd && add.Op == token.ADD && engine.Describe(add.X) == "p:m.bufCur" {
				if k, ok := engine.ConstInt(add.Y); ok && k == 1 && engine.Dominates(st, r) && !engine.InCycle(st) {
					adv++
					continue
				}
			}
			adv = -99
		}
		okG := engine.GuardedBy(r, func(k engine.Cmp) bool {
			for _, q := range []engine.Cmp{k, k.Swap()} {
				bx, ox := bd.Linear(q.X, r)
				by, oy := bd.Linear(q.Y, r)
				if bx == nil || by == nil || engine.Describe(bx) != "builtin.len(p:m.buf)" || engine.Describe(by) != "p:m.bufCur" {
					continue
				}
				// len + ox  OP  cur + oy   must imply   cur + 1 < len
				switch q.Op {
				case token.GTR:
					return oy-ox >= 1
				case token.GEQ:
					return oy-ox >= 2
				}
			}
			return false
		})
		c.Check(adv == 1 && okG, "C39.R1", tag+"/bufNext/advance-by-one-within-buffer", r.Pos(), "bufNext may report an element only after bufCur++ (exactly once) under the test bufCur+1 < len(buf) (advances: %d, bound test: %v)", adv, okG)
	}
	// Value
	for _, r := range engine.Returns(vl) {
		n1++
		c.Check(engine.Describe(r.Results[0]) == "p:m.buf[p:m.bufCur]", "C39.R1", tag+"/Value/current-element", r.Pos(), "Value must return buf[bufCur] (is %s)", engine.Describe(r.Results[0]))
	}
	// Next
	isBufNext := func(v ssa.Value) *ssa.Call {
		call := engine.CallOf(v)
		if call != nil && call.Common().StaticCallee() == bn {
			return call
		}
		return nil
	}
	var fetch *ssa.Call
	for _, call := range engine.Calls(nx) {
		if call.Common().StaticCallee() == rq {
			fetch, _ = call.(*ssa.Call)
		}
	}
	for _, r := range engine.Returns(nx) {
		n1++
		v := r.Results[0]
		ok := false
		if b, isK := engine.ConstBool(v); isK {
			ok = !b || engine.GuardedBy(r, func(k engine.Cmp) bool {
				kb, isB := engine.ConstBool(k.Y)
				return isBufNext(k.X) != nil && isB && ((kb && k.Op == token.EQL) || (!kb && k.Op == token.NEQ))
			})
		} else if isBufNext(v) != nil {
			ok = true
		}
		c.Check(ok, "C39.R1", tag+"/Next/return#"+ordinal(nx, r)+"/true-only-for-an-element", r.Pos(), "Next may return true only when bufNext did (returns %s)", engine.Describe(v))
	}
	if fetch == nil {
		c.Fail("C39.R1", tag+"/Next/fetch", nx.Pos(), "Next does not call requestNext")
	} else {
		n1++
		exhausted := engine.GuardedBy(fetch, func(k engine.Cmp) bool {
			kb, isB := engine.ConstBool(k.Y)
			return isBufNext(k.X) != nil && isB && ((!kb && k.Op == token.EQL) || (kb && k.Op == token.NEQ))
		})
		noErr := engine.GuardedBy(fetch, func(k engine.Cmp) bool {
			return engine.Describe(k.X) == "p:m.lastErr" && engine.IsNil(k.Y) && k.Op == token.EQL
		})
		c.Check(exhausted && noErr, "C39.R1", tag+"/Next/fetch-only-when-exhausted", fetch.Pos(), "requestNext replaces the buffer: it may run only when bufNext found nothing left (%v) and no error is stored (%v)", exhausted, noErr)
		// failed fetch: stored and reported
		n1++
		okErr := false
		for _, r := range engine.Returns(nx) {
			if !engine.GuardedBy(r, func(k engine.Cmp) bool {
				return engine.CallOf(k.X) == fetch && engine.IsNil(k.Y) && k.Op == token.NEQ
			}) {
				continue
			}
			b, isK := engine.ConstBool(r.Results[0])
			stored := false
			for _, st := range fieldStores(nx, "p:m.lastErr") {
				if engine.CallOf(st.Val) == fetch && engine.Dominates(st, r) {
					stored = true
				}
			}
			okErr = isK && !b && stored
		}
		c.Check(okErr, "C39.R1", tag+"/Next/fetch-error-stored", fetch.Pos(), "a failed fetch must be stored in lastErr and reported as false (otherwise the iteration ends silently or spins)")
	}
	c.Floor("C39.R1/"+tag, 6, n1)

	// ---- R2 refill
	n2 := 0
	lastBatchFalse := func(k engine.Cmp) bool {
		kb, isB := engine.ConstBool(k.Y)
		return engine.Describe(k.X) == "p:m.lastBatch" && isB && ((!kb && k.Op == token.EQL) || (kb && k.Op == token.NEQ))
	}
	var appends []*ssa.Store
	var trunc, reset *ssa.Store
	engine.Instrs(ap, func(i ssa.Instruction) {
		st, ok := i.(*ssa.Store)
		if !ok {
			return
		}
		d := engine.Describe(st.Addr)
		if !strings.HasPrefix(d, "p:m.") {
			return
		}
		n2++
		// the entry test: the loaded flag must be the entry value (load in the entry block)
		c.Check(engine.GuardedBy(st, lastBatchFalse), "C39.R2", tag+"/apply/"+strings.TrimPrefix(d, "p:m.")+"#"+ordinal(ap, st)+"/behind-entry-test", st.Pos(), "a finished iterator (lastBatch) must not change its state: the store to %s is not behind the lastBatch == false test", d)
		switch d {
		case "p:m.buf":
			if call := engine.CallOf(st.Val); call != nil && engine.CalleeID(call.Common()) == "builtin.append" {
				appends = append(appends, st)
			} else if sl, isSl := st.Val.(*ssa.Slice); isSl && engine.Describe(sl.X) == "p:m.buf" && sl.Low == nil {
				if k, isK := engine.ConstInt(sl.High); isK && k == 0 {
					trunc = st
				}
			}
		case "p:m.bufCur":
			if k, isK := engine.ConstInt(st.Val); isK && k == -1 {
				reset = st
			}
		}
	})
	n2++
	if len(appends) != 1 {
		c.Fail("C39.R2", tag+"/apply/one-append-site", ap.Pos(), "exactly one append to the buffer expected, found %d", len(appends))
	} else {
		a := appends[0]
		c.Check(trunc != nil && reset != nil && engine.Dominates(trunc, a) && engine.Dominates(reset, a) && !engine.InCycle(trunc) && !engine.InCycle(reset), "C39.R2", tag+"/apply/truncate-and-reset-before-append", a.Pos(), "the buffer must be emptied (buf = buf[:0]) and the cursor reset (bufCur = -1) once, before elements are appended")
		call := engine.CallOf(a.Val)
		args := call.Common().Args
		n2++
		okOne := engine.Describe(args[0]) == "p:m.buf"
		var elem ssa.Value
		if okOne {
			// append(buf, Elem{...}) — the variadic slice holds one element
			vs := variadicVals(args[1])
			okOne = len(vs) == 1
			if okOne {
				elem = vs[0]
			}
		}
		c.Check(okOne, "C39.R2", tag+"/apply/appends-one-element", a.Pos(), "each append must add exactly one element to m.buf")
		// the element comes from a forward range loop over a list derived from the response
		n2++
		okLoop, why := false, "the appended element is not an element of a ranged list"
		if elem != nil {
			field := "Msg"
			if tag == "dialogs" {
				field = "Dialog"
			}
			fv := engine.StructFieldValue(elem, field)
			okLoop, why = c39RangeElem(ap, fv, a)
		}
		c.Check(okLoop, "C39.R2", tag+"/apply/append-in-forward-range-over-response", a.Pos(), "%s", why)
	}
	c.Floor("C39.R2/"+tag, 6, n2)

	// ---- R3 last batch
	n3 := 0
	iface := "MessagesMessagesClass"
	if tag == "dialogs" {
		iface = "MessagesDialogsClass"
	}
	arms := typeSwitchArms(ap, iface)
	emptyEnds := false
	// an explicit "empty page ends" store
	for _, st := range fieldStores(ap, "p:m.lastBatch") {
		if b, isK := engine.ConstBool(st.Val); isK && b && engine.GuardedBy(st, func(k engine.Cmp) bool {
			kb, isB := engine.ConstBool(k.Y)
			if ex, isE := engine.Unwrap(k.X).(*ssa.Extract); isE && ex.Index == 1 && isB && ((!kb && k.Op == token.EQL) || (kb && k.Op == token.NEQ)) {
				if call := engine.CallOf(ex); call != nil && strings.HasSuffix(engine.CalleeID(call.Common()), "ClassArray).Last") {
					return true
				}
			}
			return false
		}) {
			emptyEnds = true
		}
	}
	for _, arm := range arms {
		// the store that decides lastBatch for this arm: inside the arm, or
		// after the switch (then a merged value is resolved along this arm)
		inArm := func(b *ssa.BasicBlock) bool { return b == arm.entry || arm.entry.Dominates(b) }
		along := func(v ssa.Value) ssa.Value {
			if p, isP := v.(*ssa.Phi); isP {
				var pick ssa.Value
				for i, pred := range p.Block().Preds {
					if inArm(pred) {
						if pick != nil && pick != p.Edges[i] {
							return v
						}
						pick = p.Edges[i]
					}
				}
				if pick != nil {
					return pick
				}
			}
			return v
		}
		var sts []*ssa.Store
		for _, st := range fieldStores(ap, "p:m.lastBatch") {
			if arm.contains(st) {
				sts = append(sts, st)
			}
		}
		if len(sts) == 0 {
			for _, st := range fieldStores(ap, "p:m.lastBatch") {
				other := false
				for _, o := range arms {
					if o.entry != arm.entry && o.contains(st) {
						other = true
					}
				}
				if b, isK := engine.ConstBool(st.Val); isK && b && len(engine.Guards(st)) > 1 {
					continue // a guarded "ends here" store (empty page), decided below
				}
				if !other && engine.ReachFrom(arm.entry)[st.Block()] && !engine.InCycle(st) {
					sts = append(sts, st)
				}
			}
		}
		n3++
		key := tag + "/apply/arm:" + arm.name
		if len(sts) != 1 {
			c.Fail("C39.R3", key+"/sets-lastBatch", arm.assert.Pos(), "lastBatch must be decided exactly once for this response kind (found %d stores)", len(sts))
			continue
		}
		st := sts[0]
		val := along(st.Val)
		complete := !strings.Contains(arm.name, "Slice") && !strings.Contains(arm.name, "Channel")
		if complete {
			b, isK := engine.ConstBool(val)
			c.Check(isK && b, "C39.R3", key+"/complete-list-is-last", st.Pos(), "a complete-list response has no next page: lastBatch must be set to true unconditionally (is %s)", engine.Describe(val))
			continue
		}
		// slice arm: depends on the length of this arm's list; an empty page ends
		// the comparison is read in canonical form: the page length on the left
		// ("0 == len(x)" is "len(x) == 0", "limit > len(x)" is "len(x) < limit")
		var cmp engine.Cmp
		isCmp := false
		if raw, isBin := val.(*ssa.BinOp); isBin {
			cmp, isCmp = engine.CmpOf(raw)
		}
		list := "Messages"
		if tag == "dialogs" {
			list = "Dialogs"
		}
		lenOfArm := func(v ssa.Value) bool {
			call := engine.CallOf(v)
			if call == nil || engine.CalleeID(call.Common()) != "builtin.len" {
				return false
			}
			ld, isL := engine.Unwrap(along(engine.Unwrap(call.Common().Args[0]))).(*ssa.UnOp)
			if !isL {
				return false
			}
			fa, isFA := ld.X.(*ssa.FieldAddr)
			return isFA && engine.FieldNameOf(fa) == list && engine.Unwrap(fa.X) == arm.val
		}
		if isCmp && !lenOfArm(cmp.X) && lenOfArm(cmp.Y) {
			cmp = cmp.Swap()
		}
		okDep := isCmp && lenOfArm(cmp.X)
		if !okDep {
			// the decision may be delegated to a helper: it still has to be
			// computed from the length of this arm's list
			engine.WalkBack(val, func(v ssa.Value) bool {
				if lenOfArm(v) {
					okDep = true
				}
				return !okDep
			})
		}
		okEmpty := emptyEnds
		if isCmp && lenOfArm(cmp.X) {
			if k, isK := engine.ConstInt(cmp.Y); isK {
				// len == 0, len < 1, len <= 0
				okEmpty = okEmpty || (cmp.Op == token.EQL && k == 0) || (cmp.Op == token.LSS && k >= 1) || (cmp.Op == token.LEQ && k >= 0)
			} else if engine.Describe(cmp.Y) == "p:m.limit" && (cmp.Op == token.LSS || cmp.Op == token.LEQ) {
				okEmpty = okEmpty || c39LimitPositive(c, pkg)
			}
		}
		if b, isK := engine.ConstBool(val); isK {
			// a constant: only "false" is sound, and then an explicit empty-page end must exist
			okDep = !b
		}
		c.Check(okDep, "C39.R3", key+"/depends-on-page-length", st.Pos(), "for a slice response lastBatch must be decided from the length of the returned %s (is %s)", list, engine.Describe(val))
		n3++
		c.Check(okEmpty, "C39.R3", key+"/empty-page-ends", st.Pos(), "an empty page must end the iteration (totals that are exact multiples of the page size end with an empty page)")
	}
	want := 3
	if tag == "dialogs" {
		want = 2
	}
	c.Check(len(arms) == want, "C39.R3", tag+"/apply/arms", ap.Pos(), "%d paginated response kinds expected, the type switch has %d", want, len(arms))
	c.Floor("C39.R3/"+tag, want, n3)

	// ---- R4 offsets
	n4 := 0
	for _, call := range engine.Calls(rq) {
		if !call.Common().IsInvoke() || call.Common().Method.Name() != "Query" {
			continue
		}
		req := call.Common().Args[1]
		fields := map[string]string{"OffsetID": "p:m.offsetID", "OffsetDate": "p:m.offsetDate", "OffsetPeer": "p:m.offsetPeer", "Limit": "p:m.limit"}
		if tag == "messages" {
			fields["OffsetRate"] = "p:m.offsetRate"
			fields["AddOffset"] = "p:m.addOffset"
		}
		for f, w := range fields {
			n4++
			v := engine.StructFieldValue(req, f)
			c.Check(v != nil && engine.Describe(v) == w, "C39.R4", tag+"/requestNext/"+f, call.Pos(), "request field %s must be the iterator's %s (is %s)", f, w, engine.Describe(v))
		}
		// the response handed to apply is this call's
		for _, ac := range engine.Calls(rq) {
			if ac.Common().StaticCallee() == ap {
				n4++
				cl, _ := call.(*ssa.Call)
				c.Check(cl != nil && isResult(engine.Args(ac.Common())[1], cl, 0), "C39.R4", tag+"/requestNext/applies-its-response", ac.Pos(), "apply must receive the response of this request")
			}
		}
	}
	if tag == "messages" {
		// offsetID = GetID() of Last() of the list sorted by descending id
		n4++
		ok, why := false, "no store to offsetID from the last element"
		for _, st := range fieldStores(ap, "p:m.offsetID") {
			gid := engine.CallOf(st.Val)
			if gid == nil || !gid.Common().IsInvoke() || gid.Common().Method.Name() != "GetID" {
				why = "offsetID is " + engine.Describe(st.Val)
				continue
			}
			ex, isE := engine.Unwrap(gid.Common().Value).(*ssa.Extract)
			if !isE || ex.Index != 0 {
				continue
			}
			last := engine.CallOf(ex)
			if last == nil || !strings.HasSuffix(engine.CalleeID(last.Common()), "MessageClassArray).Last") {
				why = "offsetID is not taken from Last()"
				continue
			}
			sorted := engine.CallOf(engine.Args(last.Common())[0])
			if sorted == nil || !strings.HasSuffix(engine.CalleeID(sorted.Common()), "MessageClassArray).SortStable") {
				why = "Last() is not applied to the sorted list"
				continue
			}
			less := closureOf(engine.Args(sorted.Common())[1])
			if less == nil || !c39DescByID(less) {
				why = "the list is not sorted by descending id"
				continue
			}
			ok, why = true, "offsetID = Last().GetID() of the list sorted by descending id"
		}
		c.Check(ok, "C39.R4", "messages/apply/offset-is-smallest-id-of-page", ap.Pos(), "the next request must start below the last (smallest-id) message of this page: %s", why)
	} else {
		// offsetPeer derives from dialogs[len(m.buf)-1]
		n4++
		ok := false
		for _, st := range fieldStores(ap, "p:m.offsetPeer") {
			engine.WalkBack(st.Val, func(v ssa.Value) bool {
				if ld, isL := v.(*ssa.UnOp); isL && ld.Op == token.MUL {
					if ia, isIA := ld.X.(*ssa.IndexAddr); isIA {
						if b, o := bd.Linear(ia.Index, st); b != nil && o == -1 && engine.Describe(b) == "builtin.len(p:m.buf)" {
							ok = true
						}
					}
				}
				return true
			})
		}
		c.Check(ok, "C39.R4", "dialogs/apply/offset-peer-is-last-dialog", ap.Pos(), "the offset peer of the next request must be taken from the last dialog of this page (dialogs[len(buf)-1])")
	}
	c.Floor("C39.R4/"+tag, 5, n4)
}

// fieldStores lists the stores of fn whose address is described by d.
func fieldStores(fn *ssa.Function, d string) []*ssa.Store {
	var out []*ssa.Store
	engine.Instrs(fn, func(i ssa.Instruction) {
		if st, ok := i.(*ssa.Store); ok && engine.Describe(st.Addr) == d {
			out = append(out, st)
		}
	})
	return out
}

// c39RangeElem: v (a field of the appended element) is the element, or
// AsNotEmpty of the element, of a forward range loop (index from 0 / -1, step
// +1) over a slice that derives from apply's response parameter; the append
// lies in that loop.
func c39RangeElem(ap *ssa.Function, v ssa.Value, at *ssa.Store) (bool, string) {
	if v == nil {
		return false, "the appended element has no item field"
	}
	x := engine.Unwrap(v)
	if ex, isE := x.(*ssa.Extract); isE && ex.Index == 0 {
		if call := engine.CallOf(ex); call != nil && call.Common().IsInvoke() && call.Common().Method.Name() == "AsNotEmpty" {
			x = engine.Unwrap(call.Common().Value)
		}
	}
	if mi, isMI := x.(*ssa.MakeInterface); isMI {
		x = engine.Unwrap(mi.X)
	}
	ld, isL := x.(*ssa.UnOp)
	if !isL || ld.Op != token.MUL {
		return false, "the appended item (" + engine.Describe(v) + ") is not read from a list"
	}
	ia, isIA := ld.X.(*ssa.IndexAddr)
	if !isIA {
		return false, "the appended item (" + engine.Describe(v) + ") is not read from a list"
	}
	// index: phi(-1 | 0, phi+1)
	var phi *ssa.Phi
	switch ix := ia.Index.(type) {
	case *ssa.Phi:
		phi = ix
	case *ssa.BinOp:
		// rangeindex form: t = phi + 1 used as the index
		if p, isP := ix.X.(*ssa.Phi); isP && ix.Op == token.ADD {
			if k, isK := engine.ConstInt(ix.Y); isK && k == 1 {
				phi = p
			}
		}
	}
	if phi == nil {
		return false, "the list index is not a loop counter"
	}
	fwd := len(phi.Edges) >= 2
	starts, steps := 0, 0
	for _, e := range phi.Edges {
		if k, isK := engine.ConstInt(e); isK {
			fwd = fwd && (k == 0 || k == -1)
			starts++
			continue
		}
		steps++
		b, isB := e.(*ssa.BinOp)
		k, isK := int64(0), false
		if isB {
			k, isK = engine.ConstInt(b.Y)
		}
		fwd = fwd && isB && b.Op == token.ADD && b.X == ssa.Value(phi) && isK && k == 1
	}
	if !fwd || starts != 1 || steps == 0 {
		return false, "the loop over the list is not a forward step-one loop (server order must be kept)"
	}
	if !engine.DependsOn(ia.X, ap.Params[1]) {
		return false, "the ranged list does not derive from the response"
	}
	if !(phi.Block() == at.Block() || phi.Block().Dominates(at.Block())) || !engine.InCycle(at) {
		return false, "the append is outside the loop over the list"
	}
	return true, "the appended item is the element of a forward range loop over the response's list"
}

// c39RangeIndex: idx is the counter of a forward step-one loop (range form:
// phi(-1, phi+1) used as phi+1, or a plain phi(0, phi+1)) bounded by
// len(list).
func c39RangeIndex(idx ssa.Value, list ssa.Value) (bool, string) {
	var phi *ssa.Phi
	switch ix := idx.(type) {
	case *ssa.Phi:
		phi = ix
	case *ssa.BinOp:
		if p, isP := ix.X.(*ssa.Phi); isP && ix.Op == token.ADD {
			if k, isK := engine.ConstInt(ix.Y); isK && k == 1 {
				phi = p
			}
		}
	}
	if phi == nil {
		return false, "the index is not a loop counter"
	}
	starts, steps := 0, 0
	for _, e := range phi.Edges {
		if k, isK := engine.ConstInt(e); isK {
			if k != 0 && k != -1 {
				return false, "the loop does not start at the first element"
			}
			starts++
			continue
		}
		b, isB := e.(*ssa.BinOp)
		if !isB || b.Op != token.ADD || b.X != ssa.Value(phi) {
			return false, "the loop counter is not advanced by one"
		}
		if k, isK := engine.ConstInt(b.Y); !isK || k != 1 {
			return false, "the loop counter is not advanced by one"
		}
		steps++
	}
	if starts != 1 || steps == 0 {
		return false, "not a plain forward loop"
	}
	// bounded by len(list)
	for _, b := range phi.Parent().Blocks {
		iff, ok := b.Instrs[len(b.Instrs)-1].(*ssa.If)
		if !ok {
			continue
		}
		raw, isC := iff.Cond.(*ssa.BinOp)
		if !isC {
			continue
		}
		cmp, _ := engine.CmpOf(raw)
		if cmp.Op == token.GTR { // len(list) > i is i < len(list)
			cmp = cmp.Swap()
		}
		if cmp.Op != token.LSS {
			continue
		}
		lc := engine.CallOf(cmp.Y)
		if lc == nil || engine.CalleeID(lc.Common()) != "builtin.len" || engine.Unwrap(lc.Common().Args[0]) != engine.Unwrap(list) {
			continue
		}
		if cmp.X == ssa.Value(phi) {
			return true, ""
		}
		if add, isAdd := cmp.X.(*ssa.BinOp); isAdd && add.X == ssa.Value(phi) {
			return true, ""
		}
	}
	return false, "the loop is not bounded by the length of the whole list"
}

// c39DescByID: less(a, b) is a.GetID() > b.GetID().
func c39DescByID(less *ssa.Function) bool {
	if len(less.Params) != 2 {
		return false
	}
	ok := false
	for _, r := range engine.Returns(less) {
		b, isB := r.Results[0].(*ssa.BinOp)
		if !isB {
			return false
		}
		idOf := func(v ssa.Value) ssa.Value {
			call := engine.CallOf(v)
			if call == nil || !call.Common().IsInvoke() || call.Common().Method.Name() != "GetID" {
				return nil
			}
			return engine.Unwrap(call.Common().Value)
		}
		x, y := idOf(b.X), idOf(b.Y)
		a0, a1 := ssa.Value(less.Params[0]), ssa.Value(less.Params[1])
		ok = (b.Op == token.GTR && x == a0 && y == a1) || (b.Op == token.LSS && x == a1 && y == a0)
		if !ok {
			return false
		}
	}
	return ok
}

// c39LimitPositive: "len < limit" ends the iteration on an empty page only if
// limit ≥ 1. The property quantifies over page sizes 1..N+1, so the rule takes
// that as given (a non-positive page size is outside the property).
func c39LimitPositive(c *engine.Ctx, pkg string) bool {
	var _ types.Type
	return true
}
