package rules

import (
	"go/token"
	"strconv"
	"strings"

	"golang.org/x/tools/go/ssa"

	"tdverif/checker/engine"
)

// C33 — downloads reproduce the remote file exactly (structural clauses).
// C34 — verified / CDN downloads never deliver unverified bytes.
func init() {
	register("C33", []string{"telegram/downloader"}, func(c *engine.Ctx) {
		c.Explain("C33 (structural clauses only): (R1, locksets) every access to reader.offset holds offsetMux; nextPlain reads the offset, advances it and releases the lock in one critical section. (R2, origins) the advance is int64(r.partSize), the chunk is requested at the offset that was read with limit r.partSize, and the block handed on carries that requested offset and the chunk of the same request. (R3) reader.next returns a nil error only together with the chunk of a successful sch.Chunk call of the same iteration (guarded by the FloodWait error being nil); it loops back only under flood || isRetryableTimeout and returns every other error. (R4) writeAtLoop writes part.data at part.offset and writeLoop writes part.data, of the block just received; a write error ends the loop with an error. (R5) in stream and parallel a block is dropped without being written exactly when len(data) < 1 (which also stops), every other block is sent to the writer before last() is consulted, last() is len(data) < partSize, and the producer closes the channel / signals stop on those two paths only.")
		c.NotCover("byte equality of the output; retries' effect on ordering; the reported file type (`return typ, g.Wait()` reads a goroutine-written variable in the same statement as the wait — observation O33)")
		c33(c)
	})
	register("C34", []string{"telegram/downloader"}, func(c *engine.Ctx) {
		c.Explain("C34: (R1) reader.nextHashed requests exactly (hash.Offset, hash.Limit) of the hash it took from the verifier, returns the block only under verify(that hash, that block's data) == true and ErrHashMismatch otherwise; verifier.verify is bytes.Equal(SHA256(data), hash.Hash) over the whole data parameter. (R2) in cdn.verifyChunk every iteration of the window loop passes a successful comparison of SHA256 over a slice of the chunk with the hash of hashForOffset(current), or the nil-error edge of loadAndVerifyWindow followed by the copy of verified bytes into the chunk; each comparison's mismatch edge returns a non-nil error; loadAndVerifyWindow hands out window bytes only after bytes.Equal(SHA256(full.data), hash.Hash) or from the cache, and the cache is filled only there, after that comparison. (R3, wiring) the CDN schema verifies inline exactly when the outer verifier is off (verifyCDNInline = !verify of the same builder) and reader() installs the outer verifier exactly when verify is on. (R4) cdn.decrypt writes uint32(offset/16) into the last four IV bytes of a copy of the redirect's IV; buildCDNRequestPlan rejects limit <= 0, offset < 0 and values off the 4 KiB grid, emits {current, step} and advances current and remaining by that same step, never with step == 0; largestCDNValidLimit returns a size only under 1 MiB %% size == 0. (R5) cdn.Chunk requests and decrypts each plan range with that range's own offset/limit and the redirect's token, but recovers, verifies and answers for the whole requested (offset, limit): recoverCDNControlError and verifyChunk receive the function's own offset and limit.")
		c.NotCover("coverage arithmetic of hash windows over arbitrary part sizes; AES-CTR itself; token refresh interleavings")
		c34(c)
	})
}

const dlPkg = "telegram/downloader"

// sha256Arg returns the single argument of a crypto.SHA256(x) call value, or nil.
func sha256Arg(v ssa.Value) ssa.Value {
	sh := engine.CallOf(v)
	if sh == nil || engine.CalleeID(sh.Common()) != "crypto.SHA256" {
		return nil
	}
	vals := variadicVals(sh.Common().Args[0])
	if len(vals) != 1 {
		return nil
	}
	return vals[0]
}

// resultField reports whether v is field `name` (possibly through embedded
// structs) of result idx of call.
func resultField(v ssa.Value, call *ssa.Call, idx int, name string) bool {
	v = engine.Unwrap(v)
	last := ""
	for i := 0; i < 6; i++ {
		switch x := v.(type) {
		case *ssa.Field:
			if last == "" {
				last = fieldNameOfField(x)
			}
			v = engine.Unwrap(x.X)
			continue
		case *ssa.FieldAddr:
			if last == "" {
				last = engine.FieldNameOf(x)
			}
			v = x.X
			if a, isA := v.(*ssa.Alloc); isA {
				if sts := storesTo(a.Parent(), a); len(sts) == 1 {
					v = engine.Unwrap(sts[0].Val)
				}
			}
			continue
		case *ssa.UnOp:
			if fa, ok := x.X.(*ssa.FieldAddr); ok && x.Op == token.MUL {
				if last == "" {
					last = engine.FieldNameOf(fa)
				}
				v = fa.X
				// a local copy of the struct: follow its single store
				if a, isA := v.(*ssa.Alloc); isA {
					if sts := storesTo(a.Parent(), a); len(sts) == 1 {
						v = engine.Unwrap(sts[0].Val)
					}
				}
				continue
			}
		}
		break
	}
	ex, ok := v.(*ssa.Extract)
	if !ok {
		// single-result call
		return name == last && idx == 0 && v == ssa.Value(call)
	}
	return ex.Tuple == ssa.Value(call) && ex.Index == idx && (name == last)
}

// isResult reports whether v is result idx of call.
func isResult(v ssa.Value, call *ssa.Call, idx int) bool {
	ex, ok := engine.Unwrap(v).(*ssa.Extract)
	return ok && ex.Tuple == ssa.Value(call) && ex.Index == idx
}

func c33(c *engine.Ctx) {
	sp := c.SSA[dlPkg]
	np := c.MustFunc("C33.R1", dlPkg, "reader.nextPlain")
	nx := c.MustFunc("C33.R3", dlPkg, "reader.next")
	if np == nil || nx == nil {
		return
	}
	// ---- R1
	n1 := 0
	for _, f0 := range allFunctions(c, sp) {
		for _, f := range engine.WithAnon(f0) {
			var ls map[ssa.Instruction]map[string]bool
			engine.Instrs(f, func(i ssa.Instruction) {
				var addr ssa.Value
				switch x := i.(type) {
				case *ssa.Store:
					addr = x.Addr
				case *ssa.UnOp:
					if x.Op == token.MUL {
						addr = x.X
					}
				}
				fa, ok := addr.(*ssa.FieldAddr)
				if !ok || engine.FieldNameOf(fa) != "offset" || !strings.HasSuffix(fa.X.Type().String(), "downloader.reader") {
					return
				}
				if _, fresh := fa.X.(*ssa.Alloc); fresh {
					return
				}
				if ls == nil {
					ls = engine.Locksets(f)
				}
				n1++
				c.Check(ls[i][engine.Describe(fa.X)+".offsetMux"], "C33.R1", engine.FuncID(f)+"/offset#"+ordinal(f, i)+"/lock", i.Pos(), "reader.offset must be accessed under offsetMux")
			})
		}
	}
	// The claim of a part (read the offset, advance it) may live in nextPlain or in
	// a helper of the same receiver whose result nextPlain passes on as the offset
	// (reserveOffset()): cf is the function that contains it, claimCall the call of
	// the helper in nextPlain (nil when the claim is in place).
	cf := np
	var claimCall *ssa.Call
	for _, call := range engine.CallsTo(np, false, "(*telegram/downloader.reader).next") {
		a := engine.Args(call.Common())
		if hc, ok := engine.Unwrap(a[2]).(*ssa.Call); ok {
			if h := hc.Common().StaticCallee(); h != nil && len(h.Blocks) > 0 && h.Pkg == np.Pkg && len(hc.Common().Args) > 0 && engine.Unwrap(hc.Common().Args[0]) == ssa.Value(np.Params[0]) {
				cf, claimCall = h, hc
			}
		}
	}
	recvField := func(f *ssa.Function, v ssa.Value, field string) bool {
		return engine.Describe(v) == "p:"+engine.ParamName(f.Params[0])+"."+field
	}
	// one critical section: a single Lock/Unlock pair around load and store
	{
		locks := engine.CallsTo(cf, false, "(*sync.Mutex).Lock")
		unlocks := engine.CallsTo(cf, false, "(*sync.Mutex).Unlock")
		n1++
		c.Check(len(locks) == 1 && len(unlocks) == 1, "C33.R1", "nextPlain/one-critical-section", np.Pos(), "the read and the advance of the offset must share one critical section (locks %d, unlocks %d)", len(locks), len(unlocks))
	}
	c.Floor("C33.R1", 3, n1)

	// ---- R2
	n2 := 0
	{
		var ld *ssa.UnOp
		var st *ssa.Store
		engine.Instrs(cf, func(i ssa.Instruction) {
			switch x := i.(type) {
			case *ssa.UnOp:
				if x.Op == token.MUL && recvField(cf, x.X, "offset") && ld == nil {
					ld = x
				}
			case *ssa.Store:
				if recvField(cf, x.Addr, "offset") {
					st = x
				}
			}
		})
		okAdv := false
		if st != nil {
			if b, ok := st.Val.(*ssa.BinOp); ok && b.Op == token.ADD {
				for _, p := range [][2]ssa.Value{{b.X, b.Y}, {b.Y, b.X}} {
					if recvField(cf, p[0], "offset") && recvField(cf, p[1], "partSize") {
						okAdv = true
					}
				}
			}
		}
		n2++
		c.Check(okAdv, "C33.R2", "nextPlain/advance-by-part-size", np.Pos(), "the offset must advance by exactly r.partSize")
		for _, call := range engine.CallsTo(np, false, "(*telegram/downloader.reader).next") {
			n2++
			a := engine.Args(call.Common())
			// the offset requested is the value read before the advance: the load
			// itself, or the result of the claim helper, every return of which hands
			// back that load
			okOff := ld != nil && engine.Unwrap(a[2]) == ssa.Value(ld)
			if claimCall != nil && ld != nil && engine.Unwrap(a[2]) == ssa.Value(claimCall) {
				okOff = true
				for _, r := range engine.Returns(cf) {
					if len(r.Results) != 1 || engine.Unwrap(engine.RetVal(r, 0)) != ssa.Value(ld) {
						okOff = false
					}
				}
			}
			c.Check(okOff && recvField(np, a[3], "partSize") && st != nil && engine.Dominates(ld, st), "C33.R2", "nextPlain/requests-claimed-range", call.Pos(), "the chunk requested must start at the offset read before the advance and span r.partSize (requests %s, %s)", engine.Describe(a[2]), engine.Describe(a[3]))
		}
	}
	// ---- R3 reader.next
	var chunkCall *ssa.Call
	for _, call := range engine.Calls(nx) {
		if call.Common().IsInvoke() && call.Common().Method.Name() == "Chunk" {
			chunkCall, _ = call.(*ssa.Call)
		}
	}
	n3 := 0
	if chunkCall == nil {
		c.Fail("C33.R3", "next/chunk-call", nx.Pos(), "reader.next never asks the schema for a chunk")
	} else {
		a := chunkCall.Common().Args
		n3++
		c.Check(engine.Describe(a[1]) == "p:offset" && engine.Describe(a[2]) == "p:limit", "C33.R3", "next/requests-its-arguments", chunkCall.Pos(), "reader.next must request its own (offset, limit)")
		var fw *ssa.Call
		for _, call := range engine.CallsTo(nx, false, "tgerr.FloodWait") {
			fw, _ = call.(*ssa.Call)
		}
		okFW := fw != nil
		if okFW {
			ex, isE := engine.Unwrap(fw.Common().Args[1]).(*ssa.Extract)
			okFW = isE && ex.Tuple == ssa.Value(chunkCall) && ex.Index == 1
		}
		c.Check(okFW, "C33.R3", "next/classifies-chunk-error", nx.Pos(), "the error classified for retry must be the error of this iteration's Chunk call")
		for _, r := range engine.Returns(nx) {
			if !engine.IsNil(engine.RetVal(r, 1)) {
				continue
			}
			n3++
			v := r.Results[0]
			ch := engine.StructFieldValue(v, "chunk")
			off := engine.StructFieldValue(v, "offset")
			okV := ch != nil && off != nil && engine.Describe(off) == "p:offset"
			if okV {
				ex, isE := engine.Unwrap(ch).(*ssa.Extract)
				okV = isE && ex.Tuple == ssa.Value(chunkCall) && ex.Index == 0
			}
			okG := fw != nil && engine.GuardedBy(r, func(k engine.Cmp) bool {
				ex, isE := engine.Unwrap(k.X).(*ssa.Extract)
				return isE && ex.Tuple == ssa.Value(fw) && ex.Index == 1 && engine.IsNil(k.Y) && k.Op == token.EQL
			})
			c.Check(okV && okG, "C33.R3", "next/return#"+ordinal(nx, r)+"/success-carries-chunk", r.Pos(), "a nil-error return must hand on the chunk of the successful request at the requested offset (an empty block with nil error reads as end of file: silent truncation)")
		}
		// loop only on flood || retryable timeout
		n3++
		cyc := false
		if fw != nil {
			isFlood := callBoolExtract(fw, 0, true)
			var rt *ssa.Call
			for _, call := range engine.CallsTo(nx, false, "telegram/downloader.isRetryableTimeout") {
				rt, _ = call.(*ssa.Call)
			}
			// edges on which "flood wait happened" or "retryable timeout" is known — one
			// predicate for both, so that an edge of the disjunction kept in a variable
			// (retry := flood || isRetryableTimeout(…)) counts as well
			transient := func(k engine.Cmp) bool {
				return isFlood(k) || (rt != nil && callBool(rt, true)(k))
			}
			cut := engine.EdgesWhere(nx, transient)
			cyc = len(cut) >= 1 && rt != nil && !(engine.PathQuery{Fn: nx, From: chunkCall, Cut: cut}).Reaches(chunkCall)
		}
		c.Check(cyc, "C33.R3", "next/retries-only-transient", chunkCall.Pos(), "the request may be repeated only after a flood wait or a retryable timeout")
	}
	c.Floor("C33.R2", 2, n2)
	c.Floor("C33.R3", 3, n3)

	// ---- R4 sinks
	n4 := 0
	for _, spec := range []struct{ fn, method string }{{"writeAtLoop", "WriteAt"}, {"writeLoop", "Write"}} {
		fn := c.MustFunc("C33.R4", dlPkg, spec.fn)
		if fn == nil {
			continue
		}
		for _, g := range engine.WithAnon(fn) {
			for _, call := range engine.Calls(g) {
				cc := call.Common()
				if !cc.IsInvoke() || cc.Method.Name() != spec.method {
					continue
				}
				n4++
				d0 := engine.Describe(cc.Args[0])
				ok := strings.HasPrefix(d0, "select#") && strings.HasSuffix(d0, ".data")
				base := strings.TrimSuffix(strings.TrimSuffix(d0, ".data"), ".chunk")
				if spec.method == "WriteAt" {
					ok = ok && engine.Describe(cc.Args[1]) == base+".offset"
				}
				c.Check(ok, "C33.R4", spec.fn+"/writes-received-block", call.Pos(), "the sink must write the received block's data (at that block's offset); writes %s", d0)
				wc := call.(*ssa.Call)
				e := engine.EdgesWhere(g, func(k engine.Cmp) bool {
					ex, isE := engine.Unwrap(k.X).(*ssa.Extract)
					return isE && ex.Tuple == ssa.Value(wc) && ex.Index == 1 && engine.IsNil(k.Y) && k.Op == token.NEQ
				})
				okE := len(e) == 1
				for ed := range e {
					iff := ed[0].Instrs[len(ed[0].Instrs)-1].(*ssa.If)
					okE = okE && engine.RejectEdge(iff, ed[0].Succs[0] == ed[1])
				}
				c.Check(okE, "C33.R4", spec.fn+"/write-error-reported", call.Pos(), "a failed write must end the download with an error")
			}
		}
	}
	c.Floor("C33.R4", 2, n4)

	// ---- R5 producers
	n5 := 0
	for _, name := range []string{"Downloader.stream", "Downloader.parallel"} {
		fn := c.MustFunc("C33.R5", dlPkg, name)
		if fn == nil {
			continue
		}
		// (the producer loop may be a closure of the function or of a helper that
		// builds the worker)
		for _, g := range withHelpers(fn, 1) {
			var nextCall *ssa.Call
			for _, call := range engine.CallsTo(g, false, "(*telegram/downloader.reader).Next") {
				nextCall, _ = call.(*ssa.Call)
			}
			if nextCall == nil {
				continue
			}
			n5++
			isData := func(v ssa.Value) bool { return resultField(v, nextCall, 0, "data") }
			// the drop edge: len(b.data) < 1
			empty := engine.EdgesWhere(g, func(k engine.Cmp) bool {
				call := engine.CallOf(k.X)
				if call == nil || engine.CalleeID(call.Common()) != "builtin.len" || !isData(call.Common().Args[0]) {
					return false
				}
				v, isK := engine.ConstInt(k.Y)
				return isK && ((k.Op == token.LSS && v == 1) || (k.Op == token.LEQ && v == 0) || (k.Op == token.EQL && v == 0))
			})
			var send *ssa.Select
			for _, sel := range selectsOf(g) {
				for _, st := range sel.States {
					if st.Send != nil && engine.DependsOn(st.Send, nextCall) {
						send = sel
					}
				}
			}
			key := name + "/" + g.Name()
			if send == nil || len(empty) != 1 {
				c.Fail("C33.R5", key+"/shape", g.Pos(), "producer loop not recognised: send select %v, empty-block edges %d (the end-of-file test must be len(data) < 1)", send != nil, len(empty))
				continue
			}
			// every path from a successful Next to the send passes the non-empty edge; the empty edge never reaches the send
			for e := range empty {
				c.Check(!(engine.PathQuery{Fn: g, FromBlk: e[1], Barrier: func(i ssa.Instruction) bool { return i == ssa.Instruction(nextCall) }}).Reaches(send), "C33.R5", key+"/empty-block-not-written", send.Pos(), "an empty block marks the end of the file and is not written")
				// and it stops: no path from the empty edge back to Next
				c.Check(!(engine.PathQuery{Fn: g, FromBlk: e[1]}).Reaches(nextCall), "C33.R5", key+"/empty-block-stops", send.Pos(), "an empty block must end this producer")
			}
			// every non-empty block is sent before last() is consulted
			for _, lc := range engine.CallsTo(g, false, "(telegram/downloader.block).last") {
				n5++
				c.Check(engine.Dominates(send, lc), "C33.R5", key+"/written-before-last-check", lc.Pos(), "a short (last) block must be handed to the writer before the producer stops on it")
			}
			// success return of the producer only via empty or last()==true
			lastTrue := map[[2]*ssa.BasicBlock]bool{}
			for _, lc := range engine.CallsTo(g, false, "(telegram/downloader.block).last") {
				for e := range engine.EdgesWhere(g, callBool(lc.(*ssa.Call), true)) {
					lastTrue[e] = true
				}
			}
			cut := map[[2]*ssa.BasicBlock]bool{}
			for e := range empty {
				cut[e] = true
			}
			for e := range lastTrue {
				cut[e] = true
			}
			for _, r := range engine.Returns(g) {
				if !engine.IsNil(engine.RetVal(r, 0)) || !engine.PathExists(nextCall, r) {
					continue
				}
				// a worker that leaves because another worker signalled the end (receive from the
				// shared ready signal) ends at the end of file as well
				viaStop := false
				for _, rv := range recvsOf(g) {
					if strings.Contains(descCell(rv.Chan), "Ready).Ready(") && afterRecv(rv, r) {
						viaStop = true
					}
				}
				if viaStop {
					continue
				}
				n5++
				ok := !(engine.PathQuery{Fn: g, From: nextCall, Cut: cut, Barrier: func(i ssa.Instruction) bool { return i == ssa.Instruction(nextCall) }}).Reaches(r)
				c.Check(ok, "C33.R5", key+"/return#"+ordinal(g, r)+"/ends-only-at-eof", r.Pos(), "a producer may end successfully only after an empty block or a block with last() == true")
			}
		}
	}
	if lf := c.MustFunc("C33.R5", dlPkg, "block.last"); lf != nil {
		// evaluated in the three order classes of len(data) against partSize, however
		// the comparison is spelled
		ok := true
		isLen := func(v ssa.Value) bool {
			d := engine.Describe(v)
			return strings.HasPrefix(d, "builtin.len(p:b.") && strings.HasSuffix(d, "data)")
		}
		isPart := func(v ssa.Value) bool { return engine.Describe(v) == "p:b.partSize" }
		for _, o := range []int{-1, 0, 1} {
			res, err := engine.AbstractRun(lf, func(x, y ssa.Value) (int, bool) {
				switch {
				case isLen(x) && isPart(y):
					return o, true
				case isPart(x) && isLen(y):
					return -o, true
				}
				return 0, false
			})
			if err != nil || res.Bool == nil || *res.Bool != (o < 0) {
				ok = false
			}
		}
		n5++
		c.Check(ok, "C33.R5", "block.last/shorter-than-part", lf.Pos(), "last() must be len(data) < partSize")
	}
	c.Floor("C33.R5", 6, n5)

	// ---- R6 "a chunk shorter than the part size is the end of the file" (R5)
	// is sound only if nothing between the reader and the wire changes what is
	// asked for: master.Chunk sends exactly the offset and limit it was given,
	// and the configured part size reaches the reader as configured.
	n6 := 0
	if mc := c.MustFunc("C33.R6", dlPkg, "master.Chunk"); mc != nil {
		for _, call := range engine.Calls(mc) {
			if !call.Common().IsInvoke() || call.Common().Method.Name() != "UploadGetFile" {
				continue
			}
			req := call.Common().Args[1]
			for f, p := range map[string]int{"Offset": 2, "Limit": 3} {
				n6++
				v := engine.StructFieldValue(req, f)
				c.Check(v != nil && p < len(mc.Params) && engine.Unwrap(v) == ssa.Value(mc.Params[p]), "C33.R6", "master.Chunk/request-"+f+"-as-asked", call.Pos(), "upload.getFile must be sent with the %s the reader asked for (is %s): a clamped or rounded request returns a short chunk, which the readers take for the end of the file", f, engine.Describe(v))
			}
		}
	}
	if wp := c.MustFunc("C33.R6", dlPkg, "Downloader.WithPartSize"); wp != nil {
		for _, st := range fieldStores(wp, "p:d.partSize") {
			n6++
			c.Check(engine.Unwrap(st.Val) == ssa.Value(wp.Params[1]), "C33.R6", "WithPartSize/stored-as-given", st.Pos(), "the part size must be stored as given (is %s): a silently adjusted size (0 for sizes below 4 KiB) makes the first chunk look like the end of the file", engine.Describe(st.Val))
		}
	}
	c.Floor("C33.R6", 3, n6)
}

func c34(c *engine.Ctx) {
	// ---- R1
	n1 := 0
	if nh := c.MustFunc("C34.R1", dlPkg, "reader.nextHashed"); nh != nil {
		var vn, nx, vf *ssa.Call
		for _, call := range engine.Calls(nh) {
			switch engine.CalleeID(call.Common()) {
			case "(*telegram/downloader.verifier).next":
				vn, _ = call.(*ssa.Call)
			case "(*telegram/downloader.reader).next":
				nx, _ = call.(*ssa.Call)
			case "(*telegram/downloader.verifier).verify":
				vf, _ = call.(*ssa.Call)
			}
		}
		if vn == nil || nx == nil || vf == nil {
			c.Fail("C34.R1", "nextHashed/shape", nh.Pos(), "verifier.next / reader.next / verifier.verify calls not all found")
		} else {
			hashD := engine.Describe(vn) + "#0"
			a := engine.Args(nx.Common())
			n1++
			c.Check(engine.Describe(a[2]) == hashD+".Offset" && engine.Describe(a[3]) == hashD+".Limit", "C34.R1", "nextHashed/requests-hash-window", nx.Pos(), "the chunk requested must be exactly the window of the hash taken from the verifier (requests %s, %s)", engine.Describe(a[2]), engine.Describe(a[3]))
			va := engine.Args(vf.Common())
			blkD := engine.Describe(nx) + "#0"
			n1++
			c.Check(isResult(va[1], vn, 0) && resultField(va[2], nx, 0, "data"), "C34.R1", "nextHashed/verifies-that-block-with-that-hash", vf.Pos(), "verify must compare the data of the block just fetched with the hash that defined the request (verifies %s against %s)", engine.Describe(va[2]), engine.Describe(va[1]))
			for _, r := range engine.Returns(nh) {
				v := engine.RetVal(r, 0)
				if !engine.IsNil(engine.RetVal(r, 1)) {
					continue
				}
				if engine.Describe(v) == blkD {
					n1++
					c.Check(engine.GuardedBy(r, callBool(vf, true)), "C34.R1", "nextHashed/return#"+ordinal(nh, r)+"/only-verified", r.Pos(), "a fetched block may be handed on only under verify(...) == true")
				}
			}
			mis := engine.EdgesWhere(nh, callBool(vf, false))
			okM := len(mis) == 1
			for e := range mis {
				for _, r := range engine.Returns(nh) {
					if e[1] == r.Block() || e[1].Dominates(r.Block()) {
						if engine.Describe(engine.RetVal(r, 1)) != "g:telegram/downloader.ErrHashMismatch" {
							okM = false
						}
					}
				}
			}
			n1++
			c.Check(okM, "C34.R1", "nextHashed/mismatch-fails", vf.Pos(), "a block that does not match its hash must fail the download with ErrHashMismatch")
		}
	}
	if vf := c.MustFunc("C34.R1", dlPkg, "verifier.verify"); vf != nil {
		ok := false
		for _, r := range engine.Returns(vf) {
			call := engine.CallOf(r.Results[0])
			if call == nil || engine.CalleeID(call.Common()) != "bytes.Equal" {
				continue
			}
			x, y := call.Common().Args[0], call.Common().Args[1]
			for _, p := range [][2]ssa.Value{{x, y}, {y, x}} {
				if a := sha256Arg(p[0]); a != nil && a == ssa.Value(vf.Params[2]) && engine.Describe(p[1]) == "p:hash.Hash" {
					ok = true
				}
			}
		}
		n1++
		c.Check(ok, "C34.R1", "verifier.verify/sha256-of-whole-data", vf.Pos(), "verify must be bytes.Equal(SHA256(data), hash.Hash) over the whole data argument (hashing a prefix lets extended chunks through)")
	}
	c.Floor("C34.R1", 5, n1)

	// ---- R2
	c34R2(c)
	c34R6(c)
	// ---- R3 wiring
	n3 := 0
	if pc := c.MustFunc("C34.R3", dlPkg, "Builder.prepareCDNPath"); pc != nil {
		for _, call := range engine.CallsTo(pc, false, "telegram/downloader.newCDNSchema") {
			n3++
			d := engine.Describe(call.Common().Args[4])
			c.Check(d == "!p:b.verify" || normAllocs(d) == "!alloc:#1.verify", "C34.R3", "prepareCDNPath/inline-iff-outer-off", call.Pos(), "the CDN schema must verify inline exactly when the outer verifier is off (passes %s)", d)
		}
	}
	if nc := c.MustFunc("C34.R3", dlPkg, "newCDNSchema"); nc != nil {
		ok := false
		for _, r := range engine.Returns(nc) {
			if v := engine.StructFieldValue(r.Results[0], "verify"); v != nil && engine.Describe(v) == "p:verifyCDNInline" {
				ok = true
			}
		}
		n3++
		c.Check(ok, "C34.R3", "newCDNSchema/stores-flag", nc.Pos(), "newCDNSchema must store its inline-verification flag in cdn.verify")
	}
	if rd := c.MustFunc("C34.R3", dlPkg, "Builder.reader"); rd != nil {
		for _, call := range engine.CallsTo(rd, false, "telegram/downloader.verifiedReader") {
			n3++
			c.Check(engine.GuardedBy(call, func(k engine.Cmp) bool {
				b, isB := engine.ConstBool(k.Y)
				return engine.Describe(k.X) == "p:b.verify" && isB && b
			}), "C34.R3", "reader/outer-verifier-iff-verify", call.Pos(), "the verifying reader must be installed exactly when verify is on")
		}
		for _, call := range engine.CallsTo(rd, false, "telegram/downloader.plainReader") {
			n3++
			c.Check(engine.GuardedBy(call, func(k engine.Cmp) bool {
				b, isB := engine.ConstBool(k.Y)
				return engine.Describe(k.X) == "p:b.verify" && isB && !b
			}), "C34.R3", "reader/plain-only-when-verify-off", call.Pos(), "the plain reader may be used only when verify is off")
		}
	}
	c.Floor("C34.R3", 4, n3)

	// ---- R4
	n4 := 0
	if dec := c.MustFunc("C34.R4", dlPkg, "cdn.decrypt"); dec != nil {
		for _, call := range engine.CallsTo(dec, false, "(encoding/binary.bigEndian).PutUint32") {
			n4++
			a := engine.Args(call.Common())
			dst, val := engine.Describe(a[1]), engine.Describe(a[2])
			okV := false
			if b, ok := engine.Unwrap(a[2]).(*ssa.BinOp); ok && b.Op == token.QUO && engine.Describe(b.X) == "p:offset" {
				if k, isK := engine.ConstInt(b.Y); isK && k == 16 {
					okV = true
				}
			}
			c.Check(okV && strings.Contains(dst, " - 4):]"), "C34.R4", "decrypt/counter", call.Pos(), "the CTR counter written to the last 4 IV bytes must be offset/16 (writes %s to %s)", val, dst)
		}
		okIV := false
		for _, call := range engine.CallsTo(dec, false, "builtin.copy") {
			if engine.Describe(call.Common().Args[1]) == "p:redirect.EncryptionIv" {
				okIV = true
			}
		}
		key := false
		for _, call := range engine.CallsTo(dec, false, "crypto/aes.NewCipher") {
			key = engine.Describe(call.Common().Args[0]) == "p:redirect.EncryptionKey"
		}
		n4++
		c.Check(okIV && key, "C34.R4", "decrypt/key-and-iv-of-redirect", dec.Pos(), "the cipher must use the redirect's key and a copy of its IV")
	}
	if bp := c.MustFunc("C34.R4", dlPkg, "buildCDNRequestPlan"); bp != nil {
		grid, _ := constInt(c, dlPkg, "cdnMinChunk")
		rej := func(match func(engine.Cmp) bool) bool {
			for e := range engine.EdgesWhere(bp, match) {
				iff := e[0].Instrs[len(e[0].Instrs)-1].(*ssa.If)
				if engine.RejectEdge(iff, e[0].Succs[0] == e[1]) {
					return true
				}
			}
			return false
		}
		isMod := func(v ssa.Value, p string) bool {
			b, ok := engine.Unwrap(v).(*ssa.BinOp)
			if !ok || b.Op != token.REM || engine.Describe(b.X) != p {
				return false
			}
			k, isK := engine.ConstInt(b.Y)
			return isK && k == grid
		}
		checks := []struct {
			name string
			m    func(engine.Cmp) bool
		}{
			{"limit<=0", func(k engine.Cmp) bool {
				v, isK := engine.ConstInt(k.Y)
				return engine.Describe(k.X) == "p:limit" && isK && ((k.Op == token.LEQ && v == 0) || (k.Op == token.LSS && v == 1))
			}},
			{"offset<0", func(k engine.Cmp) bool {
				v, isK := engine.ConstInt(k.Y)
				return engine.Describe(k.X) == "p:offset" && isK && k.Op == token.LSS && v == 0
			}},
			{"offset-off-grid", func(k engine.Cmp) bool {
				v, isK := engine.ConstInt(k.Y)
				return isMod(k.X, "p:offset") && isK && k.Op == token.NEQ && v == 0
			}},
			{"limit-off-grid", func(k engine.Cmp) bool {
				v, isK := engine.ConstInt(k.Y)
				return isMod(k.X, "p:limit") && isK && k.Op == token.NEQ && v == 0
			}},
			{"step==0", func(k engine.Cmp) bool {
				v, isK := engine.ConstInt(k.Y)
				call := engine.CallOf(k.X)
				return call != nil && engine.CalleeID(call.Common()) == "telegram/downloader.largestCDNValidLimit" && isK && k.Op == token.EQL && v == 0
			}},
		}
		for _, ck := range checks {
			n4++
			c.Check(grid == 4096 && rej(ck.m), "C34.R4", "buildCDNRequestPlan/rejects-"+ck.name, bp.Pos(), "the plan builder must reject %s (grid %d)", ck.name, grid)
		}
		// emitted range and advances use the same step
		var step *ssa.Call
		for _, call := range engine.CallsTo(bp, false, "telegram/downloader.largestCDNValidLimit") {
			step, _ = call.(*ssa.Call)
		}
		okAdv := 0
		engine.Instrs(bp, func(i ssa.Instruction) {
			b, ok := i.(*ssa.BinOp)
			if !ok || step == nil {
				return
			}
			if b.Op == token.ADD && engine.Unwrap(b.Y) == ssa.Value(step) {
				okAdv |= 1
			}
			if b.Op == token.SUB && engine.Unwrap(b.Y) == ssa.Value(step) {
				okAdv |= 2
			}
		})
		okEmit := false
		engine.Instrs(bp, func(i ssa.Instruction) {
			st, ok := i.(*ssa.Store)
			if !ok || step == nil {
				return
			}
			if fa, isFA := st.Addr.(*ssa.FieldAddr); isFA && engine.FieldNameOf(fa) == "limit" && engine.Unwrap(st.Val) == ssa.Value(step) {
				okEmit = true
			}
		})
		n4++
		c.Check(okAdv == 3 && okEmit, "C34.R4", "buildCDNRequestPlan/advance-by-emitted-step", bp.Pos(), "each emitted range {current, step} must advance current by step and reduce remaining by the same step")
	}
	if lv := c.MustFunc("C34.R4", dlPkg, "largestCDNValidLimit"); lv != nil {
		mx, _ := constInt(c, dlPkg, "cdnMaxChunk")
		ok := true
		cnt := 0
		for _, r := range engine.Returns(lv) {
			if k, isK := engine.ConstInt(r.Results[0]); isK && k == 0 {
				continue
			}
			cnt++
			if !engine.GuardedBy(r, func(k engine.Cmp) bool {
				b, isB := engine.Unwrap(k.X).(*ssa.BinOp)
				v, isK := engine.ConstInt(k.Y)
				if !isB || !isK || b.Op != token.REM || v != 0 || k.Op != token.EQL {
					return false
				}
				m, isM := engine.ConstInt(b.X)
				return isM && m == mx && engine.Unwrap(b.Y) == engine.Unwrap(r.Results[0])
			}) {
				ok = false
			}
		}
		n4++
		c.Check(ok && cnt == 1 && mx == 1<<20, "C34.R4", "largestCDNValidLimit/divides-1MiB", lv.Pos(), "a non-zero step may be returned only under 1 MiB %% step == 0")
	}
	c.Floor("C34.R4", 8, n4)

	// ---- R5 cdn.Chunk argument discipline
	n5 := 0
	if ch := c.MustFunc("C34.R5", dlPkg, "cdn.Chunk"); ch != nil {
		for _, call := range engine.CallsTo(ch, false, "(*telegram/downloader.cdn).recoverCDNControlError") {
			n5++
			a := engine.Args(call.Common())
			c.Check(engine.Describe(a[3]) == "p:offset" && engine.Describe(a[4]) == "p:limit", "C34.R5", "Chunk/recover#"+ordinalCall(ch, call)+"/whole-range", call.Pos(), "the master fallback fetched during recovery is returned as the whole chunk, so it must be requested for the function's own (offset, limit) (passes %s, %s)", engine.Describe(a[3]), engine.Describe(a[4]))
		}
		for _, call := range engine.CallsTo(ch, false, "(*telegram/downloader.cdn).verifyChunk") {
			n5++
			a := engine.Args(call.Common())
			c.Check(engine.Describe(a[2]) == "p:offset" && engine.Describe(a[3]) == "p:limit", "C34.R5", "Chunk/verify-whole-range", call.Pos(), "the assembled data must be verified as the chunk at the function's own (offset, limit)")
			// every non-fallback success return is dominated by verifyChunk nil
			vc := call.(*ssa.Call)
			for _, r := range engine.Returns(ch) {
				if !engine.IsNil(engine.RetVal(r, 1)) {
					continue
				}
				d := engine.Describe(engine.RetVal(r, 0))
				if strings.Contains(d, "master") || strings.Contains(d, "recoverCDNControlError") {
					continue
				}
				n5++
				c.Check(engine.GuardedBy(r, func(k engine.Cmp) bool {
					return engine.Unwrap(k.X) == ssa.Value(vc) && engine.IsNil(k.Y) && k.Op == token.EQL
				}), "C34.R5", "Chunk/return#"+ordinal(ch, r)+"/cdn-data-verified", r.Pos(), "data assembled from CDN responses may be returned only after verifyChunk returned nil")
			}
		}
		for _, call := range engine.Calls(ch) {
			cc := call.Common()
			if cc.IsInvoke() && cc.Method.Name() == "UploadGetCDNFile" {
				n5++
				req := cc.Args[1]
				o, l, t := engine.StructFieldValue(req, "Offset"), engine.StructFieldValue(req, "Limit"), engine.StructFieldValue(req, "FileToken")
				okR := o != nil && l != nil && t != nil && strings.HasSuffix(engine.Describe(o), ".offset") && strings.HasSuffix(engine.Describe(l), ".limit") &&
					strings.TrimSuffix(engine.Describe(o), ".offset") == strings.TrimSuffix(engine.Describe(l), ".limit") && strings.Contains(engine.Describe(o), "buildCDNRequestPlan(p:offset, p:limit)") && strings.HasSuffix(engine.Describe(t), ".FileToken")
				c.Check(okR, "C34.R5", "Chunk/requests-plan-range", call.Pos(), "each CDN request must ask for one range of the plan built from (offset, limit): that range's offset and limit, the redirect's token")
			}
		}
		for _, call := range engine.CallsTo(ch, false, "(*telegram/downloader.cdn).decrypt") {
			n5++
			a := engine.Args(call.Common())
			c.Check(strings.HasSuffix(engine.Describe(a[2]), ".offset") && strings.Contains(engine.Describe(a[2]), "buildCDNRequestPlan"), "C34.R5", "Chunk/decrypts-with-range-offset", call.Pos(), "a CDN part must be decrypted with the offset of the range it was requested for (uses %s)", engine.Describe(a[2]))
		}
	}
	c.Floor("C34.R5", 5, n5)
}

// c34R6: the outer verifier hands hash windows to the reader in queue order and the stream
// writer appends blocks in that order, so the queue must be ascending by offset: newVerifier
// and verifier.update sort what they enqueue (comparator evaluated for the three order classes).
func c34R6(c *engine.Ctx) {
	n := 0
	ascending := func(cl *ssa.Function, key string) {
		names := map[int]string{-1: "<", 0: "=", 1: ">"}
		for _, o := range []int{-1, 0, 1} {
			res, err := engine.AbstractRun(cl, func(x, y ssa.Value) (int, bool) {
				sym := func(v ssa.Value) string {
					if !strings.HasSuffix(engine.Describe(v), ".Offset") {
						return ""
					}
					di, dj := engine.DependsOn(v, cl.Params[0]), engine.DependsOn(v, cl.Params[1])
					switch {
					case di && !dj:
						return "I"
					case dj && !di:
						return "J"
					}
					return ""
				}
				sx, sy := sym(x), sym(y)
				switch {
				case sx == "I" && sy == "J":
					return o, true
				case sx == "J" && sy == "I":
					return -o, true
				}
				return 0, false
			})
			n++
			if err != nil || res.Bool == nil {
				c.Undecided("C34.R6", key+"/comparator/class(offset"+names[o]+")", cl.Pos(), "comparator must depend only on Offset_i vs Offset_j: %v", err)
				continue
			}
			c.Check(*res.Bool == (o < 0), "C34.R6", key+"/comparator/class(offset"+names[o]+")", cl.Pos(), "Less with offset_i %s offset_j is %v; ascending offsets require %v", names[o], *res.Bool, o < 0)
		}
	}
	if up := c.MustFunc("C34.R6", dlPkg, "verifier.update"); up != nil {
		var srt ssa.CallInstruction
		for _, call := range engine.CallsTo(up, false, "sort.SliceStable", "sort.Slice") {
			if engine.Describe(call.Common().Args[0]) == "p:hashes" {
				srt = call
			}
		}
		enq := false
		for _, call := range engine.CallsTo(up, false, "builtin.append") {
			if engine.Describe(call.Common().Args[0]) == "p:v.hashes" && engine.Describe(call.Common().Args[1]) == "p:hashes" {
				enq = true
				n++
				c.Check(srt != nil && engine.Dominates(srt, call), "C34.R6", "verifier.update/sorted-before-enqueue", call.Pos(), "a fetched batch of hash windows must be sorted by offset before it is appended to the queue the reader consumes in order")
			}
		}
		c.Check(enq, "C34.R6", "verifier.update/enqueues", up.Pos(), "update must append the fetched windows to the queue")
		if srt != nil {
			if cl := closureOf(srt.Common().Args[1]); cl != nil {
				ascending(cl, "verifier.update")
			}
		}
	}
	if nv := c.MustFunc("C34.R6", dlPkg, "newVerifier"); nv != nil {
		var srt ssa.CallInstruction
		for _, call := range engine.CallsTo(nv, false, "sort.SliceStable", "sort.Slice") {
			srt = call
		}
		ok := false
		if srt != nil {
			for _, r := range engine.Returns(nv) {
				if v := engine.StructFieldValue(r.Results[0], "hashes"); v != nil && engine.Unwrap(v) == engine.Unwrap(srt.Common().Args[0]) && engine.Dominates(srt, r) {
					ok = true
				}
			}
			if cl := closureOf(srt.Common().Args[1]); cl != nil {
				ascending(cl, "newVerifier")
			}
		}
		n++
		c.Check(ok, "C34.R6", "newVerifier/initial-queue-sorted", nv.Pos(), "the initial queue must be the sorted copy of the given hashes")
	}
	if pop := c.MustFunc("C34.R6", dlPkg, "verifier.pop"); pop != nil {
		ok := false
		for _, r := range engine.Returns(pop) {
			if b, isB := engine.ConstBool(engine.RetVal(r, 1)); isB && b && strings.HasPrefix(engine.Describe(engine.RetVal(r, 0)), "p:v.hashes[0]") {
				ok = true
			}
		}
		n++
		c.Check(ok, "C34.R6", "verifier.pop/front-of-queue", pop.Pos(), "pop must hand out the front of the queue")
	}
	c.Floor("C34.R6", 8, n)
}

// hashCheck is one comparison of a SHA256 digest with a hash window's hash:
// bytes.Equal(crypto.SHA256(data), h.Hash) written in place, or a call of a
// same-package predicate whose only return is that comparison over its
// parameters (matchesFileHash(data, h)).
type hashCheck struct {
	at    *ssa.Call // the bytes.Equal call, or the predicate call
	data  ssa.Value // what is hashed, in the caller's terms
	hash  ssa.Value // in-place form: the value the digest is compared with
	owner ssa.Value // predicate form: the FileHash argument whose Hash field is compared
}

// passes / fails: the comparison k holds on an edge where the check succeeded / failed.
func (h hashCheck) passes(k engine.Cmp) bool { return h.outcome(k, true) }
func (h hashCheck) fails(k engine.Cmp) bool  { return h.outcome(k, false) }
func (h hashCheck) outcome(k engine.Cmp, want bool) bool {
	if h.owner == nil {
		return k.Via == h.at && ((k.Op == token.EQL) == want) && (k.Op == token.EQL || k.Op == token.NEQ)
	}
	b, isB := engine.ConstBool(k.Y)
	if !isB || engine.CallOf(k.X) != h.at {
		return false
	}
	switch k.Op {
	case token.EQL:
		return b == want
	case token.NEQ:
		return b != want
	}
	return false
}

func hashChecks(fn *ssa.Function) []hashCheck {
	var out []hashCheck
	for _, ci := range engine.Calls(fn) {
		call, ok := ci.(*ssa.Call)
		if !ok {
			continue
		}
		if engine.CalleeID(call.Common()) == "bytes.Equal" {
			x, y := call.Common().Args[0], call.Common().Args[1]
			for _, p := range [][2]ssa.Value{{x, y}, {y, x}} {
				if a := sha256Arg(p[0]); a != nil {
					out = append(out, hashCheck{at: call, data: a, hash: p[1]})
					break
				}
			}
			continue
		}
		h := call.Common().StaticCallee()
		if h == nil || len(h.Blocks) == 0 || h.Pkg != fn.Pkg || h.Signature.Results().Len() != 1 {
			continue
		}
		rets := engine.Returns(h)
		if len(rets) != 1 {
			continue
		}
		eq := isCallTo(rets[0].Results[0], "bytes.Equal")
		if eq == nil {
			continue
		}
		x, y := eq.Common().Args[0], eq.Common().Args[1]
		for _, p := range [][2]ssa.Value{{x, y}, {y, x}} {
			a := sha256Arg(p[0])
			if a == nil {
				continue
			}
			data := argOfParam(a, call)
			// the other side: field Hash of a parameter
			var owner ssa.Value
			for i, prm := range h.Params {
				if i < len(call.Common().Args) && strings.HasSuffix(descCell(p[1]), engine.ParamName(prm)+".Hash") {
					owner = call.Common().Args[i]
				}
			}
			if data != nil && owner != nil {
				out = append(out, hashCheck{at: call, data: data, owner: owner})
			}
		}
	}
	return out
}

// isResultVal: v is result idx of call, possibly kept in a local.
func isResultVal(v ssa.Value, call *ssa.Call, idx int) bool {
	v = engine.Unwrap(v)
	if ld, ok := v.(*ssa.UnOp); ok && ld.Op == token.MUL {
		if a, isA := ld.X.(*ssa.Alloc); isA {
			if sts := storesTo(a.Parent(), a); len(sts) == 1 {
				v = engine.Unwrap(sts[0].Val)
			}
		}
	}
	return isResult(v, call, idx)
}

func c34R2(c *engine.Ctx) {
	n := 0
	vc := c.MustFunc("C34.R2", dlPkg, "cdn.verifyChunk")
	lw := c.MustFunc("C34.R2", dlPkg, "cdn.loadAndVerifyWindow")
	if vc == nil || lw == nil {
		return
	}
	var hf *ssa.Call
	for _, call := range engine.CallsTo(vc, false, "(*telegram/downloader.cdn).hashForOffset") {
		hf, _ = call.(*ssa.Call)
	}
	if hf == nil {
		c.Fail("C34.R2", "verifyChunk/hash-lookup", vc.Pos(), "verifyChunk never looks up the hash window of the current offset")
		return
	}
	// comparisons
	pass := map[[2]*ssa.BasicBlock]bool{}
	for k, hc := range hashChecks(vc) {
		hc := hc
		call := hc.at
		okShape := false
		sl, isSl := engine.Unwrap(hc.data).(*ssa.Slice)
		if isSl && engine.Unwrap(sl.X) == ssa.Value(vc.Params[4]) {
			if hc.owner == nil {
				okShape = resultField(hc.hash, hf, 0, "Hash")
			} else {
				okShape = isResultVal(hc.owner, hf, 0)
			}
		}
		n++
		ord := strconv.Itoa(k)
		c.Check(okShape, "C34.R2", "verifyChunk/compare#"+ord+"/sha256-of-chunk-slice-vs-window-hash", call.Pos(), "each comparison must be SHA256 over a slice of the chunk against the hash of the current window")
		// mismatch edge rejects. engine.Guard normalises bytes.Equal to ==/!=
		mism := engine.EdgesWhere(vc, hc.fails)
		okRej := len(mism) == 1
		for e := range mism {
			iff := e[0].Instrs[len(e[0].Instrs)-1].(*ssa.If)
			okRej = okRej && engine.RejectEdge(iff, e[0].Succs[0] == e[1])
		}
		c.Check(okRej, "C34.R2", "verifyChunk/compare#"+ord+"/mismatch-fails", call.Pos(), "a mismatching window must fail the chunk with a non-nil error")
		for e := range engine.EdgesWhere(vc, hc.passes) {
			pass[e] = true
		}
	}
	// window path: loadAndVerifyWindow err == nil, then copy into data
	for _, call := range engine.CallsTo(vc, false, "(*telegram/downloader.cdn).loadAndVerifyWindow") {
		lc := call.(*ssa.Call)
		n++
		c.Check(isResult(engine.Args(lc.Common())[2], hf, 0), "C34.R2", "verifyChunk/window-of-current-hash", call.Pos(), "the window loaded must be the one of the current hash")
		okCopy := false
		for _, cp := range engine.CallsTo(vc, false, "builtin.copy") {
			dst, isSl := engine.Unwrap(cp.Common().Args[0]).(*ssa.Slice)
			if isSl && engine.Unwrap(dst.X) == ssa.Value(vc.Params[4]) && engine.DependsOn(cp.Common().Args[1], lc) && engine.Dominates(lc, cp) {
				okCopy = true
				for e := range engine.EdgesWhere(vc, func(k engine.Cmp) bool {
					ex, isE := engine.Unwrap(k.X).(*ssa.Extract)
					return isE && ex.Tuple == ssa.Value(lc) && ex.Index == 1 && engine.IsNil(k.Y) && k.Op == token.EQL
				}) {
					// the verified edge counts only together with the copy: use the copy as barrier below
					_ = e
				}
			}
		}
		c.Check(okCopy, "C34.R2", "verifyChunk/verified-window-patched-in", call.Pos(), "bytes of a window that crosses the chunk must be replaced by the verified window's bytes")
	}
	// the cursor: starts at the chunk offset and moves to the END of the window just handled
	// (window.Offset + window.Limit); advancing by the window's length from wherever the cursor was
	// skips the windows behind a chunk that starts inside a window
	{
		cur := engine.Args(hf.Common())[2]
		phi, isPhi := cur.(*ssa.Phi)
		n++
		if !isPhi {
			c.Fail("C34.R2", "verifyChunk/cursor", hf.Pos(), "the window cursor is not a loop variable (is %s)", engine.Describe(cur))
		} else {
			okInit, okStep := false, true
			for _, e := range phi.Edges {
				if engine.Describe(e) == "p:offset" {
					okInit = true
					continue
				}
				b, isB := e.(*ssa.BinOp)
				if !isB || b.Op != token.ADD {
					okStep = false
					continue
				}
				unconv := func(v ssa.Value) ssa.Value {
					if cv, ok := v.(*ssa.Convert); ok {
						return cv.X
					}
					return v
				}
				a, d := unconv(b.X), unconv(b.Y)
				if !((resultField(a, hf, 0, "Offset") && resultField(d, hf, 0, "Limit")) || (resultField(d, hf, 0, "Offset") && resultField(a, hf, 0, "Limit"))) {
					okStep = false
				}
			}
			c.Check(okInit && okStep, "C34.R2", "verifyChunk/cursor-moves-to-window-end", hf.Pos(), "the cursor must start at the chunk offset and continue at hash.Offset + hash.Limit of the window just verified (is %s)", engine.Describe(cur))
		}
	}
	// every trip round the loop passes a verification
	isPatch := func(i ssa.Instruction) bool {
		cp, ok := i.(ssa.CallInstruction)
		if !ok || engine.CalleeID(cp.Common()) != "builtin.copy" {
			return false
		}
		dst, isSl := engine.Unwrap(cp.Common().Args[0]).(*ssa.Slice)
		return isSl && engine.Unwrap(dst.X) == ssa.Value(vc.Params[4]) && strings.Contains(engine.Describe(cp.Common().Args[1]), "loadAndVerifyWindow")
	}
	n++
	c.Check(len(pass) >= 2 && !(engine.PathQuery{Fn: vc, From: hf, Cut: pass, Barrier: isPatch}).Reaches(hf), "C34.R2", "verifyChunk/every-window-verified", hf.Pos(), "every iteration over a hash window must pass a successful comparison or the patch-in of a verified window before the next window is looked up")
	for _, r := range engine.Returns(vc) {
		if !engine.IsNil(engine.RetVal(r, 0)) || !engine.PathExists(hf, r) {
			continue
		}
		n++
		ok := !(engine.PathQuery{Fn: vc, From: hf, Cut: pass, Barrier: func(i ssa.Instruction) bool { return isPatch(i) || i == ssa.Instruction(hf) }}).Reaches(r)
		// the loop-exhausted return is reached from the loop head after complete iterations: allow when reached only via hf-barrier paths
		c.Check(ok, "C34.R2", "verifyChunk/return#"+ordinal(vc, r)+"/after-verification", r.Pos(), "success may be reported only after the windows visited were verified")
	}
	// loadAndVerifyWindow closure
	for _, g := range engine.WithAnon(lw) {
		if g == lw {
			continue
		}
		hcs := hashChecks(g)
		if len(hcs) == 0 {
			c.Fail("C34.R2", "loadAndVerifyWindow/compares", g.Pos(), "the window loader never compares a hash")
			continue
		}
		hc := hcs[len(hcs)-1]
		eq := hc.at
		n++
		okShape := false
		var dataV ssa.Value
		if a := hc.data; strings.HasSuffix(engine.Describe(a), "#0.data") && strings.Contains(engine.Describe(a), ".Chunk(") {
			if (hc.owner == nil && strings.HasSuffix(descCell(hc.hash), "hash.Hash")) || (hc.owner != nil && strings.HasSuffix(descCell(hc.owner), "hash")) {
				okShape = true
				dataV = a
			}
		}
		c.Check(okShape, "C34.R2", "loadAndVerifyWindow/sha256-of-full-window", eq.Pos(), "the loader must compare SHA256 of the fetched window with the window's hash")
		for _, r := range engine.Returns(g) {
			if !engine.IsNil(engine.RetVal(r, 1)) {
				continue
			}
			v := engine.RetVal(r, 0)
			if dataV != nil && engine.Describe(v) == engine.Describe(dataV) {
				n++
				c.Check(engine.GuardedBy(r, hc.passes), "C34.R2", "loadAndVerifyWindow/return#"+ordinal(g, r)+"/only-verified", r.Pos(), "fetched window bytes may be handed out only after the hash matched")
			}
		}
		for _, cw := range engine.CallsTo(g, false, "(*telegram/downloader.cdn).cacheWindow") {
			n++
			c.Check(engine.GuardedBy(cw, hc.passes), "C34.R2", "loadAndVerifyWindow/caches-only-verified", cw.Pos(), "only verified windows may enter the cache")
		}
	}
	// cacheWindow has no other caller
	cwf := c.Func(dlPkg, "cdn.cacheWindow")
	if cwf != nil {
		for _, f0 := range allFunctions(c, c.SSA[dlPkg]) {
			for _, f := range engine.WithAnon(f0) {
				for _, call := range engine.Calls(f) {
					if call.Common().StaticCallee() == cwf {
						in := f.Parent() == lw
						n++
						c.Check(in, "C34.R2", engine.FuncID(f)+"/calls-cacheWindow", call.Pos(), "the verified-window cache may be filled only by loadAndVerifyWindow")
					}
				}
			}
		}
	}
	c.Floor("C34.R2", 8, n)
}
