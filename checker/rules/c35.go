package rules

import (
	"fmt"
	"go/token"
	"go/types"
	"strings"

	"golang.org/x/tools/go/ssa"

	"tdverif/checker/engine"
)

// C35 — entity offsets and lengths are correct UTF-16 ranges (structural
// clauses: the UTF-16 accounting invariant of entity.Builder and the origin of
// every offset/length an entity is built from).
const entPkg = "telegram/message/entity"

func init() {
	register("C35", []string{entPkg}, func(c *engine.Ctx) {
		c.Explain("C35 (structural clauses only): (R1, accounting invariant) b.utf16length is the UTF-16 length of b.message: every function that writes text into b.message adds, on every path, the UTF-16 length of exactly the argument it wrote (Write: ComputeLengthBytes(s), WriteString: ComputeLength(s), WriteRune: utf16RuneLen(r), WriteByte: 1); nothing else stores the field except Reset, which clears both; nothing outside these functions writes b.message. (R2, unit) utf16RuneLen evaluated on all 5 order classes of a rune against {0x10000, 0x10FFFF} is 2 exactly inside the supplementary planes and 1 otherwise (exhaustive); ComputeLength and ComputeLengthBytes sum utf16RuneLen over every decoded rune of their argument, advancing by the decoded size. (R3, origins) appendMessage passes offset = b.utf16length read before the text is written and length = ComputeLength of the very string it then writes; Token() records UTF16Len(), Token.Apply passes the recorded offset and UTF16Len() − offset; appendEntities hands its own (offset, length) to every formatter. (R4, constructors) every Formatter closure of the package puts its first parameter in Offset and its second in Length. (R5, trim) fixEntities changes lengths only in entities[lastFormatIndex:], to ComputeLength of the right-trimmed last block, only when that block reaches the end of the message, and cuts the message at the same point.")
		c.NotCover("the numeric statement itself (that the produced ranges equal the pieces for arbitrary Unicode); WriteByte with a non-ASCII byte (counts one unit per byte) and, in general, chunks that end inside a rune — UTF-16 length is not additive over such chunks (finding F37b under C37.R4); external callers of appendEntities via Token with a foreign builder; telegram/message/styling")
		c35(c)
	})
}

func c35(c *engine.Ctx) {
	sp := c.SSA[entPkg]
	if sp == nil {
		c.Undecided("C35", "anchor:package", 0, "package %s not loaded", entPkg)
		return
	}
	// ---- R1 accounting
	unit := map[string]string{
		"(*strings.Builder).Write":       "telegram/message/entity.ComputeLengthBytes",
		"(*strings.Builder).WriteString": "telegram/message/entity.ComputeLength",
		"(*strings.Builder).WriteRune":   "telegram/message/entity.utf16RuneLen",
		"(*strings.Builder).WriteByte":   "1",
	}
	n1 := 0
	for _, f := range allFunctions(c, sp) {
		for _, g := range engine.WithAnon(f) {
			var writes []ssa.CallInstruction
			for _, call := range engine.Calls(g) {
				id := engine.CalleeID(call.Common())
				if !strings.HasPrefix(id, "(*strings.Builder).") {
					continue
				}
				recv := engine.Describe(engine.Args(call.Common())[0])
				if !strings.HasSuffix(recv, ".message") {
					continue
				}
				switch id {
				case "(*strings.Builder).Len", "(*strings.Builder).String", "(*strings.Builder).Grow", "(*strings.Builder).Cap":
				case "(*strings.Builder).Reset":
					n1++
					ok := false
					for _, st := range fieldStores(g, strings.TrimSuffix(recv, ".message")+".utf16length") {
						if k, isK := engine.ConstInt(st.Val); isK && k == 0 && coversExits(st, call) {
							ok = true
						}
					}
					c.Check(ok, "C35.R1", engine.FuncID(g)+"/reset-clears-both", call.Pos(), "a function that clears b.message must set b.utf16length = 0 on every path")
				default:
					if _, known := unit[id]; !known {
						n1++
						c.Fail("C35.R1", engine.FuncID(g)+"/"+engine.Short(id), call.Pos(), "b.message is modified through %s, for which no accounting rule exists", id)
						continue
					}
					writes = append(writes, call)
				}
			}
			stores := fieldStoresSuffix(g, ".utf16length")
			if len(writes) == 0 {
				for _, st := range stores {
					if k, isK := engine.ConstInt(st.Val); isK && k == 0 {
						continue // Reset, decided above
					}
					n1++
					c.Fail("C35.R1", engine.FuncID(g)+"/utf16length#"+ordinal(g, st), st.Pos(), "b.utf16length is changed in a function that does not write b.message")
				}
				continue
			}
			n1++
			key := engine.FuncID(g) + "/adds-length-of-what-it-writes"
			if len(writes) != 1 || len(stores) != 1 {
				c.Fail("C35.R1", key, g.Pos(), "one write to b.message paired with one update of b.utf16length expected (writes: %d, updates: %d)", len(writes), len(stores))
				continue
			}
			w, st := writes[0], stores[0]
			id := engine.CalleeID(w.Common())
			arg := engine.Args(w.Common())[1]
			add, isAdd := st.Val.(*ssa.BinOp)
			ok := isAdd && add.Op == token.ADD && engine.Describe(add.X) == engine.Describe(st.Addr) && !engine.InCycle(st)
			if ok {
				if unit[id] == "1" {
					k, isK := engine.ConstInt(add.Y)
					ok = isK && k == 1
				} else {
					u := engine.CallOf(add.Y)
					ok = u != nil && engine.CalleeID(u.Common()) == unit[id] && engine.Unwrap(u.Common().Args[0]) == engine.Unwrap(arg)
				}
			}
			// the update happens whenever the write happened
			for _, r := range exits(g) {
				if (engine.PathQuery{Fn: g, From: w, Barrier: func(i ssa.Instruction) bool { return i == ssa.Instruction(st) }}).Reaches(r) {
					ok = false
				}
			}
			ok = ok && engine.Dominates(w, st)
			c.Check(ok, "C35.R1", key, w.Pos(), "after %s the function must add %s of the same argument to b.utf16length on every path (update is %s)", engine.Short(id), unit[id], engine.Describe(st.Val))
		}
	}
	c.Floor("C35.R1", 5, n1)

	// ---- R2 unit
	n2 := 0
	if rl := c.MustFunc("C35.R2", entPkg, "utf16RuneLen"); rl != nil {
		type cls struct {
			name string
			v    int64
			want int64
		}
		for _, k := range []cls{{"below-0x10000", 0xFFFF, 1}, {"0x10000", 0x10000, 2}, {"supplementary", 0x2F000, 2}, {"0x10FFFF", 0x10FFFF, 2}, {"above-0x10FFFF", 0x110000, 1}, {"negative", -1, 1}} {
			k := k
			n2++
			res, err := engine.AbstractRun(rl, func(x, y ssa.Value) (int, bool) {
				val := func(v ssa.Value) (int64, bool) {
					if engine.Unwrap(v) == ssa.Value(rl.Params[0]) {
						return k.v, true
					}
					return engine.ConstInt(v)
				}
				a, ok1 := val(x)
				b, ok2 := val(y)
				if !ok1 || !ok2 {
					return 0, false
				}
				return cmp64(a, b), true
			})
			if err != nil {
				c.Undecided("C35.R2", "utf16RuneLen/"+k.name, rl.Pos(), "abstract evaluation failed: %v", err)
				continue
			}
			got, isK := engine.ConstInt(engine.RetValOnPath(res, 0))
			c.Check(isK && got == k.want, "C35.R2", "utf16RuneLen/"+k.name, res.Ret.Pos(), "a rune in class %s takes %d UTF-16 code unit(s); the function says %d", k.name, k.want, got)
		}
		c.Extra["exhaustive_R2"] = true
	}
	for _, name := range []string{"ComputeLength", "ComputeLengthBytes"} {
		fn := c.MustFunc("C35.R2", entPkg, name)
		if fn == nil {
			continue
		}
		n2++
		ok, why := c35SumsRunes(fn)
		c.Check(ok, "C35.R2", name+"/sums-every-rune", fn.Pos(), "%s", why)
	}
	c.Floor("C35.R2", 8, n2)

	// ---- R3 origins
	n3 := 0
	if am := c.MustFunc("C35.R3", entPkg, "Builder.appendMessage"); am != nil {
		var ae, ws *ssa.Call
		for _, call := range engine.Calls(am) {
			switch engine.CalleeID(call.Common()) {
			case "(*telegram/message/entity.Builder).appendEntities":
				ae, _ = call.(*ssa.Call)
			case "(*telegram/message/entity.Builder).WriteString":
				ws, _ = call.(*ssa.Call)
			}
		}
		n3++
		ok := ae != nil && ws != nil
		if ok {
			a := ae.Common().Args
			off, isLoad := engine.Unwrap(a[1]).(*ssa.UnOp)
			ln := engine.CallOf(a[2])
			ok = isLoad && engine.Describe(off) == "p:b.utf16length" && engine.Dominates(off, ws) &&
				ln != nil && engine.CalleeID(ln.Common()) == "telegram/message/entity.ComputeLength" &&
				engine.Unwrap(ln.Common().Args[0]) == engine.Unwrap(ws.Common().Args[1]) && engine.Unwrap(ws.Common().Args[1]) == ssa.Value(am.Params[1]) &&
				engine.Unwrap(ws.Common().Args[0]) == ssa.Value(am.Params[0]) && engine.Unwrap(a[0]) == ssa.Value(am.Params[0])
			// no text is written between reading the offset and the write of s
			if ok {
				for _, call := range engine.Calls(am) {
					id := engine.CalleeID(call.Common())
					if call != ssa.CallInstruction(ws) && (strings.HasPrefix(id, "(*telegram/message/entity.Builder).Write") || strings.HasPrefix(id, "(*strings.Builder).Write")) {
						ok = false
					}
				}
				// both happen together
				for _, r := range exits(am) {
					if (engine.PathQuery{Fn: am, From: ae, Barrier: func(i ssa.Instruction) bool { return i == ssa.Instruction(ws) }}).Reaches(r) {
						ok = false
					}
				}
			}
		}
		c.Check(ok, "C35.R3", "appendMessage/offset-before-write-length-of-written", am.Pos(), "the entity must start at b.utf16length as it was before the text is written and span ComputeLength of exactly the string that is then written")
	}
	if tk := c.MustFunc("C35.R3", entPkg, "Builder.Token"); tk != nil {
		for _, r := range engine.Returns(tk) {
			n3++
			v := engine.CallOf(engine.StructFieldValue(r.Results[0], "utf16offset"))
			u := engine.CallOf(engine.StructFieldValue(r.Results[0], "utf8offset"))
			c.Check(v != nil && engine.CalleeID(v.Common()) == "(*telegram/message/entity.Builder).UTF16Len" && u != nil && engine.CalleeID(u.Common()) == "(*telegram/message/entity.Builder).UTF8Len", "C35.R3", "Token/records-current-lengths", r.Pos(), "Token must record UTF16Len() as utf16offset and UTF8Len() as utf8offset")
		}
	}
	for name, field := range map[string]string{"Builder.UTF16Len": "p:b.utf16length"} {
		if fn := c.MustFunc("C35.R3", entPkg, name); fn != nil {
			for _, r := range engine.Returns(fn) {
				n3++
				c.Check(engine.Describe(r.Results[0]) == field, "C35.R3", name+"/returns-counter", r.Pos(), "%s must return %s", name, field)
			}
		}
	}
	if ul := c.MustFunc("C35.R3", entPkg, "Token.UTF16Length"); ul != nil {
		for _, r := range engine.Returns(ul) {
			n3++
			sub, isSub := r.Results[0].(*ssa.BinOp)
			ok := isSub && sub.Op == token.SUB && engine.Describe(sub.Y) == "p:t.utf16offset"
			if ok {
				cur := engine.CallOf(sub.X)
				ok = cur != nil && engine.CalleeID(cur.Common()) == "(*telegram/message/entity.Builder).UTF16Len"
			}
			c.Check(ok, "C35.R3", "Token.UTF16Length/current-minus-recorded", r.Pos(), "UTF16Length must be builder.UTF16Len() − t.utf16offset")
		}
	}
	if apl := c.MustFunc("C35.R3", entPkg, "Token.Apply"); apl != nil {
		for _, call := range engine.CallsTo(apl, false, "(*telegram/message/entity.Builder).appendEntities") {
			n3++
			a := call.Common().Args
			ln := engine.CallOf(a[2])
			ok := engine.Describe(a[1]) == "p:t.utf16offset" && ln != nil && engine.CalleeID(ln.Common()) == "(telegram/message/entity.Token).UTF16Length" && engine.Unwrap(ln.Common().Args[1]) == engine.Unwrap(a[0])
			c.Check(ok, "C35.R3", "Token.Apply/recorded-offset-and-length-since", call.Pos(), "Apply must pass the recorded UTF-16 offset and the UTF-16 length written since, of the same builder")
		}
	}
	if ae := c.MustFunc("C35.R3", entPkg, "Builder.appendEntities"); ae != nil {
		dyn := 0
		for _, call := range engine.Calls(ae) {
			cc := call.Common()
			if cc.StaticCallee() != nil || cc.IsInvoke() {
				continue
			}
			if _, isB := cc.Value.(*ssa.Builtin); isB {
				continue
			}
			dyn++
			n3++
			ok := len(cc.Args) == 2 && cc.Args[0] == ssa.Value(ae.Params[1]) && cc.Args[1] == ssa.Value(ae.Params[2])
			c.Check(ok, "C35.R3", "appendEntities/formatter-gets-offset-length#"+ordinalCall(ae, call), call.Pos(), "every formatter must be called with (offset, length) as received")
		}
		if dyn == 0 {
			c.Fail("C35.R3", "appendEntities/formatter-call", ae.Pos(), "appendEntities does not call the formatters")
		}
	}
	c.Floor("C35.R3", 6, n3)

	// ---- R4 constructors
	n4 := 0
	for _, f := range allFunctions(c, sp) {
		for _, g := range engine.WithAnon(f) {
			if g == f || g.Signature.Params().Len() != 2 || g.Signature.Results().Len() != 1 {
				continue
			}
			if nm, ok := g.Signature.Results().At(0).Type().(*types.Named); !ok || nm.Obj().Name() != "MessageEntityClass" {
				continue
			}
			for _, r := range engine.Returns(g) {
				n4++
				off, ln := engine.StructFieldValue(r.Results[0], "Offset"), engine.StructFieldValue(r.Results[0], "Length")
				ok := off == ssa.Value(g.Params[0]) && ln == ssa.Value(g.Params[1])
				c.Check(ok, "C35.R4", engine.FuncID(g)+"/offset-length-in-place", r.Pos(), "a formatter must build its entity with Offset = first parameter and Length = second parameter (Offset: %s, Length: %s)", engine.Describe(off), engine.Describe(ln))
			}
		}
	}
	c.Floor("C35.R4", 20, n4)

	// ---- R5 trim
	c35Trim(c, "C35.R5")
	_ = fmt.Sprint
}

// c35Trim decides the trailing-space trim of Builder.fixEntities under the
// given rule id (C37.R3 shares it: after Complete every entity lies inside the
// trimmed text).
func c35Trim(c *engine.Ctx, rule string) {
	n5 := 0
	if fx := c.MustFunc(rule, entPkg, "Builder.fixEntities"); fx != nil {
		var trim *ssa.Call
		for _, call := range engine.CallsTo(fx, false, "strings.TrimRightFunc") {
			trim, _ = call.(*ssa.Call)
		}
		sets := engine.CallsTo(fx, false, "telegram/message/entity.setLength")
		n5++
		ok := trim != nil && len(sets) > 0
		var lastBlock ssa.Value
		if ok {
			lastBlock = trim.Common().Args[0]
			sl, isSl := engine.Unwrap(lastBlock).(*ssa.Slice)
			ok = isSl && sl.High == nil && engine.Unwrap(sl.X) == ssa.Value(fx.Params[1]) && strings.HasSuffix(engine.Describe(sl.Low), ".offset") && strings.Contains(engine.Describe(sl.Low), "p:b.lengths[(builtin.len(p:b.lengths) - 1)]") &&
				strings.HasSuffix(engine.Describe(trim.Common().Args[1]), "unicode.IsSpace")
		}
		c.Check(ok, rule, "fixEntities/trims-trailing-space-of-last-block", fx.Pos(), "the block trimmed must be msg[lastEntity.offset:] right-trimmed with unicode.IsSpace")
		// the cut message and its UTF-16 length
		var cut *ssa.Slice
		engine.Instrs(fx, func(i ssa.Instruction) {
			if sl, ok := i.(*ssa.Slice); ok && sl.Low == nil && engine.Unwrap(sl.X) == ssa.Value(fx.Params[1]) {
				if add, isAdd := sl.High.(*ssa.BinOp); isAdd && add.Op == token.ADD {
					if lc := engine.CallOf(add.Y); lc != nil && engine.CalleeID(lc.Common()) == "builtin.len" && trim != nil && engine.CallOf(lc.Common().Args[0]) == trim && strings.HasSuffix(engine.Describe(add.X), ".offset") {
						cut = sl
					}
				}
			}
		})
		for _, call := range sets {
			n5++
			a := call.Common().Args
			// every entity reaching past the cut is shortened: the loop runs
			// over the whole entity list (nested entities, and the reordering
			// done by ShrinkPreCode, put such entities anywhere in it), and the
			// new length is measured against the UTF-16 length of the cut text
			whole := engine.Unwrap(a[2]) == ssa.Value(fx.Params[2])
			idxOK, _ := c39RangeIndex(a[0], fx.Params[2])
			var end *ssa.Call
			for _, cl := range engine.CallsTo(fx, false, "telegram/message/entity.ComputeLength") {
				if cc, _ := cl.(*ssa.Call); cc != nil && cut != nil && engine.Unwrap(cc.Common().Args[0]) == ssa.Value(cut) {
					end = cc
				}
			}
			valOK := end != nil && engine.DependsOn(a[1], end)
			okS := whole && idxOK && valOK
			if !whole {
				c.Check(false, rule, "fixEntities/setLength#"+ordinalCall(fx, call)+"/covers-every-entity-past-the-cut", call.Pos(), "after the message is cut, only %s is shortened: any other entity that reaches into the trimmed tail (a nested entity, or any entity once ShrinkPreCode has reordered the list) keeps a range that ends beyond the text", engine.Describe(a[2]))
				continue
			}
			// only when the last entity reaches the end of the message
			okG := lastBlock != nil && engine.GuardedBy(call, func(k engine.Cmp) bool {
				for _, q := range []engine.Cmp{k, k.Swap()} {
					if strings.HasSuffix(engine.Describe(q.X), ".length") && strings.Contains(engine.Describe(q.X), "p:b.lengths[") && q.Op == token.GEQ {
						if lc := engine.CallOf(q.Y); lc != nil && engine.CalleeID(lc.Common()) == "builtin.len" && engine.Describe(lc.Common().Args[0]) == engine.Describe(lastBlock) {
							return true
						}
					}
				}
				return false
			})
			// only entities that really end beyond the cut are touched
			okE := end != nil && engine.GuardedBy(call, func(k engine.Cmp) bool {
				for _, q := range []engine.Cmp{k, k.Swap()} {
					sum, isSum := engine.Unwrap(q.X).(*ssa.BinOp)
					if !isSum || sum.Op != token.ADD || engine.CallOf(q.Y) != end || q.Op != token.GTR {
						continue
					}
					m := map[string]bool{}
					for _, s := range []ssa.Value{sum.X, sum.Y} {
						if g := engine.CallOf(s); g != nil && g.Common().IsInvoke() {
							m[g.Common().Method.Name()] = true
						}
					}
					if m["GetOffset"] && m["GetLength"] {
						return true
					}
				}
				return false
			})
			c.Check(okS && okG && okE, rule, "fixEntities/setLength#"+ordinalCall(fx, call), call.Pos(), "a length may be rewritten only for an entity with offset+length beyond the UTF-16 length of the cut text, in a loop over the whole list, to a value derived from that length, and only when the last block reaches the end of the message (loop/value: %v, end-of-message guard: %v, beyond-the-cut guard: %v)", okS, okG, okE)
		}
		// an entity that *starts* in the trimmed tail (it formatted only the
		// whitespace that was cut) cannot be repaired by its length alone: its
		// offset must be brought back to the end of the text as well
		n5++
		var endCall *ssa.Call
		for _, cl := range engine.CallsTo(fx, false, "telegram/message/entity.ComputeLength") {
			if cc, _ := cl.(*ssa.Call); cc != nil && cut != nil && engine.Unwrap(cc.Common().Args[0]) == ssa.Value(cut) {
				endCall = cc
			}
		}
		moved := false
		for _, call := range engine.CallsTo(fx, false, "telegram/message/entity.setOffset") {
			a := call.Common().Args
			idxOK, _ := c39RangeIndex(a[0], fx.Params[2])
			if !idxOK || engine.Unwrap(a[2]) != ssa.Value(fx.Params[2]) || endCall == nil || !engine.DependsOn(a[1], endCall) {
				continue
			}
			if engine.GuardedBy(call, func(k engine.Cmp) bool {
				for _, q := range []engine.Cmp{k, k.Swap()} {
					// end - start < 0   or   start > end
					if sub, isSub := engine.Unwrap(q.X).(*ssa.BinOp); isSub && sub.Op == token.SUB && engine.CallOf(sub.X) == endCall && q.Op == token.LSS {
						if z, isK := engine.ConstInt(q.Y); isK && z == 0 {
							return true
						}
					}
					if engine.CallOf(q.Y) == endCall && q.Op == token.GTR {
						if g := engine.CallOf(q.X); g != nil && g.Common().IsInvoke() && g.Common().Method.Name() == "GetOffset" {
							return true
						}
					}
				}
				return false
			}) {
				moved = true
			}
		}
		c.Check(moved, rule, "fixEntities/entity-starting-in-the-tail-is-moved", fx.Pos(), "an entity whose offset lies beyond the cut must get its offset set to the UTF-16 length of the cut text (it would otherwise start outside the text, whatever its length)")
		// the message is cut at offset + len(trimmed)
		for _, r := range engine.Returns(fx) {
			sl, isSl := engine.Unwrap(r.Results[0]).(*ssa.Slice)
			if !isSl {
				if phi, isPhi := r.Results[0].(*ssa.Phi); isPhi {
					for _, e := range phi.Edges {
						if s2, ok2 := engine.Unwrap(e).(*ssa.Slice); ok2 {
							sl, isSl = s2, true
						}
					}
				}
			}
			if !isSl {
				continue
			}
			n5++
			okC := sl.Low == nil && engine.Unwrap(sl.X) == ssa.Value(fx.Params[1])
			if add, isAdd := sl.High.(*ssa.BinOp); okC && isAdd && add.Op == token.ADD {
				lc := engine.CallOf(add.Y)
				okC = strings.HasSuffix(engine.Describe(add.X), ".offset") && lc != nil && engine.CalleeID(lc.Common()) == "builtin.len" && engine.CallOf(lc.Common().Args[0]) == trim
			} else {
				okC = false
			}
			c.Check(okC, rule, "fixEntities/message-cut-where-lengths-end", r.Pos(), "the message must be cut at offset + len(trimmed), the point the rewritten lengths describe")
		}
	}
	c.Floor(rule, 3, n5)
}

// fieldStoresSuffix lists the stores of fn whose address description ends with suffix.
func fieldStoresSuffix(fn *ssa.Function, suffix string) []*ssa.Store {
	var out []*ssa.Store
	engine.Instrs(fn, func(i ssa.Instruction) {
		if st, ok := i.(*ssa.Store); ok && strings.HasSuffix(engine.Describe(st.Addr), suffix) {
			out = append(out, st)
		}
	})
	return out
}

// c35SumsRunes: fn returns an accumulator that starts at 0 and grows by
// utf16RuneLen of each rune decoded from the parameter — a range over the
// string, or utf8.DecodeRune(s[i:]) with i advanced by the decoded size.
func c35SumsRunes(fn *ssa.Function) (bool, string) {
	calls := engine.CallsTo(fn, false, "telegram/message/entity.utf16RuneLen")
	if len(calls) != 1 {
		return false, fmt.Sprintf("exactly one utf16RuneLen call expected, found %d", len(calls))
	}
	u := calls[0].(*ssa.Call)
	if !engine.InCycle(u) {
		return false, "utf16RuneLen is not applied inside the loop over the runes"
	}
	// the returned accumulator
	var acc *ssa.Phi
	for _, r := range engine.Returns(fn) {
		p, ok := r.Results[0].(*ssa.Phi)
		if !ok {
			return false, "the result is not the loop accumulator"
		}
		acc = p
	}
	if acc == nil {
		return false, "no return"
	}
	starts, steps := 0, 0
	for _, e := range acc.Edges {
		if k, isK := engine.ConstInt(e); isK {
			if k != 0 {
				return false, "the accumulator does not start at 0"
			}
			starts++
			continue
		}
		add, isAdd := e.(*ssa.BinOp)
		if !isAdd || add.Op != token.ADD || add.X != ssa.Value(acc) || add.Y != ssa.Value(u) {
			return false, "the accumulator is updated by something other than + utf16RuneLen(rune)"
		}
		steps++
	}
	if starts != 1 || steps == 0 {
		return false, "the accumulator is not a plain sum"
	}
	// where the rune comes from
	arg := engine.Unwrap(u.Common().Args[0])
	ex, isE := arg.(*ssa.Extract)
	if !isE {
		return false, "the rune is not a decoded rune"
	}
	switch t := ex.Tuple.(type) {
	case *ssa.Next:
		rg, isR := t.Iter.(*ssa.Range)
		if !isR || ex.Index != 2 || engine.Unwrap(rg.X) != ssa.Value(fn.Params[0]) {
			return false, "the range is not over the argument's runes"
		}
		return true, "sum of utf16RuneLen over range s"
	case *ssa.Call:
		if engine.CalleeID(t.Common()) != "unicode/utf8.DecodeRune" || ex.Index != 0 {
			return false, "the rune is not the result of utf8.DecodeRune"
		}
		sl, isSl := engine.Unwrap(t.Common().Args[0]).(*ssa.Slice)
		if !isSl || sl.High != nil || engine.Unwrap(sl.X) != ssa.Value(fn.Params[0]) {
			return false, "DecodeRune is not applied to s[i:]"
		}
		idx, isPhi := sl.Low.(*ssa.Phi)
		if !isPhi {
			return false, "the cursor is not a loop variable"
		}
		st, sp := 0, 0
		for _, e := range idx.Edges {
			if k, isK := engine.ConstInt(e); isK {
				if k != 0 {
					return false, "the cursor does not start at 0"
				}
				st++
				continue
			}
			add, isAdd := e.(*ssa.BinOp)
			sz, isSz := ssa.Value(nil), false
			if isAdd {
				var x *ssa.Extract
				x, isSz = add.Y.(*ssa.Extract)
				if isSz {
					sz = x.Tuple
					isSz = x.Index == 1
				}
			}
			if !isAdd || add.Op != token.ADD || add.X != ssa.Value(idx) || !isSz || sz != ssa.Value(t) {
				return false, "the cursor does not advance by the decoded size"
			}
			sp++
		}
		if st != 1 || sp == 0 {
			return false, "the cursor is not a plain forward cursor"
		}
		// the loop runs to the end of s
		end := false
		for _, b := range fn.Blocks {
			if iff, ok := b.Instrs[len(b.Instrs)-1].(*ssa.If); ok {
				raw, isC := iff.Cond.(*ssa.BinOp)
				if !isC {
					continue
				}
				cmp, _ := engine.CmpOf(raw)
				if cmp.Op == token.GTR { // len(s) > i is i < len(s)
					cmp = cmp.Swap()
				}
				if cmp.Op == token.LSS && cmp.X == ssa.Value(idx) {
					if lc := engine.CallOf(cmp.Y); lc != nil && engine.CalleeID(lc.Common()) == "builtin.len" && engine.Unwrap(lc.Common().Args[0]) == ssa.Value(fn.Params[0]) {
						end = true
					}
				}
			}
		}
		if !end {
			return false, "the loop condition is not i < len(s)"
		}
		return true, "sum of utf16RuneLen over DecodeRune(s[i:]), i += size, while i < len(s)"
	}
	return false, "unrecognised rune source"
}
