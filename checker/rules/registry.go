// Package rules holds one file per property: the rule instances that decide
// the structural necessary conditions described in DESIGN.md §3.
package rules

import (
	"sort"

	"tdverif/checker/engine"
)

// Rule decides one property on a loaded context.
type Rule struct {
	Prop string
	Pkgs []string // repo-relative packages loaded with syntax + SSA
	Run  func(c *engine.Ctx)
}

var registry = map[string]*Rule{}

func register(prop string, pkgs []string, run func(c *engine.Ctx)) {
	registry[prop] = &Rule{Prop: prop, Pkgs: pkgs, Run: run}
}

func Get(prop string) *Rule { return registry[prop] }

func All() []string {
	var out []string
	for k := range registry {
		out = append(out, k)
	}
	sort.Strings(out)
	return out
}
