// Package rules holds one file per property: the rule instances that decide
// the structural necessary conditions described in DESIGN.md §3.
package rules

import (
	"fmt"
	"go/types"
	"sort"

	"golang.org/x/tools/go/ssa"

	"tdverif/checker/engine"
)

// Rule decides one property on a loaded context.
type Rule struct {
	Prop string
	Pkgs []string // repo-relative packages loaded with syntax + SSA
	Run  func(c *engine.Ctx)
}

var registry = map[string]*Rule{}

func register(prop string, pkgs []string, run func(c *engine.Ctx)) {
	registry[prop] = &Rule{Prop: prop, Pkgs: pkgs, Run: run}
}

func Get(prop string) *Rule { return registry[prop] }

func All() []string {
	var out []string
	for k := range registry {
		out = append(out, k)
	}
	sort.Strings(out)
	return out
}

// ordinal numbers an instruction among the instructions of the same kind in
// its function (stable key that is not a line number).
func ordinal(fn *ssa.Function, in ssa.Instruction) string {
	n := 0
	res := "?"
	engine.Instrs(fn, func(i ssa.Instruction) {
		if fmt.Sprintf("%T", i) == fmt.Sprintf("%T", in) {
			if i == in {
				res = fmt.Sprint(n)
			}
			n++
		}
	})
	return res
}

func ordinalCall(fn *ssa.Function, in ssa.CallInstruction) string {
	n := 0
	res := "?"
	id := engine.CalleeID(in.Common())
	for _, c := range engine.Calls(fn) {
		if engine.CalleeID(c.Common()) == id {
			if c == in {
				res = fmt.Sprint(n)
			}
			n++
		}
	}
	return res
}

// allFunctions lists the source functions and methods of an SSA package.
func allFunctions(c *engine.Ctx, sp *ssa.Package) []*ssa.Function {
	var out []*ssa.Function
	var names []string
	for n := range sp.Members {
		names = append(names, n)
	}
	sort.Strings(names)
	for _, n := range names {
		switch m := sp.Members[n].(type) {
		case *ssa.Function:
			if len(m.Blocks) > 0 {
				out = append(out, m)
			}
		case *ssa.Type:
			for _, t := range []types.Type{m.Type(), types.NewPointer(m.Type())} {
				ms := c.Prog.MethodSets.MethodSet(t)
				for i := 0; i < ms.Len(); i++ {
					f := c.Prog.MethodValue(ms.At(i))
					if f != nil && len(f.Blocks) > 0 && f.Synthetic == "" && f.Pkg == sp {
						dup := false
						for _, o := range out {
							if o == f {
								dup = true
							}
						}
						if !dup {
							out = append(out, f)
						}
					}
				}
			}
		}
	}
	return out
}
