package rules

import (
	"go/token"
	"go/types"
	"sort"
	"strings"

	"golang.org/x/tools/go/ssa"

	"tdverif/checker/engine"
)

// C27 — the pool respects its limit, never shares a connection, never hands out a dead one.
// C28 — the pool never loses capacity.
func init() {
	register("C27", []string{"pool"}, func(c *engine.Ctx) {
		c.Explain("C27: (R1, locksets) every read or write of DC.total and DC.free in package pool happens with DC.mu held; the one helper that touches them without locking (pop) is called only with the lock held; the constructor's initialisation of a fresh object is exempt. (R2) the only increment of total is in acquire, every path to it passes the true edge of max < 1 or total < max, and no Unlock lies between that test and the increment (one critical section); the only decrement is in dead, guarded by deleted.Swap(true) == false. (R3, ownership) the free list grows only in release and shrinks only in pop/dead; pop returns the element at the index it cuts off; reqMap.transfer is called only from release, removes the request from the map before it sends, and the request channels have capacity 1; a popped connection is on every path returned or declared dead. (R4, dead-check rule) a connection taken from the free list is returned only after a non-blocking Dead() poll, and every inflow to waiters/free list (release) is preceded by such a poll.")
		c.NotCover("a connection dying right after the poll (inherent race); interleavings are not explored")
		p := poolShape(c, "C27")
		if p == nil {
			return
		}
		c27R1(c, p)
		c27R2(c, p)
		c27R3(c, p)
		c27R4(c, p)
	})
	register("C28", []string{"pool", "tdsync"}, func(c *engine.Ctx) {
		c.Explain("C28: (R1, acquire/release pairing) after createConnection (slot already counted) every exit of acquire returns that connection, or passes c.dead(conn) / c.release(conn); one allow-listed exit: the DC's own context is done (the supervisor kills and accounts every connection). (R2, give-up atomicity) reqMap.transfer sends while holding the same mutex reqMap.delete takes (or the give-up sites hold DC.mu), and every give-up site deletes its key first and then polls the channel of the same request on every path. (R3) a connection found by that poll is returned or released on every path, never dropped; the waiter's select has cases for the hand-over channel, stuck, the caller context and the DC context. (R4) every decrement of total is followed on every path by stuck.Reset(), ResetReady.Reset signals then re-arms under its lock, and the waiter re-reads stuck.Ready() after registering its request while holding DC.mu's critical section order (request → unlock → select).")
		c.NotCover("fairness among waiters; interleavings are not explored; liveness of connection setup")
		p := poolShape(c, "C28")
		if p == nil {
			return
		}
		c28R1(c, p)
		c28R2(c, p)
		c28R4(c, p)
	})
}

type poolFns struct {
	acquire, release, dead, pop, create, invoke *ssa.Function
	transfer, request, rdelete                 *ssa.Function
	all                                        []*ssa.Function
}

func poolShape(c *engine.Ctx, prop string) *poolFns {
	p := &poolFns{}
	ok := true
	get := func(name string) *ssa.Function {
		f := c.MustFunc(prop+".R1", "pool", name)
		if f == nil {
			ok = false
		}
		return f
	}
	p.acquire, p.release, p.dead, p.pop = get("DC.acquire"), get("DC.release"), get("DC.dead"), get("DC.pop")
	p.create, p.invoke = get("DC.createConnection"), get("DC.Invoke")
	p.transfer, p.request, p.rdelete = get("reqMap.transfer"), get("reqMap.request"), get("reqMap.delete")
	if !ok {
		return nil
	}
	for _, f := range allFunctions(c, c.SSA["pool"]) {
		p.all = append(p.all, engine.WithAnon(f)...)
	}
	return p
}

// dcField reports whether addr is the address of field `name` of a *DC.
func dcFieldAddr(addr ssa.Value) (string, *ssa.FieldAddr) {
	fa, ok := addr.(*ssa.FieldAddr)
	if !ok {
		return "", nil
	}
	pt, ok := fa.X.Type().Underlying().(*types.Pointer)
	if !ok {
		return "", nil
	}
	n, ok := pt.Elem().(*types.Named)
	if !ok || n.Obj().Name() != "DC" || n.Obj().Pkg() == nil || !strings.HasSuffix(n.Obj().Pkg().Path(), "/pool") {
		return "", nil
	}
	return engine.FieldNameOf(fa), fa
}

type fieldAccess struct {
	fn    *ssa.Function
	at    ssa.Instruction
	field string
	write bool
	fa    *ssa.FieldAddr
}

func dcAccesses(p *poolFns, fields ...string) []fieldAccess {
	want := map[string]bool{}
	for _, f := range fields {
		want[f] = true
	}
	var out []fieldAccess
	for _, f := range p.all {
		engine.Instrs(f, func(i ssa.Instruction) {
			switch x := i.(type) {
			case *ssa.Store:
				if n, fa := dcFieldAddr(x.Addr); want[n] {
					out = append(out, fieldAccess{f, i, n, true, fa})
				}
			case *ssa.UnOp:
				if x.Op == token.MUL {
					if n, fa := dcFieldAddr(x.X); want[n] {
						out = append(out, fieldAccess{f, i, n, false, fa})
					}
				}
			}
		})
	}
	return out
}

// muOf names the DC mutex relative to the DC value the field address is taken from.
func muOf(fa *ssa.FieldAddr) string { return descCell(fa.X) + ".mu" }

func c27R1(c *engine.Ctx, p *poolFns) {
	n := 0
	lsCache := map[*ssa.Function]map[ssa.Instruction]map[string]bool{}
	ls := func(f *ssa.Function) map[ssa.Instruction]map[string]bool {
		if lsCache[f] == nil {
			lsCache[f] = engine.Locksets(f)
		}
		return lsCache[f]
	}
	needsCallerLock := map[*ssa.Function]bool{}
	for _, a := range dcAccesses(p, "total", "free") {
		n++
		key := engine.FuncID(a.fn) + "/" + a.field + "#" + ordinal(a.fn, a.at)
		// constructor: a fresh object
		if _, fresh := a.fa.X.(*ssa.Alloc); fresh {
			c.Pass("C27.R1", key, a.at.Pos(), "initialisation of a fresh DC")
			continue
		}
		held := false
		for k := range ls(a.fn)[a.at] {
			if k == engine.Describe(a.fa.X)+".mu" {
				held = true
			}
		}
		if held {
			c.Pass("C27.R1", key, a.at.Pos(), "access to DC.%s under DC.mu", a.field)
			continue
		}
		// helper without own locking: all callers must hold the lock
		locksItself := false
		for _, lk := range engine.CallsTo(a.fn, false, "(*sync.Mutex).Lock") {
			if engine.Describe(lk.Common().Args[0]) == engine.Describe(a.fa.X)+".mu" {
				locksItself = true
			}
		}
		if a.fn.Parent() == nil && !a.fn.Object().Exported() && !locksItself {
			needsCallerLock[a.fn] = true
			c.Pass("C27.R1", key, a.at.Pos(), "access to DC.%s in unexported helper %s: discharged at its call sites", a.field, engine.FuncID(a.fn))
			continue
		}
		c.Fail("C27.R1", key, a.at.Pos(), "access to DC.%s without DC.mu held (held: %v)", a.field, keys(ls(a.fn)[a.at]))
	}
	for h := range needsCallerLock {
		sites := 0
		for _, f := range p.all {
			for _, call := range engine.Calls(f) {
				if call.Common().StaticCallee() != h {
					continue
				}
				sites++
				n++
				recv := engine.Describe(engine.Args(call.Common())[0])
				c.Check(ls(f)[call][recv+".mu"], "C27.R1", engine.FuncID(f)+"/calls-"+h.Name()+"#"+ordinalCall(f, call), call.Pos(), "%s touches DC.free/total without locking: the caller must hold DC.mu (held: %v)", h.Name(), keys(ls(f)[call]))
			}
		}
		c.Check(sites > 0, "C27.R1", h.Name()+"/has-callers", h.Pos(), "lock-requiring helper must have resolvable call sites")
	}
	c.Floor("C27.R1", 9, n)
}

// isIncDec reports whether the store writes load(sameField) + k.
func isIncDec(st *ssa.Store) (int64, bool) {
	b, ok := st.Val.(*ssa.BinOp)
	if !ok || (b.Op != token.ADD && b.Op != token.SUB) {
		return 0, false
	}
	k, isK := engine.ConstInt(b.Y)
	if !isK || engine.Describe(b.X) != engine.Describe(st.Addr) {
		return 0, false
	}
	if b.Op == token.SUB {
		k = -k
	}
	return k, true
}

func c27R2(c *engine.Ctx, p *poolFns) {
	n := 0
	for _, a := range dcAccesses(p, "total") {
		if !a.write {
			continue
		}
		if _, fresh := a.fa.X.(*ssa.Alloc); fresh {
			continue
		}
		st := a.at.(*ssa.Store)
		k, ok := isIncDec(st)
		key := engine.FuncID(a.fn) + "/total-store#" + ordinal(a.fn, st)
		n++
		switch {
		case !ok:
			c.Fail("C27.R2", key, st.Pos(), "DC.total may change only by ±1 (stores %s)", engine.Describe(st.Val))
		case k == 1:
			if a.fn != p.acquire {
				c.Fail("C27.R2", key, st.Pos(), "DC.total may be incremented only in acquire, next to the limit test (found in %s)", engine.FuncID(a.fn))
				continue
			}
			isLimit := func(cm engine.Cmp) bool {
				switch {
				case cm.Op == token.LSS && engine.Describe(cm.X) == "p:c.max":
					v, isK := engine.ConstInt(cm.Y)
					return isK && v == 1
				case cm.Op == token.LEQ && engine.Describe(cm.X) == "p:c.max":
					v, isK := engine.ConstInt(cm.Y)
					return isK && v == 0
				case cm.Op == token.LSS && engine.Describe(cm.X) == "p:c.total" && engine.Describe(cm.Y) == "p:c.max":
					return true
				}
				return false
			}
			cut := engine.EdgesWhere(a.fn, isLimit)
			viaPredicate := false
			if len(cut) == 0 {
				// the test may live in a predicate method of the same receiver
				// (canCreate()): its true edge counts when the predicate can
				// only be true through the same two comparisons
				for e := range engine.EdgesWhere(a.fn, func(cm engine.Cmp) bool {
					b, isB := engine.ConstBool(cm.Y)
					call := engine.CallOf(cm.X)
					if call == nil || !isB || !((b && cm.Op == token.EQL) || (!b && cm.Op == token.NEQ)) {
						return false
					}
					h := call.Common().StaticCallee()
					return h != nil && len(call.Common().Args) == 1 && engine.Unwrap(call.Common().Args[0]) == ssa.Value(a.fn.Params[0]) && limitPredicate(h, isLimit)
				}) {
					cut[e] = true
					viaPredicate = true
				}
			}
			if len(cut) < 2 {
				// the disjunction may be kept in a local (canCreate := max < 1 || total < max;
				// if canCreate): the true edge of a test of a value that can only be
				// true through the two comparisons counts as a limit edge
				for e := range engine.EdgesWhere(a.fn, func(cm engine.Cmp) bool {
					b, isB := engine.ConstBool(cm.Y)
					phi, isPhi := engine.Unwrap(cm.X).(*ssa.Phi)
					if !isPhi || !isB || !((b && cm.Op == token.EQL) || (!b && cm.Op == token.NEQ)) {
						return false
					}
					return limitValue(a.fn, phi, phi.Block().Instrs[len(phi.Block().Instrs)-1], isLimit)
				}) {
					cut[e] = true
					viaPredicate = true
				}
			}
			c.Check((len(cut) == 2 || (viaPredicate && len(cut) >= 1)) && everyPathPasses(a.fn, st, cut, nil), "C27.R2", key+"/guarded-by-limit", st.Pos(), "every path to total++ must pass the true edge of max < 1 or total < max (limit edges found: %d)", len(cut))
			// same critical section: the lock is held at the limit tests and at the
			// store, and no Unlock lies on a path from a limit edge to the store
			sameCS := true
			als := engine.Locksets(a.fn)
			for e := range cut {
				iff := e[0].Instrs[len(e[0].Instrs)-1]
				if !als[iff]["p:c.mu"] || !als[st]["p:c.mu"] {
					sameCS = false
				}
				for _, u := range engine.CallsTo(a.fn, false, "(*sync.Mutex).Unlock") {
					if engine.Describe(u.Common().Args[0]) != "p:c.mu" {
						continue
					}
					toU := engine.PathQuery{Fn: a.fn, FromBlk: e[1], Cut: cut, Barrier: func(x ssa.Instruction) bool { return x == ssa.Instruction(st) }}.Reaches(u)
					fromU := engine.PathQuery{Fn: a.fn, From: u, Cut: cut}.Reaches(st)
					if toU && fromU {
						sameCS = false
					}
				}
			}
			c.Check(sameCS, "C27.R2", key+"/same-critical-section", st.Pos(), "the limit test and total++ must be one critical section (an Unlock lies between them)")
		case k == -1:
			if a.fn != p.dead {
				c.Fail("C27.R2", key, st.Pos(), "DC.total may be decremented only in dead (found in %s)", engine.FuncID(a.fn))
				continue
			}
			once := engine.GuardedBy(st, func(cm engine.Cmp) bool {
				call, isC := engine.Unwrap(cm.X).(*ssa.Call)
				b, isB := engine.ConstBool(cm.Y)
				if !isC || !isB || b || !strings.HasSuffix(engine.CalleeID(call.Common()), "atomic.Bool).Swap") {
					return false
				}
				a := engine.Args(call.Common())
				v, isV := engine.ConstBool(a[1])
				return engine.Describe(a[0]) == "p:r.deleted" && isV && v
			})
			c.Check(once, "C27.R2", key+"/once-per-connection", st.Pos(), "total-- must run only when r.deleted.Swap(true) returned false (each connection leaves the count once)")
		default:
			c.Fail("C27.R2", key, st.Pos(), "DC.total changed by %d", k)
		}
	}
	c.Floor("C27.R2", 2, n)
}

func c27R3(c *engine.Ctx, p *poolFns) {
	n := 0
	// writers of free
	for _, a := range dcAccesses(p, "free") {
		if !a.write {
			continue
		}
		if _, fresh := a.fa.X.(*ssa.Alloc); fresh {
			continue
		}
		st := a.at.(*ssa.Store)
		n++
		key := engine.FuncID(a.fn) + "/free-store#" + ordinal(a.fn, st)
		grows := false
		if call := engine.CallOf(st.Val); call != nil && engine.CalleeID(call.Common()) == "builtin.append" {
			grows = true
		}
		if grows {
			c.Check(a.fn == p.release, "C27.R3", key, st.Pos(), "the free list may grow only in release (found in %s)", engine.FuncID(a.fn))
		} else {
			// (or in an unexported helper that only pop/dead call: their lines, moved)
			c.Check(a.fn == p.pop || a.fn == p.dead || onlyCalledFrom(a.fn, p.all, p.pop, p.dead), "C27.R3", key, st.Pos(), "the free list may shrink only in pop and dead (found in %s)", engine.FuncID(a.fn))
		}
	}
	// pop: returns free[l-1] and stores free[:l-1]
	{
		okPop := false
		for _, r := range engine.Returns(p.pop) {
			if b, isB := engine.ConstBool(engine.RetVal(r, 1)); !isB || !b {
				continue
			}
			rv := engine.Describe(engine.RetVal(r, 0))
			for _, a := range dcAccesses(p, "free") {
				if a.fn != p.pop || !a.write {
					continue
				}
				sv := engine.Describe(a.at.(*ssa.Store).Val)
				// rv = p:c.free[IDX], sv = p:c.free[:IDX]
				if strings.HasPrefix(rv, "p:c.free[") && strings.HasPrefix(sv, "p:c.free[:") {
					idx := strings.TrimSuffix(strings.TrimPrefix(rv, "p:c.free["), "]")
					hi := strings.TrimSuffix(strings.TrimPrefix(sv, "p:c.free[:"), "]")
					if idx == hi && strings.Contains(idx, "builtin.len(p:c.free) - 1") && engine.Dominates(a.at, r) {
						okPop = true
					}
				}
			}
		}
		n++
		c.Check(okPop, "C27.R3", "pop/removes-what-it-returns", p.pop.Pos(), "pop must return free[len-1] and cut the list to free[:len-1] (the same element leaves the list)")
	}
	// transfer called only from release
	for _, f := range p.all {
		for _, call := range engine.Calls(f) {
			if call.Common().StaticCallee() == p.transfer {
				n++
				c.Check(f == p.release, "C27.R3", engine.FuncID(f)+"/calls-transfer", call.Pos(), "connections are handed to waiters only by release")
			}
		}
	}
	// transfer: delete before send; channel capacity 1
	{
		var send *ssa.Send
		engine.Instrs(p.transfer, func(i ssa.Instruction) {
			if s, ok := i.(*ssa.Send); ok {
				send = s
			}
		})
		okDel := false
		if send != nil {
			for _, call := range engine.Calls(p.transfer) {
				if engine.CalleeID(call.Common()) == "builtin.delete" && engine.Describe(call.Common().Args[0]) == "p:r.m" && engine.Dominates(call, send) {
					okDel = true
				}
			}
		}
		n++
		c.Check(send != nil && okDel && engine.Describe(send.X) == "p:c", "C27.R3", "transfer/removes-request-before-send", p.transfer.Pos(), "transfer must remove the request from the map before sending its argument (one connection per request channel)")
		capOK := false
		engine.Instrs(p.request, func(i ssa.Instruction) {
			if mk, ok := i.(*ssa.MakeChan); ok {
				if k, isK := engine.ConstInt(mk.Size); isK && k == 1 {
					capOK = true
				}
			}
		})
		n++
		c.Check(capOK, "C27.R3", "request/channel-capacity-1", p.request.Pos(), "request channels must have capacity 1 (the sender holds locks)")
	}
	// popped connection: returned or declared dead on every path
	for _, call := range engine.Calls(p.acquire) {
		if call.Common().StaticCallee() != p.pop {
			continue
		}
		n++
		pc := call.(*ssa.Call)
		isConn := func(v ssa.Value) bool {
			ex, ok := engine.Unwrap(v).(*ssa.Extract)
			return ok && ex.Tuple == ssa.Value(pc) && ex.Index == 0
		}
		okEdges := engine.EdgesWhere(p.acquire, func(cm engine.Cmp) bool {
			ex, ok := engine.Unwrap(cm.X).(*ssa.Extract)
			b, isB := engine.ConstBool(cm.Y)
			return ok && ex.Tuple == ssa.Value(pc) && ex.Index == 1 && isB && b
		})
		leak := false
		for e := range okEdges {
			for _, r := range engine.Returns(p.acquire) {
				if isConn(engine.RetVal(r, 0)) {
					continue
				}
				q := engine.PathQuery{Fn: p.acquire, FromBlk: e[1], Barrier: func(i ssa.Instruction) bool {
					if ci, ok := i.(ssa.CallInstruction); ok {
						if ci.Common().StaticCallee() == p.dead && isConn(engine.Args(ci.Common())[1]) {
							return true
						}
					}
					return i == ssa.Instruction(pc)
				}}
				if q.Reaches(r) {
					leak = true
				}
			}
		}
		c.Check(len(okEdges) == 1 && !leak, "C27.R3", "acquire/popped-connection-returned-or-dead", call.Pos(), "a connection taken from the free list must be returned to the caller or declared dead on every path")
	}
	n += invokePairing(c, p, "C27.R3", false)
	c.Floor("C27.R3", 9, n)
	// R5: DC.Invoke declares a connection dead (un-counts it) on the word of errRetryableOnNewConn;
	// that word must mean "the connection is gone": exactly {ErrConnDead, rpc.ErrEngineClosed}. Any
	// other error class there un-counts a connection that may still be alive (limit exceeded).
	if cls := c.MustFunc("C27.R5", "pool", "errRetryableOnNewConn"); cls != nil {
		var targets []string
		for _, call := range engine.CallsTo(cls, true, "github.com/go-faster/errors.Is", "errors.Is", "github.com/go-faster/errors.As", "errors.As") {
			targets = append(targets, engine.Describe(call.Common().Args[1]))
		}
		sort.Strings(targets)
		c.Check(strings.Join(targets, ",") == "g:pool.ErrConnDead,g:rpc.ErrEngineClosed", "C27.R5", "errRetryableOnNewConn/only-connection-gone-errors", cls.Pos(), "the errors on which DC.Invoke un-counts a connection must be exactly {ErrConnDead, rpc.ErrEngineClosed} (tests %v)", targets)
		for _, call := range callsFn(p.invoke, p.dead) {
			guarded := false
			for _, k := range callsFn(p.invoke, cls) {
				if kc, ok := k.(*ssa.Call); ok && guardedByCall(call, kc, true) {
					guarded = true
				}
			}
			c.Check(guarded, "C27.R5", "Invoke/dead#"+ordinalCall(p.invoke, call)+"/only-when-connection-gone", call.Pos(), "DC.Invoke may declare the connection dead only under errRetryableOnNewConn(err)")
		}
	}
}

// invokePairing checks DC.Invoke: a connection obtained from acquire is, on
// every path to a return or to the next acquire, passed to exactly one of
// release / dead. atLeast selects the "at least one" half (capacity, C28),
// otherwise the "at most one" half (a released connection may already serve
// another caller: declaring it dead afterwards un-counts a connection in use).
func invokePairing(c *engine.Ctx, p *poolFns, rule string, atLeast bool) int {
	n := 0
	for _, call := range engine.Calls(p.invoke) {
		if call.Common().StaticCallee() != p.acquire {
			continue
		}
		ac := call.(*ssa.Call)
		isConn := func(v ssa.Value) bool {
			ex, ok := engine.Unwrap(v).(*ssa.Extract)
			return ok && ex.Tuple == ssa.Value(ac) && ex.Index == 0
		}
		var acc []ssa.CallInstruction
		for _, ci := range engine.Calls(p.invoke) {
			f := ci.Common().StaticCallee()
			if (f == p.release || f == p.dead) && isConn(engine.Args(ci.Common())[1]) {
				acc = append(acc, ci)
			}
		}
		isAcc := func(i ssa.Instruction) bool {
			for _, a := range acc {
				if i == a.(ssa.Instruction) {
					return true
				}
			}
			return false
		}
		// success edge of acquire: err == nil
		okEdges := engine.EdgesWhere(p.invoke, func(cm engine.Cmp) bool {
			ex, ok := engine.Unwrap(cm.X).(*ssa.Extract)
			return ok && ex.Tuple == ssa.Value(ac) && ex.Index == 1 && engine.IsNil(cm.Y) && cm.Op == token.EQL
		})
		if len(okEdges) == 0 {
			c.Undecided(rule, "Invoke/acquire-success-edge", call.Pos(), "cannot find the err == nil edge of acquire in DC.Invoke")
			continue
		}
		if atLeast {
			for e := range okEdges {
				n++
				lost := false
				for _, r := range engine.Returns(p.invoke) {
					if (engine.PathQuery{Fn: p.invoke, FromBlk: e[1], Barrier: isAcc}).Reaches(r) {
						lost = true
					}
				}
				if (engine.PathQuery{Fn: p.invoke, FromBlk: e[1], Barrier: isAcc}).Reaches(ac) {
					lost = true
				}
				c.Check(!lost, rule, "Invoke/acquired-connection-released-or-dead", call.Pos(), "a connection obtained by DC.Invoke must be released or declared dead before Invoke returns or acquires again")
			}
		} else {
			for _, a := range acc {
				n++
				twice := false
				for _, b := range acc {
					if (engine.PathQuery{Fn: p.invoke, From: a, Barrier: func(i ssa.Instruction) bool { return i == ssa.Instruction(ac) }}).Reaches(b) {
						twice = true
					}
				}
				c.Check(!twice, rule, "Invoke/"+a.Common().StaticCallee().Name()+"#"+ordinalCall(p.invoke, a)+"/accounted-once", a.Pos(), "after this call the same connection is released or declared dead again on some path: a released connection may already serve another caller (declaring it dead un-counts a connection in use; releasing it twice shares it)")
			}
		}
	}
	return n
}

// deadPolls returns the non-blocking selects of fn that poll v.Dead().
func deadPolls(fn *ssa.Function, isConn func(ssa.Value) bool) []*ssa.Select {
	var out []*ssa.Select
	for _, sel := range selectsOf(fn) {
		if sel.Blocking {
			continue
		}
		for _, sc := range engine.SelectCases(sel) {
			if sc.Send {
				continue
			}
			call := engine.CallOf(engine.Unwrap(sc.Chan))
			if call != nil && engine.CalleeID(call.Common()) == "(*pool.poolConn).Dead" && isConn(engine.Args(call.Common())[0]) {
				out = append(out, sel)
			}
		}
	}
	return out
}

func deadCaseBody(sel *ssa.Select) *ssa.BasicBlock {
	for _, sc := range engine.SelectCases(sel) {
		if call := engine.CallOf(engine.Unwrap(sc.Chan)); call != nil && engine.CalleeID(call.Common()) == "(*pool.poolConn).Dead" {
			return sc.Body
		}
	}
	return nil
}

func c27R4(c *engine.Ctx, p *poolFns) {
	n := 0
	// inflow side: release polls Dead() of its argument before it transfers/appends
	inflowChecked := true
	isParam := func(v ssa.Value) bool { return engine.Unwrap(v) == ssa.Value(p.release.Params[1]) }
	polls := deadPolls(p.release, isParam)
	var sinks []ssa.Instruction
	for _, call := range engine.Calls(p.release) {
		if call.Common().StaticCallee() == p.transfer {
			sinks = append(sinks, call)
		}
	}
	for _, a := range dcAccesses(p, "free") {
		if a.fn == p.release && a.write {
			sinks = append(sinks, a.at)
		}
	}
	for _, s := range sinks {
		ok := false
		for _, sel := range polls {
			body := deadCaseBody(sel)
			if engine.Dominates(sel, s) && body != nil && !(engine.PathQuery{Fn: p.release, FromBlk: body}).Reaches(s) {
				ok = true
			}
		}
		if !ok {
			inflowChecked = false
		}
	}
	if len(sinks) < 2 {
		inflowChecked = false
	}
	// hand-out side
	for _, r := range engine.Returns(p.acquire) {
		v := engine.Unwrap(engine.RetVal(r, 0))
		if engine.IsNil(v) {
			continue
		}
		origin := ""
		var isConn func(ssa.Value) bool
		if ex, ok := v.(*ssa.Extract); ok {
			if call, isC := ex.Tuple.(*ssa.Call); isC && call.Common().StaticCallee() == p.pop {
				origin = "free-list"
			} else if _, isS := ex.Tuple.(*ssa.Select); isS {
				origin = "hand-over"
			}
			isConn = func(x ssa.Value) bool { return engine.Unwrap(x) == ssa.Value(ex) }
			// handed back by a withdraw helper that polled the request channel
			for _, hc := range c28WithdrawHelpers(p) {
				if c28HelperConn(hc)(v) && c28HelperPolls(hc) {
					origin = "hand-over"
				}
			}
		} else if call, ok := v.(*ssa.Call); ok && call.Common().StaticCallee() == p.create {
			continue // fresh connection: its readiness/death is selected on right there
		} else if ok {
			for _, hc := range c28WithdrawHelpers(p) {
				if hc.call == call && hc.h.Signature.Results().Len() == 1 && c28HelperPolls(hc) {
					origin = "hand-over"
					isConn = func(x ssa.Value) bool { return engine.Unwrap(x) == ssa.Value(call) }
				}
			}
		}
		if origin == "" {
			c.Undecided("C27.R4", "acquire/return#"+ordinal(p.acquire, r), r.Pos(), "returned connection of unrecognised origin %s", engine.Describe(v))
			continue
		}
		n++
		ok := false
		for _, sel := range deadPolls(p.acquire, isConn) {
			body := deadCaseBody(sel)
			if engine.Dominates(sel, r) && body != nil && !(engine.PathQuery{Fn: p.acquire, FromBlk: body, Barrier: func(i ssa.Instruction) bool {
				// the retry re-pops: a later return is about another connection
				ci, isCI := i.(ssa.CallInstruction)
				return isCI && ci.Common().StaticCallee() == p.pop
			}}).Reaches(r) {
				ok = true
			}
		}
		if origin == "free-list" {
			c.Check(ok, "C27.R4", "acquire/return#"+ordinal(p.acquire, r)+"/"+origin, r.Pos(), "a connection taken from the free list must be polled for Dead() (non-blocking) before it is handed out")
		} else {
			c.Check(ok || inflowChecked, "C27.R4", "acquire/return#"+ordinal(p.acquire, r)+"/"+origin, r.Pos(), "a connection received from a releasing caller is handed out without a Dead() poll on either side (neither here nor before release transfers it): a connection that died in use reaches a waiter")
		}
	}
	c.Check(inflowChecked, "C27.R4", "release/polls-dead-before-inflow", p.release.Pos(), "release must poll Dead() of the connection before it transfers it to a waiter or appends it to the free list (%d sinks, %d polls)", len(sinks), len(polls))
	c.Floor("C27.R4", 3, n)
}

// ---------------------------------------------------------------------------
// C28

func c28R1(c *engine.Ctx, p *poolFns) {
	n := 0
	for _, call := range engine.Calls(p.acquire) {
		if call.Common().StaticCallee() != p.create {
			continue
		}
		cc := call.(*ssa.Call)
		isConn := func(v ssa.Value) bool { return engine.Unwrap(v) == ssa.Value(cc) }
		accounted := func(i ssa.Instruction) bool {
			ci, ok := i.(ssa.CallInstruction)
			if !ok {
				return false
			}
			f := ci.Common().StaticCallee()
			return (f == p.dead || f == p.release) && isConn(engine.Args(ci.Common())[1])
		}
		// allow-listed: the DC context case of the select on the new connection
		allowed := map[*ssa.BasicBlock]bool{}
		for _, sel := range selectsOf(p.acquire) {
			if !engine.Dominates(cc, sel) {
				continue
			}
			for _, sc := range engine.SelectCases(sel) {
				if !sc.Send && isDoneOf(sc.Chan, "p:c.ctx") && sc.Body != nil {
					allowed[sc.Body] = true
				}
			}
		}
		for _, r := range engine.Returns(p.acquire) {
			if isConn(engine.RetVal(r, 0)) {
				n++
				c.Pass("C28.R1", "acquire/new-conn/return#"+ordinal(p.acquire, r), r.Pos(), "the created connection is returned to the caller")
				continue
			}
			q := engine.PathQuery{Fn: p.acquire, From: cc, Barrier: func(i ssa.Instruction) bool { return accounted(i) || i == ssa.Instruction(cc) }}
			if !q.Reaches(r) {
				if (engine.PathQuery{Fn: p.acquire, From: cc, Barrier: func(i ssa.Instruction) bool { return i == ssa.Instruction(cc) }}).Reaches(r) {
					n++
					c.Pass("C28.R1", "acquire/new-conn/return#"+ordinal(p.acquire, r), r.Pos(), "every path from createConnection to this exit releases the connection or declares it dead")
				}
				continue
			}
			n++
			al := false
			for b := range allowed {
				if b == r.Block() || b.Dominates(r.Block()) {
					al = true
				}
			}
			if al {
				c.Pass("C28.R1", "acquire/new-conn/return#"+ordinal(p.acquire, r), r.Pos(), "allow-listed exit: the DC context is done, the supervisor ends and accounts every connection")
				continue
			}
			c.Fail("C28.R1", "acquire/new-conn/return#"+ordinal(p.acquire, r), r.Pos(), "acquire leaves here after createConnection (slot counted in total) without returning the connection, releasing it or declaring it dead: the slot is lost until the connection dies")
		}
	}
	n += invokePairing(c, p, "C28.R1", true)
	c.Floor("C28.R1", 4, n)
	// createConnection: the supervisor goroutine declares the connection dead when Run returns
	{
		ok := false
		for _, f := range engine.WithAnon(p.create) {
			for _, d := range defersOf(f) {
				if d.Common().StaticCallee() == p.dead {
					ok = true
				}
			}
		}
		c.Check(ok, "C28.R1", "createConnection/run-exit-declares-dead", p.create.Pos(), "the connection goroutine must defer c.dead(conn) so that a finished connection frees its slot")
	}
}

func c28R2(c *engine.Ctx, p *poolFns) {
	n := 0
	// transfer's send under r.mux, delete under r.mux
	var send *ssa.Send
	engine.Instrs(p.transfer, func(i ssa.Instruction) {
		if s, ok := i.(*ssa.Send); ok {
			send = s
		}
	})
	sendLocked := false
	if send != nil {
		sendLocked = engine.Locksets(p.transfer)[send]["p:r.mux"]
	}
	delLocked := false
	for _, call := range engine.Calls(p.rdelete) {
		if engine.CalleeID(call.Common()) == "builtin.delete" {
			delLocked = engine.Locksets(p.rdelete)[call]["p:r.mux"]
		}
	}
	// give-up sites in acquire
	var reqCall *ssa.Call
	for _, call := range engine.Calls(p.acquire) {
		if call.Common().StaticCallee() == p.request {
			reqCall = call.(*ssa.Call)
		}
	}
	if reqCall == nil {
		c.Fail("C28.R2", "acquire/request", p.acquire.Pos(), "acquire never registers a request for a free connection")
		return
	}
	isKey := func(v ssa.Value) bool {
		ex, ok := engine.Unwrap(v).(*ssa.Extract)
		return ok && ex.Tuple == ssa.Value(reqCall) && ex.Index == 0
	}
	isCh := func(v ssa.Value) bool {
		ex, ok := engine.Unwrap(v).(*ssa.Extract)
		return ok && ex.Tuple == ssa.Value(reqCall) && ex.Index == 1
	}
	// the give-up (withdraw the request, poll its channel) may live in a helper of
	// acquire that receives the key and the channel: the same rules are then
	// applied inside the helper, with its parameters in the roles of key and channel
	scopes := []c28Scope{{fn: p.acquire, tag: "acquire", isKey: isKey, isCh: isCh}}
	helperCalls := c28WithdrawHelpers(p)
	seenHelper := map[*ssa.Function]bool{}
	for _, hc := range helperCalls {
		n++
		if seenHelper[hc.h] {
			continue
		}
		seenHelper[hc.h] = true
		kp, cp := ssa.Value(hc.h.Params[hc.keyIdx]), ssa.Value(hc.h.Params[hc.chIdx])
		scopes = append(scopes, c28Scope{fn: hc.h, tag: hc.h.Name(),
			isKey: func(v ssa.Value) bool { return engine.Unwrap(v) == kp },
			isCh:  func(v ssa.Value) bool { return engine.Unwrap(v) == cp }})
	}
	for _, sc := range scopes {
		n += c28GiveUps(c, p, sc, sendLocked, delLocked)
	}
	c.Floor("C28.R2", 2, n)
	n3 := 0
	for _, sc := range scopes {
		n3 += c28Received(c, p, sc)
	}
	for _, hc := range helperCalls {
		n3++
		c28HelperResultKept(c, p, hc)
	}
	n3 += c28WaiterCover(c, p, isCh)
	c.Floor("C28.R3", 4, n3)
}

type c28Scope struct {
	fn          *ssa.Function
	tag         string
	isKey, isCh func(ssa.Value) bool
}

type c28HelperCall struct {
	call           *ssa.Call
	h              *ssa.Function
	keyIdx, chIdx  int
}

// c28WithdrawHelpers: calls in acquire of a pool function (not one of the known
// ones) that receives both the request key and the request channel.
func c28WithdrawHelpers(p *poolFns) []c28HelperCall {
	var reqCall *ssa.Call
	for _, call := range engine.Calls(p.acquire) {
		if call.Common().StaticCallee() == p.request {
			reqCall, _ = call.(*ssa.Call)
		}
	}
	if reqCall == nil {
		return nil
	}
	var out []c28HelperCall
	for _, ci := range engine.Calls(p.acquire) {
		call, ok := ci.(*ssa.Call)
		h := ci.Common().StaticCallee()
		if !ok || h == nil || len(h.Blocks) == 0 || h == p.rdelete || h == p.request || h == p.transfer || h == p.release {
			continue
		}
		ki, chi := -1, -1
		for i, a := range engine.Args(ci.Common()) {
			if ex, isE := engine.Unwrap(a).(*ssa.Extract); isE && ex.Tuple == ssa.Value(reqCall) {
				if ex.Index == 0 {
					ki = i
				} else if ex.Index == 1 {
					chi = i
				}
			}
		}
		if ki >= 0 && chi >= 0 && ki < len(h.Params) && chi < len(h.Params) {
			out = append(out, c28HelperCall{call: call, h: h, keyIdx: ki, chIdx: chi})
		}
	}
	return out
}

// c28HelperConn: the connection a withdraw helper hands back (its first result).
func c28HelperConn(hc c28HelperCall) func(ssa.Value) bool {
	return func(v ssa.Value) bool {
		v = engine.Unwrap(v)
		if hc.h.Signature.Results().Len() == 1 {
			return v == ssa.Value(hc.call)
		}
		ex, ok := v.(*ssa.Extract)
		return ok && ex.Tuple == ssa.Value(hc.call) && ex.Index == 0
	}
}

// c28HelperPolls: every connection the helper hands back is nil or was received
// from its channel parameter.
func c28HelperPolls(hc c28HelperCall) bool {
	ch := ssa.Value(hc.h.Params[hc.chIdx])
	rets := engine.Returns(hc.h)
	for _, r := range rets {
		for _, l := range engine.Leaves(engine.RetVal(r, 0)) {
			l = engine.Unwrap(l)
			if engine.IsNil(l) {
				continue
			}
			ex, ok := l.(*ssa.Extract)
			sel, isS := (ssa.Value)(nil), false
			if ok {
				_, isS = ex.Tuple.(*ssa.Select)
				sel = ex.Tuple
			}
			if !ok || !isS || ex.Index < 2 {
				return false
			}
			from := false
			for _, sc := range engine.SelectCases(sel.(*ssa.Select)) {
				if !sc.Send && engine.Unwrap(sc.Chan) == ch {
					from = true
				}
			}
			if !from {
				return false
			}
		}
	}
	return len(rets) > 0
}

// c28HelperResultKept: the connection handed back by a withdraw helper is
// returned or released on every path of acquire, except on edges where it is
// known to be nil or the helper's bool result is false.
func c28HelperResultKept(c *engine.Ctx, p *poolFns, hc c28HelperCall) {
	isGot := c28HelperConn(hc)
	cut := engine.EdgesWhere(p.acquire, func(cm engine.Cmp) bool {
		if isGot(cm.X) && engine.IsNil(cm.Y) && cm.Op == token.EQL {
			return true
		}
		if ex, ok := engine.Unwrap(cm.X).(*ssa.Extract); ok && ex.Tuple == ssa.Value(hc.call) && ex.Index == 1 {
			b, isB := engine.ConstBool(cm.Y)
			return isB && ((!b && cm.Op == token.EQL) || (b && cm.Op == token.NEQ))
		}
		return false
	})
	used := func(i ssa.Instruction) bool {
		if r, ok := i.(*ssa.Return); ok {
			return isGot(engine.RetVal(r, 0))
		}
		if ci, ok := i.(ssa.CallInstruction); ok && ci.Common().StaticCallee() == p.release {
			return isGot(engine.Args(ci.Common())[1])
		}
		return false
	}
	dropped := false
	for _, r := range engine.Returns(p.acquire) {
		if isGot(engine.RetVal(r, 0)) {
			continue
		}
		if (engine.PathQuery{Fn: p.acquire, From: hc.call, Cut: cut, Barrier: used}).Reaches(r) {
			dropped = true
		}
	}
	for _, lk := range engine.CallsTo(p.acquire, false, "(*sync.Mutex).Lock") {
		if (engine.PathQuery{Fn: p.acquire, From: hc.call, Cut: cut, Barrier: used}).Reaches(lk) {
			dropped = true
		}
	}
	c.Check(!dropped, "C28.R3", "acquire/"+hc.h.Name()+"#"+ordinalCall(p.acquire, hc.call)+"/received-connection-kept", hc.call.Pos(), "a connection handed back by %s must be returned or released on every path, never dropped", hc.h.Name())
}

func c28GiveUps(c *engine.Ctx, p *poolFns, sc c28Scope, sendLocked, delLocked bool) int {
	n := 0
	isKey, isCh := sc.isKey, sc.isCh
	als := engine.Locksets(sc.fn)
	for _, call := range engine.Calls(sc.fn) {
		if call.Common().StaticCallee() != p.rdelete {
			continue
		}
		n++
		key := sc.tag + "/give-up#" + ordinalCall(sc.fn, call)
		c.Check(isKey(engine.Args(call.Common())[1]), "C28.R2", key+"/deletes-own-key", call.Pos(), "the waiter must withdraw the request it registered")
		// every path from the delete to an exit or to the retry passes a poll of ch
		isPoll := func(i ssa.Instruction) bool {
			sel, ok := i.(*ssa.Select)
			if !ok {
				return false
			}
			for _, sc := range engine.SelectCases(sel) {
				if !sc.Send && isCh(sc.Chan) {
					return true
				}
			}
			return false
		}
		missed := false
		for _, r := range engine.Returns(sc.fn) {
			if (engine.PathQuery{Fn: sc.fn, From: call, Barrier: isPoll}).Reaches(r) {
				missed = true
			}
		}
		for _, lk := range engine.CallsTo(sc.fn, false, "(*sync.Mutex).Lock") {
			if (engine.PathQuery{Fn: sc.fn, From: call, Barrier: isPoll}).Reaches(lk) {
				missed = true
			}
		}
		c.Check(!missed, "C28.R2", key+"/polls-after-delete", call.Pos(), "after withdrawing its request the waiter must poll the request's channel on every path: a release may have picked the request just before (the connection would stay in a channel nobody reads)")
		atomicOK := (sendLocked && delLocked) || als[call]["p:c.mu"]
		c.Check(atomicOK, "C28.R2", key+"/atomic-with-transfer", call.Pos(), "a transfer in flight must not be missed: either reqMap.transfer sends while holding the mutex reqMap.delete takes (send under r.mux: %v, delete under r.mux: %v), or the give-up runs under DC.mu (held: %v)", sendLocked, delLocked, keys(als[call]))
	}
	return n
}

// c28Received (R3): a connection polled from the hand-over channel is returned
// or released on every path of the scope.
func c28Received(c *engine.Ctx, p *poolFns, scope c28Scope) int {
	n3 := 0
	isCh, fn := scope.isCh, scope.fn
	for _, sel := range selectsOf(fn) {
		for _, sc := range engine.SelectCases(sel) {
			if sc.Send || !isCh(sc.Chan) || sc.Body == nil {
				continue
			}
			n3++
			// value received in this case
			isGot := func(v ssa.Value) bool {
				ex, ok := engine.Unwrap(v).(*ssa.Extract)
				return ok && ex.Tuple == ssa.Value(sel) && ex.Index >= 2
			}
			dropped := false
			// edges on which the received value is known to be nil / channel closed are exempt
			cut := engine.EdgesWhere(fn, func(cm engine.Cmp) bool {
				if isGot(cm.X) && engine.IsNil(cm.Y) && cm.Op == token.EQL {
					return true
				}
				if ex, ok := engine.Unwrap(cm.X).(*ssa.Extract); ok && ex.Tuple == ssa.Value(sel) && ex.Index == 1 {
					b, isB := engine.ConstBool(cm.Y)
					return isB && !b
				}
				return false
			})
			handedBack := true
			used := func(i ssa.Instruction) bool {
				if r, ok := i.(*ssa.Return); ok {
					return isGot(engine.RetVal(r, 0))
				}
				if ci, ok := i.(ssa.CallInstruction); ok && ci.Common().StaticCallee() == p.release {
					return isGot(engine.Args(ci.Common())[1])
				}
				return false
			}
			for _, r := range engine.Returns(fn) {
				if isGot(engine.RetVal(r, 0)) {
					// a helper that also returns a bool must say true with the connection
					// (the caller drops the result on the false edge)
					if fn != p.acquire && fn.Signature.Results().Len() == 2 {
						if b, isB := engine.ConstBool(engine.RetVal(r, 1)); !isB || !b {
							handedBack = false
						}
					}
					continue
				}
				if (engine.PathQuery{Fn: fn, FromBlk: sc.Body, Cut: cut, Barrier: used}).Reaches(r) {
					dropped = true
				}
			}
			for _, lk := range engine.CallsTo(fn, false, "(*sync.Mutex).Lock") {
				if (engine.PathQuery{Fn: fn, FromBlk: sc.Body, Cut: cut, Barrier: used}).Reaches(lk) {
					dropped = true
				}
			}
			c.Check(!dropped && handedBack, "C28.R3", scope.tag+"/select#"+ordinal(fn, sel)+"/received-connection-kept", sel.Pos(), "a connection received from the hand-over channel must be returned or released on every path, never dropped")
		}
	}
	return n3
}

// c28WaiterCover (R3): the blocking wait of acquire also wakes on caller cancel,
// DC close and a freed slot.
func c28WaiterCover(c *engine.Ctx, p *poolFns, isCh func(ssa.Value) bool) int {
	n3 := 0
	for _, sel := range selectsOf(p.acquire) {
		if sel.Blocking {
			has := map[string]bool{}
			for _, sc := range engine.SelectCases(sel) {
				switch {
				case isCh(sc.Chan):
					has["ch"] = true
				case isDoneOf(sc.Chan, "p:ctx"):
					has["ctx"] = true
				case isDoneOf(sc.Chan, "p:c.ctx"):
					has["dc"] = true
				case strings.Contains(engine.Describe(sc.Chan), "ResetReady).Ready(p:c.stuck)"):
					has["stuck"] = true
				}
			}
			if has["ch"] {
				n3++
				c.Check(has["ctx"] && has["dc"] && has["stuck"], "C28.R3", "acquire/waiter-select-cover", sel.Pos(), "the waiter must also wake on caller cancel, DC close and a freed slot (stuck); has %v", has)
			}
		}
	}
	return n3
}

func c28R4(c *engine.Ctx, p *poolFns) {
	n := 0
	for _, a := range dcAccesses(p, "total") {
		if !a.write {
			continue
		}
		st := a.at.(*ssa.Store)
		if k, ok := isIncDec(st); !ok || k != -1 {
			continue
		}
		n++
		isReset := func(i ssa.Instruction) bool {
			ci, ok := i.(ssa.CallInstruction)
			return ok && engine.CalleeID(ci.Common()) == "(*tdsync.ResetReady).Reset" && engine.Describe(engine.Args(ci.Common())[0]) == "p:c.stuck"
		}
		miss := false
		for _, r := range exits(a.fn) {
			if (engine.PathQuery{Fn: a.fn, From: st, Barrier: isReset}).Reaches(r) {
				miss = true
			}
		}
		c.Check(!miss, "C28.R4", engine.FuncID(a.fn)+"/slot-freed-wakes-waiters", st.Pos(), "every decrement of total must be followed on every path by stuck.Reset(): a waiter in the third acquire case is otherwise not told that it may create a connection")
	}
	c.Floor("C28.R4", 1, n)
	// ResetReady.Reset: Signal then reset, under its lock
	if rr := c.MustFunc("C28.R4", "tdsync", "ResetReady.Reset"); rr != nil {
		var sig, rst ssa.CallInstruction
		for _, call := range engine.Calls(rr) {
			switch engine.CalleeID(call.Common()) {
			case "(*tdsync.Ready).Signal":
				sig = call
			case "(*tdsync.Ready).reset":
				rst = call
			}
		}
		ls := engine.Locksets(rr)
		ok := sig != nil && rst != nil && engine.Dominates(sig, rst) && ls[sig]["p:r.lock"] && ls[rst]["p:r.lock"]
		c.Check(ok, "C28.R4", "ResetReady.Reset/signal-then-rearm", rr.Pos(), "Reset must wake the current waiters (Signal) and then re-arm, both under its lock")
	}
	// release: "no waiter" (transfer returned false) and "put on the free list" are one DC.mu critical
	// section, the same lock under which acquire finds the list empty and registers its request:
	// otherwise a waiter registers in between and is never served although a connection is idle
	{
		ls := engine.Locksets(p.release)
		var tr ssa.CallInstruction
		for _, call := range callsFn(p.release, p.transfer) {
			tr = call
		}
		var app *ssa.Store
		for _, a := range dcAccesses(p, "free") {
			if a.fn == p.release && a.write {
				app = a.at.(*ssa.Store)
			}
		}
		ok := tr != nil && app != nil && ls[tr]["p:c.mu"] && ls[app]["p:c.mu"]
		if ok {
			for _, u := range engine.CallsTo(p.release, false, "(*sync.Mutex).Unlock") {
				if _, isDefer := u.(*ssa.Defer); isDefer || engine.Describe(u.Common().Args[0]) != "p:c.mu" {
					continue
				}
				if engine.PathExists(tr, u) && engine.PathExists(u, app) {
					ok = false
				}
			}
		}
		c.Check(ok, "C28.R4", "release/transfer-and-free-list-one-critical-section", p.release.Pos(), "release must hold DC.mu from the waiter lookup (transfer) to the free-list append")
	}
	// order in acquire: request registered before DC.mu is released, stuck read after
	{
		var reqCall, stuckCall ssa.CallInstruction
		for _, call := range engine.Calls(p.acquire) {
			if call.Common().StaticCallee() == p.request {
				reqCall = call
			}
			if engine.CalleeID(call.Common()) == "(*tdsync.ResetReady).Ready" {
				stuckCall = call
			}
		}
		ok := reqCall != nil && stuckCall != nil && engine.Locksets(p.acquire)[reqCall]["p:c.mu"]
		c.Check(ok, "C28.R4", "acquire/request-registered-under-mu", p.acquire.Pos(), "the waiter must register its request while still holding DC.mu (the emptiness test and the registration are one critical section, so a release in between is not missed)")
	}
}

// limitPredicate: the bool function h can return true only through the
// comparisons accepted by isLimit — each return value is such a comparison, the
// constant false, the constant true on a path that passed an isLimit edge, or a
// phi of these.
func limitPredicate(h *ssa.Function, isLimit func(engine.Cmp) bool) bool {
	if h == nil || len(h.Blocks) == 0 {
		return false
	}
	rets := engine.Returns(h)
	for _, r := range rets {
		if len(r.Results) != 1 || !limitValue(h, r.Results[0], r, isLimit) {
			return false
		}
	}
	return len(rets) > 0
}

// limitValue: the bool value v of h, used at instruction at, can be true only
// through the comparisons accepted by isLimit (see limitPredicate).
func limitValue(h *ssa.Function, v ssa.Value, at ssa.Instruction, isLimit func(engine.Cmp) bool) bool {
	cut := engine.EdgesWhere(h, isLimit)
	var okVal func(v ssa.Value, at ssa.Instruction, d int) bool
	okVal = func(v ssa.Value, at ssa.Instruction, d int) bool {
		if d > 6 {
			return false
		}
		switch x := v.(type) {
		case *ssa.Const:
			b, isB := engine.ConstBool(x)
			if !isB {
				return false
			}
			return !b || everyPathPasses(h, at, cut, nil)
		case *ssa.BinOp:
			cm := engine.Cmp{Op: x.Op, X: x.X, Y: x.Y}
			return isLimit(cm) || isLimit(cm.Swap())
		case *ssa.Phi:
			for i, e := range x.Edges {
				pred := x.Block().Preds[i]
				if b, isB := engine.ConstBool(e); isB && b && cut[[2]*ssa.BasicBlock{pred, x.Block()}] {
					continue // "true" arriving on the limit edge itself (a || b)
				}
				if !okVal(e, pred.Instrs[len(pred.Instrs)-1], d+1) {
					return false
				}
			}
			return true
		}
		return false
	}
	return okVal(v, at, 0)
}
