package rules

import (
	"go/token"

	"golang.org/x/tools/go/ssa"

	"tdverif/checker/engine"
)

// C24 — each RPC call completes once with its own result, then is left alone.
func init() {
	register("C24", []string{"rpc", "mtproto", "mt"}, func(c *engine.Ctx) {
		c.Explain("C24: (R1) Engine.Do registers its result handler in e.rpc under req.MsgID while holding e.mux, a deferred cleanup that covers every exit after the registration deletes the same key under e.mux; NotifyResult/NotifyError look the handler up with their msgID parameter under e.mux and call exactly the value found. (R2) the handler's writes to the caller's memory (Output.Decode, the result error) happen only after it won CompareAndSwap(&called,0,1), and on the winning side it closes the done channel before returning. (R3, output-after-return safety) the handler is invoked outside e.mux, so every exit of Do after the registration must either win that same CAS itself or wait for done (a deferred claim-or-wait that covers the registration, or per-return dominance); a non-blocking poll does not count. (R4) Do returns the handler's result error only on paths dominated by a completed receive from done.")
		c.NotCover("actual schedules; the value decoded into Output; server-side duplicate results for one id beyond the CAS")
		c24(c)
		c24Routing(c)
	})
}

type rpcDo struct {
	do, handler *ssa.Function
	reg         ssa.Instruction // the registration in Do: the map update, or the call of the method that makes it
	cas         *ssa.Call
	casCell     ssa.Value
	doneCell    ssa.Value
	resCell     ssa.Value
	closeDefer  ssa.Instruction
}

// rpcEdit is one update of the engine's handler table e.rpc made by fn: the
// map update itself, or the call of a method of the engine that makes it
// (setHandler(id, fn)); key and val are in fn's terms (a method's parameters
// are replaced by the arguments of the call).
type rpcEdit struct {
	at      ssa.Instruction // in fn: the MapUpdate, or the call of the method
	inner   *ssa.MapUpdate  // the update itself
	keyDesc string          // description of the key in fn's terms
	val     ssa.Value       // the value stored, in fn's terms
	locked  bool            // made under the engine's mux
}

func rpcEdits(fn *ssa.Function) []rpcEdit {
	var out []rpcEdit
	ls := engine.Locksets(fn)
	for _, mu := range mapUpdatesOf(fn, "p:e.rpc") {
		out = append(out, rpcEdit{at: mu, inner: mu, keyDesc: engine.Describe(mu.Key), val: mu.Value, locked: heldAt(ls, mu, "p:e.mux")})
	}
	for _, hc := range engine.Calls(fn) {
		h := hc.Common().StaticCallee()
		if h == nil || len(h.Blocks) == 0 || h.Pkg != fn.Pkg || len(h.Params) == 0 || h == fn {
			continue
		}
		recv := "p:" + engine.ParamName(h.Params[0])
		hls := engine.Locksets(h)
		for _, mu := range mapUpdatesOf(h, recv+".rpc") {
			e := rpcEdit{at: hc, inner: mu, keyDesc: engine.Describe(mu.Key), val: mu.Value, locked: heldAt(hls, mu, recv+".mux")}
			// parameters → arguments
			for i, p := range h.Params {
				args := engine.Args(hc.Common())
				if i >= len(args) {
					break
				}
				e.keyDesc = replaceToken(e.keyDesc, "p:"+engine.ParamName(p), engine.Describe(args[i]))
			}
			if a := argOfParam(mu.Value, hc); a != nil {
				e.val = a
			}
			out = append(out, e)
		}
	}
	return out
}

// rpcDoShape resolves the semantic pieces of Engine.Do: the handler closure
// (the one that decodes into req.Output), its CAS flag, the channel it closes
// and the cell it stores the result error in.
func rpcDoShape(c *engine.Ctx, rule string) *rpcDo {
	do := c.MustFunc(rule, "rpc", "Engine.Do")
	if do == nil {
		return nil
	}
	s := &rpcDo{do: do}
	for _, f := range engine.WithAnon(do) {
		if f == do {
			continue
		}
		if len(engine.CallsTo(f, false, "(bin.Decoder).Decode")) > 0 {
			s.handler = f
		}
	}
	if s.handler == nil {
		c.Undecided(rule, "Do/handler", do.Pos(), "no closure of Do decodes into req.Output: the result handler is not recognised")
		return nil
	}
	c.SawFunc(s.handler)
	for _, ed := range rpcEdits(do) {
		if closureOf(ed.val) == s.handler {
			s.reg = ed.at
		}
	}
	if s.reg == nil {
		c.Undecided(rule, "Do/registration", do.Pos(), "the handler closure is not stored into e.rpc in Do")
		return nil
	}
	cs := casOn(s.handler, nil)
	if len(cs) != 1 {
		c.Undecided(rule, "Do/handler-cas", s.handler.Pos(), "expected exactly one CompareAndSwap in the result handler, found %d", len(cs))
		return nil
	}
	s.cas = cs[0]
	s.casCell = cell(engine.Args(s.cas.Common())[0])
	for _, call := range engine.Calls(s.handler) {
		if engine.CalleeID(call.Common()) == "builtin.close" {
			s.doneCell = cell(call.Common().Args[0])
			s.closeDefer = call
		}
	}
	for _, dec := range engine.CallsTo(s.handler, false, "(bin.Decoder).Decode") {
		engine.Instrs(s.handler, func(i ssa.Instruction) {
			if st, ok := i.(*ssa.Store); ok && engine.Unwrap(st.Val) == dec.Value() {
				// a variable of Do captured by the handler, not the handler's own result slot
				if a, isA := cell(st.Addr).(*ssa.Alloc); isA && a.Parent() == do {
					s.resCell = a
				}
			}
		})
	}
	return s
}

func c24(c *engine.Ctx) {
	s := rpcDoShape(c, "C24.R1")
	if s == nil {
		return
	}
	do := s.do
	ls := engine.Locksets(do)

	// ---- R1: registration / cleanup / lookup keys and locks
	n1 := 0
	_ = ls
	// updates of Do itself and of the engine methods it calls (setHandler,
	// a cancel helper that installs the no-op handler); an update two levels down
	// is found through the method in between
	var edits []rpcEdit
	for _, f := range withHelpers(do, 1) {
		if f.Parent() != nil {
			continue
		}
		for _, ed := range rpcEdits(f) {
			if f != do {
				if ed.at == ssa.Instruction(ed.inner) {
					continue // f's own update: already seen from Do through the call of f
				}
				// key in Do's terms: through the call(s) of f in Do
				for _, site := range staticCallsOf(do, f) {
					e2 := ed
					for i, p := range f.Params {
						args := engine.Args(site.Common())
						if i < len(args) {
							e2.keyDesc = replaceToken(e2.keyDesc, "p:"+engine.ParamName(p), engine.Describe(args[i]))
						}
					}
					edits = append(edits, e2)
				}
				continue
			}
			edits = append(edits, ed)
		}
	}
	for _, ed := range edits {
		n1++
		k :="Do/e.rpc-update#" + itoa(int64(n1-1))
		c.Check(ed.keyDesc == "p:req.MsgID", "C24.R1", k+"/key", ed.at.Pos(), "handler must be stored under req.MsgID (key is %s)", ed.keyDesc)
		c.Check(ed.locked, "C24.R1", k+"/lock", ed.at.Pos(), "e.rpc must be updated under e.mux")
	}
	// deferred cleanup
	cleanupOK := false
	for _, d := range defersOf(do) {
		g := closureOf(d.Call.Value)
		if g == nil {
			continue
		}
		gls := engine.Locksets(g)
		for _, call := range engine.Calls(g) {
			if engine.CalleeID(call.Common()) != "builtin.delete" {
				continue
			}
			a := call.Common().Args
			recvName := "e"
			if g.Parent() == nil && len(g.Params) > 0 {
				recvName = engine.ParamName(g.Params[0])
			}
			if descCell(a[0]) != "p:"+recvName+".rpc" {
				continue
			}
			n1++
			c.SawFunc(g)
			keyOK := descCell(a[1]) == "p:req.MsgID"
			lockOK := heldAt(gls, call, "fv:e.mux") && descCell(lockRecvOf(g, "fv:e.mux")) == "p:e.mux"
			if g.Parent() == nil {
				// a deferred method of the engine (defer e.removeHandler(req.MsgID)): the key
				// is its parameter, judged by the argument of the defer; the lock is the
				// receiver's
				keyOK = false
				for i, p := range g.Params {
					if engine.Unwrap(a[1]) == ssa.Value(p) && i < len(d.Call.Args) {
						keyOK = engine.Describe(d.Call.Args[i]) == "p:req.MsgID"
					}
				}
				lockOK = heldAt(gls, call, "p:"+recvName+".mux") && len(d.Call.Args) > 0 && engine.Describe(d.Call.Args[0]) == "p:e"
			}
			cov := coversExits(d, s.reg)
			c.Check(keyOK, "C24.R1", "Do/cleanup/key", call.Pos(), "deferred cleanup must delete the key the handler was registered under (deletes %s)", descCell(a[1]))
			c.Check(lockOK, "C24.R1", "Do/cleanup/lock", call.Pos(), "deferred cleanup must delete under e.mux")
			c.Check(cov, "C24.R1", "Do/cleanup/covers-exits", d.Pos(), "the cleanup defer must be armed on every path from the registration to an exit of Do")
			cleanupOK = true
		}
	}
	c.Check(cleanupOK, "C24.R1", "Do/cleanup/exists", do.Pos(), "Do must defer the removal of its handler from e.rpc")
	for _, name := range []string{"Engine.NotifyResult", "Engine.NotifyError"} {
		fn := c.MustFunc("C24.R1", "rpc", name)
		if fn == nil {
			continue
		}
		fls := engine.Locksets(fn)
		lks := lookupsOf(fn, "p:e.rpc")
		for _, lk := range lks {
			n1++
			c.Check(engine.Describe(lk.Index) == "p:msgID", "C24.R1", name+"/lookup/key", lk.Pos(), "the handler must be looked up with the id parameter (index is %s)", engine.Describe(lk.Index))
			c.Check(heldAt(fls, lk, "p:e.mux"), "C24.R1", name+"/lookup/lock", lk.Pos(), "e.rpc must be read under e.mux")
		}
		// the lookup may have been extracted into a helper of the package: a
		// function that looks e.rpc up once, with its own parameter as the key
		// (which receives msgID), under e.mux, and returns what it found
		var viaHelper []ssa.Value
		if len(lks) == 0 {
			for _, call := range engine.Calls(fn) {
				h := call.Common().StaticCallee()
				if h == nil || h.Pkg != fn.Pkg || len(h.Blocks) == 0 {
					continue
				}
				hl := lookupsOf(h, "p:e.rpc")
				if len(hl) != 1 {
					continue
				}
				n1++
				hls := engine.Locksets(h)
				keyIdx := -1
				for i, p := range h.Params {
					if engine.Unwrap(hl[0].Index) == ssa.Value(p) {
						keyIdx = i
					}
				}
				args := engine.Args(call.Common())
				okKey := keyIdx >= 0 && keyIdx < len(args) && engine.Describe(args[keyIdx]) == "p:msgID"
				okRet := false
				for _, r := range engine.Returns(h) {
					if len(r.Results) > 0 && engine.DependsOn(r.Results[0], hl[0]) {
						okRet = true
					}
				}
				c.Check(okKey && okRet && heldAt(hls, hl[0], "p:e.mux"), "C24.R1", name+"/lookup/via-"+h.Name(), call.Pos(), "%s must look e.rpc up with the id it is given (which must be msgID), under e.mux, and return what it found", h.Name())
				if v := call.Value(); v != nil {
					viaHelper = append(viaHelper, v)
				}
			}
		}
		c.Check(len(lks)+len(viaHelper) == 1, "C24.R1", name+"/lookup/one", fn.Pos(), "exactly one lookup of e.rpc expected, found %d", len(lks)+len(viaHelper))
		// the dynamic call invokes the looked-up value
		dyn := 0
		for _, call := range engine.Calls(fn) {
			cc := call.Common()
			if cc.IsInvoke() || cc.StaticCallee() != nil {
				continue
			}
			if _, isB := cc.Value.(*ssa.Builtin); isB {
				continue
			}
			dyn++
			from := false
			for _, lk := range lks {
				if engine.DependsOn(cc.Value, lk) {
					from = true
				}
			}
			for _, hv := range viaHelper {
				if engine.DependsOn(cc.Value, hv) {
					from = true
				}
			}
			c.Check(from, "C24.R1", name+"/calls-found-handler", call.Pos(), "the function value invoked must be the one found under msgID (is %s)", engine.Describe(cc.Value))
			// routing of the payload: NotifyResult passes its buffer, NotifyError its error
			if name == "Engine.NotifyResult" {
				c.Check(len(cc.Args) == 2 && engine.Describe(cc.Args[0]) == "p:b" && engine.IsNil(cc.Args[1]), "C24.R1", name+"/payload", call.Pos(), "handler must receive (b, nil)")
			} else {
				c.Check(len(cc.Args) == 2 && engine.IsNil(cc.Args[0]) && engine.Describe(cc.Args[1]) == "p:rpcErr", "C24.R1", name+"/payload", call.Pos(), "handler must receive (nil, rpcErr)")
			}
			if heldAt(fls, call, "p:e.mux") {
				c.Extra["handler_called_under_mux:"+name] = true
			}
		}
		c.Check(dyn == 1, "C24.R1", name+"/one-dynamic-call", fn.Pos(), "exactly one handler invocation expected, found %d", dyn)
	}
	c.Floor("C24.R1", 5, n1)

	// ---- R2: handler CAS discipline
	h := s.handler
	n2 := 0
	a := engine.Args(s.cas.Common())
	old, _ := engine.ConstInt(a[1])
	nw, _ := engine.ConstInt(a[2])
	c.Check(old == 0 && nw == 1, "C24.R2", "handler/cas-0-1", s.cas.Pos(), "the once-flag must be claimed with CompareAndSwap(flag, 0, 1)")
	for _, call := range engine.CallsTo(h, false, "(bin.Decoder).Decode") {
		n2++
		c.Check(guardedByCall(call, s.cas, true), "C24.R2", "handler/decode-after-cas", call.Pos(), "req.Output.Decode must run only after the handler won the CAS")
		c.Check(descCell(engine.Args(call.Common())[0]) == "p:req.Output" && engine.Describe(engine.Args(call.Common())[1]) == "p:rpcBuff", "C24.R2", "handler/decode-args", call.Pos(), "the handler must decode its buffer argument into req.Output")
	}
	engine.Instrs(h, func(i ssa.Instruction) {
		st, ok := i.(*ssa.Store)
		if !ok {
			return
		}
		if _, isFV := cell(st.Addr).(*ssa.Alloc); !isFV || cell(st.Addr).Parent() != do {
			return
		}
		n2++
		c.Check(guardedByCall(st, s.cas, true), "C24.R2", "handler/store#"+ordinal(h, st), st.Pos(), "a write to a variable of Do (%s) must run only after the handler won the CAS", descCell(st.Addr))
	})
	if s.closeDefer == nil {
		c.Fail("C24.R2", "handler/close-done", h.Pos(), "the handler never closes a completion channel")
	} else {
		n2++
		_, isDefer := s.closeDefer.(*ssa.Defer)
		okc := guardedByCall(s.closeDefer, s.cas, true)
		for _, r := range exits(h) {
			if guardedByCall(r, s.cas, true) {
				if isDefer {
					okc = okc && engine.Dominates(s.closeDefer, r)
				} else {
					okc = okc && engine.Dominates(s.closeDefer, r)
				}
			} else if !guardedByCall(r, s.cas, false) {
				okc = false
			}
		}
		c.Check(okc, "C24.R2", "handler/close-done", s.closeDefer.Pos(), "the winning handler must close done before every return, and only the winner may close it")
	}
	// the outcome of decoding is the call's outcome: the handler must store the Decode result in the
	// variable Do returns after done (a swallowed decode error makes Do report success with a
	// half-written Output)
	n2++
	c.Check(s.resCell != nil, "C24.R2", "handler/decode-result-stored", h.Pos(), "the result of req.Output.Decode must be stored into the result variable of Do")
	c.Floor("C24.R2", 4, n2)

	// ---- R3: no write after return
	n3 := 0
	underMux := c.Extra["handler_called_under_mux:Engine.NotifyResult"] == true && c.Extra["handler_called_under_mux:Engine.NotifyError"] == true
	claimDefer := false
	for _, d := range defersOf(do) {
		g := closureOf(d.Call.Value)
		if g == nil || !engine.Dominates(d, s.reg) {
			continue
		}
		if claimsOrWaits(g, s) {
			claimDefer = true
			c.SawFunc(g)
			c.Pass("C24.R3", "Do/claim-or-wait-defer", d.Pos(), "a defer armed before the registration wins the handler's CAS or waits for done on every path")
			n3++
		}
	}
	for _, r := range exits(do) {
		if !engine.PathExists(s.reg, r) {
			continue
		}
		n3++
		key := "Do/return#" + retOrdinal(do, r)
		safe := underMux || claimDefer
		if !safe {
			for _, rv := range recvsOf(do) {
				if rv.Blocking && cell(rv.Chan) == s.doneCell && afterRecv(rv, r) {
					safe = true
				}
			}
			for _, cs := range casOn(do, s.casCell) {
				if guardedByCall(r, cs, true) {
					safe = true
				}
			}
		}
		c.Check(safe, "C24.R3", key, r.Pos(), "Do returns here after registering its handler without having claimed the handler's CAS or waited for done: NotifyResult invokes the handler outside e.mux, so it can still write req.Output/result after this return")
	}
	c.Floor("C24.R3", 5, n3)

	// ---- R4: result error returned only after done
	n4 := 0
	for _, r := range engine.Returns(do) {
		v := engine.RetVal(r, 0)
		ld, ok := v.(*ssa.UnOp)
		if !ok || ld.Op != token.MUL || s.resCell == nil || cell(ld.X) != s.resCell {
			continue
		}
		n4++
		okr := false
		for _, rv := range recvsOf(do) {
			if cell(rv.Chan) == s.doneCell && afterRecv(rv, r) {
				okr = true
			}
		}
		c.Check(okr, "C24.R4", "Do/return-result#"+retOrdinal(do, r), r.Pos(), "the handler's result may be returned only after a completed receive from done")
	}
	c.Floor("C24.R4", 2, n4)
}

// c24Routing (R5): "its own result" starts in mtproto.Conn.handleResult: the engine is
// notified under RequestMessageID of the decoded rpc_result, an rpc_error is recognised by
// the type id of the buffer actually handed on (re-peeked after gzip unpacking), and the
// error/result notifications are mutually exclusive.
func c24Routing(c *engine.Ctx) {
	hr := c.MustFunc("C24.R5", "mtproto", "Conn.handleResult")
	if hr == nil {
		return
	}
	n := 0
	var dec ssa.CallInstruction
	for _, call := range engine.CallsTo(hr, false, "(*proto.Result).Decode") {
		dec = call
	}
	resD := ""
	if dec != nil {
		resD = engine.Describe(engine.Args(dec.Common())[0])
	}
	var bufV ssa.Value
	for _, ns := range notifySites(hr) {
		call := ns.call
		n++
		id := engine.Describe(ns.id)
		c.Check(dec != nil && id == resD+".RequestMessageID", "C24.R5", "handleResult/"+call.Common().StaticCallee().Name()+"/routes-by-req-msg-id", call.Pos(), "a result must complete the call whose message id the rpc_result names (routes to %s)", id)
		if call.Common().StaticCallee().Name() == "NotifyResult" && call.Parent() == hr {
			bufV = engine.Args(call.Common())[2]
		}
	}
	rpcErrID, _ := constInt(c, "mt", "RPCErrorTypeID")
	var idCmp *ssa.BinOp
	var idVal ssa.Value
	engine.Instrs(hr, func(i ssa.Instruction) {
		if b, ok := i.(*ssa.BinOp); ok {
			if cm, isCmp := engine.CmpOf(b); isCmp && cm.Op == token.EQL {
				if k, isK := engine.ConstInt(cm.Y); isK && k == rpcErrID {
					idCmp, idVal = b, cm.X
				}
			}
		}
	})
	n++
	if idCmp == nil {
		c.Fail("C24.R5", "handleResult/dispatch-on-rpc-error", hr.Pos(), "handleResult must test the inner type id against rpc_error")
	} else {
		ok, why := idBufferAgree(idVal, bufV)
		c.Check(ok, "C24.R5", "handleResult/id-matches-buffer", idCmp.Pos(), "the id tested for rpc_error and the buffer handed to the caller's decoder must belong together on every path (a gzipped rpc_error must be recognised as an error, not decoded as the result): %s", why)
	}
	c.Floor("C24.R5", 3, n)
}

// notifySite is a call of Engine.NotifyResult / NotifyError made by fn or by a
// same-package helper fn calls; id is the message id it routes to, in fn's
// terms (a helper's parameter is replaced by the argument fn passes).
type notifySite struct {
	call ssa.CallInstruction
	id   ssa.Value
}

func notifySites(fn *ssa.Function) []notifySite {
	var out []notifySite
	for _, f := range withHelpers(fn, 1) {
		for _, call := range engine.CallsTo(f, false, "(*rpc.Engine).NotifyResult", "(*rpc.Engine).NotifyError") {
			id := engine.Args(call.Common())[1]
			if f == fn || f.Parent() != nil {
				out = append(out, notifySite{call, id})
				continue
			}
			// in a helper: one site per call of the helper in fn
			for _, site := range staticCallsOf(fn, f) {
				if a := argOfParam(id, site); a != nil {
					out = append(out, notifySite{call, a})
				} else {
					out = append(out, notifySite{call, id})
				}
			}
		}
	}
	return out
}

// lockRecvOf returns the receiver of the first Lock call in fn described by d.
func lockRecvOf(fn *ssa.Function, d string) ssa.Value {
	for _, call := range engine.Calls(fn) {
		id := engine.CalleeID(call.Common())
		if id == "(*sync.Mutex).Lock" || id == "(*sync.RWMutex).Lock" {
			if engine.Describe(call.Common().Args[0]) == d {
				return call.Common().Args[0]
			}
		}
	}
	return nil
}

// claimsOrWaits: every path through g to a return wins the CAS on the
// handler's flag or completes a blocking receive from the handler's done channel.
func claimsOrWaits(g *ssa.Function, s *rpcDo) bool {
	cs := casOn(g, s.casCell)
	if len(cs) == 0 {
		return false
	}
	cut, barrier := recvCut(g, s.doneCell, true)
	for _, call := range cs {
		a := engine.Args(call.Common())
		old, ok1 := engine.ConstInt(a[1])
		nw, ok2 := engine.ConstInt(a[2])
		if !ok1 || !ok2 || old != 0 || nw != 1 {
			return false
		}
		for e := range engine.EdgesWhere(g, callBool(call, true)) {
			cut[e] = true
		}
	}
	for _, r := range exits(g) {
		if !everyPathPasses(g, r, cut, barrier) {
			return false
		}
	}
	return true
}
