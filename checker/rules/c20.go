package rules

import (
	"fmt"

	"golang.org/x/tools/go/ssa"

	"tdverif/checker/engine"
)

// C20 — TL primitives round-trip, 4-byte aligned, decode never panics.
func init() {
	register("C20", []string{"bin", "proto", "proto/codec", "crypto", "exchange"}, func(c *engine.Ctx) {
		c.Explain("C20: (R1, writer/reader agreement) for strings and bytes the encoder's one-byte-length bound S, long-form marker M and length-byte shifts agree with the decoder's marker, rejection bound and shifts: S+1 = M = M' ≤ 255, S = S', shifts {8,16} on both sides. (R2, exhaustive over residues mod 4) nearestPaddedValueLength(l) − l ∈ [0,3] and the result is divisible by 4. (R3) every slice/index expression in the decode methods of bin.Buffer and in decodeString/decodeBytes is proven in range from dominating len-guards, callee success summaries and intervals.")
		c.NotCover("value equality of doubles/NaN payloads; strings of 2^24 bytes and more (encoder truncates the 3-byte length, outside the stated bound)")
		c20R1(c)
		c20R2(c)
		c20R3(c)
	})
}

var c20DecodeFuncs = []string{
	"Buffer.PeekID", "Buffer.PeekN", "Buffer.ID", "Buffer.Uint32", "Buffer.Uint64", "Buffer.Int32", "Buffer.ConsumeN",
	"Buffer.Bool", "Buffer.ConsumeID", "Buffer.VectorHeader", "Buffer.String", "Buffer.Bytes", "Buffer.Int",
	"Buffer.Double", "Buffer.Int53", "Buffer.Long", "Buffer.Int128", "Buffer.Int256", "decodeString", "decodeBytes",
}

func c20R3(c *engine.Ctx) {
	bd := engine.NewBounds()
	sites := 0
	var pres []engine.Pre
	for _, name := range c20DecodeFuncs {
		fn := c.MustFunc("C20.R3", "bin", name)
		if fn == nil {
			continue
		}
		issues, p, n := bd.CheckFuncPre(fn)
		pres = append(pres, p...)
		sites += n
		for _, is := range issues {
			c.Fail("C20.R3", name+"/"+is.What+"#"+ordinal(fn, is.Instr), is.Instr.Pos(), "%s", is.Detail)
		}
		if len(issues) == 0 && n > 0 {
			c.Pass("C20.R3", name+"/bounds", fn.Pos(), "%d slice/index sites proven in range (exported preconditions: %d)", n, len(p))
		}
	}
	c.Floor("C20.R3", 20, sites)
	// Skip has the same shape: b.Buf[n:] on a bare parameter
	if fn := c.MustFunc("C20.R3", "bin", "Buffer.Skip"); fn != nil {
		_, p, _ := bd.CheckFuncPre(fn)
		pres = append(pres, p...)
	}
	checkPreconditions(c, bd, "C20.R3pre", pres)
}

// checkPreconditions discharges exported "argument ≥ 0" preconditions at every
// static call site in the loaded packages.
func checkPreconditions(c *engine.Ctx, bd *engine.Bounds, rule string, pres []engine.Pre) int {
	n := 0
	want := map[*ssa.Function][]int{}
	for _, p := range pres {
		want[p.Fn] = append(want[p.Fn], p.Param)
	}
	for _, sp := range c.SSA {
		for _, mem := range allFunctions(c, sp) {
			for _, f := range engine.WithAnon(mem) {
				for _, call := range engine.Calls(f) {
					callee := call.Common().StaticCallee()
					idxs, ok := want[callee]
					if !ok {
						continue
					}
					for _, pi := range idxs {
						n++
						arg := call.Common().Args[pi]
						// the calling function may itself export the precondition for its own parameter
						var assume []*ssa.Parameter
						for _, own := range want[f] {
							assume = append(assume, f.Params[own])
						}
						okk, iv := bd.NonNegAtAssuming(arg, call, assume)
						key := engine.FuncID(f) + "→" + engine.FuncID(callee) + "#" + ordinalCall(f, call)
						c.Check(okk, rule, key, call.Pos(), "argument %s ∈ %s of %s must be ≥ 0 (the callee slices its buffer with it)", engine.Describe(arg), iv, engine.FuncID(callee))
					}
				}
			}
		}
	}
	return n
}

// residueCheck evaluates a padding helper f(l) for every residue r of l modulo
// M (l = M·q + r, q ≥ 0) and hands the linear form of the result to verify.
func residueCheck(c *engine.Ctx, rule, key string, fn *ssa.Function, sym *ssa.Parameter, M int64,
	verify func(r int64, res engine.Lin) (bool, string)) int {
	n := 0
	for r := int64(0); r < M; r++ {
		n++
		k := key + "/residue" + itoa(r)
		rel := engine.LinRel(sym, M, r, func() map[*ssa.Phi]ssa.Value { return engine.CurrentEnv })
		run, err := engine.AbstractRun(fn, rel)
		if err != nil || run.Value == nil {
			c.Undecided(rule, k, fn.Pos(), "residue evaluation failed: %v", err)
			continue
		}
		lin, ok := engine.LinEval(run.Value, sym, M, r, run.Env)
		if !ok {
			c.Undecided(rule, k, fn.Pos(), "result %s is outside the linear fragment", engine.Describe(run.Value))
			continue
		}
		good, msg := verify(r, lin)
		c.Check(good, rule, k, fn.Pos(), "l = %d·q+%d ⇒ result = %d·q%+d: %s", M, r, lin.A, lin.B, msg)
	}
	return n
}

func itoa(n int64) string { return fmt.Sprint(n) }

// c20R1: writer/reader agreement of the string/bytes length prefix. From each
// encoder: the largest length S written in the one-byte form (branch constant)
// and the marker byte M of the long form with the shifts of the three length
// bytes; from each decoder: the marker M' that selects the long form, the shifts
// it reassembles the length with and the bound S' above which a one-byte length
// is rejected. Round trip needs S < M = M' ≤ 255, S = S' = M−1 and equal shifts.
func c20R1(c *engine.Ctx) {
	n := 0
	for _, pr := range [][2]string{{"encodeString", "decodeString"}, {"encodeBytes", "decodeBytes"}} {
		enc := c.MustFunc("C20.R1", "bin", pr[0])
		dec := c.MustFunc("C20.R1", "bin", pr[1])
		if enc == nil || dec == nil {
			continue
		}
		n++
		// encoder: branch on len(param) against a constant
		S, M := int64(-1), int64(-1)
		encShifts := map[int64]bool{}
		engine.Instrs(enc, func(i ssa.Instruction) {
			switch x := i.(type) {
			case *ssa.If:
				k := engine.Guard{If: x, Branch: true}.Cmp()
				lc := engine.CallOf(k.X)
				if lc == nil || engine.CalleeID(lc.Common()) != "builtin.len" {
					return
				}
				v, isK := engine.ConstInt(k.Y)
				if !isK {
					return
				}
				switch k.Op.String() {
				case "<=":
					S = v
				case "<":
					S = v - 1
				case ">":
					S = v
				case ">=":
					S = v - 1
				}
			case *ssa.Store:
				// constant non-zero byte written into the output: the long-form marker
				if k, isK := engine.ConstInt(x.Val); isK && k != 0 {
					if b, isB := x.Val.Type().Underlying().(interface{ Kind() int }); isB {
						_ = b
					}
					if x.Val.Type().String() == "byte" || x.Val.Type().String() == "uint8" {
						M = k
					}
				}
			case *ssa.BinOp:
				if x.Op.String() == ">>" {
					if k, isK := engine.ConstInt(x.Y); isK {
						encShifts[k] = true
					}
				}
			}
		})
		Mp, Sp := int64(-1), int64(-1)
		decShifts := map[int64]bool{}
		engine.Instrs(dec, func(i ssa.Instruction) {
			switch x := i.(type) {
			case *ssa.If:
				k := engine.Guard{If: x, Branch: true}.Cmp()
				v, isK := engine.ConstInt(k.Y)
				if !isK {
					return
				}
				d := engine.Describe(k.X)
				if k.Op.String() == "==" && d == "p:b[0]" {
					Mp = v
				}
				if d == "p:b[0]" {
					switch k.Op.String() {
					case ">":
						Sp = v
					case ">=":
						Sp = v - 1
					}
				}
			case *ssa.BinOp:
				if x.Op.String() == "<<" {
					if k, isK := engine.ConstInt(x.Y); isK {
						decShifts[k] = true
					}
				}
			}
		})
		sh := func(m map[int64]bool) string {
			out := ""
			for _, k := range []int64{8, 16, 24, 32} {
				if m[k] {
					out += itoa(k) + " "
				}
			}
			return out
		}
		ok := S >= 0 && M == Mp && S == Sp && M == S+1 && M <= 255 && sh(encShifts) == "8 16 " && sh(decShifts) == "8 16 "
		c.Check(ok, "C20.R1", pr[0]+"↔"+pr[1]+"/length-prefix-agreement", enc.Pos(),
			"writer: one-byte form for len ≤ %d, long-form marker %d, shifts {%s}; reader: marker %d, rejects one-byte length > %d, shifts {%s}; round trip needs S+1 = M = M' ≤ 255, S = S' and the shifts {8 16} on both sides (a length equal to the marker written in the one-byte form is read back as a long string)", S, M, sh(encShifts), Mp, Sp, sh(decShifts))
	}
	c.Floor("C20.R1", 2, n)
}

func c20R2(c *engine.Ctx) {
	fn := c.MustFunc("C20.R2", "bin", "nearestPaddedValueLength")
	if fn == nil {
		return
	}
	n := residueCheck(c, "C20.R2", "nearestPaddedValueLength", fn, fn.Params[0], 4, func(r int64, res engine.Lin) (bool, string) {
		// result − l = (A−4)·q + (B − r) must be in [0,3] for all q ≥ 0, result % 4 == 0
		pad := res.B - r
		return res.A == 4 && pad >= 0 && pad <= 3 && res.B%4 == 0, "padding must be in [0,3] and the result divisible by 4 for every l ≥ 0"
	})
	c.Extra["exhaustive"] = true
	c.Floor("C20.R2", 4, n)
}
