package rules

import (
	"fmt"

	"golang.org/x/tools/go/ssa"

	"tdverif/checker/engine"
)

// C20 — TL primitives round-trip, 4-byte aligned, decode never panics.
func init() {
	register("C20", []string{"bin", "proto", "proto/codec", "crypto", "exchange"}, func(c *engine.Ctx) {
		c.Explain("C20: (R3) every slice/index expression in the decode methods of bin.Buffer and in decodeString/decodeBytes is proven in range from dominating len-guards, callee success summaries and intervals.")
		c20R2(c)
		c20R3(c)
	})
}

var c20DecodeFuncs = []string{
	"Buffer.PeekID", "Buffer.PeekN", "Buffer.ID", "Buffer.Uint32", "Buffer.Uint64", "Buffer.Int32", "Buffer.ConsumeN",
	"Buffer.Bool", "Buffer.ConsumeID", "Buffer.VectorHeader", "Buffer.String", "Buffer.Bytes", "Buffer.Int",
	"Buffer.Double", "Buffer.Int53", "Buffer.Long", "Buffer.Int128", "Buffer.Int256", "decodeString", "decodeBytes",
}

func c20R3(c *engine.Ctx) {
	bd := engine.NewBounds()
	sites := 0
	var pres []engine.Pre
	for _, name := range c20DecodeFuncs {
		fn := c.MustFunc("C20.R3", "bin", name)
		if fn == nil {
			continue
		}
		issues, p, n := bd.CheckFuncPre(fn)
		pres = append(pres, p...)
		sites += n
		for _, is := range issues {
			c.Fail("C20.R3", name+"/"+is.What+"#"+ordinal(fn, is.Instr), is.Instr.Pos(), "%s", is.Detail)
		}
		if len(issues) == 0 && n > 0 {
			c.Pass("C20.R3", name+"/bounds", fn.Pos(), "%d slice/index sites proven in range (exported preconditions: %d)", n, len(p))
		}
	}
	c.Floor("C20.R3", 20, sites)
	// Skip has the same shape: b.Buf[n:] on a bare parameter
	if fn := c.MustFunc("C20.R3", "bin", "Buffer.Skip"); fn != nil {
		_, p, _ := bd.CheckFuncPre(fn)
		pres = append(pres, p...)
	}
	checkPreconditions(c, bd, "C20.R3pre", pres)
}

// checkPreconditions discharges exported "argument ≥ 0" preconditions at every
// static call site in the loaded packages.
func checkPreconditions(c *engine.Ctx, bd *engine.Bounds, rule string, pres []engine.Pre) int {
	n := 0
	want := map[*ssa.Function][]int{}
	for _, p := range pres {
		want[p.Fn] = append(want[p.Fn], p.Param)
	}
	for _, sp := range c.SSA {
		for _, mem := range allFunctions(c, sp) {
			for _, f := range engine.WithAnon(mem) {
				for _, call := range engine.Calls(f) {
					callee := call.Common().StaticCallee()
					idxs, ok := want[callee]
					if !ok {
						continue
					}
					for _, pi := range idxs {
						n++
						arg := call.Common().Args[pi]
						// the calling function may itself export the precondition for its own parameter
						var assume []*ssa.Parameter
						for _, own := range want[f] {
							assume = append(assume, f.Params[own])
						}
						okk, iv := bd.NonNegAtAssuming(arg, call, assume)
						key := engine.FuncID(f) + "→" + engine.FuncID(callee) + "#" + ordinalCall(f, call)
						c.Check(okk, rule, key, call.Pos(), "argument %s ∈ %s of %s must be ≥ 0 (the callee slices its buffer with it)", engine.Describe(arg), iv, engine.FuncID(callee))
					}
				}
			}
		}
	}
	return n
}

// residueCheck evaluates a padding helper f(l) for every residue r of l modulo
// M (l = M·q + r, q ≥ 0) and hands the linear form of the result to verify.
func residueCheck(c *engine.Ctx, rule, key string, fn *ssa.Function, sym *ssa.Parameter, M int64,
	verify func(r int64, res engine.Lin) (bool, string)) int {
	n := 0
	for r := int64(0); r < M; r++ {
		n++
		k := key + "/residue" + itoa(r)
		rel := engine.LinRel(sym, M, r, func() map[*ssa.Phi]ssa.Value { return engine.CurrentEnv })
		run, err := engine.AbstractRun(fn, rel)
		if err != nil || run.Value == nil {
			c.Undecided(rule, k, fn.Pos(), "residue evaluation failed: %v", err)
			continue
		}
		lin, ok := engine.LinEval(run.Value, sym, M, r, run.Env)
		if !ok {
			c.Undecided(rule, k, fn.Pos(), "result %s is outside the linear fragment", engine.Describe(run.Value))
			continue
		}
		good, msg := verify(r, lin)
		c.Check(good, rule, k, fn.Pos(), "l = %d·q+%d ⇒ result = %d·q%+d: %s", M, r, lin.A, lin.B, msg)
	}
	return n
}

func itoa(n int64) string { return fmt.Sprint(n) }

func c20R2(c *engine.Ctx) {
	fn := c.MustFunc("C20.R2", "bin", "nearestPaddedValueLength")
	if fn == nil {
		return
	}
	n := residueCheck(c, "C20.R2", "nearestPaddedValueLength", fn, fn.Params[0], 4, func(r int64, res engine.Lin) (bool, string) {
		// result − l = (A−4)·q + (B − r) must be in [0,3] for all q ≥ 0, result % 4 == 0
		pad := res.B - r
		return res.A == 4 && pad >= 0 && pad <= 3 && res.B%4 == 0, "padding must be in [0,3] and the result divisible by 4 for every l ≥ 0"
	})
	c.Extra["exhaustive"] = true
	c.Floor("C20.R2", 4, n)
}
