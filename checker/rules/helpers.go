package rules

import (
	"golang.org/x/tools/go/ssa"

	"tdverif/checker/engine"
)

// Following helpers. A rule that asks for a construct "in function F" must not
// care whether a maintainer moved those lines into an unexported helper of the
// same package. withHelpers gives F together with the same-package functions
// it calls statically (and their anonymous functions), to the given depth.

func withHelpers(fn *ssa.Function, depth int) []*ssa.Function {
	if fn == nil {
		return nil
	}
	seen := map[*ssa.Function]bool{}
	var out []*ssa.Function
	var walk func(f *ssa.Function, d int)
	walk = func(f *ssa.Function, d int) {
		for _, g := range engine.WithAnon(f) {
			if seen[g] {
				continue
			}
			seen[g] = true
			out = append(out, g)
			if d <= 0 {
				continue
			}
			for _, call := range engine.Calls(g) {
				h := call.Common().StaticCallee()
				if h == nil || len(h.Blocks) == 0 || h.Pkg == nil || h.Pkg != fn.Pkg {
					continue
				}
				walk(h, d-1)
			}
		}
	}
	walk(fn, depth)
	return out
}

// instrsWithHelpers visits the instructions of fn and of the same-package
// helpers it calls directly.
func instrsWithHelpers(fn *ssa.Function, visit func(ssa.Instruction)) {
	for _, f := range withHelpers(fn, 1) {
		for _, b := range f.Blocks {
			for _, in := range b.Instrs {
				visit(in)
			}
		}
	}
}

// callsToWithHelpers: calls to one of ids in fn or in the helpers it calls.
func callsToWithHelpers(fn *ssa.Function, depth int, ids ...string) []ssa.CallInstruction {
	var out []ssa.CallInstruction
	for _, f := range withHelpers(fn, depth) {
		out = append(out, engine.CallsTo(f, false, ids...)...)
	}
	return out
}

// argOfParam: if v (inside helper h) is parameter i of h and call is a call of h,
// the argument the caller passes for it; else nil.
func argOfParam(v ssa.Value, call ssa.CallInstruction) ssa.Value {
	p, ok := engine.Unwrap(v).(*ssa.Parameter)
	if !ok || call == nil {
		return nil
	}
	h := call.Common().StaticCallee()
	if h == nil || p.Parent() != h {
		return nil
	}
	args := engine.Args(call.Common())
	for i, q := range h.Params {
		if q == p && i < len(args) {
			return args[i]
		}
	}
	return nil
}

// staticCallsOf: the calls in fn (with its anonymous functions) whose static
// callee is h.
func staticCallsOf(fn, h *ssa.Function) []ssa.CallInstruction {
	var out []ssa.CallInstruction
	for _, g := range engine.WithAnon(fn) {
		for _, call := range engine.Calls(g) {
			if call.Common().StaticCallee() == h {
				out = append(out, call)
			}
		}
	}
	return out
}
