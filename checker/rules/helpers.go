package rules

import (
	"go/token"

	"golang.org/x/tools/go/ssa"

	"tdverif/checker/engine"
)

// Following helpers. A rule that asks for a construct "in function F" must not
// care whether a maintainer moved those lines into an unexported helper of the
// same package. withHelpers gives F together with the same-package functions
// it calls statically (and their anonymous functions), to the given depth.

func withHelpers(fn *ssa.Function, depth int) []*ssa.Function {
	if fn == nil {
		return nil
	}
	seen := map[*ssa.Function]bool{}
	var out []*ssa.Function
	var walk func(f *ssa.Function, d int)
	walk = func(f *ssa.Function, d int) {
		for _, g := range engine.WithAnon(f) {
			if seen[g] {
				continue
			}
			seen[g] = true
			out = append(out, g)
			if d <= 0 {
				continue
			}
			for _, call := range engine.Calls(g) {
				h := call.Common().StaticCallee()
				if h == nil || len(h.Blocks) == 0 || h.Pkg == nil || h.Pkg != fn.Pkg {
					continue
				}
				walk(h, d-1)
			}
		}
	}
	walk(fn, depth)
	return out
}

// normAllocs makes a description independent of the names of local variables:
// every "alloc:<name>" becomes "alloc:#1", "alloc:#2", … in order of first
// appearance (the same local keeps the same number within the string).
func normAllocs(s string) string {
	const tag = "alloc:"
	names := map[string]string{}
	var out []byte
	for i := 0; i < len(s); {
		if i+len(tag) <= len(s) && s[i:i+len(tag)] == tag {
			j := i + len(tag)
			for j < len(s) && (s[j] == '_' || s[j] >= '0' && s[j] <= '9' || s[j] >= 'a' && s[j] <= 'z' || s[j] >= 'A' && s[j] <= 'Z' || s[j] >= 0x80) {
				j++
			}
			name := s[i+len(tag) : j]
			if _, ok := names[name]; !ok {
				names[name] = "#" + string(rune('0'+len(names)+1))
			}
			out = append(out, tag...)
			out = append(out, names[name]...)
			i = j
			continue
		}
		out = append(out, s[i])
		i++
	}
	return string(out)
}

// digestExpr describes a value computed as h := ctor(args…); h.Write(in0); …;
// h.Sum(x) — in the function that uses it, or in a same-package helper whose
// successful return is that Sum (the values are then mapped to the arguments of
// the helper call; a value that is neither a parameter nor a constant/function
// of the helper maps to nil).
type digestExpr struct {
	ctor     *ssa.Call
	ctorArgs []ssa.Value
	inputs   []ssa.Value
	sumArg   ssa.Value
	at       ssa.Instruction // in the asking function: where the last input is consumed (last Write, or the helper call)
}

func digestOf(v ssa.Value, ctorID string) (*digestExpr, bool) {
	v = engine.Unwrap(v)
	idx := 0
	if ex, ok := v.(*ssa.Extract); ok {
		v, idx = ex.Tuple, ex.Index
	}
	sum, ok := v.(*ssa.Call)
	if !ok {
		return nil, false
	}
	if sum.Common().IsInvoke() && sum.Common().Method.Name() == "Sum" && idx == 0 {
		ctor := isCallTo(sum.Common().Value, ctorID)
		if ctor == nil || len(sum.Common().Args) != 1 {
			return nil, false
		}
		fn := sum.Parent()
		d := &digestExpr{ctor: ctor, ctorArgs: ctor.Common().Args, sumArg: sum.Common().Args[0]}
		var writes []ssa.CallInstruction
		for _, call := range engine.Calls(fn) {
			cc := call.Common()
			if cc.IsInvoke() && cc.Method.Name() == "Write" && cc.Value == sum.Common().Value {
				writes = append(writes, call)
			}
		}
		for i, w := range writes {
			if !engine.Dominates(w, sum) || engine.InCycle(w) || (i > 0 && !engine.Dominates(writes[i-1], w)) {
				return nil, false
			}
			d.inputs = append(d.inputs, w.Common().Args[0])
		}
		if len(writes) == 0 {
			return nil, false
		}
		d.at = writes[len(writes)-1]
		return d, true
	}
	h := sum.Common().StaticCallee()
	if h == nil || len(h.Blocks) == 0 || sum.Parent() == nil || h.Pkg != sum.Parent().Pkg {
		return nil, false
	}
	var inner *digestExpr
	for _, r := range engine.Returns(h) {
		if idx >= len(r.Results) {
			return nil, false
		}
		res := engine.RetVal(r, idx)
		if engine.IsNil(res) {
			continue // a failing return hands back no digest
		}
		in, ok := digestOf(res, ctorID)
		if !ok || inner != nil {
			return nil, false
		}
		inner = in
	}
	if inner == nil {
		return nil, false
	}
	mapv := func(x ssa.Value) ssa.Value {
		if a := argOfParam(x, sum); a != nil {
			return a
		}
		switch engine.Unwrap(x).(type) {
		case *ssa.Const, *ssa.Function:
			return x
		}
		return nil
	}
	d := &digestExpr{ctor: inner.ctor, at: sum, sumArg: mapv(inner.sumArg)}
	for _, a := range inner.ctorArgs {
		d.ctorArgs = append(d.ctorArgs, mapv(a))
	}
	for _, in := range inner.inputs {
		m := mapv(in)
		if m == nil {
			return nil, false
		}
		d.inputs = append(d.inputs, m)
	}
	return d, true
}

// sliceRoot peels slice expressions off v: the value that is sliced in the end
// (typically the local array) and the constant offset at which v starts in it.
// ok is false when a low bound is not a constant.
func sliceRoot(v ssa.Value) (root ssa.Value, lo int64, ok bool) {
	v = engine.Unwrap(v)
	for i := 0; i < 8; i++ {
		sl, isSl := v.(*ssa.Slice)
		if !isSl {
			return v, lo, true
		}
		if sl.Low != nil {
			k, isK := engine.ConstInt(sl.Low)
			if !isK {
				return nil, 0, false
			}
			lo += k
		}
		v = engine.Unwrap(sl.X)
	}
	return v, lo, true
}

// closesNonNil: function h calls Close on its parameter p on every path to an
// exit on which p is not known to be nil.
func closesNonNil(h *ssa.Function, p *ssa.Parameter) bool {
	nilEdges := engine.EdgesWhere(h, func(k engine.Cmp) bool {
		return engine.Unwrap(k.X) == ssa.Value(p) && engine.IsNil(k.Y) && k.Op == token.EQL
	})
	isClose := func(i ssa.Instruction) bool {
		ci, ok := i.(ssa.CallInstruction)
		return ok && ci.Common().IsInvoke() && ci.Common().Method.Name() == "Close" && engine.Unwrap(ci.Common().Value) == ssa.Value(p)
	}
	closes := false
	for _, call := range engine.Calls(h) {
		if isClose(call) {
			closes = true
		}
	}
	if !closes || len(h.Blocks) == 0 {
		return false
	}
	for _, r := range exits(h) {
		if (engine.PathQuery{Fn: h, FromBlk: h.Blocks[0], Cut: nilEdges, Barrier: isClose}).Reaches(r) {
			return false
		}
	}
	return true
}

// onlyCalledFrom: f is an unexported function of its package that is called
// (statically, at least once) and only from the functions in allowed or their
// anonymous functions — lines a maintainer moved out of one of them. all is the
// set of functions of the package to search for callers.
func onlyCalledFrom(f *ssa.Function, all []*ssa.Function, allowed ...*ssa.Function) bool {
	if f == nil || f.Object() == nil || f.Object().Exported() {
		return false
	}
	callers := 0
	for _, g := range all {
		for _, call := range engine.Calls(g) {
			if call.Common().StaticCallee() != f {
				continue
			}
			callers++
			root := g
			for root.Parent() != nil {
				root = root.Parent()
			}
			ok := false
			for _, a := range allowed {
				if root == a {
					ok = true
				}
			}
			if !ok {
				return false
			}
		}
		// handed around as a value: callers unknown
		for _, b := range g.Blocks {
			for _, in := range b.Instrs {
				if ci, isCall := in.(ssa.CallInstruction); isCall {
					for _, a := range ci.Common().Args {
						if a == ssa.Value(f) {
							return false
						}
					}
					continue
				}
				for _, op := range in.Operands(nil) {
					if op != nil && *op == ssa.Value(f) {
						return false
					}
				}
			}
		}
	}
	return callers > 0
}

// instrsWithHelpers visits the instructions of fn and of the same-package
// helpers it calls directly.
func instrsWithHelpers(fn *ssa.Function, visit func(ssa.Instruction)) {
	for _, f := range withHelpers(fn, 1) {
		for _, b := range f.Blocks {
			for _, in := range b.Instrs {
				visit(in)
			}
		}
	}
}

// callsToWithHelpers: calls to one of ids in fn or in the helpers it calls.
func callsToWithHelpers(fn *ssa.Function, depth int, ids ...string) []ssa.CallInstruction {
	var out []ssa.CallInstruction
	for _, f := range withHelpers(fn, depth) {
		out = append(out, engine.CallsTo(f, false, ids...)...)
	}
	return out
}

// argOfParam: if v (inside helper h) is parameter i of h and call is a call of h,
// the argument the caller passes for it; else nil.
func argOfParam(v ssa.Value, call ssa.CallInstruction) ssa.Value {
	p, ok := engine.Unwrap(v).(*ssa.Parameter)
	if !ok || call == nil {
		return nil
	}
	h := call.Common().StaticCallee()
	if h == nil || p.Parent() != h {
		return nil
	}
	args := engine.Args(call.Common())
	for i, q := range h.Params {
		if q == p && i < len(args) {
			return args[i]
		}
	}
	return nil
}

// staticCallsOf: the calls in fn (with its anonymous functions) whose static
// callee is h.
func staticCallsOf(fn, h *ssa.Function) []ssa.CallInstruction {
	var out []ssa.CallInstruction
	for _, g := range engine.WithAnon(fn) {
		for _, call := range engine.Calls(g) {
			if call.Common().StaticCallee() == h {
				out = append(out, call)
			}
		}
	}
	return out
}
