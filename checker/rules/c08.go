package rules

import (
	"go/token"
	"strings"

	"golang.org/x/tools/go/ssa"

	"tdverif/checker/engine"
)

// C08 — outgoing message ids are unique, increasing and client-typed.
func init() {
	register("C08", []string{"proto", "mtproto", "rpc"}, func(c *engine.Ctx) {
		c.Explain("C08: (R1, difference bound) every store to MessageIDGen.nano in New advances it by at least messageIDModulo: form old+c gives c, a fresh reading stored under fresh >= old+c' gives c' (> gives c'+1); newMessageID clears the low two bits, so a smaller step can repeat an id. (R2) all accesses to nano are under g.mux. (R3) newMessageID masks the fraction with -messageIDModulo before adding the yield; NewMessageIDNano maps client→0, server-response→1, from-server→3 (all < modulo) and MessageID.Type inverts it (evaluated for every type/residue). (R4) nextMsgSeq draws id and seq under reqMux; evaluated on both paths: seq = 2n for service, 2n+1 and n←n+1 for content. (R5) the id source is called only from nextMsgSeq inside mtproto.")
		c.NotCover("closeness of the encoded time to the clock reading")
		c08R1(c)
		c08R3(c)
		c08R4(c)
	})
}

func c08R1(c *engine.Ctx) {
	fn := c.MustFunc("C08.R1", "proto", "MessageIDGen.New")
	if fn == nil {
		return
	}
	mod, ok := constInt(c, "proto", "messageIDModulo")
	if !ok {
		c.Undecided("C08.R1", "anchor:messageIDModulo", 0, "constant proto.messageIDModulo does not resolve")
		return
	}
	bd := engine.NewBounds()
	isNano := func(v ssa.Value) bool { return engine.Describe(v) == "p:g.nano" }
	n := 0
	engine.Instrs(fn, func(i ssa.Instruction) {
		st, isS := i.(*ssa.Store)
		if !isS || engine.Describe(st.Addr) != "p:g.nano" {
			return
		}
		n++
		key := "MessageIDGen.New/store#" + ordinal(fn, st)
		step := int64(-1 << 62)
		why := ""
		// form old + c
		base, off := bd.Linear(st.Val, st)
		if isNano(base) {
			step = off
			why = "old + constant"
		} else {
			// fresh value under a guard fresh >= old + c' / fresh > old + c'
			for _, g := range engine.Guards(st) {
				k0 := g.Cmp()
				for _, k := range []engine.Cmp{k0, k0.Swap()} {
					if k.X != st.Val {
						continue
					}
					gb, gofs := bd.Linear(k.Y, g.If)
					if !isNano(gb) {
						continue
					}
					switch k.Op {
					case token.GEQ:
						if gofs > step {
							step, why = gofs, "guard fresh >= old+c"
						}
					case token.GTR:
						if gofs+1 > step {
							step, why = gofs+1, "guard fresh > old+c"
						}
					}
				}
			}
		}
		c.Check(step >= mod, "C08.R1", key, st.Pos(), "stored time advances by at least %d ns (%s); ids of times closer than messageIDModulo=%d ns can be equal, so the minimum step must be ≥ %d", step, why, mod, mod)
	})
	c.Floor("C08.R1", 2, n)
	// R2 locks
	ls := engine.Locksets(fn)
	m := 0
	engine.Instrs(fn, func(i ssa.Instruction) {
		var addr ssa.Value
		switch x := i.(type) {
		case *ssa.Store:
			addr = x.Addr
		case *ssa.UnOp:
			if x.Op == token.MUL {
				addr = x.X
			}
		}
		if addr == nil || engine.Describe(addr) != "p:g.nano" {
			return
		}
		m++
		c.Check(ls[i]["p:g.mux"], "C08.R2", "MessageIDGen.New/nano-access#"+ordinal(fn, i), i.Pos(), "access to g.nano must hold g.mux (held: %v)", keys(ls[i]))
	})
	c.Floor("C08.R2", 3, m)
}

func keys(m map[string]bool) []string {
	var out []string
	for k := range m {
		out = append(out, k)
	}
	return out
}

func c08R3(c *engine.Ctx) {
	mod, _ := constInt(c, "proto", "messageIDModulo")
	nm := c.MustFunc("C08.R3", "proto", "newMessageID")
	if nm != nil {
		// the fraction is masked with -modulo, then the yield is added
		var masked *ssa.BinOp
		engine.Instrs(nm, func(i ssa.Instruction) {
			if b, ok := i.(*ssa.BinOp); ok && b.Op == token.AND {
				if k, isK := engine.ConstInt(b.Y); isK && k == -mod {
					masked = b
				}
			}
			if b, ok := i.(*ssa.BinOp); ok && b.Op == token.AND_NOT {
				if k, isK := engine.ConstInt(b.Y); isK && k == mod-1 {
					masked = b
				}
			}
		})
		okMask := masked != nil && strings.Contains(engine.Describe(masked.X), "% 1000000000")
		c.Check(okMask, "C08.R3", "newMessageID/mask", nm.Pos(), "the fractional part must be masked with -messageIDModulo so the low bits carry only the type")
		okAdd := false
		if masked != nil {
			engine.Instrs(nm, func(i ssa.Instruction) {
				if b, ok := i.(*ssa.BinOp); ok && (b.Op == token.ADD || b.Op == token.OR) && b.X == ssa.Value(masked) && engine.Describe(b.Y) == "p:yield" {
					// and the sum is what is returned (or'ed with the seconds)
					for _, r := range engine.Returns(nm) {
						if engine.DependsOn(r.Results[0], b) {
							okAdd = true
						}
					}
				}
			})
		}
		c.Check(okAdd, "C08.R3", "newMessageID/yield-added", nm.Pos(), "the type yield must be added to the masked fraction and returned")
	}
	// NewMessageIDNano: type → yield table; MessageID.Type: residue → type
	nn := c.MustFunc("C08.R3", "proto", "NewMessageIDNano")
	ty := c.MustFunc("C08.R3", "proto", "MessageID.Type")
	if nn == nil || ty == nil {
		return
	}
	yields := map[int64]int64{}
	for t := int64(0); t < 4; t++ {
		t := t
		res, err := engine.AbstractRun(nn, func(x, y ssa.Value) (int, bool) {
			if x == ssa.Value(nn.Params[1]) {
				if k, ok := engine.ConstInt(y); ok {
					return cmp64(t, k), true
				}
			}
			return 0, false
		})
		if err != nil {
			c.Undecided("C08.R3", "NewMessageIDNano/type"+itoa(t), nn.Pos(), "abstract evaluation failed: %v", err)
			continue
		}
		// yield argument of the newMessageID call on this path
		for _, call := range engine.CallsTo(nn, false, "proto.newMessageID") {
			yv := res.Resolve(call.Common().Args[1])
			if k, ok := engine.ConstInt(yv); ok {
				yields[t] = k
				continue
			}
			// the table may live in a helper of the package that is handed the type
			hc := engine.CallOf(yv)
			if hc == nil {
				continue
			}
			h := hc.Common().StaticCallee()
			if h == nil || h.Pkg != nn.Pkg || len(h.Blocks) == 0 {
				continue
			}
			pi := -1
			for i, a := range hc.Common().Args {
				if engine.Unwrap(a) == ssa.Value(nn.Params[1]) && i < len(h.Params) {
					pi = i
				}
			}
			if pi < 0 {
				continue
			}
			hres, herr := engine.AbstractRun(h, func(x, y ssa.Value) (int, bool) {
				if x == ssa.Value(h.Params[pi]) {
					if k, ok := engine.ConstInt(y); ok {
						return cmp64(t, k), true
					}
				}
				return 0, false
			})
			if herr != nil {
				continue
			}
			if k, ok := engine.ConstInt(hres.Resolve(engine.RetValOnPath(hres, 0))); ok {
				yields[t] = k
			}
		}
	}
	types := map[int64]int64{}
	for r := int64(0); r < mod; r++ {
		r := r
		res, err := engine.AbstractRun(ty, func(x, y ssa.Value) (int, bool) {
			if b, ok := x.(*ssa.BinOp); ok && b.Op == token.REM && b.X == ssa.Value(ty.Params[0]) {
				if k, ok := engine.ConstInt(y); ok {
					return cmp64(r, k), true
				}
			}
			return 0, false
		})
		if err != nil || res.Const == nil {
			c.Undecided("C08.R3", "MessageID.Type/residue"+itoa(r), ty.Pos(), "abstract evaluation failed: %v", err)
			continue
		}
		types[r] = *res.Const
	}
	client, _ := constInt(c, "proto", "MessageFromClient")
	n := 0
	for t := int64(1); t < 4; t++ {
		y, ok := yields[t]
		n++
		c.Check(ok && y >= 0 && y < mod && types[y] == t, "C08.R3", "type-yield-roundtrip/type"+itoa(t), nn.Pos(),
			"type %d is encoded with yield %d and id%%%d == %d decodes to type %d (must be %d)", t, y, mod, y, types[y], t)
	}
	c.Check(yields[client] == 0, "C08.R3", "client-yield-zero", nn.Pos(), "client ids must be divisible by 4: yield for MessageFromClient is %d", yields[client])
	c.Extra["exhaustive"] = true
	c.Floor("C08.R3", 3, n)
	// Conn.newMessageID asks for a client id
	if cn := c.MustFunc("C08.R3", "mtproto", "Conn.newMessageID"); cn != nil {
		ok := false
		for _, call := range engine.Calls(cn) {
			if strings.HasSuffix(engine.CalleeID(call.Common()), ".New") {
				if k, isK := engine.ConstInt(engine.Args(call.Common())[len(engine.Args(call.Common()))-1]); isK && k == client {
					ok = true
				}
			}
		}
		c.Check(ok, "C08.R3", "Conn.newMessageID/client-typed", cn.Pos(), "the connection must generate ids of type MessageFromClient")
	}
}

func c08R4(c *engine.Ctx) {
	fn := c.MustFunc("C08.R4", "mtproto", "Conn.nextMsgSeq")
	if fn == nil {
		return
	}
	ls := engine.Locksets(fn)
	n := 0
	engine.Instrs(fn, func(i ssa.Instruction) {
		relevant := false
		switch x := i.(type) {
		case *ssa.Call:
			relevant = engine.CalleeID(x.Common()) == "(*mtproto.Conn).newMessageID"
		case *ssa.Store:
			relevant = engine.Describe(x.Addr) == "p:c.sentContentMessages"
		case *ssa.UnOp:
			relevant = x.Op == token.MUL && engine.Describe(x.X) == "p:c.sentContentMessages"
		}
		if !relevant {
			return
		}
		n++
		c.Check(ls[i]["p:c.reqMux"], "C08.R4", "nextMsgSeq/locked#"+ordinal(fn, i), i.Pos(), "message id and content counter must be drawn under reqMux")
	})
	// the id draw, at least one read and the write of the counter (a function
	// that reads the counter once into a local has three such sites, not four)
	c.Floor("C08.R4", 3, n)
	isN := func(v ssa.Value) bool {
		u, ok := v.(*ssa.UnOp)
		return ok && u.Op == token.MUL && engine.Describe(u.X) == "p:c.sentContentMessages"
	}
	for _, content := range []bool{false, true} {
		content := content
		name := map[bool]string{false: "service", true: "content"}[content]
		res, err := engine.AbstractRunOpt(fn, func(x, y ssa.Value) (int, bool) { return 0, false }, func(v ssa.Value) (bool, bool) {
			if v == ssa.Value(fn.Params[1]) {
				return content, true
			}
			return false, false
		})
		if err != nil {
			c.Undecided("C08.R4", "nextMsgSeq/"+name, fn.Pos(), "abstract evaluation failed: %v", err)
			continue
		}
		resolve := func(v ssa.Value) ssa.Value {
			if isN(v) {
				if _, ok := res.LoadVal[v.(*ssa.UnOp)]; !ok {
					return v
				}
			}
			return res.Resolve(v)
		}
		seq, ok := engine.LinEvalF(engine.RetValOnPath(res, 1), isN, 1, 0, resolve)
		want := engine.Lin{A: 2, B: 0}
		if content {
			want.B = 1
		}
		c.Check(ok && seq == want, "C08.R4", "nextMsgSeq/"+name+"-seqno", res.Ret.Pos(), "%s message: seq_no = %d·n%+d (must be %d·n%+d)", name, seq.A, seq.B, want.A, want.B)
		// counter update
		var upd *engine.Lin
		for _, st := range res.Stores {
			if engine.Describe(st.Addr) == "p:c.sentContentMessages" {
				l, ok := engine.LinEvalF(st.Val, isN, 1, 0, resolve)
				if ok {
					upd = &l
				} else {
					upd = &engine.Lin{A: -1}
				}
			}
		}
		if content {
			c.Check(upd != nil && *upd == engine.Lin{A: 1, B: 1}, "C08.R4", "nextMsgSeq/content-counter", res.Ret.Pos(), "a content message must increment the content counter by exactly one (update: %v)", upd)
		} else {
			c.Check(upd == nil, "C08.R4", "nextMsgSeq/service-counter", res.Ret.Pos(), "a service message must not change the content counter (update: %v)", upd)
		}
		// id returned is the freshly generated one
		idv := res.Resolve(engine.RetValOnPath(res, 0))
		call := engine.CallOf(idv)
		c.Check(call != nil && engine.CalleeID(call.Common()) == "(*mtproto.Conn).newMessageID", "C08.R4", "nextMsgSeq/"+name+"-id", res.Ret.Pos(), "returned id must come from newMessageID")
	}
	// R5 who-may-call
	m := 0
	for _, f := range allFunctions(c, c.SSA["mtproto"]) {
		for _, g := range engine.WithAnon(f) {
			for _, call := range engine.Calls(g) {
				id := engine.CalleeID(call.Common())
				if id == "(*mtproto.Conn).newMessageID" {
					m++
					c.Check(g == fn, "C08.R5", "newMessageID-caller:"+engine.FuncID(g), call.Pos(), "message ids must be drawn together with the sequence number in nextMsgSeq only")
				}
				if strings.HasSuffix(id, "MessageIDSource).New") || id == "(*proto.MessageIDGen).New" {
					m++
					c.Check(engine.FuncID(g) == "(*mtproto.Conn).newMessageID", "C08.R5", "idsource-caller:"+engine.FuncID(g), call.Pos(), "the id source must be used only through Conn.newMessageID")
				}
			}
		}
	}
	c.Floor("C08.R5", 2, m)
	// R6 who-may-write the content counter: "twice the number of earlier
	// content messages" holds for the whole life of the connection only if
	// nothing but nextMsgSeq ever stores it (a reset on key regeneration
	// restarts the numbers on a live connection)
	w := 0
	for _, f := range allFunctions(c, c.SSA["mtproto"]) {
		for _, g := range engine.WithAnon(f) {
			engine.Instrs(g, func(i ssa.Instruction) {
				st, ok := i.(*ssa.Store)
				if !ok {
					return
				}
				fa, isFA := st.Addr.(*ssa.FieldAddr)
				if !isFA || engine.FieldNameOf(fa) != "sentContentMessages" {
					return
				}
				w++
				c.Check(g == fn, "C08.R6", "sentContentMessages-writer:"+engine.FuncID(g)+"#"+ordinal(g, st), st.Pos(), "the content counter may be changed only by nextMsgSeq")
			})
		}
	}
	c.Floor("C08.R6", 1, w)
	// R7 the numbers drawn are the numbers sent: every caller hands the
	// (id, seq) pair of one nextMsgSeq call to newEncryptedMessage, and every
	// branch of newEncryptedMessage puts them into the frame header (C04.R6)
	nem := c.Func("mtproto", "Conn.newEncryptedMessage")
	s := 0
	for _, f := range allFunctions(c, c.SSA["mtproto"]) {
		for _, g := range engine.WithAnon(f) {
			for _, call := range engine.Calls(g) {
				if nem == nil || call.Common().StaticCallee() != nem {
					continue
				}
				s++
				a := engine.Args(call.Common())
				id, isI := engine.Unwrap(a[1]).(*ssa.Extract)
				sq, isS := engine.Unwrap(a[2]).(*ssa.Extract)
				ok := isI && isS && id.Tuple == sq.Tuple && id.Index == 0 && sq.Index == 1
				if ok {
					src := engine.CallOf(id)
					ok = src != nil && src.Common().StaticCallee() == fn
				}
				// or the function's own parameters, forwarded by a caller that is checked the same way
				if !ok && len(g.Params) >= 3 {
					ok = c08Forwarded(c, g, fn, a[1], a[2])
				}
				c.Check(ok, "C08.R7", "frame-gets-drawn-pair:"+engine.FuncID(g)+"#"+ordinalCall(g, call), call.Pos(), "newEncryptedMessage must receive the message id and sequence number of one nextMsgSeq draw")
			}
		}
	}
	c.Floor("C08.R7", 1, s)
	c04R6As(c, "C08.R7")
}

// c08Forwarded: id and seq are parameters of g, and every static caller of g
// in mtproto passes the two results of one nextMsgSeq call for them.
func c08Forwarded(c *engine.Ctx, g, next *ssa.Function, id, seq ssa.Value) bool {
	pi, pj := -1, -1
	for k, p := range g.Params {
		if ssa.Value(p) == engine.Unwrap(id) {
			pi = k
		}
		if ssa.Value(p) == engine.Unwrap(seq) {
			pj = k
		}
	}
	if pi < 0 || pj < 0 {
		return false
	}
	callers := 0
	for _, f := range allFunctions(c, c.SSA["mtproto"]) {
		for _, h := range engine.WithAnon(f) {
			for _, call := range engine.Calls(h) {
				if call.Common().StaticCallee() != g {
					continue
				}
				callers++
				a := engine.Args(call.Common())
				x, okX := engine.Unwrap(a[pi]).(*ssa.Extract)
				y, okY := engine.Unwrap(a[pj]).(*ssa.Extract)
				if okX && okY && x.Tuple == y.Tuple && x.Index == 0 && y.Index == 1 {
					if src := engine.CallOf(x); src != nil && src.Common().StaticCallee() == next {
						continue
					}
					return false
				}
				// the caller forwards its own parameters
				if h == g || !c08Forwarded(c, h, next, a[pi], a[pj]) {
					return false
				}
			}
		}
	}
	if callers > 0 {
		return true
	}
	// no static caller: g is handed to the rpc engine as its send function.
	// The pair then travels in rpc.Request: every Request built in mtproto
	// takes MsgID and SeqNo from one nextMsgSeq draw, and the engine calls its
	// send function with (req.MsgID, req.SeqNo) of one request.
	if engine.FuncID(g) != "(*mtproto.Conn).writeContentMessage" || pi != 2 || pj != 3 {
		return false
	}
	reqs := 0
	okReq := true
	for _, f := range allFunctions(c, c.SSA["mtproto"]) {
		for _, h := range engine.WithAnon(f) {
			engine.Instrs(h, func(i ssa.Instruction) {
				al, ok := i.(*ssa.Alloc)
				if !ok || !strings.HasSuffix(al.Type().String(), "rpc.Request") {
					return
				}
				id, sq := engine.StructFieldValue(al, "MsgID"), engine.StructFieldValue(al, "SeqNo")
				if id == nil && sq == nil {
					return // not a literal (a parameter copy)
				}
				reqs++
				x, okX := engine.Unwrap(id).(*ssa.Extract)
				y, okY := engine.Unwrap(sq).(*ssa.Extract)
				if !okX || !okY || x.Tuple != y.Tuple || x.Index != 0 || y.Index != 1 {
					okReq = false
					return
				}
				if src := engine.CallOf(x); src == nil || src.Common().StaticCallee() != next {
					okReq = false
				}
			})
		}
	}
	sends := 0
	okSend := true
	for _, f := range allFunctions(c, c.SSA["rpc"]) {
		for _, h := range engine.WithAnon(f) {
			for _, call := range engine.Calls(h) {
				cc := call.Common()
				if cc.StaticCallee() != nil || cc.IsInvoke() || !strings.HasSuffix(descCell(cc.Value), "e.send") {
					continue
				}
				sends++
				d1, d2 := descCell(cc.Args[1]), descCell(cc.Args[2])
				if !strings.HasSuffix(d1, ".MsgID") || !strings.HasSuffix(d2, ".SeqNo") || strings.TrimSuffix(d1, ".MsgID") != strings.TrimSuffix(d2, ".SeqNo") {
					okSend = false
				}
			}
		}
	}
	return reqs > 0 && okReq && sends > 0 && okSend
}
