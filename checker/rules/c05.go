package rules

import (
	"go/token"
	"strings"

	"golang.org/x/tools/go/ssa"

	"tdverif/checker/engine"
)

// C05 — tampered, reflected or foreign ciphertexts are rejected.
func init() {
	register("C05", []string{"crypto"}, func(c *engine.Ctx) {
		c.Explain("C05: the authentication checks are present on every accepting path. (R1) every success return of Cipher.Decrypt is guarded by decryptMessage err==nil and by MessageKey(k.Value, plaintext, side) == encrypted.MsgKey; every success return of decryptMessage is guarded by k.ID == encrypted.AuthKeyID. (R2) side is c.encryptSide.DecryptSide() and plaintext is the decryptMessage result. (R3) in Decrypt, DecryptFromBuffer and decryptMessage a return with a non-nil error yields nil data. (R4) getX maps Client and Server to different offsets (so a reflected message fails the msg_key check).")
		c.NotCover("collision resistance of SHA-256, bit-level malleability of AES-IGE")
		c05(c)
	})
}

func c05(c *engine.Ctx) {
	dec := c.MustFunc("C05.R1", "crypto", "Cipher.Decrypt")
	dm := c.MustFunc("C05.R1", "crypto", "Cipher.decryptMessage")
	if dec == nil || dm == nil {
		return
	}
	n := 0
	for _, r := range engine.SuccessReturns(dec) {
		n++
		var dmCall *ssa.Call
		okDM := engine.GuardedBy(r, func(k engine.Cmp) bool {
			call := engine.CallOf(k.X)
			if call != nil && call.Common().StaticCallee() == dm && k.Op == token.EQL && engine.IsNil(k.Y) {
				dmCall = call
				return true
			}
			return false
		})
		c.Check(okDM, "C05.R1", "Cipher.Decrypt/decryptMessage-ok", r.Pos(), "success must be guarded by decryptMessage returning a nil error")
		var mk *ssa.Call
		okKey := engine.GuardedBy(r, func(k engine.Cmp) bool {
			call := engine.CallOf(k.X)
			if call == nil || engine.CalleeID(call.Common()) != "crypto.MessageKey" || k.Op != token.EQL {
				return false
			}
			if !strings.HasSuffix(engine.DescribeVal(k.Y), "p:encrypted.MsgKey") {
				return false
			}
			mk = call
			return true
		})
		c.Check(okKey, "C05.R1", "Cipher.Decrypt/msg-key-check", r.Pos(), "success must be guarded by MessageKey(...) == encrypted.MsgKey")
		if mk != nil {
			a := mk.Common().Args
			okArgs := engine.Describe(a[0]) == "p:k.Value" &&
				dmCall != nil && engine.CallOf(a[1]) == dmCall &&
				engine.Describe(a[2]) == "(crypto.Side).DecryptSide(p:c.encryptSide)"
			c.Check(okArgs, "C05.R2", "Cipher.Decrypt/msg-key-args", mk.Pos(),
				"msg_key must be recomputed from k.Value, the decryptMessage plaintext and the decrypt side; got (%s, %s, %s)",
				engine.Describe(a[0]), engine.Describe(a[1]), engine.Describe(a[2]))
		}
		// the returned data is decoded from the same plaintext
		if dmCall != nil {
			okData := false
			for _, call := range engine.Calls(dec) {
				id := engine.CalleeID(call.Common())
				if strings.HasSuffix(id, "EncryptedMessageData).DecodeWithoutCopy") || strings.HasSuffix(id, "EncryptedMessageData).Decode") {
					for _, dc := range engine.FindCallBack(call.Common().Args[1], engine.FuncID(dm)) {
						if dc == dmCall && engine.Dominates(call, r) {
							okData = true
						}
					}
				}
			}
			c.Check(okData, "C05.R2", "Cipher.Decrypt/data-from-plaintext", r.Pos(), "the returned message must be decoded from the authenticated plaintext")
			// authenticate, then parse: nothing read out of the plaintext
			// (header fields, lengths — also inside error values) before
			// the msg_key comparison succeeded
			okOrder := mk != nil
			for _, call := range engine.Calls(dec) {
				if mk == nil || call == ssa.CallInstruction(mk) || call == ssa.CallInstruction(dmCall) {
					continue
				}
				if id := engine.CalleeID(call.Common()); id == "builtin.len" || id == "builtin.cap" {
					continue // the length is that of the ciphertext: nothing decrypted is revealed
				}
				uses := false
				for _, a := range engine.Args(call.Common()) {
					for _, dc := range engine.FindCallBack(a, engine.FuncID(dm)) {
						if dc == dmCall {
							uses = true
						}
					}
				}
				if !uses {
					continue
				}
				guarded := engine.GuardedBy(call, func(k engine.Cmp) bool {
					return engine.CallOf(k.X) == mk && k.Op == token.EQL
				})
				if !guarded {
					okOrder = false
				}
			}
			c.Check(okOrder, "C05.R3", "Cipher.Decrypt/authenticate-before-parse", r.Pos(), "every consumer of the decrypted plaintext other than MessageKey must run only after the msg_key comparison succeeded (a rejected message yields nothing, not even through error texts)")
		}
	}
	c.Floor("C05.R1", 1, n)
	m := 0
	for _, r := range engine.SuccessReturns(dm) {
		m++
		ok := engine.GuardedBy(r, func(k engine.Cmp) bool {
			return k.Op == token.EQL && engine.Describe(k.X) == "p:k.ID" && engine.Describe(k.Y) == "p:encrypted.AuthKeyID"
		})
		c.Check(ok, "C05.R1", "Cipher.decryptMessage/auth-key-id", r.Pos(), "decryption must be guarded by k.ID == encrypted.AuthKeyID")
		// key derived from encrypted.MsgKey with the decrypt side
		okKeys := false
		for _, call := range engine.CallsTo(dm, false, "crypto.Keys") {
			a := call.Common().Args
			if engine.Describe(a[0]) == "p:k.Value" && engine.Describe(a[1]) == "p:encrypted.MsgKey" && engine.Dominates(call, r) {
				okKeys = true
			}
		}
		c.Check(okKeys, "C05.R2", "Cipher.decryptMessage/keys-args", r.Pos(), "AES key/iv must be derived from k.Value and encrypted.MsgKey")
	}
	c.Floor("C05.R1b", 1, m)
	// R1c: the whole ciphertext is decrypted (no silent truncation of trailing bytes) and a partial block rejects
	dcalls := engine.CallsTo(dm, false, "github.com/gotd/ige.DecryptAES256Blocks", "github.com/gotd/ige.DecryptBlocks")
	for _, call := range dcalls {
		args := call.Common().Args
		src := args[len(args)-1]
		whole := engine.Describe(src) == "p:encrypted.EncryptedData"
		guarded := engine.GuardedBy(call, func(k engine.Cmp) bool {
			rem, isr := engine.Unwrap(k.X).(*ssa.BinOp)
			z, isz := engine.ConstInt(k.Y)
			if !isr || rem.Op != token.REM || !isz || z != 0 || k.Op != token.EQL {
				return false
			}
			md, _ := engine.ConstInt(rem.Y)
			lc := engine.CallOf(rem.X)
			return md == 16 && lc != nil && engine.CalleeID(lc.Common()) == "builtin.len" && engine.Describe(lc.Common().Args[0]) == "p:encrypted.EncryptedData"
		})
		c.Check(whole && guarded, "C05.R1", "Cipher.decryptMessage/whole-ciphertext", call.Pos(),
			"every byte of the ciphertext must be authenticated: AES-IGE must decrypt encrypted.EncryptedData itself (got %s) after rejecting len %% 16 != 0", engine.Describe(src))
	}
	c.Floor("C05.R1c", 1, len(dcalls))

	// R6: what is authenticated is exactly the rest of this frame. The
	// decoders of EncryptedMessage must leave EncryptedData with the length of
	// the unread buffer (a longer slice keeps bytes of an earlier frame).
	restLen := "(bin.Buffer).Len(p:b)" // Len has a value receiver
	var lenExpr func(v ssa.Value, d int) string
	lenExpr = func(v ssa.Value, d int) string {
		if d > 6 || v == nil {
			return "?"
		}
		switch x := v.(type) {
		case *ssa.MakeSlice:
			return engine.Describe(x.Len)
		case *ssa.Slice:
			if x.Low != nil {
				if k, ok := engine.ConstInt(x.Low); !ok || k != 0 {
					return "?"
				}
			}
			if x.High == nil {
				return lenExpr(x.X, d+1)
			}
			return engine.Describe(x.High)
		case *ssa.Call:
			if engine.CalleeID(x.Common()) == "builtin.append" && len(x.Common().Args) == 2 && lenExpr(x.Common().Args[0], d+1) == "0" {
				return lenExpr(x.Common().Args[1], d+1)
			}
		case *ssa.UnOp:
			if x.Op == token.MUL && engine.Describe(x) == "p:b.Buf" {
				return restLen
			}
		}
		return "?"
	}
	r6 := 0
	for _, name := range []string{"EncryptedMessage.Decode", "EncryptedMessage.DecodeWithoutCopy"} {
		fn := c.MustFunc("C05.R6", "crypto", name)
		if fn == nil {
			continue
		}
		stores := 0
		engine.Instrs(fn, func(i ssa.Instruction) {
			st, ok := i.(*ssa.Store)
			if !ok || engine.Describe(st.Addr) != "p:e.EncryptedData" {
				return
			}
			stores++
			r6++
			le := lenExpr(st.Val, 0)
			c.Check(le == restLen, "C05.R6", name+"/ciphertext-is-rest-of-frame#"+ordinal(fn, st), st.Pos(), "EncryptedData must get exactly the unread length of the buffer (length here: %s)", le)
			// the bytes are this frame's: filled by ConsumeN(dst, rest) or aliasing b.Buf
			if _, alias := st.Val.(*ssa.UnOp); !alias {
				okFill := false
				for _, call := range engine.CallsTo(fn, false, "(*bin.Buffer).ConsumeN") {
					a := engine.Args(call.Common())
					if engine.Describe(a[1]) == "p:e.EncryptedData" && engine.Describe(a[2]) == restLen && engine.Dominates(st, call) && coversSuccess(fn, call) {
						okFill = true
					}
				}
				c.Check(okFill, "C05.R6", name+"/ciphertext-filled-from-frame#"+ordinal(fn, st), st.Pos(), "the stored slice must be filled by ConsumeN(e.EncryptedData, b.Len()) on every accepting path")
			}
		})
		if stores == 0 {
			c.Fail("C05.R6", name+"/ciphertext-is-rest-of-frame", fn.Pos(), "%s never sets EncryptedData", name)
		}
	}
	c.Floor("C05.R6", 2, r6)

	// R3 error discipline
	e := 0
	for _, name := range []string{"Cipher.Decrypt", "Cipher.DecryptFromBuffer", "Cipher.decryptMessage"} {
		fn := c.MustFunc("C05.R3", "crypto", name)
		if fn == nil {
			continue
		}
		for i, r := range engine.Returns(fn) {
			if engine.ReturnKind(r, 1) != "nonnil" {
				continue
			}
			e++
			_ = i
			c.Check(engine.IsNil(r.Results[0]), "C05.R3", name+"/error-return#"+ordinal(fn, r), r.Pos(), "a rejected message must not yield data: error return carries %s", engine.Describe(r.Results[0]))
		}
	}
	c.Floor("C05.R3", 6, e)

	// R4 getX: different offsets per side
	if gx := c.MustFunc("C05.R4", "crypto", "getX"); gx != nil {
		vals := map[int64]int64{}
		for _, side := range []int64{0, 1} {
			side := side
			res, err := engine.AbstractRun(gx, func(x, y ssa.Value) (int, bool) {
				if x == ssa.Value(gx.Params[0]) {
					if k, ok := engine.ConstInt(y); ok {
						return cmp64(side, k), true
					}
				}
				if y == ssa.Value(gx.Params[0]) {
					if k, ok := engine.ConstInt(x); ok {
						return cmp64(k, side), true
					}
				}
				return 0, false
			})
			if err != nil || res.Const == nil {
				c.Undecided("C05.R4", "getX/eval", gx.Pos(), "cannot evaluate getX(%d): %v", side, err)
				continue
			}
			vals[side] = *res.Const
		}
		if len(vals) == 2 {
			c.Check(vals[0] != vals[1], "C05.R4", "getX/distinct", gx.Pos(), "getX(Client)=%d and getX(Server)=%d must differ (otherwise reflected messages verify)", vals[0], vals[1])
		}
	}
}

func cmp64(a, b int64) int {
	switch {
	case a < b:
		return -1
	case a > b:
		return 1
	}
	return 0
}

// coversSuccess: every nil-error return of fn is guarded by call's error
// result being nil.
func coversSuccess(fn *ssa.Function, call ssa.CallInstruction) bool {
	rs := engine.SuccessReturns(fn)
	for _, r := range rs {
		if !engine.GuardedBy(r, func(k engine.Cmp) bool {
			cl := engine.CallOf(k.X)
			return cl != nil && ssa.CallInstruction(cl) == call && engine.IsNil(k.Y) && k.Op == token.EQL
		}) {
			return false
		}
	}
	return len(rs) > 0
}
