package rules

import (
	"fmt"
	"go/token"
	"math"
	"strings"

	"golang.org/x/tools/go/ssa"

	"tdverif/checker/engine"
)

// C07 — only fresh, in-session, correctly padded server messages are accepted.
func init() {
	register("C07", []string{"mtproto", "proto", "crypto"}, func(c *engine.Ctx) {
		c.Explain("C07: (R1) every nil-error return of Conn.decryptMessage is guarded by DecryptFromBuffer err==nil, msg.SessionID == session.ID, checkMessageID(now, msg.MessageID) == nil and messageIDBuf.Consume(msg.MessageID) == true; (R2) handleMessage in consumeMessage is guarded by decryptMessage err==nil; (R3, exhaustive over 16 classes) checkMessageID evaluated abstractly for id type ∈ {0..3} × age ∈ {300 s, 300 s+1 ns in the past, 30 s, 30 s+1 ns in the future} accepts exactly server-typed ids inside the window; (R4) at Cipher.Decrypt's success return the padding length interval is ⊆ [12,1024], the data length is ≥ 0 and divisible by 4; (R5) MessageIDBuf.Consume: equality with a stored id and newID < running minimum both reject, the accepted id is stored at the arg-min index, and the arg-min accumulator is not seeded with a constant no legal id is below; (R6) mtproto.New builds the buffer with N=100.")
		c.NotCover("clock behaviour; the sliding-window semantics of the N stored ids beyond R5's structural facts")
		c07R1(c)
		c07R3(c)
		c07R4(c)
		c07R5(c)
	})
}

func c07R1(c *engine.Ctx) {
	fn := c.MustFunc("C07.R1", "mtproto", "Conn.decryptMessage")
	if fn == nil {
		return
	}
	n := 0
	for _, r := range engine.SuccessReturns(fn) {
		n++
		var msg ssa.Value
		ok1 := engine.GuardedBy(r, func(k engine.Cmp) bool {
			call := engine.CallOf(k.X)
			if call != nil && strings.HasSuffix(engine.CalleeID(call.Common()), ".DecryptFromBuffer") && k.Op == token.EQL && engine.IsNil(k.Y) {
				msg = call
				return true
			}
			return false
		})
		c.Check(ok1, "C07.R1", "decryptMessage/decrypt-ok", r.Pos(), "success must be guarded by DecryptFromBuffer err == nil")
		isMsgField := func(v ssa.Value, f string) bool {
			d := engine.Describe(v)
			return strings.Contains(d, ".DecryptFromBuffer(") && strings.HasSuffix(d, "#0."+f)
		}
		ok2 := engine.GuardedBy(r, func(k engine.Cmp) bool {
			return k.Op == token.EQL && isMsgField(k.X, "SessionID") && strings.HasSuffix(engine.Describe(k.Y), ".ID") && strings.Contains(engine.Describe(k.Y), "session")
		})
		c.Check(ok2, "C07.R1", "decryptMessage/session-id", r.Pos(), "success must be guarded by msg.SessionID == session.ID")
		ok3 := engine.GuardedBy(r, func(k engine.Cmp) bool {
			call := engine.CallOf(k.X)
			return call != nil && engine.CalleeID(call.Common()) == "mtproto.checkMessageID" && k.Op == token.EQL && engine.IsNil(k.Y) &&
				isMsgField(call.Common().Args[1], "MessageID") && strings.Contains(engine.Describe(call.Common().Args[0]), ".Now(")
		})
		c.Check(ok3, "C07.R1", "decryptMessage/message-id-window", r.Pos(), "success must be guarded by checkMessageID(clock.Now(), msg.MessageID) == nil")
		ok4 := engine.GuardedBy(r, func(k engine.Cmp) bool {
			call := engine.CallOf(k.X)
			b, isB := engine.ConstBool(k.Y)
			return call != nil && strings.HasSuffix(engine.CalleeID(call.Common()), ".Consume") && k.Op == token.EQL && isB && b &&
				isMsgField(engine.Args(call.Common())[1], "MessageID") && strings.HasSuffix(engine.Describe(engine.Args(call.Common())[0]), ".messageIDBuf")
		})
		c.Check(ok4, "C07.R1", "decryptMessage/replay-buffer", r.Pos(), "success must be guarded by messageIDBuf.Consume(msg.MessageID) == true")
		// returned value is the decrypted message
		c.Check(msg != nil && engine.CallOf(r.Results[0]) == msg, "C07.R1", "decryptMessage/returns-checked-msg", r.Pos(), "the message returned must be the one that was checked")
	}
	c.Floor("C07.R1", 1, n)

	// R2
	cm := c.MustFunc("C07.R2", "mtproto", "Conn.consumeMessage")
	if cm == nil {
		return
	}
	hs := engine.CallsTo(cm, true, "(*mtproto.Conn).handleMessage")
	for _, h := range hs {
		ok := engine.GuardedBy(h, func(k engine.Cmp) bool {
			call := engine.CallOf(k.X)
			return call != nil && call.Common().StaticCallee() == fn && k.Op == token.EQL && engine.IsNil(k.Y)
		})
		// payload handed over is the decrypted message's data
		okData := false
		for _, dc := range engine.FindCallBack(h.Common().Args[2], "(*crypto.EncryptedMessageData).Data") {
			if x := engine.CallOf(dc.Common().Args[0]); x != nil && x.Common().StaticCallee() == fn {
				okData = true
			}
		}
		c.Check(ok && okData, "C07.R2", "consumeMessage/handle-after-accept", h.Pos(), "handleMessage must run only when decryptMessage returned a nil error, on that message's data")
	}
	c.Floor("C07.R2", 1, len(hs))
	// who else calls handleMessage with wire data? only consumeMessage and the container/gzip handlers (which receive accepted payloads)
	callers := map[string]bool{}
	for _, f := range allFunctions(c, c.SSA["mtproto"]) {
		for _, g := range engine.WithAnon(f) {
			if len(engine.CallsTo(g, false, "(*mtproto.Conn).handleMessage")) > 0 {
				callers[engine.FuncID(f)] = true
			}
		}
	}
	allowed := map[string]bool{"(*mtproto.Conn).consumeMessage": true, "(*mtproto.Conn).processContainerMessage": true, "(*mtproto.Conn).handleGZIP": true}
	for f := range callers {
		c.Check(allowed[f], "C07.R2", "handleMessage-caller:"+f, cm.Pos(), "handleMessage may be entered only from consumeMessage or from the container/gzip unwrappers of an accepted message; %s calls it", f)
	}
	// R6
	if nf := c.Func("mtproto", "New"); nf != nil {
		calls := engine.CallsTo(nf, true, "proto.NewMessageIDBuf")
		for _, call := range calls {
			k, ok := engine.ConstInt(call.Common().Args[0])
			c.Check(ok && k >= 100, "C07.R6", "New/message-id-buf-size", call.Pos(), "replay buffer must keep at least the last 100 ids (got %d)", k)
		}
		c.Floor("C07.R6", 1, len(calls))
	}
}

func c07R3(c *engine.Ctx) {
	fn := c.MustFunc("C07.R3", "mtproto", "checkMessageID")
	if fn == nil {
		return
	}
	const s = int64(1e9)
	type tc struct {
		name             string
		before           bool
		nowMinusCreated  int64
		acceptTime       bool
	}
	times := []tc{
		{"past300s", true, 300 * s, true},
		{"past300s+1ns", true, 300*s + 1, false},
		{"future30s", false, -30 * s, true},
		{"future30s+1ns", false, -(30*s + 1), false},
	}
	now, raw := fn.Params[0], fn.Params[1]
	n := 0
	for typ := int64(0); typ < 4; typ++ {
		for _, t := range times {
			n++
			typ, t := typ, t
			key := fmt.Sprintf("checkMessageID/type%d/%s", typ, t.name)
			sym := func(v ssa.Value) (int64, bool) {
				if k, ok := engine.ConstInt(v); ok {
					return k, true
				}
				call := engine.CallOf(v)
				if call == nil {
					return 0, false
				}
				id := engine.CalleeID(call.Common())
				switch id {
				case "(proto.MessageID).Type":
					if engine.DependsOn(call.Common().Args[0], raw) {
						return typ, true
					}
				case "(time.Time).Sub":
					a, b := call.Common().Args[0], call.Common().Args[1]
					aNow, bNow := engine.DependsOn(a, now), engine.DependsOn(b, now)
					aCr, bCr := engine.DependsOn(a, raw), engine.DependsOn(b, raw)
					if aNow && bCr && !aCr && !bNow {
						return t.nowMinusCreated, true
					}
					if aCr && bNow && !aNow && !bCr {
						return -t.nowMinusCreated, true
					}
				}
				return 0, false
			}
			rel := func(x, y ssa.Value) (int, bool) {
				a, ok1 := sym(x)
				b, ok2 := sym(y)
				if !ok1 || !ok2 {
					return 0, false
				}
				return cmp64(a, b), true
			}
			boolOf := func(v ssa.Value) (bool, bool) {
				call := engine.CallOf(v)
				if call == nil {
					return false, false
				}
				a := call.Common().Args
				switch engine.CalleeID(call.Common()) {
				case "(time.Time).Before":
					if engine.DependsOn(a[0], raw) && engine.DependsOn(a[1], now) {
						return t.before, true
					}
					if engine.DependsOn(a[0], now) && engine.DependsOn(a[1], raw) {
						return !t.before && t.nowMinusCreated != 0, true
					}
				case "(time.Time).After":
					if engine.DependsOn(a[0], raw) && engine.DependsOn(a[1], now) {
						return !t.before, true
					}
					if engine.DependsOn(a[0], now) && engine.DependsOn(a[1], raw) {
						return t.before, true
					}
				}
				return false, false
			}
			res, err := engine.AbstractRunOpt(fn, rel, boolOf)
			if err != nil {
				c.Undecided("C07.R3", key, fn.Pos(), "abstract evaluation failed: %v", err)
				continue
			}
			accepted := engine.ReturnKind(res.Ret, 0) == "nil"
			rejected := engine.ReturnKind(res.Ret, 0) == "nonnil"
			want := (typ == 2 || typ == 3) && t.acceptTime
			c.Check((want && accepted) || (!want && rejected), "C07.R3", key, res.Ret.Pos(),
				"id type %d (%s), created %s: accepted=%v, must be accepted=%v", typ, []string{"unknown", "client", "server-response", "from-server"}[typ], t.name, accepted, want)
		}
	}
	c.Extra["exhaustive"] = true
	c.Floor("C07.R3", 16, n)
	// the type constants the classes rely on
	sr, _ := constInt(c, "proto", "MessageServerResponse")
	fs, _ := constInt(c, "proto", "MessageFromServer")
	c.Check(sr == 2 && fs == 3, "C07.R3", "proto/type-constants", fn.Pos(), "MessageServerResponse=%d, MessageFromServer=%d (classes assume 2 and 3)", sr, fs)
	// the classifier checkMessageID relies on: id mod 4 ∈ {-3..3} enumerated
	tf := c.MustFunc("C07.R3", "proto", "MessageID.Type")
	if tf == nil {
		return
	}
	m := 0
	for r := int64(-3); r <= 3; r++ {
		r := r
		sym := func(v ssa.Value) (int64, bool) {
			if k, ok := engine.ConstInt(v); ok {
				return k, true
			}
			if b, ok := engine.Unwrap(v).(*ssa.BinOp); ok && b.Op == token.REM && engine.Unwrap(b.X) == ssa.Value(tf.Params[0]) {
				if k, isK := engine.ConstInt(b.Y); isK && k == 4 {
					return r, true
				}
			}
			return 0, false
		}
		res, err := engine.AbstractRun(tf, func(x, y ssa.Value) (int, bool) {
			a, ok1 := sym(x)
			b, ok2 := sym(y)
			if !ok1 || !ok2 {
				return 0, false
			}
			return cmp64(a, b), true
		})
		key := fmt.Sprintf("MessageID.Type/id-mod-4=%d", r)
		if err != nil {
			c.Undecided("C07.R3", key, tf.Pos(), "abstract evaluation failed: %v", err)
			continue
		}
		m++
		got, isK := engine.ConstInt(engine.RetValOnPath(res, 0))
		want := int64(-1)
		switch r {
		case 1:
			want = sr
		case 3:
			want = fs
		}
		ok := isK && ((want >= 0 && got == want) || (want < 0 && got != sr && got != fs))
		c.Check(ok, "C07.R3", key, res.Ret.Pos(), "an id with id%%4 = %d is classified %d; only 1 → server-response (%d) and 3 → from-server (%d) may be server types", r, got, sr, fs)
	}
	c.Floor("C07.R3", 7, m)
}

func c07R4(c *engine.Ctx) {
	fn := c.MustFunc("C07.R4", "crypto", "Cipher.Decrypt")
	if fn == nil {
		return
	}
	iv := engine.NewBounds().IV
	n := 0
	for _, r := range engine.SuccessReturns(fn) {
		// find padding length: len(msg.MessageDataWithPadding) - int(msg.MessageDataLen)
		var pad *ssa.BinOp
		var dataLen ssa.Value
		engine.Instrs(fn, func(i ssa.Instruction) {
			b, ok := i.(*ssa.BinOp)
			if !ok || b.Op != token.SUB {
				return
			}
			dx, dy := engine.Describe(b.X), engine.Describe(b.Y)
			if strings.HasPrefix(dx, "builtin.len(") && strings.Contains(dx, "MessageDataWithPadding") && strings.HasSuffix(dy, ".MessageDataLen") {
				pad, dataLen = b, b.Y
			}
		})
		if pad == nil {
			c.Undecided("C07.R4", "Decrypt/padding-value", r.Pos(), "cannot find the padding length computation len(MessageDataWithPadding) - MessageDataLen")
			continue
		}
		n++
		p := iv.At(pad, r)
		c.Check(p.Lo >= 12 && p.Hi <= 1024, "C07.R4", "Decrypt/padding-range", r.Pos(), "padding length at the accepting return ∈ %s, must be within [12, 1024] (both bounds on reject branches)", p)
		d := iv.At(dataLen, r)
		c.Check(d.Lo >= 0, "C07.R4", "Decrypt/data-len-nonneg", r.Pos(), "payload length at the accepting return ∈ %s, must be ≥ 0", d)
		ok4 := engine.GuardedBy(r, func(k engine.Cmp) bool {
			rem, ok := engine.Unwrap(k.X).(*ssa.BinOp)
			z, isz := engine.ConstInt(k.Y)
			if !ok || rem.Op != token.REM || !isz || z != 0 || k.Op != token.EQL {
				return false
			}
			m, _ := engine.ConstInt(rem.Y)
			return m == 4 && engine.Describe(rem.X) == engine.Describe(dataLen)
		})
		c.Check(ok4, "C07.R4", "Decrypt/data-len-mod4", r.Pos(), "payload length must be divisible by 4 at the accepting return")
	}
	c.Floor("C07.R4", 1, n)
}

func c07R5(c *engine.Ctx) {
	fn := c.MustFunc("C07.R5", "proto", "MessageIDBuf.Consume")
	if fn == nil {
		return
	}
	newID := fn.Params[1]
	// (a) equality with a stored element rejects
	eq, low := false, false
	var minPhi *ssa.Phi
	engine.Instrs(fn, func(i ssa.Instruction) {
		iff, ok := i.(*ssa.If)
		if !ok {
			return
		}
		for _, br := range []bool{true, false} {
			k := engine.Guard{If: iff, Branch: br}.Cmp()
			for _, kk := range []engine.Cmp{k, k.Swap()} {
				if kk.Y != ssa.Value(newID) {
					continue
				}
				elem := strings.Contains(engine.Describe(kk.X), ".buf[")
				if kk.Op == token.EQL && elem && engine.RejectEdge(iff, br) {
					eq = true
				}
			}
			// newID < min rejects
			for _, kk := range []engine.Cmp{k, k.Swap()} {
				if kk.X == ssa.Value(newID) && kk.Op == token.LSS && engine.RejectEdge(iff, br) {
					if p, ok := kk.Y.(*ssa.Phi); ok {
						minPhi = p
						low = true
					}
				}
			}
		}
	})
	c.Check(eq, "C07.R5", "Consume/equal-rejects", fn.Pos(), "an id equal to a stored id must be rejected (return false)")
	c.Check(low, "C07.R5", "Consume/lower-than-min-rejects", fn.Pos(), "an id lower than the minimum of the stored ids must be rejected")
	if minPhi != nil {
		// seed: the non-cyclic incoming values of the minimum accumulator (following the loop-header phi chain)
		seeds := phiSeeds(minPhi)
		okSeed := len(seeds) > 0
		var ds []string
		for _, sd := range seeds {
			ds = append(ds, engine.Describe(sd))
			if k, isK := engine.ConstInt(sd); isK && k < math.MaxInt64 {
				okSeed = false
			}
		}
		c.Check(okSeed, "C07.R5", "Consume/min-seed", minPhi.Pos(), "the minimum search is seeded with %v; a constant below every legal id makes the search return slot 0 always (only one id remembered, 'lower than all' never triggers)", ds)
		// updates of the accumulator happen under id < min
		okUpd := false
		for _, e := range phiUpdates(minPhi) {
			if strings.Contains(engine.Describe(e), ".buf[") {
				okUpd = true
			}
		}
		c.Check(okUpd, "C07.R5", "Consume/min-updates", minPhi.Pos(), "the minimum accumulator must be updated from buffer elements")
	}
	// (d) accepted id stored into the buffer on the accept path
	stored := false
	engine.Instrs(fn, func(i ssa.Instruction) {
		st, ok := i.(*ssa.Store)
		if ok && st.Val == ssa.Value(newID) && strings.Contains(engine.Describe(st.Addr), ".buf[") {
			for _, r := range engine.Returns(fn) {
				if b, isB := engine.ConstBool(engine.RetVal(r, 0)); isB && b && engine.Dominates(st, r) {
					stored = true
				}
			}
		}
	})
	c.Check(stored, "C07.R5", "Consume/accepted-stored", fn.Pos(), "an accepted id must be stored in the buffer before returning true")
	// mutex
	ls := engine.Locksets(fn)
	okLock := true
	engine.Instrs(fn, func(i ssa.Instruction) {
		if ia, ok := i.(*ssa.IndexAddr); ok && strings.Contains(engine.Describe(ia.X), ".buf") {
			if len(ls[i]) == 0 {
				okLock = false
			}
		}
	})
	c.Check(okLock, "C07.R5", "Consume/locked", fn.Pos(), "buffer accesses must hold the buffer mutex")
}

// phiSeeds returns the values entering a loop-carried phi from outside the loop.
func phiSeeds(p *ssa.Phi) []ssa.Value {
	var out []ssa.Value
	seen := map[*ssa.Phi]bool{}
	var walk func(p *ssa.Phi)
	walk = func(p *ssa.Phi) {
		if seen[p] {
			return
		}
		seen[p] = true
		for _, e := range p.Edges {
			if q, ok := e.(*ssa.Phi); ok {
				walk(q)
				continue
			}
			if engine.DependsOn(e, p) {
				continue
			}
			if _, isLoad := e.(*ssa.UnOp); isLoad && strings.Contains(engine.Describe(e), "[") {
				// element load inside the loop: an update, not a seed
				if engine.InCycle(e.(ssa.Instruction)) {
					continue
				}
			}
			out = append(out, e)
		}
	}
	walk(p)
	return out
}

func phiUpdates(p *ssa.Phi) []ssa.Value {
	var out []ssa.Value
	seen := map[*ssa.Phi]bool{}
	var walk func(p *ssa.Phi)
	walk = func(p *ssa.Phi) {
		if seen[p] {
			return
		}
		seen[p] = true
		for _, e := range p.Edges {
			if q, ok := e.(*ssa.Phi); ok {
				walk(q)
				continue
			}
			if in, ok := e.(ssa.Instruction); ok && engine.InCycle(in) {
				out = append(out, e)
			}
		}
	}
	walk(p)
	return out
}
