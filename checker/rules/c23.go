package rules

import (
	"go/token"
	"go/types"
	"sort"
	"strings"

	"golang.org/x/tools/go/ssa"

	"tdverif/checker/engine"
)

// C23 — handling any decrypted payload never crashes; results are routed by id.
func init() {
	register("C23", []string{"mtproto", "rpc", "proto", "mt"}, func(c *engine.Ctx) {
		c.Explain("C23: (R1, table) Conn.handleMessage dispatches on the peeked type id: the extracted arm table {constant → handler} must equal the service-message table (new_session_created, bad_msg_notification, bad_server_salt, future_salts, msg_container, rpc_result, pong, msgs_ack, gzip_packed → their handlers; msg_detailed_info, msg_new_detailed_info → ignored), the default arm forwards the buffer to Handler.OnMessage, a failed PeekID rejects first, and each handler decodes the very type whose id selects it. (R2, routing) the request id given to rpc.NotifyResult/NotifyError in handleResult is RequestMessageID of the decoded rpc_result wrapper; handleAck forwards MsgIDs of the decoded msgs_ack; after gzip unpacking in handleResult the dispatch id is re-peeked from the unpacked buffer (the id compared and the buffer handed on agree on every path). (R3, decode-error discipline) in every handle* function and in gzip(), a failed Decode returns a non-nil error before any field of the decoded value is used. (R4, panic inventory) in the functions statically reachable from handleMessage inside packages mtproto, rpc and proto — cut at the Handler callbacks and logging — there is no explicit panic, no type assertion without comma-ok, no division by a non-constant and no slice/index expression the bounds engine cannot prove. (R5, close discipline) every close() of a channel taken from a shared map in mtproto/rpc is paired with the delete of that map entry in the same critical section, so a duplicated pong/ack cannot close twice.")
		c.NotCover("recursion depth through nested containers/gzip; what Handler callbacks do; the generated decoders' own safety is C21.R4/C22.R4")
		c23(c)
	})
}

func c23(c *engine.Ctx) {
	hm := c.MustFunc("C23.R1", "mtproto", "Conn.handleMessage")
	if hm == nil {
		return
	}
	// ---- R1 table
	var peek *ssa.Call
	for _, call := range engine.CallsTo(hm, false, "(*bin.Buffer).PeekID") {
		if engine.Describe(engine.Args(call.Common())[0]) == "p:b" {
			peek, _ = call.(*ssa.Call)
		}
	}
	if peek == nil {
		c.Fail("C23.R1", "handleMessage/peek", hm.Pos(), "handleMessage must dispatch on b.PeekID()")
		return
	}
	// constant name lookup across mt and proto
	constName := map[int64][]string{}
	for _, pk := range []string{"mt", "proto"} {
		p := c.Pkgs[pk]
		if p == nil {
			continue
		}
		sc := p.Types.Scope()
		for _, n := range sc.Names() {
			if k, ok := sc.Lookup(n).(*types.Const); ok && strings.HasSuffix(n, "TypeID") {
				if v, isInt := constInt(c, pk, n); isInt {
					constName[v] = append(constName[v], pk+"."+n)
				}
				_ = k
			}
		}
	}
	got := map[string]string{}
	type arm struct {
		k   int64
		blk *ssa.BasicBlock
	}
	var arms []arm
	for _, b := range hm.Blocks {
		iff, ok := b.Instrs[len(b.Instrs)-1].(*ssa.If)
		if !ok {
			continue
		}
		k := engine.Guard{If: iff, Branch: true}.Cmp()
		if k.Op != token.EQL || !isResult(k.X, peek, 0) {
			continue
		}
		v, isK := engine.ConstInt(k.Y)
		if !isK {
			continue
		}
		arms = append(arms, arm{v, b.Succs[0]})
	}
	armTarget := func(blk *ssa.BasicBlock) string {
		// the arm either calls one handler and returns its result, or returns nil
		for cur, n := blk, 0; cur != nil && n < 4; n++ {
			for _, i := range cur.Instrs {
				if call, ok := i.(*ssa.Call); ok {
					if f := call.Common().StaticCallee(); f != nil && f.Pkg == hm.Pkg {
						return f.Name()
					}
					if call.Common().IsInvoke() {
						return "invoke:" + call.Common().Method.Name()
					}
				}
				if r, ok := i.(*ssa.Return); ok {
					if engine.IsNil(r.Results[0]) {
						return "ignored"
					}
				}
			}
			if len(cur.Succs) == 1 {
				cur = cur.Succs[0]
			} else {
				break
			}
		}
		return "?"
	}
	gotByVal := map[int64]string{}
	for _, a := range arms {
		gotByVal[a.k] = armTarget(a.blk)
	}
	want := map[string]string{
		"mt.NewSessionCreatedTypeID":    "handleSessionCreated",
		"mt.BadMsgNotificationTypeID":   "handleBadMsg",
		"mt.BadServerSaltTypeID":        "handleBadMsg",
		"mt.FutureSaltsTypeID":          "handleFutureSalts",
		"proto.MessageContainerTypeID":  "handleContainer",
		"proto.ResultTypeID":            "handleResult",
		"mt.PongTypeID":                 "handlePong",
		"mt.MsgsAckTypeID":              "handleAck",
		"proto.GZIPTypeID":              "handleGZIP",
		"mt.MsgDetailedInfoTypeID":      "ignored",
		"mt.MsgNewDetailedInfoTypeID":   "ignored",
	}
	n1 := 0
	wantVals := map[int64]bool{}
	for k, w := range want {
		n1++
		parts := strings.SplitN(k, ".", 2)
		v, okC := constInt(c, parts[0], parts[1])
		if !okC {
			c.Undecided("C23.R1", "anchor:"+k, hm.Pos(), "constant %s does not resolve", k)
			continue
		}
		wantVals[v] = true
		c.Check(gotByVal[v] == w, "C23.R1", "handleMessage/arm/"+k, hm.Pos(), "type id %s (0x%s) must be handled by %s (is %q)", k, strings.ToLower(hex(v)), w, gotByVal[v])
	}
	for v, g := range gotByVal {
		if !wantVals[v] {
			names := constName[v]
			sort.Strings(names)
			c.Fail("C23.R1", "handleMessage/arm/0x"+strings.ToLower(hex(v)), hm.Pos(), "unexpected arm for 0x%s %v → %s (not in the service-message table)", strings.ToLower(hex(v)), names, g)
		}
	}
	_ = got
	// default forwards b to Handler.OnMessage
	{
		okDef := false
		for _, call := range engine.Calls(hm) {
			cc := call.Common()
			if cc.IsInvoke() && cc.Method.Name() == "OnMessage" && engine.Describe(cc.Args[0]) == "p:b" {
				// reachable only when no arm matched: every arm-true edge cut
				cut := engine.EdgesWhere(hm, func(k engine.Cmp) bool {
					_, isK := engine.ConstInt(k.Y)
					return k.Op == token.EQL && isResult(k.X, peek, 0) && isK
				})
				okDef = (engine.PathQuery{Fn: hm, Cut: cut}).Reaches(call)
			}
		}
		n1++
		c.Check(okDef, "C23.R1", "handleMessage/default-forwards", hm.Pos(), "unknown types must be forwarded unchanged to Handler.OnMessage")
		// PeekID failure rejects
		e := engine.EdgesWhere(hm, func(k engine.Cmp) bool { return isResult(k.X, peek, 1) && engine.IsNil(k.Y) && k.Op == token.NEQ })
		okP := len(e) == 1
		for ed := range e {
			iff := ed[0].Instrs[len(ed[0].Instrs)-1].(*ssa.If)
			okP = okP && engine.RejectEdge(iff, ed[0].Succs[0] == ed[1])
		}
		n1++
		c.Check(okP, "C23.R1", "handleMessage/empty-body-rejected", hm.Pos(), "a body too short for a type id must be rejected with an error")
	}
	// each handler decodes the type(s) whose id selects it
	handlerTypes := map[string][]string{
		"handleSessionCreated": {"mt.NewSessionCreated"},
		"handleBadMsg":         {"mt.BadMsgNotification", "mt.BadServerSalt"},
		"handleFutureSalts":    {"mt.FutureSalts"},
		"handleContainer":      {"proto.MessageContainer"},
		"handleResult":         {"proto.Result"},
		"handlePong":           {"mt.Pong"},
		"handleAck":            {"mt.MsgsAck"},
	}
	for h, ts := range handlerTypes {
		fn := c.MustFunc("C23.R1", "mtproto", "Conn."+h)
		if fn == nil {
			continue
		}
		for _, t := range ts {
			n1++
			ok := false
			for _, call := range engine.Calls(fn) {
				if engine.CalleeID(call.Common()) == "(*"+t+").Decode" {
					ok = true
				}
			}
			c.Check(ok, "C23.R1", h+"/decodes-"+t, fn.Pos(), "%s must decode %s", h, t)
		}
	}
	c.Floor("C23.R1", 20, n1)

	// ---- R2 routing
	n2 := 0
	if hr := c.MustFunc("C23.R2", "mtproto", "Conn.handleResult"); hr != nil {
		var dec ssa.CallInstruction
		for _, call := range engine.CallsTo(hr, false, "(*proto.Result).Decode") {
			dec = call
		}
		resD := ""
		if dec != nil {
			resD = engine.Describe(engine.Args(dec.Common())[0])
		}
		for _, ns := range notifySites(hr) {
			call := ns.call
			n2++
			id := engine.Describe(ns.id)
			c.Check(dec != nil && id == resD+".RequestMessageID", "C23.R2", "handleResult/"+call.Common().StaticCallee().Name()+"/routes-by-req-msg-id", call.Pos(), "the result must be routed to RequestMessageID of the decoded rpc_result (routes to %s)", id)
		}
		// id/buffer agreement after gzip
		var idCmp *ssa.BinOp
		var idVal ssa.Value
		rpcErrID, _ := constInt(c, "mt", "RPCErrorTypeID")
		engine.Instrs(hr, func(i ssa.Instruction) {
			if b, ok := i.(*ssa.BinOp); ok {
				if cm, isCmp := engine.CmpOf(b); isCmp && cm.Op == token.EQL {
					if k, isK := engine.ConstInt(cm.Y); isK && k == rpcErrID {
						idCmp, idVal = b, cm.X
					}
				}
			}
		})
		n2++
		if idCmp == nil {
			c.Fail("C23.R2", "handleResult/dispatch-on-rpc-error", hr.Pos(), "handleResult must test the inner type id against rpc_error")
		} else {
			// the buffer handed on: argument of NotifyResult
			var bufV ssa.Value
			for _, call := range engine.CallsTo(hr, false, "(*rpc.Engine).NotifyResult") {
				bufV = engine.Args(call.Common())[2]
			}
			okAgree, why := idBufferAgree(idVal, bufV)
			c.Check(okAgree, "C23.R2", "handleResult/id-matches-buffer", idCmp.Pos(), "the type id tested and the buffer handed on must come from the same buffer on every path (after gzip unpacking the id must be re-peeked): %s", why)
		}
	}
	if ha := c.MustFunc("C23.R2", "mtproto", "Conn.handleAck"); ha != nil {
		for _, call := range engine.CallsTo(ha, false, "(*rpc.Engine).NotifyAcks") {
			n2++
			d := engine.Describe(engine.Args(call.Common())[1])
			c.Check(strings.HasSuffix(d, ".MsgIDs") && strings.HasPrefix(d, "alloc:"), "C23.R2", "handleAck/forwards-decoded-ids", call.Pos(), "acks must carry MsgIDs of the decoded msgs_ack (passes %s)", d)
		}
	}
	if hc := c.MustFunc("C23.R2", "mtproto", "Conn.handleContainer"); hc != nil {
		// through the small helper, or handed to handleMessage directly
		for _, call := range engine.CallsTo(hc, false, "(*mtproto.Conn).processContainerMessage", "(*mtproto.Conn).handleMessage") {
			if !engine.InCycle(call) {
				continue
			}
			n2++
			from := false
			d := ""
			for _, a := range engine.Args(call.Common())[1:] {
				engine.WalkBack(a, func(v ssa.Value) bool {
					if s := engine.Describe(v); strings.Contains(s, ".Messages[") {
						from, d = true, s
					}
					return !from
				})
			}
			c.Check(from, "C23.R2", "handleContainer/each-inner-message", call.Pos(), "each inner message of the decoded container must be processed (passes %s)", d)
		}
	}
	c.Floor("C23.R2", 5, n2)

	// ---- R3 decode-error discipline
	n3 := 0
	for _, f := range allFunctions(c, c.SSA["mtproto"]) {
		if !(strings.HasPrefix(f.Name(), "handle") || f.Name() == "gzip") {
			continue
		}
		for _, call := range engine.Calls(f) {
			id := engine.CalleeID(call.Common())
			if !strings.HasSuffix(id, ").Decode") || call.Common().IsInvoke() {
				continue
			}
			dc, isCall := call.(*ssa.Call)
			if !isCall {
				continue
			}
			n3++
			e := engine.EdgesWhere(f, func(k engine.Cmp) bool { return engine.Unwrap(k.X) == ssa.Value(dc) && engine.IsNil(k.Y) && k.Op == token.NEQ })
			ok := len(e) == 1
			for ed := range e {
				iff := ed[0].Instrs[len(ed[0].Instrs)-1].(*ssa.If)
				ok = ok && engine.RejectEdge(iff, ed[0].Succs[0] == ed[1])
				// nothing else is done with the value on that edge: no call other than error wrapping
				for _, r := range engine.Returns(f) {
					_ = r
				}
			}
			c.Check(ok, "C23.R3", f.Name()+"/"+engine.Short(id)+"#"+ordinalCall(f, call)+"/error-rejects", call.Pos(), "a payload that fails to decode must be rejected with an error before any of its fields is used")
		}
	}
	c.Floor("C23.R3", 8, n3)

	// ---- R4 panic inventory
	c23R4(c, hm)
	// ---- R5 close discipline
	c23R5(c)
	// ---- R7 a container's messages do not share one body (a later element
	// would overwrite the result an earlier one is about to deliver)
	c22R5As(c, "C23.R7")
}

func hex(v int64) string {
	const d = "0123456789ABCDEF"
	if v == 0 {
		return "0"
	}
	u := uint64(uint32(v))
	s := ""
	for u > 0 {
		s = string(d[u%16]) + s
		u /= 16
	}
	return s
}

// idBufferAgree: id and buf are either both plain (PeekID on buf) or phis over
// the same predecessors whose edges pair a PeekID result with its buffer.
func idBufferAgree(id, buf ssa.Value) (bool, string) {
	peekOf := func(v ssa.Value) ssa.Value {
		call := engine.CallOf(v)
		if call == nil || engine.CalleeID(call.Common()) != "(*bin.Buffer).PeekID" {
			return nil
		}
		return engine.Unwrap(engine.Args(call.Common())[0])
	}
	if buf == nil {
		return false, "no buffer handed on"
	}
	ip, isIP := id.(*ssa.Phi)
	bp, isBP := engine.Unwrap(buf).(*ssa.Phi)
	if !isBP {
		if isIP {
			return false, "id varies by path but the buffer does not"
		}
		return peekOf(id) == engine.Unwrap(buf), "id is not peeked from the buffer handed on"
	}
	if !isIP {
		return false, "the buffer is replaced on some path (" + engine.Describe(buf) + ") but the id is always " + engine.Describe(id)
	}
	if ip.Block() != bp.Block() || len(ip.Edges) != len(bp.Edges) {
		return false, "id and buffer are merged at different points"
	}
	for i := range ip.Edges {
		if peekOf(ip.Edges[i]) != engine.Unwrap(bp.Edges[i]) {
			return false, "on one path the id " + engine.Describe(ip.Edges[i]) + " does not belong to the buffer " + engine.Describe(bp.Edges[i])
		}
	}
	return true, ""
}

func c23R4(c *engine.Ctx, hm *ssa.Function) {
	inScope := func(f *ssa.Function) bool {
		if f.Pkg == nil {
			return false
		}
		p := f.Pkg.Pkg.Path()
		return strings.HasSuffix(p, "/td/mtproto") || strings.HasSuffix(p, "/td/rpc") || strings.HasSuffix(p, "/td/proto")
	}
	seen := map[*ssa.Function]bool{}
	var order []*ssa.Function
	var walk func(f *ssa.Function)
	walk = func(f *ssa.Function) {
		if f == nil || seen[f] || len(f.Blocks) == 0 || !inScope(f) {
			return
		}
		seen[f] = true
		order = append(order, f)
		for _, g := range f.AnonFuncs {
			walk(g)
		}
		for _, call := range engine.Calls(f) {
			if _, isGo := call.(*ssa.Go); isGo {
				continue
			}
			walk(call.Common().StaticCallee())
			if cl := closureOf(call.Common().Value); cl != nil {
				walk(cl)
			}
		}
	}
	walk(hm)
	// the dynamic handler stored by rpc.Engine.Do is reached through NotifyResult/NotifyError
	if do := c.Func("rpc", "Engine.Do"); do != nil {
		for _, g := range engine.WithAnon(do) {
			if g != do && len(engine.CallsTo(g, false, "(bin.Decoder).Decode")) > 0 {
				walk(g)
			}
		}
	}
	// every callback registered in the engine's table is reached that way; and
	// NotifyError calls it with a nil buffer, so a callback may touch its
	// buffer parameter only where the error parameter is nil (or the buffer
	// was tested)
	nilBuf := false
	if ne := c.Func("rpc", "Engine.NotifyError"); ne != nil {
		for _, call := range engine.Calls(ne) {
			cc := call.Common()
			if cc.StaticCallee() == nil && !cc.IsInvoke() && len(cc.Args) == 2 && engine.IsNil(cc.Args[0]) {
				nilBuf = true
			}
		}
	}
	cbs := 0
	for _, f := range allFunctions(c, c.SSA["rpc"]) {
		for _, g := range engine.WithAnon(f) {
			// (updates made directly or through a method that stores its parameter:
			// the callback is then the argument of the method's call)
			for _, ed := range rpcEdits(g) {
				mu := ed.at
				cb := closureOf(ed.val)
				if cb == nil {
					if _, isP := engine.Unwrap(ed.val).(*ssa.Parameter); isP && g.Parent() == nil {
						continue // a registering method: judged at its calls, where the callback is named
					}
					c.Undecided("C23.R6", engine.FuncID(g)+"/callback#"+ordinal(g, mu), mu.Pos(), "the value registered as result callback is not a function literal")
					continue
				}
				cbs++
				walk(cb)
				if !nilBuf || len(cb.Params) != 2 || cb.Params[0].Referrers() == nil {
					continue
				}
				buf, perr := cb.Params[0], cb.Params[1]
				var bad []string
				for _, ref := range *buf.Referrers() {
					if _, dbg := ref.(*ssa.DebugRef); dbg {
						continue
					}
					if b, isCmp := ref.(*ssa.BinOp); isCmp && (b.Op == token.EQL || b.Op == token.NEQ) {
						continue
					}
					ok := engine.GuardedBy(ref, func(k engine.Cmp) bool {
						return (k.X == ssa.Value(perr) && engine.IsNil(k.Y) && k.Op == token.EQL) ||
							(k.X == ssa.Value(buf) && engine.IsNil(k.Y) && k.Op == token.NEQ)
					})
					if !ok {
						bad = append(bad, c.Position(ref.Pos()))
					}
				}
				c.Check(len(bad) == 0, "C23.R6", engine.FuncID(cb)+"/nil-buffer-on-error", cb.Pos(), "NotifyError calls the callback with a nil buffer: the buffer is used without an err == nil (or b != nil) test at %s", strings.Join(bad, ", "))
			}
		}
	}
	c.Floor("C23.R6", 2, cbs)
	bd := engine.NewBounds()
	n := 0
	for _, f := range order {
		c.SawFunc(f)
		n++
		var bad []string
		engine.Instrs(f, func(i ssa.Instruction) {
			switch x := i.(type) {
			case *ssa.Panic:
				// the compiler-generated "blocking select matched no case" panic is unreachable
				if strings.Contains(engine.Describe(x.X), "blocking select matched no case") {
					return
				}
				bad = append(bad, c.Position(x.Pos())+": explicit panic")
			case *ssa.TypeAssert:
				if !x.CommaOk {
					bad = append(bad, c.Position(x.Pos())+": type assertion without comma-ok")
				}
			case *ssa.BinOp:
				if x.Op == token.QUO || x.Op == token.REM {
					if _, isK := engine.ConstInt(x.Y); !isK {
						if b, isBasic := x.Y.Type().Underlying().(*types.Basic); isBasic && b.Info()&types.IsInteger != 0 {
							bad = append(bad, c.Position(x.Pos())+": integer division by a non-constant")
						}
					}
				}
			}
		})
		issues, _ := bd.CheckFunc(f)
		for _, is := range issues {
			bad = append(bad, c.Position(is.Instr.Pos())+": "+is.What+" "+is.Detail)
		}
		c.Check(len(bad) == 0, "C23.R4", engine.FuncID(f)+"/no-panic-site", f.Pos(), "reachable from handleMessage: %s", strings.Join(bad, "; "))
	}
	c.Extra["r4_functions"] = n
	c.Floor("C23.R4", 15, n)
}

func c23R5(c *engine.Ctx) {
	n := 0
	for _, pk := range []string{"mtproto", "rpc"} {
		for _, f0 := range allFunctions(c, c.SSA[pk]) {
			for _, f := range engine.WithAnon(f0) {
				for _, call := range engine.Calls(f) {
					if engine.CalleeID(call.Common()) != "builtin.close" {
						continue
					}
					// channel taken from a map lookup?
					var lk *ssa.Lookup
					engine.WalkBack(call.Common().Args[0], func(v ssa.Value) bool {
						if l, ok := v.(*ssa.Lookup); ok {
							if _, isMap := l.X.Type().Underlying().(*types.Map); isMap {
								lk = l
								return false
							}
						}
						return true
					})
					if lk == nil {
						continue
					}
					n++
					ls := engine.Locksets(f)
					ok := false
					for _, dc := range engine.Calls(f) {
						if engine.CalleeID(dc.Common()) != "builtin.delete" || engine.Describe(dc.Common().Args[0]) != engine.Describe(lk.X) || engine.Describe(dc.Common().Args[1]) != engine.Describe(lk.Index) {
							continue
						}
						if !(engine.Dominates(call, dc) || engine.Dominates(dc, call)) || len(ls[call]) == 0 || !sameSetStr(ls[call], ls[dc]) {
							continue
						}
						between := false
						for _, u := range engine.Calls(f) {
							if id := engine.CalleeID(u.Common()); strings.HasSuffix(id, ").Unlock") || strings.HasSuffix(id, ").RUnlock") {
								if _, isDefer := u.(*ssa.Defer); isDefer {
									continue
								}
								if (engine.PathExists(call, u) && engine.PathExists(u, dc)) || (engine.PathExists(dc, u) && engine.PathExists(u, call) && engine.Dominates(dc, call)) {
									if engine.Dominates(call, dc) && engine.Dominates(call, u) && engine.Dominates(u, dc) {
										between = true
									}
									if engine.Dominates(dc, call) && engine.Dominates(dc, u) && engine.Dominates(u, call) {
										between = true
									}
								}
							}
						}
						if !between {
							ok = true
						}
					}
					c.Check(ok, "C23.R5", engine.FuncID(f)+"/close#"+ordinalCall(f, call)+"/entry-deleted-in-same-critical-section", call.Pos(), "a channel taken from %s is closed here: the entry must be deleted under the same lock without an unlock in between, otherwise a duplicated message closes it twice (panic: close of closed channel)", engine.Describe(lk.X))
				}
			}
		}
	}
	c.Floor("C23.R5", 2, n)
}

func sameSetStr(a, b map[string]bool) bool {
	if len(a) != len(b) {
		return false
	}
	for k := range a {
		if !b[k] {
			return false
		}
	}
	return true
}
