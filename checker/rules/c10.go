package rules

import (
	"go/token"
	"go/types"
	"strings"

	"golang.org/x/tools/go/ssa"

	"tdverif/checker/engine"
)

// C10 — key exchange never completes with an unauthenticated or tampered server.
func init() {
	register("C10", []string{"exchange", "crypto", "mt"}, func(c *engine.Ctx) {
		c.Explain("C10: the success return of ClientExchange.Run is dominated by the accepting edge of every authentication check, each identified by the values it compares (not by position): (R1) for every server message type decoded on the path (ResPQ, ServerDHParamsOk, ServerDHInnerData, DhGenOk) every field named Nonce/ServerNonce is compared with the client's nonce (crypto.RandInt128) / the ResPQ server nonce — obligations generated from the mt types; (R2) DhGenOk.NewNonceHash1 == NonceHash1(newNonce, key) with the key that is returned; (R3) the RSA key comes from c.keys under a fingerprint match and a zero key rejects; (R4) DecryptExchangeAnswer, CheckDH, CheckDHParams succeed on values taken from the decrypted inner data, and the returned key is g_a^b mod dh_prime of those checked values; (R5) CheckDH/CheckGP/checkPrime/CheckDHParams contain their checks; (R6) error returns carry a zero result.")
		c.NotCover("strength of RSA/DH; behaviour of an adaptive adversary; the server flow (test double)")
		c10(c)
		// 'unsafe DH parameters are always refused' — the DH parameter rules of C13 are part of this property too
		c13R1(c)
		c13R2(c)
		c13R3(c)
		c13R4(c)
	})
}

// fieldRef decodes v as a load of field f of a struct of named type T.
func fieldRef(v ssa.Value) (typ, field string, base ssa.Value) {
	v = engine.Unwrap(v)
	var x ssa.Value
	var idx int
	switch u := v.(type) {
	case *ssa.UnOp:
		fa, ok := u.X.(*ssa.FieldAddr)
		if !ok || u.Op != token.MUL {
			return "", "", nil
		}
		x, idx = fa.X, fa.Field
	case *ssa.Field:
		x, idx = u.X, u.Field
	default:
		return "", "", nil
	}
	t := x.Type()
	if p, ok := t.Underlying().(*types.Pointer); ok {
		t = p.Elem()
	}
	st, ok := t.Underlying().(*types.Struct)
	if !ok || idx >= st.NumFields() {
		return "", "", nil
	}
	return engine.Short(types.TypeString(t, nil)), st.Field(idx).Name(), x
}

func isCallTo(v ssa.Value, id string) *ssa.Call {
	call := engine.CallOf(v)
	if call != nil && engine.CalleeID(call.Common()) == id {
		return call
	}
	return nil
}

func c10(c *engine.Ctx) {
	fn := c.MustFunc("C10", "exchange", "ClientExchange.Run")
	if fn == nil {
		return
	}
	succ := engine.SuccessReturns(fn)
	c.Check(len(succ) == 1, "C10.R0", "Run/single-success-return", fn.Pos(), "ClientExchange.Run has %d success returns (the rules assume one accepting exit)", len(succ))
	if len(succ) == 0 {
		return
	}
	r := succ[0]
	guards := engine.Guards(r)
	has := func(match func(k engine.Cmp) bool) bool {
		for _, g := range guards {
			k := g.Cmp()
			if match(k) || match(k.Swap()) {
				return true
			}
		}
		return false
	}
	isNonce := func(v ssa.Value) bool { return isCallTo(v, "crypto.RandInt128") != nil }
	isServerNonce := func(v ssa.Value) bool {
		t, f, _ := fieldRef(v)
		return t == "mt.ResPQ" && f == "ServerNonce"
	}
	// R1 echo obligations generated from the types
	n := 0
	for _, tn := range []string{"ResPQ", "ServerDHParamsOk", "ServerDHInnerData", "DhGenOk"} {
		obj := c.Pkgs["mt"].Types.Scope().Lookup(tn)
		if obj == nil {
			c.Undecided("C10.R1", "anchor:mt."+tn, fn.Pos(), "type mt.%s does not resolve", tn)
			continue
		}
		st := obj.Type().Underlying().(*types.Struct)
		for i := 0; i < st.NumFields(); i++ {
			f := st.Field(i).Name()
			if f != "Nonce" && f != "ServerNonce" {
				continue
			}
			if tn == "ResPQ" && f == "ServerNonce" {
				continue // defines the server nonce
			}
			n++
			f, tn := f, tn
			ok := has(func(k engine.Cmp) bool {
				t, ff, _ := fieldRef(k.X)
				if k.Op != token.EQL || t != "mt."+tn || ff != f {
					return false
				}
				if f == "Nonce" {
					return isNonce(k.Y)
				}
				return isServerNonce(k.Y)
			})
			c.Check(ok, "C10.R1", "echo/"+tn+"."+f, r.Pos(), "success must be guarded by %s.%s == the client's %s", tn, f, map[string]string{"Nonce": "nonce", "ServerNonce": "server nonce (from ResPQ)"}[f])
		}
	}
	c.Floor("C10.R1", 7, n)
	// the decoded messages are of these types: type assertions guarded
	for _, tn := range []string{"*mt.ServerDHParamsOk", "*mt.DhGenOk"} {
		tn := tn
		ok := has(func(k engine.Cmp) bool {
			e, isE := engine.Unwrap(k.X).(*ssa.Extract)
			b, isB := engine.ConstBool(k.Y)
			if !isE || !isB || !b || e.Index != 1 {
				return false
			}
			ta, isTA := e.Tuple.(*ssa.TypeAssert)
			return isTA && engine.Short(types.TypeString(ta.AssertedType, nil)) == tn
		})
		c.Check(ok, "C10.R1", "answer-type/"+tn, r.Pos(), "success must be reached only through the %s arm", tn)
	}

	// R2 new nonce hash
	var keyAlloc ssa.Value
	ok2 := has(func(k engine.Cmp) bool {
		call := isCallTo(k.X, "crypto.NonceHash1")
		t, f, _ := fieldRef(k.Y)
		if call == nil || k.Op != token.EQL || t != "mt.DhGenOk" || f != "NewNonceHash1" {
			return false
		}
		if isCallTo(call.Common().Args[0], "crypto.RandInt256") == nil {
			return false
		}
		if u, ok := call.Common().Args[1].(*ssa.UnOp); ok {
			keyAlloc = u.X
		}
		return true
	})
	c.Check(ok2, "C10.R2", "new-nonce-hash", r.Pos(), "success must be guarded by DhGenOk.NewNonceHash1 == NonceHash1(newNonce, key)")
	// the key hashed is the key returned, and it is g_a^b mod p of the checked values
	res := engine.RetVal(r, 0)
	okKey := false
	var authKeyExp *ssa.Call
	if keyAlloc != nil {
		if u, ok := res.(*ssa.UnOp); ok {
			vals := engine.FieldPathStores(u.X, []string{"AuthKey", "Value"})
			okKey = len(vals) > 0
			for _, kv := range vals {
				if l, ok := kv.(*ssa.UnOp); !ok || l.X != keyAlloc {
					okKey = false
				}
			}
			// whole-struct stores of AuthKey (a literal built elsewhere) are followed one level
			for _, av := range engine.FieldPathStores(u.X, []string{"AuthKey"}) {
				if kv := engine.StructFieldValue(av, "Value"); kv != nil {
					if l, ok := kv.(*ssa.UnOp); ok && l.X == keyAlloc {
						okKey = true
					}
				}
			}
		}
		// key filled from authKey = Exp(gA, b, dhPrime)
		for _, call := range engine.CallsTo(fn, false, "(*math/big.Int).FillBytes") {
			if sl, ok := call.Common().Args[1].(*ssa.Slice); ok && sl.X == keyAlloc && engine.Dominates(call, r) {
				authKeyExp = isCallTo(call.Common().Args[0], "(*math/big.Int).Exp")
			}
		}
	}
	c.Check(okKey, "C10.R2", "returned-key-is-hashed-key", r.Pos(), "the key in the result must be the key whose NonceHash1 was verified")

	// R3 RSA key origin
	okRSA, viaSelector := false, false
	for _, call := range engine.CallsTo(fn, false, "crypto.RSAPad") {
		if !engine.Dominates(call, r) {
			continue
		}
		d := engine.Describe(call.Common().Args[1])
		if strings.HasPrefix(d, "p:c.keys[") && strings.HasSuffix(d, ".RSA") {
			okRSA = true
		}
		// or the RSA field of what a selector helper of the package returned
		// for (c.keys, the server's fingerprint list)
		if sel := c10SelectorCall(call.Common().Args[1]); sel != nil {
			ki, fi, okSel := c10Selector(sel.Common().StaticCallee())
			if okSel && engine.Describe(sel.Common().Args[ki]) == "p:c.keys" && strings.Contains(engine.Describe(sel.Common().Args[fi]), "ServerPublicKeyFingerprints") {
				okRSA, viaSelector = true, true
			}
		}
	}
	c.Check(okRSA, "C10.R3", "rsa-key-from-trusted-set", r.Pos(), "the inner data must be encrypted to a key taken from the client's trusted key list")
	okZero := has(func(k engine.Cmp) bool {
		call := isCallTo(k.X, "(exchange.PublicKey).Zero")
		b, isB := engine.ConstBool(k.Y)
		return call != nil && isB && !b && k.Op == token.EQL
	})
	c.Check(okZero, "C10.R3", "no-key-rejects", r.Pos(), "success must be guarded by selectedPubKey.Zero() == false")
	// the selected key is stored only under fingerprint equality with a fingerprint sent by the server
	okFp := false
	engine.Instrs(fn, func(i ssa.Instruction) {
		st, isS := i.(*ssa.Store)
		if !isS || !strings.Contains(engine.Describe(st.Val), "p:c.keys[") {
			return
		}
		if !strings.HasSuffix(st.Addr.Type().String(), "exchange.PublicKey") {
			return
		}
		if engine.GuardedBy(st, func(k engine.Cmp) bool {
			fp := isCallTo(k.Y, "(exchange.PublicKey).Fingerprint")
			return k.Op == token.EQL && fp != nil && strings.Contains(engine.Describe(k.X), "ServerPublicKeyFingerprints") &&
				strings.HasPrefix(engine.Describe(fp.Common().Args[0]), "p:c.keys[")
		}) {
			okFp = true
		}
	})
	c.Check(okFp || viaSelector, "C10.R3", "fingerprint-match", r.Pos(), "a key may be selected only when its fingerprint equals one the server listed")

	// R4 decrypt + DH checks with origins
	var inner ssa.Value
	okDec := has(func(k engine.Cmp) bool {
		call := isCallTo(k.X, "crypto.DecryptExchangeAnswer")
		if call == nil || k.Op != token.EQL || !engine.IsNil(k.Y) {
			return false
		}
		t, f, _ := fieldRef(call.Common().Args[0])
		keys := isCallTo(call.Common().Args[1], "crypto.TempAESKeys")
		if t != "mt.ServerDHParamsOk" || f != "EncryptedAnswer" || keys == nil {
			return false
		}
		// (new_nonce: the client's RandInt256 draw; server_nonce: the field of the
		// received ResPQ — identified by message type and field, not by the local's name)
		ka := keys.Common().Args
		if len(ka) != 2 {
			return false
		}
		fromResPQ := false
		engine.WalkBack(ka[1], func(v ssa.Value) bool {
			if c09FieldOf(v, "ResPQ.ServerNonce") {
				fromResPQ = true
			}
			return !fromResPQ
		})
		return strings.Contains(engine.Describe(ka[0]), "crypto.RandInt256(") && fromResPQ
	})
	c.Check(okDec, "C10.R4", "decrypt-answer-ok", r.Pos(), "success must be guarded by DecryptExchangeAnswer(ServerDHParamsOk.EncryptedAnswer, TempAESKeys(newNonce, serverNonce)) err == nil")
	okInner := has(func(k engine.Cmp) bool {
		call := isCallTo(k.X, "(*mt.ServerDHInnerData).Decode")
		if call == nil || k.Op != token.EQL || !engine.IsNil(k.Y) {
			return false
		}
		inner = call.Common().Args[0]
		return true
	})
	// the buffer decoded is reset to the decrypted data
	okData := false
	for _, call := range engine.CallsTo(fn, false, "(*bin.Buffer).ResetTo") {
		if isCallTo(call.Common().Args[1], "crypto.DecryptExchangeAnswer") != nil {
			okData = true
		}
	}
	c.Check(okInner && okData, "C10.R4", "inner-data-from-decrypted-answer", r.Pos(), "ServerDHInnerData must be decoded (err == nil) from the decrypted answer")
	fromInner := func(v ssa.Value, field string) bool {
		found := false
		engine.WalkBack(v, func(x ssa.Value) bool {
			t, f, b := fieldRef(x)
			if t == "mt.ServerDHInnerData" && f == field && (inner == nil || b == inner) {
				found = true
			}
			return !found
		})
		return found
	}
	var dhPrime, gA, gB, g ssa.Value
	okDH := has(func(k engine.Cmp) bool {
		call := isCallTo(k.X, "crypto.CheckDH")
		return call != nil && k.Op == token.EQL && engine.IsNil(k.Y) && fromInner(call.Common().Args[0], "G") && fromInner(call.Common().Args[1], "DhPrime")
	})
	c.Check(okDH, "C10.R4", "check-dh", r.Pos(), "success must be guarded by CheckDH(innerData.G, dh_prime from innerData) == nil")
	okParams := has(func(k engine.Cmp) bool {
		call := isCallTo(k.X, "crypto.CheckDHParams")
		if call == nil || k.Op != token.EQL || !engine.IsNil(k.Y) {
			return false
		}
		a := call.Common().Args
		dhPrime, g, gA, gB = a[0], a[1], a[2], a[3]
		exp := isCallTo(gB, "(*math/big.Int).Exp")
		return fromInner(dhPrime, "DhPrime") && fromInner(g, "G") && fromInner(gA, "GA") && !fromInner(gA, "G") &&
			exp != nil && exp.Common().Args[1] == g && exp.Common().Args[3] == dhPrime
	})
	c.Check(okParams, "C10.R4", "check-dh-params", r.Pos(), "success must be guarded by CheckDHParams(dh_prime, g, g_a, g_b) == nil on the inner data's values with g_b = g^b mod dh_prime")
	okAuth := false
	if authKeyExp != nil && gA != nil {
		a := authKeyExp.Common().Args
		gbExp := isCallTo(gB, "(*math/big.Int).Exp")
		okAuth = a[1] == gA && a[3] == dhPrime && gbExp != nil && a[2] == gbExp.Common().Args[2]
	}
	c.Check(okAuth, "C10.R4", "auth-key-from-checked-values", r.Pos(), "auth_key must be g_a^b mod dh_prime with the checked g_a, dh_prime and the same b")

	c10Crypto(c)

	// R6 error discipline
	e := 0
	for _, ret := range engine.Returns(fn) {
		if engine.ReturnKind(ret, 1) != "nonnil" {
			continue
		}
		e++
		v := engine.RetVal(ret, 0)
		zero := false
		if k, ok := v.(*ssa.Const); ok && k.Value == nil {
			zero = true
		}
		if u, ok := v.(*ssa.UnOp); ok {
			if a, ok := u.X.(*ssa.Alloc); ok {
				zero = true
				for _, ref := range *a.Referrers() {
					if _, isFA := ref.(*ssa.FieldAddr); isFA {
						zero = false
					}
				}
			}
		}
		if !zero {
			c.Fail("C10.R6", "error-return#"+ordinal(fn, ret), ret.Pos(), "a failed exchange must return a zero result, got %s", engine.Describe(v))
		}
	}
	c.Check(e >= 20, "C10.R6", "error-returns-zero", fn.Pos(), "%d error returns all carry a zero ClientExchangeResult", e)
}

func c10Crypto(c *engine.Ctx) {
	// CheckDH: BitLen != RSAKeyBits rejects; CheckGP and checkPrime must succeed
	if fn := c.MustFunc("C10.R5", "crypto", "CheckDH"); fn != nil {
		bits, _ := constInt(c, "crypto", "RSAKeyBits")
		for _, r := range engine.SuccessReturns(fn) {
			okBits := engine.GuardedBy(r, func(k engine.Cmp) bool {
				call := isCallTo(k.X, "(*math/big.Int).BitLen")
				n, isN := engine.ConstInt(k.Y)
				return call != nil && call.Common().Args[0] == ssa.Value(fn.Params[1]) && k.Op == token.EQL && isN && n == bits && bits == 2048
			})
			c.Check(okBits, "C10.R5", "CheckDH/2048-bit", r.Pos(), "CheckDH must reject primes whose bit length is not 2048")
			okGP := engine.GuardedBy(r, func(k engine.Cmp) bool {
				call := isCallTo(k.X, "crypto.CheckGP")
				return call != nil && k.Op == token.EQL && engine.IsNil(k.Y) && call.Common().Args[0] == ssa.Value(fn.Params[0]) && call.Common().Args[1] == ssa.Value(fn.Params[1])
			})
			okPrime := engine.GuardedBy(r, func(k engine.Cmp) bool {
				call := isCallTo(k.X, "crypto.checkPrime")
				return call != nil && k.Op == token.EQL && engine.IsNil(k.Y) && call.Common().Args[0] == ssa.Value(fn.Params[1])
			})
			// checkPrime may also be reached through a cache hit (known good primes): accept "guarded by checkPrime or by the known-prime test"
			c.Check(okGP, "C10.R5", "CheckDH/generator", r.Pos(), "CheckDH must succeed only when CheckGP(g, p) == nil")
			if call := isCallTo(engine.RetVal(r, 0), "crypto.checkPrime"); call != nil && call.Common().Args[0] == ssa.Value(fn.Params[1]) {
				okPrime = true // the result of checkPrime(p) is what is returned
			}
			if !okPrime {
				// alternative: a dominating membership test in a table of known safe primes
				okPrime = knownPrimeOrChecked(fn, r)
			}
			c.Check(okPrime, "C10.R5", "CheckDH/safe-prime", r.Pos(), "CheckDH must succeed only for a verified safe prime")
		}
	}
	if fn := c.MustFunc("C10.R5", "crypto", "checkPrime"); fn != nil {
		for _, r := range engine.SuccessReturns(fn) {
			cnt := 0
			for _, g := range engine.Guards(r) {
				k := g.Cmp()
				call := engine.CallOf(k.X)
				if call == nil {
					continue
				}
				id := engine.CalleeID(call.Common())
				b, isB := engine.ConstBool(k.Y)
				if (id == "crypto.Prime" || id == "(*math/big.Int).ProbablyPrime") && isB && b {
					cnt++
				}
			}
			c.Check(cnt >= 2, "C10.R5", "checkPrime/p-and-half", r.Pos(), "checkPrime must test both p and (p-1)/2 for primality (found %d tests on the accepting path)", cnt)
		}
	}
	if fn := c.MustFunc("C10.R5", "crypto", "CheckDHParams"); fn != nil {
		// decided by class evaluation (bigrange.go): no order class of (g, g_a, g_b)
		// outside one of the five specified ranges may be accepted
		d := dhParamsEval(c)
		if d.err != nil {
			c.Undecided("C10.R5", "CheckDHParams/range-tests", fn.Pos(), "class evaluation of CheckDHParams failed: %v", d.err)
		} else {
			bad, n := "", 0
			for _, r := range d.ranges {
				if cls := d.acceptedOutside(r); cls != "" {
					bad = r.name + ": " + cls
					n++
				}
			}
			c.Check(n == 0, "C10.R5", "CheckDHParams/range-tests", fn.Pos(), "CheckDHParams must refuse every value outside the five ranges (%d evaluated classes); accepted outside %s", d.t.Runs, bad)
		}
	}
}

// knownPrimeOrChecked: every path to the success return passes either a
// successful checkPrime call or the true edge of a lookup in a table of known primes.
func knownPrimeOrChecked(fn *ssa.Function, r *ssa.Return) bool {
	// block the accepting edges; if the return is still reachable, some path bypasses both
	type edge struct{ from, to *ssa.BasicBlock }
	cut := map[[2]*ssa.BasicBlock]bool{}
	found := false
	engine.Instrs(fn, func(i ssa.Instruction) {
		iff, ok := i.(*ssa.If)
		if !ok {
			return
		}
		for _, br := range []bool{true, false} {
			k := engine.Guard{If: iff, Branch: br}.Cmp()
			for _, kk := range []engine.Cmp{k, k.Swap()} {
				call := engine.CallOf(kk.X)
				isCheck := call != nil && engine.CalleeID(call.Common()) == "crypto.checkPrime" && kk.Op == token.EQL && engine.IsNil(kk.Y)
				isKnown := false
				if b, isB := engine.ConstBool(kk.Y); isB && b && kk.Op == token.EQL {
					d := engine.Describe(kk.X)
					if strings.Contains(strings.ToLower(d), "known") || strings.Contains(strings.ToLower(d), "prime") {
						isKnown = true
					}
				}
				if isCheck || isKnown {
					found = true
					succ := iff.Block().Succs[1]
					if br {
						succ = iff.Block().Succs[0]
					}
					cut[[2]*ssa.BasicBlock{iff.Block(), succ}] = true
				}
			}
		}
	})
	if !found {
		return false
	}
	return !reachableAvoiding(fn, r.Block(), cut)
}

func reachableAvoiding(fn *ssa.Function, target *ssa.BasicBlock, cut map[[2]*ssa.BasicBlock]bool) bool {
	seen := map[*ssa.BasicBlock]bool{fn.Blocks[0]: true}
	stack := []*ssa.BasicBlock{fn.Blocks[0]}
	for len(stack) > 0 {
		b := stack[len(stack)-1]
		stack = stack[:len(stack)-1]
		if b == target {
			return true
		}
		for _, s := range b.Succs {
			if cut[[2]*ssa.BasicBlock{b, s}] || seen[s] {
				continue
			}
			seen[s] = true
			stack = append(stack, s)
		}
	}
	return false
}

// c10SelectorCall: v is the RSA field of the PublicKey a static same-package
// call returned (possibly through a local variable).
func c10SelectorCall(v ssa.Value) *ssa.Call {
	var found *ssa.Call
	engine.WalkBack(v, func(x ssa.Value) bool {
		if call, ok := x.(*ssa.Call); ok {
			if h := call.Common().StaticCallee(); h != nil && found == nil && strings.HasSuffix(h.Signature.Results().String(), "exchange.PublicKey)") && h.Pkg != nil && strings.HasSuffix(h.Pkg.Pkg.Path(), "/exchange") {
				found = call
			}
			return false
		}
		return true
	})
	return found
}

// c10Selector: h(keys, fingerprints) returns either the zero PublicKey or an
// element of its keys parameter on a path where that element's Fingerprint()
// equals an element of its fingerprints parameter. Returns the two parameter
// indexes.
func c10Selector(h *ssa.Function) (keysIdx, fpsIdx int, ok bool) {
	keysIdx, fpsIdx = -1, -1
	if h == nil || len(h.Blocks) == 0 {
		return
	}
	for i, p := range h.Params {
		t := p.Type().String()
		switch {
		case strings.HasSuffix(t, "[]github.com/gotd/td/exchange.PublicKey") || strings.HasSuffix(t, "[]exchange.PublicKey"):
			keysIdx = i
		case t == "[]int64":
			fpsIdx = i
		}
	}
	if keysIdx < 0 || fpsIdx < 0 {
		return
	}
	kp, fp := "p:"+engine.ParamName(h.Params[keysIdx])+"[", "p:"+engine.ParamName(h.Params[fpsIdx])+"["
	picked := 0
	for _, r := range engine.Returns(h) {
		v := r.Results[0]
		d := engine.Describe(v)
		if isZeroStruct(v) || strings.HasSuffix(d, "PublicKey{}") {
			continue
		}
		if !strings.HasPrefix(d, kp) {
			return keysIdx, fpsIdx, false
		}
		match := engine.GuardedBy(r, func(k engine.Cmp) bool {
			if k.Op != token.EQL {
				return false
			}
			for _, q := range []engine.Cmp{k, k.Swap()} {
				f := isCallTo(q.Y, "(exchange.PublicKey).Fingerprint")
				if f != nil && strings.HasPrefix(engine.Describe(q.X), fp) && strings.HasPrefix(engine.Describe(f.Common().Args[0]), kp) && engine.Describe(f.Common().Args[0]) == d {
					return true
				}
			}
			return false
		})
		if !match {
			return keysIdx, fpsIdx, false
		}
		picked++
	}
	return keysIdx, fpsIdx, picked > 0
}
