package rules

import (
	"go/token"
	"strings"

	"golang.org/x/tools/go/ssa"

	"tdverif/checker/engine"
)

// C30 — saved sessions hold the key confirmed for the primary DC.
func init() {
	register("C30", []string{"telegram", "mtproto", "telegram/internal/manager"}, func(c *engine.Ctx) {
		c.Explain("C30: (R1) in Client.onSession the update of the tracked primary session (c.session.Store) and the call of saveSession are reachable only through an edge on which the reporting connection's DC equals the tracked primary DC (or one of them is unknown = 0); the value stored is dcSessionFromMTProto(cfg.ThisDC, s) and saveSession receives the same (cfg, s); onCDNSession reaches neither; saveSession is called from nowhere else. (R2, origins) everything saveSession writes into the persisted record comes from its own (cfg, s) pair: DC = cfg.ThisDC, Salt = s.Salt, AuthKey and AuthKeyID are the Value and ID of one key variable that is s.Key, replaced by s.PermKey exactly under !s.PermKey.Zero(); the record saved is the one these fields were written to and a Save error is returned; dcSessionFromMTProto makes the same key decision (sibling agreement). (R3) in restoreConnection the stored session is adopted (c.session.Store) only under key.Value.ID() == key.ID, where key.Value is written only by the copy from the stored AuthKey and key.ID only by the copy from the stored AuthKeyID (a recomputed id would make the test vacuous), and the adopted session pairs that key with DC and Salt of the same loaded record.")
		c.NotCover("the order in which several connections report; what the storage backend does (C31)")
		c30(c)
		c30R4(c)
		c30R5(c)
	})
}

// c30R4: saveSession prefers a non-zero PermKey (R2). That is right only if
// "PermKey is non-zero only in PFS mode" (mtproto.Session's documented
// invariant): without PFS the connection regenerates Key in place when the
// server has forgotten it, and a PermKey that still holds the restored key
// would be persisted instead of the confirmed one. Rule: in package mtproto a
// store into a PermKey/permKey field takes its value from (a) a PermKey, (b)
// the zero value, (c) an exchange result inside a function reached only
// through the pfs branch, or (d) a plain Key — and (d) only on an edge where
// the PFS flag is true.
func c30R4(c *engine.Ctx) {
	isPFS := func(k engine.Cmp) bool {
		b, isB := engine.ConstBool(k.Y)
		d := engine.Describe(k.X)
		return isB && (strings.HasSuffix(d, ".EnablePFS") || strings.HasSuffix(d, ".pfs")) && ((b && k.Op == token.EQL) || (!b && k.Op == token.NEQ))
	}
	sp := c.SSA["mtproto"]
	var guardedFn func(f *ssa.Function, depth int) bool
	guardedFn = func(f *ssa.Function, depth int) bool {
		if depth > 3 {
			return false
		}
		callers := 0
		for _, h := range allFunctions(c, sp) {
			for _, g := range engine.WithAnon(h) {
				for _, call := range engine.Calls(g) {
					if call.Common().StaticCallee() != f {
						continue
					}
					callers++
					if !engine.GuardedBy(call, isPFS) && !guardedFn(g, depth+1) {
						return false
					}
				}
			}
		}
		return callers > 0
	}
	n := 0
	for _, h := range allFunctions(c, sp) {
		for _, g := range engine.WithAnon(h) {
			engine.Instrs(g, func(i ssa.Instruction) {
				st, ok := i.(*ssa.Store)
				if !ok {
					return
				}
				fa, isFA := st.Addr.(*ssa.FieldAddr)
				if !isFA {
					return
				}
				if nm := engine.FieldNameOf(fa); nm != "PermKey" && nm != "permKey" {
					return
				}
				n++
				d := engine.Describe(st.Val)
				ok2, why := false, "value "+d
				switch {
				case strings.HasSuffix(d, ".PermKey") || strings.HasSuffix(d, ".permKey"):
					ok2 = true
				case strings.Contains(d, "AuthKey{}") || d == "zero" || isZeroStruct(st.Val):
					ok2 = true
				case strings.HasSuffix(d, ".Key") || strings.HasSuffix(d, ".authKey"):
					ok2 = engine.GuardedBy(st, isPFS)
					why = "a plain Key is copied into PermKey outside the PFS branch"
				case strings.HasSuffix(d, ".AuthKey"):
					ok2 = engine.GuardedBy(st, isPFS) || guardedFn(g, 0)
					why = "an exchange result becomes PermKey in a function that is reachable without the PFS flag"
				}
				c.Check(ok2, "C30.R4", engine.FuncID(g)+"/perm-key-only-under-pfs#"+ordinal(g, st), st.Pos(), "PermKey must stay zero outside PFS mode (saveSession persists it in preference to the confirmed Key): %s", why)
			})
		}
	}
	c.Floor("C30.R4", 4, n)
}

func isZeroStruct(v ssa.Value) bool {
	if k, ok := v.(*ssa.Const); ok && k.Value == nil {
		return true
	}
	if ld, ok := v.(*ssa.UnOp); ok && ld.Op == token.MUL {
		if al, isA := ld.X.(*ssa.Alloc); isA {
			for _, r := range *al.Referrers() {
				switch r.(type) {
				case *ssa.Store, *ssa.FieldAddr, *ssa.IndexAddr:
					return false
				}
			}
			return true
		}
	}
	return false
}

// c30R5: the (cfg, session) pair that reaches Client.onSession comes from
// manager.Conn, which forwards a session at once when its config is known
// (gotConfig signalled) and buffers it otherwise. The pair is right only if
// the config is stored before readiness is signalled: every gotConfig.Signal()
// is dominated by a store to c.cfg in the same function (a session forwarded
// in between would carry ThisDC = 0, which R1 treats as "unknown, accept").
func c30R5(c *engine.Ctx) {
	n := 0
	for _, h := range allFunctions(c, c.SSA["telegram/internal/manager"]) {
		for _, g := range engine.WithAnon(h) {
			for _, call := range engine.CallsTo(g, false, "(*tdsync.Ready).Signal") {
				if !strings.HasSuffix(descCell(engine.Args(call.Common())[0]), ".gotConfig") {
					continue
				}
				n++
				ok := false
				engine.Instrs(g, func(i ssa.Instruction) {
					if st, isS := i.(*ssa.Store); isS && strings.HasSuffix(engine.Describe(st.Addr), ".cfg") && engine.Dominates(st, call) {
						ok = true
					}
				})
				c.Check(ok, "C30.R5", engine.FuncID(g)+"/config-stored-before-ready#"+ordinalCall(g, call), call.Pos(), "gotConfig may be signalled only after c.cfg was stored: a session reported in between is forwarded with a zero config (ThisDC = 0 passes the primary-DC filter)")
			}
		}
	}
	c.Floor("C30.R5", 2, n)
}

func c30(c *engine.Ctx) {
	sp := c.SSA["telegram"]
	on := c.MustFunc("C30.R1", "telegram", "Client.onSession")
	save := c.MustFunc("C30.R2", "telegram", "Client.saveSession")
	rest := c.MustFunc("C30.R3", "telegram", "Client.restoreConnection")
	dcs := c.MustFunc("C30.R2", "telegram", "dcSessionFromMTProto")
	if on == nil || save == nil || rest == nil || dcs == nil {
		return
	}
	// ---- R1
	n1 := 0
	var prim *ssa.Call
	for _, call := range engine.CallsTo(on, false, "(*pool.SyncSession).Load") {
		if engine.Describe(engine.Args(call.Common())[0]) == "p:c.session" {
			prim, _ = call.(*ssa.Call)
		}
	}
	isPrimDC := func(v ssa.Value) bool {
		return prim != nil && strings.HasPrefix(engine.Describe(v), "(*pool.SyncSession).Load(p:c.session)") && strings.HasSuffix(engine.Describe(v), ".DC") && engine.DependsOn(v, prim)
	}
	isThisDC := func(v ssa.Value) bool { return engine.Describe(v) == "p:cfg.ThisDC" }
	pass := engine.EdgesWhere(on, func(k engine.Cmp) bool {
		if k.Op != token.EQL {
			return false
		}
		if (isPrimDC(k.X) && isThisDC(k.Y)) || (isThisDC(k.X) && isPrimDC(k.Y)) {
			return true
		}
		z, isK := engine.ConstInt(k.Y)
		return isK && z == 0 && (isPrimDC(k.X) || isThisDC(k.X))
	})
	var sinks []ssa.CallInstruction
	for _, call := range engine.CallsTo(on, false, "(*pool.SyncSession).Store") {
		if engine.Describe(engine.Args(call.Common())[0]) == "p:c.session" {
			sinks = append(sinks, call)
			v := engine.Describe(engine.Args(call.Common())[1])
			c.Check(v == "telegram.dcSessionFromMTProto(p:cfg.ThisDC, p:s)", "C30.R1", "onSession/stores-reported-session", call.Pos(), "the tracked primary session must be built from the reporting connection's (cfg.ThisDC, s) (stores %s)", v)
		}
	}
	for _, call := range engine.CallsTo(on, false, "(*telegram.Client).saveSession") {
		sinks = append(sinks, call)
		a := engine.Args(call.Common())
		c.Check(engine.Describe(a[1]) == "p:cfg" && engine.Describe(a[2]) == "p:s", "C30.R1", "onSession/saves-reported-session", call.Pos(), "saveSession must receive the reporting connection's (cfg, s)")
	}
	for _, s := range sinks {
		n1++
		c.Check(len(pass) >= 1 && everyPathPasses(on, s, pass, nil), "C30.R1", "onSession/"+s.Common().StaticCallee().Name()+"#"+ordinalCall(on, s)+"/primary-only", s.Pos(), "a session reported by a connection to another DC than the tracked primary one must not become the primary session nor be persisted (every path must pass primaryDC == cfg.ThisDC, or one of them == 0)")
	}
	c.Floor("C30.R1", 2, n1)
	// nobody else persists or calls saveSession
	for _, f0 := range allFunctions(c, sp) {
		for _, f := range engine.WithAnon(f0) {
			for _, call := range engine.Calls(f) {
				if call.Common().StaticCallee() == save && f != on {
					c.Fail("C30.R1", engine.FuncID(f)+"/calls-saveSession", call.Pos(), "saveSession may be called only from onSession (behind the primary-DC filter)")
				}
				if id := engine.CalleeID(call.Common()); id == "(telegram.clientStorage).Save" && f != save {
					c.Fail("C30.R1", engine.FuncID(f)+"/calls-storage-Save", call.Pos(), "the session storage may be written only by saveSession")
				}
			}
		}
	}
	if cdn := c.MustFunc("C30.R1", "telegram", "Client.onCDNSession"); cdn != nil {
		bad := false
		for _, f := range reachSamePkg(c, cdn, 3) {
			if f == save {
				bad = true
			}
			for _, call := range engine.Calls(f) {
				if engine.CalleeID(call.Common()) == "(*pool.SyncSession).Store" && strings.HasSuffix(engine.Describe(engine.Args(call.Common())[0]), "c.session") {
					bad = true
				}
			}
		}
		c.Check(!bad, "C30.R1", "onCDNSession/never-primary", cdn.Pos(), "a CDN session must never be persisted or become the primary session")
	}

	// ---- R2
	n2 := 0
	var saveCall ssa.CallInstruction
	for _, call := range engine.CallsTo(save, false, "(telegram.clientStorage).Save") {
		saveCall = call
	}
	if saveCall == nil {
		c.Fail("C30.R2", "saveSession/saves", save.Pos(), "saveSession never calls storage.Save")
	} else {
		rec := engine.Args(saveCall.Common())[2]
		fieldStore := func(name string) *ssa.Store {
			var out *ssa.Store
			cnt := 0
			engine.Instrs(save, func(i ssa.Instruction) {
				st, ok := i.(*ssa.Store)
				if !ok {
					return
				}
				fa, isFA := st.Addr.(*ssa.FieldAddr)
				if !isFA || engine.FieldNameOf(fa) != name || !strings.HasSuffix(fa.X.Type().String(), "session.Data") {
					return
				}
				if engine.Describe(fa.X) != engine.Describe(rec) {
					return
				}
				out = st
				cnt++
			})
			if cnt != 1 {
				return nil
			}
			return out
		}
		check := func(name, want string) {
			n2++
			st := fieldStore(name)
			got := "<no single store>"
			if st != nil {
				got = engine.Describe(st.Val)
			}
			c.Check(st != nil && got == want && engine.Dominates(st, saveCall), "C30.R2", "saveSession/"+name, saveCall.Pos(), "persisted %s must be %s of the reporting connection and be written before Save (is %s)", name, want, got)
		}
		check("DC", "p:cfg.ThisDC")
		check("Salt", "p:s.Salt")
		// key variable
		kst, ist := fieldStore("AuthKey"), fieldStore("AuthKeyID")
		n2++
		okKey := false
		why := "AuthKey/AuthKeyID not written exactly once"
		if kst != nil && ist != nil {
			ka := keyAllocOf(kst.Val, "Value")
			ia := keyAllocOf(ist.Val, "ID")
			why = "AuthKey and AuthKeyID are not Value/ID of one key variable"
			if ka != nil && ka == ia {
				why = keyDecision(ka)
				okKey = why == ""
			}
		}
		c.Check(okKey, "C30.R2", "saveSession/key", saveCall.Pos(), "persisted AuthKey/AuthKeyID must be Value/ID of one key: s.Key, replaced by s.PermKey exactly when !s.PermKey.Zero() (%s)", why)
		// Save error returned
		n2++
		sc := saveCall.(*ssa.Call)
		e := engine.EdgesWhere(save, func(k engine.Cmp) bool { return engine.Unwrap(k.X) == ssa.Value(sc) && engine.IsNil(k.Y) && k.Op == token.NEQ })
		okErr := len(e) == 1
		for ed := range e {
			iff := ed[0].Instrs[len(ed[0].Instrs)-1].(*ssa.If)
			okErr = okErr && engine.RejectEdge(iff, ed[0].Succs[0] == ed[1])
		}
		c.Check(okErr, "C30.R2", "saveSession/save-error-returned", saveCall.Pos(), "a failed Save must be reported")
	}
	// sibling: dcSessionFromMTProto
	{
		n2++
		ok, why := false, ""
		for _, r := range engine.Returns(dcs) {
			v := r.Results[0]
			dc := engine.StructFieldValue(v, "DC")
			salt := engine.StructFieldValue(v, "Salt")
			key := engine.StructFieldValue(v, "AuthKey")
			if dc == nil || salt == nil || key == nil {
				why = "result is not a struct literal with DC, Salt, AuthKey"
				continue
			}
			if engine.Describe(dc) != "p:dc" || engine.Describe(salt) != "p:s.Salt" {
				why = "DC/Salt are " + engine.Describe(dc) + "/" + engine.Describe(salt)
				continue
			}
			if phi, isPhi := key.(*ssa.Phi); isPhi {
				why = keyDecisionPhi(phi)
				ok = why == ""
				continue
			}
			ld, isL := key.(*ssa.UnOp)
			if !isL {
				why = "AuthKey is not a key variable"
				continue
			}
			a, isA := ld.X.(*ssa.Alloc)
			if !isA {
				why = "AuthKey is not a local key variable"
				continue
			}
			why = keyDecision(a)
			ok = why == ""
		}
		c.Check(ok, "C30.R2", "dcSessionFromMTProto/same-key-decision", dcs.Pos(), "the in-memory session must pair dc, s.Salt and the same key decision as saveSession (%s)", why)
	}
	c.Floor("C30.R2", 5, n2)

	// ---- R3
	n3 := 0
	var load *ssa.Call
	for _, call := range engine.CallsTo(rest, false, "(telegram.clientStorage).Load") {
		load, _ = call.(*ssa.Call)
	}
	var adopt ssa.CallInstruction
	for _, call := range engine.CallsTo(rest, false, "(*pool.SyncSession).Store") {
		if engine.Describe(engine.Args(call.Common())[0]) == "p:c.session" {
			adopt = call
		}
	}
	if load == nil || adopt == nil {
		c.Fail("C30.R3", "restoreConnection/shape", rest.Pos(), "storage Load or c.session.Store not found")
		return
	}
	recD := engine.Describe(load) + "#0"
	// the adopted value
	sv := engine.Args(adopt.Common())[1]
	keyV := engine.StructFieldValue(sv, "AuthKey")
	var keyAlloc *ssa.Alloc
	if ld, ok := keyV.(*ssa.UnOp); ok {
		keyAlloc, _ = ld.X.(*ssa.Alloc)
	}
	// The key may be rebuilt and checked in a helper of the package that
	// returns (key, ok): then the variable, its writes and the comparison are
	// looked for in the helper, whose record parameter must receive the loaded
	// record, and the adoption must be behind ok == true.
	var helperCall *ssa.Call
	recIn := recD
	{
		v := keyV
		if keyAlloc != nil {
			// a local that merely holds the helper's result
			stores := 0
			var sv2 ssa.Value
			for _, r := range *keyAlloc.Referrers() {
				if st, ok := r.(*ssa.Store); ok && st.Addr == ssa.Value(keyAlloc) {
					stores++
					sv2 = st.Val
				}
			}
			if stores == 1 {
				v = sv2
			}
		}
		if ex, ok := v.(*ssa.Extract); ok && ex.Index == 0 {
			if call, isC := ex.Tuple.(*ssa.Call); isC {
				if h := call.Common().StaticCallee(); h != nil && h.Pkg == rest.Pkg && len(h.Blocks) > 0 && h.Signature.Results().Len() == 2 {
					for _, r := range engine.Returns(h) {
						if ld, isL := r.Results[0].(*ssa.UnOp); isL {
							if al, isA := ld.X.(*ssa.Alloc); isA {
								helperCall, keyAlloc = call, al
							}
						}
					}
					if helperCall != nil {
						for i, p := range h.Params {
							if engine.Describe(call.Common().Args[i]) == recD {
								recIn = "p:" + engine.ParamName(p)
							}
						}
					}
				}
			}
		}
	}
	n3++
	dcV, saltV := engine.StructFieldValue(sv, "DC"), engine.StructFieldValue(sv, "Salt")
	c.Check(keyAlloc != nil && dcV != nil && saltV != nil && engine.Describe(dcV) == recD+".DC" && engine.Describe(saltV) == recD+".Salt" && (helperCall == nil || recIn != recD), "C30.R3", "restoreConnection/adopts-loaded-record", adopt.Pos(), "the adopted session must pair the checked key with DC and Salt of the same loaded record (DC %s, Salt %s)", engine.Describe(dcV), engine.Describe(saltV))
	if keyAlloc == nil {
		return
	}
	recD = recIn
	// writes to the key variable: exactly copy(key.Value[:], rec.AuthKey) and copy(key.ID[:], rec.AuthKeyID)
	writes := map[string][]string{}
	for _, r := range *keyAlloc.Referrers() {
		switch x := r.(type) {
		case *ssa.Store:
			if x.Addr == ssa.Value(keyAlloc) {
				if ld, isL := x.Val.(*ssa.UnOp); isL && ld.Op == token.MUL && ld.X == ssa.Value(keyAlloc) {
					continue // "return key, …" of a named result: the variable assigned to itself
				}
				writes["<whole>"] = append(writes["<whole>"], engine.Describe(x.Val))
			}
		case *ssa.FieldAddr:
			fn := engine.FieldNameOf(x)
			for _, rr := range *x.Referrers() {
				switch y := rr.(type) {
				case *ssa.Store:
					if y.Addr == ssa.Value(x) {
						writes[fn] = append(writes[fn], "store:"+engine.Describe(y.Val))
					}
				case *ssa.Slice:
					for _, r3 := range *y.Referrers() {
						if call, ok := r3.(*ssa.Call); ok && engine.CalleeID(call.Common()) == "builtin.copy" && call.Common().Args[0] == ssa.Value(y) {
							writes[fn] = append(writes[fn], "copy:"+engine.Describe(call.Common().Args[1]))
						}
					}
				case *ssa.IndexAddr:
					for _, r3 := range *y.Referrers() {
						if st, ok := r3.(*ssa.Store); ok && st.Addr == ssa.Value(y) {
							writes[fn] = append(writes[fn], "elem-store")
						}
					}
				}
			}
		}
	}
	n3++
	okW := len(writes["<whole>"]) == 0 && len(writes["Value"]) == 1 && writes["Value"][0] == "copy:"+recD+".AuthKey" &&
		len(writes["ID"]) == 1 && writes["ID"][0] == "copy:"+recD+".AuthKeyID"
	c.Check(okW, "C30.R3", "restoreConnection/key-and-id-only-from-storage", adopt.Pos(), "the compared key and key id must each be written exactly once, by the copy from the stored AuthKey / AuthKeyID (a recomputed or defaulted id makes the integrity test vacuous); writes: %v", writes)
	// guard
	n3++
	idEqual := func(x, y ssa.Value) bool {
		idc := engine.CallOf(x)
		if idc == nil || engine.CalleeID(idc.Common()) != "(crypto.Key).ID" {
			return false
		}
		recv, okR := engine.Args(idc.Common())[0].(*ssa.UnOp)
		if !okR {
			return false
		}
		fa, okF := recv.X.(*ssa.FieldAddr)
		if !okF || fa.X != ssa.Value(keyAlloc) || engine.FieldNameOf(fa) != "Value" {
			return false
		}
		ly, okY := y.(*ssa.UnOp)
		if !okY {
			return false
		}
		fy, okFY := ly.X.(*ssa.FieldAddr)
		return okFY && fy.X == ssa.Value(keyAlloc) && engine.FieldNameOf(fy) == "ID"
	}
	if helperCall != nil {
		h := helperCall.Common().StaticCallee()
		okRet := true
		for _, r := range engine.Returns(h) {
			cmp, isC := r.Results[1].(*ssa.BinOp)
			if !isC || cmp.Op != token.EQL || !(idEqual(cmp.X, cmp.Y) || idEqual(cmp.Y, cmp.X)) {
				okRet = false
			}
		}
		behind := engine.GuardedBy(adopt, func(k engine.Cmp) bool {
			ex, isE := k.X.(*ssa.Extract)
			b, isB := engine.ConstBool(k.Y)
			return isE && ex.Tuple == ssa.Value(helperCall) && ex.Index == 1 && isB && ((b && k.Op == token.EQL) || (!b && k.Op == token.NEQ))
		})
		c.Check(okRet && behind, "C30.R3", "restoreConnection/key-id-matches", adopt.Pos(), "a stored session may be adopted only under key.Value.ID() == key.ID: %s must report exactly that comparison and the adoption must be behind its true result (comparison: %v, behind it: %v)", h.Name(), okRet, behind)
		c.Floor("C30.R3", 3, n3)
		return
	}
	g := engine.GuardedBy(adopt, func(k engine.Cmp) bool {
		if k.Op != token.EQL {
			return false
		}
		idc := engine.CallOf(k.X)
		if idc == nil || engine.CalleeID(idc.Common()) != "(crypto.Key).ID" {
			return false
		}
		recv, okR := engine.Args(idc.Common())[0].(*ssa.UnOp)
		if !okR {
			return false
		}
		fa, okF := recv.X.(*ssa.FieldAddr)
		if !okF || fa.X != ssa.Value(keyAlloc) || engine.FieldNameOf(fa) != "Value" {
			return false
		}
		y, okY := k.Y.(*ssa.UnOp)
		if !okY {
			return false
		}
		fy, okFY := y.X.(*ssa.FieldAddr)
		return okFY && fy.X == ssa.Value(keyAlloc) && engine.FieldNameOf(fy) == "ID"
	})
	c.Check(g, "C30.R3", "restoreConnection/key-id-matches", adopt.Pos(), "a stored session may be adopted only under key.Value.ID() == key.ID")
	c.Floor("C30.R3", 3, n3)
}

// keyAllocOf: v is alloc.<field>[:] of a local key variable; returns the alloc.
func keyAllocOf(v ssa.Value, field string) *ssa.Alloc {
	sl, ok := v.(*ssa.Slice)
	if !ok || sl.Low != nil || sl.High != nil {
		return nil
	}
	fa, ok := sl.X.(*ssa.FieldAddr)
	if !ok || engine.FieldNameOf(fa) != field {
		return nil
	}
	a, _ := fa.X.(*ssa.Alloc)
	return a
}

// keyDecision checks that the key variable is assigned p:s.Key unconditionally
// and p:s.PermKey exactly under !s.PermKey.Zero(); returns "" when it is.
func keyDecision(a *ssa.Alloc) string {
	var base, perm *ssa.Store
	n := 0
	for _, r := range *a.Referrers() {
		st, ok := r.(*ssa.Store)
		if !ok || st.Addr != ssa.Value(a) {
			continue
		}
		n++
		switch engine.Describe(st.Val) {
		case "p:s.Key":
			base = st
		case "p:s.PermKey":
			perm = st
		}
	}
	if n != 2 || base == nil || perm == nil {
		return "key variable is not assigned exactly {s.Key, s.PermKey}"
	}
	// "PermKey when it is non-zero, Key otherwise" can be written with either
	// value as the unconditional default and the other assigned on the edge
	// that decides against the default.
	zeroIs := func(want bool) func(engine.Cmp) bool {
		return func(k engine.Cmp) bool {
			call, isC := engine.Unwrap(k.X).(*ssa.Call)
			b, isB := engine.ConstBool(k.Y)
			if !isC || !isB || engine.CalleeID(call.Common()) != "(crypto.AuthKey).Zero" || engine.Describe(engine.Args(call.Common())[0]) != "p:s.PermKey" {
				return false
			}
			return (k.Op == token.EQL && b == want) || (k.Op == token.NEQ && b != want)
		}
	}
	onZero := func(st *ssa.Store) bool {
		return engine.GuardedBy(st, zeroIs(true)) || engine.GuardedBy(st, zeroIs(false))
	}
	switch {
	case engine.GuardedBy(base, zeroIs(true)) && engine.GuardedBy(perm, zeroIs(false)):
		// if s.PermKey.Zero() { key = s.Key } else { key = s.PermKey }: each value
		// on its own outcome, no default
	case engine.Dominates(base, perm) && !onZero(base):
		if !engine.GuardedBy(perm, zeroIs(false)) {
			return "s.PermKey is not chosen exactly under !s.PermKey.Zero()"
		}
	case engine.Dominates(perm, base) && !onZero(perm):
		if !engine.GuardedBy(base, zeroIs(true)) {
			return "s.Key does not replace s.PermKey exactly under s.PermKey.Zero()"
		}
	default:
		return "neither s.Key nor s.PermKey is an unconditional default assignment"
	}
	return ""
}

// keyDecisionPhi is keyDecision for a key variable that go/ssa promoted to a
// phi: one edge s.PermKey coming from a block guarded by Zero() == false, the
// other s.Key.
func keyDecisionPhi(phi *ssa.Phi) string {
	if len(phi.Edges) != 2 {
		return "key is not chosen between two values"
	}
	zeroIs := func(want bool) func(engine.Cmp) bool {
		return func(k engine.Cmp) bool {
			call, isC := engine.Unwrap(k.X).(*ssa.Call)
			b, isB := engine.ConstBool(k.Y)
			if !isC || !isB || engine.CalleeID(call.Common()) != "(crypto.AuthKey).Zero" || engine.Describe(engine.Args(call.Common())[0]) != "p:s.PermKey" {
				return false
			}
			return (k.Op == token.EQL && b == want) || (k.Op == token.NEQ && b != want)
		}
	}
	// the edge pred → phi block carries the decision either as a guard of the
	// predecessor or as the branch edge itself
	edgeSays := func(i int, want bool) bool {
		pred := phi.Block().Preds[i]
		if engine.GuardedBy(pred.Instrs[len(pred.Instrs)-1], zeroIs(want)) {
			return true
		}
		return engine.EdgesWhere(phi.Parent(), zeroIs(want))[[2]*ssa.BasicBlock{pred, phi.Block()}]
	}
	seenKey, seenPerm, decided := false, false, false
	for i, e := range phi.Edges {
		switch engine.Describe(e) {
		case "p:s.Key":
			seenKey = true
			if edgeSays(i, true) {
				decided = true
			} else if edgeSays(i, false) {
				return "s.Key is chosen although s.PermKey is non-zero"
			}
		case "p:s.PermKey":
			seenPerm = true
			if edgeSays(i, false) {
				decided = true
			} else if edgeSays(i, true) {
				return "s.PermKey is chosen although it is zero"
			}
		default:
			return "unexpected key source " + engine.Describe(e)
		}
	}
	if !seenKey || !seenPerm {
		return "key is not chosen between s.Key and s.PermKey"
	}
	if !decided {
		return "the choice between s.Key and s.PermKey does not depend on s.PermKey.Zero()"
	}
	return ""
}
