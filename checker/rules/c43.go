package rules

import (
	"strings"

	"golang.org/x/tools/go/ssa"

	"tdverif/checker/engine"
)

// C43 — pings succeed only on the matching pong; a missed pong kills the link.
func init() {
	register("C43", []string{"mtproto"}, func(c *engine.Ctx) {
		c.Explain("C43: (R1, who-may-close + locksets) every access to Conn.ping in package mtproto holds pingMux; a channel stored in Conn.ping is closed only in handlePong, the closed channel is the one looked up under PingID of the pong decoded from the handler's buffer (decode error rejects first), and the entry is deleted in the same critical section (a duplicate pong must not close twice); the registration helper stores a fresh unbuffered channel under its id parameter and returns it. (R2) Ping and pingDelayDisconnect register under the very id they put into the request, before writing it, remove the registration on every exit, return nil only after the receive from that channel and ctx.Err() on the context case. (R3) pingLoop runs each ping under context.WithTimeout(ctx, c.pingTimeout), returns a non-nil error on every path where the ping failed, ticks with c.pingInterval, announces disconnect_delay = pingInterval + pingTimeout, and is started by Conn.Run's task group.")
		c.NotCover("timing; what the task group does with the error")
		c43(c)
	})
}

// c43Wait checks the wait for a pong inside f: a nil error is returned only
// after a blocking receive from ch (this ping's own channel), and the case of
// the context described by ctxDesc returns that context's Err(). Returns the
// number of obligations generated.
func c43Wait(c *engine.Ctx, name string, f *ssa.Function, ch ssa.Value, ctxDesc string) int {
	n := 0
	for _, r := range engine.Returns(f) {
		v := engine.RetVal(r, 0)
		if !engine.IsNil(v) {
			continue
		}
		n++
		ok := false
		for _, rv := range recvsOf(f) {
			if engine.Unwrap(rv.Chan) == engine.Unwrap(ch) && rv.Blocking && afterRecv(rv, r) {
				ok = true
			}
		}
		c.Check(ok, "C43.R2", name+"/success-return#"+ordinal(f, r), r.Pos(), "success may be reported only after the receive from this ping's own channel")
	}
	for _, sel := range selectsOf(f) {
		for _, sc := range engine.SelectCases(sel) {
			if sc.Send || !isDoneOf(sc.Chan, ctxDesc) || sc.Body == nil {
				continue
			}
			n++
			ok := true
			for _, r := range engine.Returns(f) {
				if sc.Body == r.Block() || sc.Body.Dominates(r.Block()) {
					if engine.Describe(engine.RetVal(r, 0)) != "(context.Context).Err("+ctxDesc+")" {
						ok = false
					}
				}
			}
			c.Check(ok, "C43.R2", name+"/context-case-returns-ctx-err", sel.Pos(), "when the context ends first the ping must fail with ctx.Err()")
		}
	}
	return n
}

func c43(c *engine.Ctx) {
	sp := c.SSA["mtproto"]
	hp := c.MustFunc("C43.R1", "mtproto", "Conn.handlePong")
	if hp == nil {
		return
	}
	// ---- R1: all accesses to c.ping under pingMux; closes only in handlePong
	n1 := 0
	for _, f0 := range allFunctions(c, sp) {
		for _, f := range engine.WithAnon(f0) {
			var ls map[ssa.Instruction]map[string]bool
			held := func(i ssa.Instruction, recv string) bool {
				if ls == nil {
					ls = engine.Locksets(f)
				}
				return ls[i][recv+".pingMux"]
			}
			engine.Instrs(f, func(i ssa.Instruction) {
				var m ssa.Value
				switch x := i.(type) {
				case *ssa.MapUpdate:
					m = x.Map
				case *ssa.Lookup:
					m = x.X
				case ssa.CallInstruction:
					if engine.CalleeID(x.Common()) == "builtin.delete" {
						m = x.Common().Args[0]
					}
				}
				if m == nil {
					return
				}
				d := engine.Describe(m)
				if !strings.HasSuffix(d, ".ping") || !strings.HasPrefix(d, "p:") {
					return
				}
				fa, ok := engine.Unwrap(m).(*ssa.UnOp)
				_ = fa
				_ = ok
				n1++
				recv := strings.TrimSuffix(d, ".ping")
				c.Check(held(i, recv), "C43.R1", engine.FuncID(f)+"/ping-map#"+ordinal(f, i)+"/lock", i.Pos(), "Conn.ping must be accessed under pingMux")
			})
			for _, call := range engine.Calls(f) {
				if engine.CalleeID(call.Common()) != "builtin.close" {
					continue
				}
				d := engine.Describe(call.Common().Args[0])
				if !strings.Contains(d, ".ping[") {
					continue
				}
				n1++
				c.Check(f == hp, "C43.R1", engine.FuncID(f)+"/closes-ping-channel", call.Pos(), "a pending ping may be completed only by handlePong")
			}
		}
	}
	// handlePong details
	{
		lks := lookupsOf(hp, "p:c.ping")
		var cl ssa.CallInstruction
		for _, call := range engine.Calls(hp) {
			if engine.CalleeID(call.Common()) == "builtin.close" {
				cl = call
			}
		}
		if len(lks) != 1 || cl == nil {
			c.Fail("C43.R1", "handlePong/shape", hp.Pos(), "handlePong must look the ping up once and close its channel (lookups %d)", len(lks))
		} else {
			lk := lks[0]
			n1++
			idx := engine.Describe(lk.Index)
			// the id is field PingID of a local mt.Pong that was decoded from the buffer parameter
			var decoded ssa.CallInstruction
			for _, call := range engine.CallsTo(hp, false, "(*mt.Pong).Decode") {
				if engine.Describe(engine.Args(call.Common())[1]) == "p:b" {
					decoded = call
				}
			}
			okIdx := strings.HasSuffix(idx, ".PingID") && decoded != nil && strings.HasPrefix(idx, engine.Describe(engine.Args(decoded.Common())[0]))
			c.Check(okIdx, "C43.R1", "handlePong/key-is-decoded-ping-id", lk.Pos(), "the completed ping must be the one named by PingID of the pong decoded from the handler's buffer (index %s)", idx)
			if decoded != nil {
				dc := decoded.(*ssa.Call)
				c.Check(engine.GuardedBy(lk, func(k engine.Cmp) bool {
					return engine.Unwrap(k.X) == ssa.Value(dc) && engine.IsNil(k.Y) && k.Op.String() == "=="
				}), "C43.R1", "handlePong/decode-error-rejects", lk.Pos(), "a pong that failed to decode must not complete any ping")
			}
			c.Check(engine.DependsOn(cl.Common().Args[0], lk), "C43.R1", "handlePong/closes-found", cl.Pos(), "the closed channel must be the one found under the pong's id")
			del := false
			ls := engine.Locksets(hp)
			for _, call := range engine.Calls(hp) {
				if engine.CalleeID(call.Common()) == "builtin.delete" && engine.Describe(call.Common().Args[0]) == "p:c.ping" && engine.Describe(call.Common().Args[1]) == idx {
					// same critical section: no unlock between close and delete
					between := false
					for _, u := range engine.CallsTo(hp, false, "(*sync.Mutex).Unlock") {
						if engine.PathExists(cl, u) && engine.PathExists(u, call) {
							between = true
						}
					}
					if !between && ls[call]["p:c.pingMux"] && ls[cl]["p:c.pingMux"] && (engine.Dominates(cl, call) || engine.Dominates(call, cl)) {
						del = true
					}
				}
			}
			c.Check(del, "C43.R1", "handlePong/deletes-closed-entry", cl.Pos(), "the closed channel must be removed from Conn.ping in the same critical section: a duplicate pong would close it again (panic)")
		}
	}
	// registration helper
	if pg := c.MustFunc("C43.R1", "mtproto", "Conn.pong"); pg != nil {
		ups := mapUpdatesOf(pg, "p:c.ping")
		ok := len(ups) == 1
		if ok {
			mk, isMk := engine.Unwrap(ups[0].Value).(*ssa.MakeChan)
			ok = isMk && engine.Describe(ups[0].Key) == "p:pingID"
			if ok {
				if k, isK := engine.ConstInt(mk.Size); !isK || k != 0 {
					ok = false
				}
				for _, r := range engine.Returns(pg) {
					if engine.Unwrap(engine.RetVal(r, 0)) != ssa.Value(mk) {
						ok = false
					}
				}
			}
		}
		n1++
		c.Check(ok, "C43.R1", "pong/registers-fresh-channel-under-id", pg.Pos(), "the helper must store a fresh unbuffered channel under its id parameter and return that channel")
	}
	c.Floor("C43.R1", 7, n1)

	// ---- R2
	n2 := 0
	for _, name := range []string{"Conn.Ping", "Conn.pingDelayDisconnect"} {
		fn := c.MustFunc("C43.R2", "mtproto", name)
		if fn == nil {
			continue
		}
		var reg *ssa.Call
		for _, call := range engine.CallsTo(fn, false, "(*mtproto.Conn).pong") {
			reg, _ = call.(*ssa.Call)
		}
		var write ssa.CallInstruction
		for _, call := range engine.CallsTo(fn, false, "(*mtproto.Conn).writeServiceMessage") {
			write = call
		}
		if reg == nil || write == nil {
			c.Fail("C43.R2", name+"/shape", fn.Pos(), "registration (c.pong) or request write not found")
			continue
		}
		n2++
		id := engine.Args(reg.Common())[1]
		reqID := engine.StructFieldValue(engine.Args(write.Common())[2], "PingID")
		c.Check(reqID != nil && engine.Unwrap(reqID) == engine.Unwrap(id), "C43.R2", name+"/registers-request-id", reg.Pos(), "the id waited for must be the id sent in the request (%s vs %s)", engine.Describe(id), engine.Describe(reqID))
		c.Check(engine.Dominates(reg, write), "C43.R2", name+"/registers-before-write", reg.Pos(), "the pong channel must be registered before the ping is written (a fast pong would be lost)")
		rm := false
		for _, d := range defersOf(fn) {
			if engine.CalleeID(d.Common()) == "(*mtproto.Conn).removePong" && engine.Unwrap(engine.Args(d.Common())[1]) == engine.Unwrap(id) && coversExits(d, write) {
				rm = true
			}
		}
		c.Check(rm, "C43.R2", name+"/registration-removed", reg.Pos(), "the registration must be removed on every exit (deferred removePong with the same id)")
		n2 += c43Wait(c, name, fn, reg, "p:ctx")
		// the wait may be a helper of the package called in tail position with this
		// ping's channel and the caller's context (return awaitPong(ctx, pong)): the
		// same two rules then apply inside the helper, over its parameters
		for _, r := range engine.Returns(fn) {
			hc := engine.CallOf(engine.RetVal(r, 0))
			if hc == nil {
				continue
			}
			h := hc.Common().StaticCallee()
			if h == nil || len(h.Blocks) == 0 || h.Pkg != fn.Pkg {
				continue
			}
			var chP, ctxP *ssa.Parameter
			for k, a := range engine.Args(hc.Common()) {
				if k >= len(h.Params) {
					break
				}
				if engine.Unwrap(a) == ssa.Value(reg) {
					chP = h.Params[k]
				}
				if engine.Describe(a) == "p:ctx" {
					ctxP = h.Params[k]
				}
			}
			if chP == nil || ctxP == nil {
				continue
			}
			n2 += c43Wait(c, name+"/"+h.Name(), h, chP, "p:"+engine.ParamName(ctxP))
		}
	}
	c.Floor("C43.R2", 6, n2)

	// ---- R3
	n3 := 0
	if pl := c.MustFunc("C43.R3", "mtproto", "Conn.pingLoop"); pl != nil {
		// (the ping may be sent from a closure of pingLoop or from a method it calls)
		for _, f := range withHelpers(pl, 1) {
			for _, call := range engine.CallsTo(f, false, "(*mtproto.Conn).pingDelayDisconnect", "(*mtproto.Conn).Ping") {
				n3++
				ok, d := false, engine.Describe(call.Common().Args[1])
				if wt := engine.CallOf(call.Common().Args[1]); wt != nil && engine.CalleeID(wt.Common()) == "context.WithTimeout" {
					ok = descCell(wt.Common().Args[1]) == "p:c.pingTimeout"
				}
				c.Check(ok, "C43.R3", "pingLoop/ping-under-timeout", call.Pos(), "each keep-alive ping must run under context.WithTimeout(ctx, c.pingTimeout); its context is %s", d)
				// disconnect delay announced = interval + timeout
				if len(call.Common().Args) > 2 {
					delay := call.Common().Args[2]
					// a parameter of the sending method: judged at its call(s) in pingLoop
					vals := []ssa.Value{delay}
					if _, isP := engine.Unwrap(delay).(*ssa.Parameter); isP && f.Parent() == nil && f != pl {
						vals = nil
						for _, site := range staticCallsOf(pl, f) {
							if a := argOfParam(delay, site); a != nil {
								vals = append(vals, a)
							}
						}
					}
					okD, dd := len(vals) > 0, ""
					for _, v := range vals {
						dd = descCell(v)
						okD = okD && strings.Contains(dd, "(p:c.pingInterval + p:c.pingTimeout)")
					}
					c.Check(okD, "C43.R3", "pingLoop/disconnect-delay", call.Pos(), "disconnect_delay must be pingInterval + pingTimeout (is %s)", dd)
				}
			}
		}
		// failure ends the loop with an error
		for _, call := range engine.Calls(pl) {
			g := closureOf(call.Common().Value)
			if g == nil || len(engine.CallsTo(g, false, "(*mtproto.Conn).pingDelayDisconnect", "(*mtproto.Conn).Ping")) == 0 {
				continue
			}
			cc, isCall := call.(*ssa.Call)
			if !isCall {
				continue
			}
			n3++
			// closure returns the ping's error unchanged
			pass := true
			for _, r := range engine.Returns(g) {
				if pc := engine.CallOf(engine.RetVal(r, 0)); pc == nil || !strings.Contains(engine.CalleeID(pc.Common()), "ping") && !strings.Contains(engine.CalleeID(pc.Common()), "Ping") {
					pass = false
				}
			}
			edges := engine.EdgesWhere(pl, func(k engine.Cmp) bool {
				return engine.Unwrap(k.X) == ssa.Value(cc) && engine.IsNil(k.Y) && k.Op.String() == "!="
			})
			rej := len(edges) == 1
			for e := range edges {
				iff := e[0].Instrs[len(e[0].Instrs)-1].(*ssa.If)
				rej = rej && engine.RejectEdge(iff, e[0].Succs[0] == e[1])
				// and the loop is left: the failed-ping edge must not lead back to the wait
				for _, sel := range selectsOf(pl) {
					if (engine.PathQuery{Fn: pl, FromBlk: e[1]}).Reaches(sel) {
						rej = false
					}
				}
			}
			c.Check(pass && rej, "C43.R3", "pingLoop/failed-ping-ends-loop-with-error", call.Pos(), "a failed (timed-out) ping must make pingLoop return a non-nil error on every path")
		}
		for _, call := range engine.CallsTo(pl, false, "(clock.Clock).Ticker") {
			n3++
			c.Check(engine.Describe(engine.Args(call.Common())[1]) == "p:c.pingInterval", "C43.R3", "pingLoop/ticker-interval", call.Pos(), "keep-alive pings tick with c.pingInterval")
		}
	}
	if run := c.MustFunc("C43.R3", "mtproto", "Conn.Run"); run != nil {
		started := false
		for _, f := range engine.WithAnon(run) {
			engine.Instrs(f, func(i ssa.Instruction) {
				if mc, ok := i.(*ssa.MakeClosure); ok && strings.Contains(mc.Fn.Name(), "pingLoop") {
					started = true
				}
			})
		}
		n3++
		c.Check(started, "C43.R3", "Run/starts-pingLoop", run.Pos(), "Conn.Run must start the keep-alive loop")
	}
	c.Floor("C43.R3", 4, n3)
	// R4: the ping timeout of R3 reaches the wire only if the write path hands
	// its caller's context on: in Conn.write (and the two thin wrappers) the
	// context given to the transport's Send / to write is the function's own
	// ctx parameter, possibly narrowed (WithTimeout/WithDeadline/WithCancel),
	// never detached (WithoutCancel, Background, TODO).
	n4 := 0
	for _, name := range []string{"Conn.write", "Conn.writeServiceMessage", "Conn.writeContentMessage", "Conn.Ping"} {
		fn := c.Func("mtproto", name)
		if fn == nil {
			continue
		}
		var ctxParam *ssa.Parameter
		for _, p := range fn.Params {
			if p.Type().String() == "context.Context" {
				ctxParam = p
			}
		}
		if ctxParam == nil {
			continue
		}
		for _, call := range engine.Calls(fn) {
			id := engine.CalleeID(call.Common())
			isSend := call.Common().IsInvoke() && call.Common().Method.Name() == "Send"
			isWrite := id == "(*mtproto.Conn).write" || id == "(*mtproto.Conn).writeServiceMessage"
			if !isSend && !isWrite {
				continue
			}
			var arg ssa.Value
			for _, a := range call.Common().Args {
				if a.Type().String() == "context.Context" {
					arg = a
					break
				}
			}
			if arg == nil {
				continue
			}
			n4++
			ok := false
			v := arg
			for d := 0; d < 6; d++ {
				if engine.Unwrap(v) == ssa.Value(ctxParam) {
					ok = true
					break
				}
				cl := engine.CallOf(v)
				if cl == nil {
					break
				}
				switch engine.CalleeID(cl.Common()) {
				case "context.WithTimeout", "context.WithDeadline", "context.WithCancel", "context.WithValue", "context.WithCancelCause", "context.WithTimeoutCause":
					v = cl.Common().Args[0]
				default:
					d = 99
				}
			}
			c.Check(ok, "C43.R4", name+"/forwards-caller-context#"+ordinalCall(fn, call), call.Pos(), "the context handed to %s must be the caller's context (possibly narrowed): a detached context lets a stalled send outlive the ping timeout, so a missed pong no longer ends the connection (is %s)", engine.Short(id), engine.Describe(arg))
		}
	}
	c.Floor("C43.R4", 3, n4)
}
