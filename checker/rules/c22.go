package rules

import (
	"go/token"
	"strings"

	"golang.org/x/tools/go/ssa"

	"tdverif/checker/engine"
)

// C22 — containers, RPC results and gzip framing round-trip with bounded expansion.
func init() {
	register("C22", []string{"proto", "bin"}, func(c *engine.Ctx) {
		c.Explain("C22: (R1) proto.Message, MessageContainer, Result, UnencryptedMessage and GZIP: encoder and decoder perform the same wire operations (kind, constructor id, field, loop placement) in the same order; (R2) every allocation in these decoders is bounded on a dominating reject branch: Message.Decode/Encode 0..1 MiB, UnencryptedMessage.Decode 0..remaining buffer; (R3) GZIP.Decode reads through io.LimitReader(r, K) and rejects when the counted total reaches the same K = 10 MiB before returning nil; (R4) safe subset: no unproven slice/index, no explicit panic, no single-result type assertion in these decoders.")
		c.NotCover("payload byte equality; container nesting depth; the gzip library")
		n := wirePairs(c, "C22.R1", "proto", []codecPair{
			{"Message", "Encode", "Decode"},
			{"MessageContainer", "Encode", "Decode"},
			{"Result", "Encode", "Decode"},
			{"UnencryptedMessage", "Encode", "Decode"},
			{"GZIP", "Encode", "Decode"},
		})
		c.Floor("C22.R1", 5, n)
		c22R2(c)
		c22R3(c)
		c22R4(c)
		c22R5(c)
	})
}

// c22R5: every message decoded from a container owns its body. Either
// Message.Decode gives each call a fresh Body (what it stores to m.Body does
// not derive from the receiver's previous Body), or the container loop gives
// each element a fresh Message (the variable decoded into is allocated inside
// the loop). Both at once failing makes all elements share one backing array:
// a later, shorter body overwrites the earlier ones (and C23: a result is
// delivered to the wrong request).
func c22R5(c *engine.Ctx) { c22R5As(c, "C22.R5") }

func c22R5As(c *engine.Ctx, rule string) {
	md := c.MustFunc(rule, "proto", "Message.Decode")
	cd := c.MustFunc(rule, "proto", "MessageContainer.Decode")
	if md == nil || cd == nil {
		return
	}
	reuse := false
	stores := 0
	for _, st := range fieldStores(md, "p:m.Body") {
		stores++
		engine.WalkBack(st.Val, func(v ssa.Value) bool {
			if ld, ok := v.(*ssa.UnOp); ok && ld.Op == token.MUL && engine.Describe(ld) == "p:m.Body" {
				reuse = true
			}
			return true
		})
	}
	hoisted, calls := false, 0
	for _, call := range engine.Calls(cd) {
		if call.Common().StaticCallee() != md {
			continue
		}
		calls++
		recv := engine.Unwrap(engine.Args(call.Common())[0])
		al, isA := recv.(*ssa.Alloc)
		if !isA {
			hoisted = true // decoded into something that outlives the iteration
			continue
		}
		if engine.InCycle(call) && !engine.InCycle(al) {
			hoisted = true
		}
	}
	c.Check(stores > 0 && calls > 0 && !(reuse && hoisted), rule, "MessageContainer.Decode/each-message-owns-its-body", cd.Pos(), "Message.Decode reuses the receiver's Body (%v) and the container loop decodes every element into one Message variable (%v): all decoded messages would share one backing array", reuse, hoisted)
	c.Floor(rule, 1, calls)
}

func c22R2(c *engine.Ctx) {
	iv := engine.NewBounds().IV
	const mib = 1024 * 1024
	var decIv, encIv *engine.Interval
	defer func() {
		// sibling agreement: the set of lengths the decoder accepts must be the set the encoder writes
		if decIv != nil && encIv != nil {
			c.Check(*decIv == *encIv, "C22.R2", "Message/encode-decode-accept-same-lengths", 0, "Message.Encode writes body lengths %s but Message.Decode accepts %s: a length only one side accepts breaks the round trip at that boundary", *encIv, *decIv)
		}
	}()
	if fn := c.MustFunc("C22.R2", "proto", "Message.Decode"); fn != nil {
		n := 0
		engine.Instrs(fn, func(i ssa.Instruction) {
			if ms, ok := i.(*ssa.MakeSlice); ok {
				n++
				l := iv.At(ms.Len, ms)
				decIv = &l
				c.Check(l.Lo >= 0 && l.Hi <= mib, "C22.R2", "Message.Decode/alloc#"+ordinal(fn, ms), ms.Pos(), "body allocation size ∈ %s must be within [0, 1 MiB] (length comes from the wire)", l)
			}
		})
		c.Floor("C22.R2/Message.Decode", 1, n)
	}
	if fn := c.MustFunc("C22.R2", "proto", "Message.Encode"); fn != nil {
		for _, r := range engine.SuccessReturns(fn) {
			var bytesField ssa.Value
			engine.Instrs(fn, func(i ssa.Instruction) {
				if u, ok := i.(*ssa.UnOp); ok && u.Op == token.MUL && engine.Describe(u) == "p:m.Bytes" && bytesField == nil {
					bytesField = u
				}
			})
			if bytesField == nil {
				c.Undecided("C22.R2", "Message.Encode/bytes", r.Pos(), "no read of m.Bytes found")
				continue
			}
			l := iv.At(bytesField, r)
			encIv = &l
			c.Check(l.Lo >= 0 && l.Hi <= mib, "C22.R2", "Message.Encode/length-bound", r.Pos(), "encoded length field ∈ %s must be within [0, 1 MiB], matching the decoder", l)
		}
	}
	if fn := c.MustFunc("C22.R2", "proto", "UnencryptedMessage.Decode"); fn != nil {
		n := 0
		engine.Instrs(fn, func(i ssa.Instruction) {
			ms, ok := i.(*ssa.MakeSlice)
			if !ok {
				return
			}
			n++
			l := iv.At(ms.Len, ms)
			okUpper := engine.GuardedBy(ms, func(k engine.Cmp) bool {
				// dataLen <= b.Len()
				if k.Op != token.LEQ && k.Op != token.LSS {
					return false
				}
				return engine.Describe(engine.Unwrap(k.X)) == engine.Describe(engine.Unwrap(ms.Len)) && (strings.Contains(engine.Describe(k.Y), ".Len(") || strings.Contains(engine.Describe(k.Y), "builtin.len("))
			})
			c.Check(l.Lo >= 0 && okUpper, "C22.R2", "UnencryptedMessage.Decode/alloc#"+ordinal(fn, ms), ms.Pos(), "payload allocation size ∈ %s must be ≥ 0 and bounded by the remaining buffer on a reject branch (bounded=%v)", l, okUpper)
		})
		c.Floor("C22.R2/UnencryptedMessage.Decode", 1, n)
	}
}

func c22R3(c *engine.Ctx) {
	fn := c.MustFunc("C22.R3", "proto", "GZIP.Decode")
	if fn == nil {
		return
	}
	var limit int64 = -1
	var lr *ssa.Call
	for _, call := range engine.CallsTo(fn, false, "io.LimitReader") {
		if k, ok := engine.ConstInt(call.Common().Args[1]); ok {
			limit = k
			lr, _ = call.(*ssa.Call)
		}
	}
	c.Check(limit == 10*1024*1024, "C22.R3", "GZIP.Decode/limit-reader", fn.Pos(), "decompression must read through io.LimitReader with the 10 MiB bound (got %d)", limit)
	// the data is read from a reader wrapping that LimitReader
	okRead := false
	var reader ssa.Value
	for _, call := range engine.CallsTo(fn, false, "io.ReadAll") {
		if lr != nil && engine.DependsOn(call.Common().Args[0], lr) {
			okRead = true
			reader = call.Common().Args[0]
		}
	}
	// the limit reader wraps the gzip reader of the payload
	okSrc := lr != nil && len(engine.FindCallBack(lr.Common().Args[0], "(*proto.gzipPool).GetReader")) > 0
	c.Check(okRead && okSrc, "C22.R3", "GZIP.Decode/read-through-limit", fn.Pos(), "g.Data must be read only through the limited reader of the gzip stream")
	n := 0
	for _, r := range engine.SuccessReturns(fn) {
		n++
		ok := engine.GuardedBy(r, func(k engine.Cmp) bool {
			call := engine.CallOf(k.X)
			cst, isK := engine.ConstInt(k.Y)
			if call == nil || !isK || !strings.HasSuffix(engine.CalleeID(call.Common()), ".Total") {
				return false
			}
			sameReader := reader != nil && engine.DependsOn(reader, engine.Args(call.Common())[0]) || engine.Describe(engine.Args(call.Common())[0]) == engine.Describe(engine.Unwrap(reader))
			return k.Op == token.LSS && cst == limit && sameReader
		})
		c.Check(ok, "C22.R3", "GZIP.Decode/bomb-rejected", r.Pos(), "success must be guarded by total < the same bound as the LimitReader (a stream that reaches the limit is a decompression bomb)")
	}
	c.Floor("C22.R3", 1, n)
	// countReader counts what it returns
	if cr := c.MustFunc("C22.R3", "proto", "countReader.Read"); cr != nil {
		ok := false
		for _, call := range engine.CallsTo(cr, false, "sync/atomic.AddInt64") {
			if strings.HasSuffix(engine.Describe(call.Common().Args[0]), ".read") && strings.Contains(engine.Describe(call.Common().Args[1]), ".Read(") {
				ok = true
			}
		}
		c.Check(ok, "C22.R3", "countReader/counts-bytes-read", cr.Pos(), "the counting reader must add the number of bytes each Read returned")
	}
}

func c22R4(c *engine.Ctx) {
	bd := engine.NewBounds()
	n := 0
	for _, name := range []string{"Message.Decode", "MessageContainer.Decode", "Result.Decode", "UnencryptedMessage.Decode", "GZIP.Decode"} {
		fn := c.MustFunc("C22.R4", "proto", name)
		if fn == nil {
			continue
		}
		n++
		issues, pres, sites := bd.CheckFuncPre(fn)
		bad := 0
		for _, is := range issues {
			bad++
			c.Fail("C22.R4", name+"/"+is.What+"#"+ordinal(fn, is.Instr), is.Instr.Pos(), "%s", is.Detail)
		}
		_ = pres
		for _, f := range engine.WithAnon(fn) {
			engine.Instrs(f, func(i ssa.Instruction) {
				switch x := i.(type) {
				case *ssa.Panic:
					bad++
					c.Fail("C22.R4", name+"/panic#"+ordinal(f, x), x.Pos(), "explicit panic in a decoder of untrusted bytes")
				case *ssa.TypeAssert:
					if !x.CommaOk {
						// pool.Get().(*T) on objects the package itself put in the pool is allowed
						if !strings.Contains(engine.Describe(x.X), "(*sync.Pool).Get(") {
							bad++
							c.Fail("C22.R4", name+"/type-assert#"+ordinal(f, x), x.Pos(), "single-result type assertion %s can panic", engine.Describe(x))
						}
					}
				}
			})
		}
		if bad == 0 {
			c.Pass("C22.R4", name+"/safe-subset", fn.Pos(), "%d slice/index sites proven; no panic or unchecked assertion", sites)
		}
	}
	c.Floor("C22.R4", 5, n)
}
