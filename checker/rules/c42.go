package rules

import (
	"go/token"
	"go/types"
	"strings"

	"golang.org/x/tools/go/ssa"

	"tdverif/checker/engine"
)

// C42 — racing dials return one connection and close the rest.
func init() {
	register("C42", []string{"telegram/dcs"}, func(c *engine.Ctx) {
		c.Explain("C42: (R1) the results channel of plain.connect is unbuffered, so a dial result is either taken by connect or still in the hands of its goroutine. (R2, pairing) in the dial goroutine every path after dialTransport either sends {conn, err} of that very call on results or — when its context ended — closes the connection unless it is nil; nothing else happens to the connection. (R3) every dial goroutine is started with the cancellable context derived from connect's ctx, one goroutine per address, and the cancel function is deferred before the first goroutine starts, so every exit of connect releases the losers. (R4) connect returns a non-nil connection on exactly one return, whose value is the conn field of a received result under err == nil; the remaining counter starts at len(addresses), decreases by one per received result, and the all-failed return (remain == 0) carries the accumulated multierr; the caller-cancel return carries ctx.Err(). (R5) dialTransport closes the raw connection on every error return after a successful dial (deferred close guarded by the named error result, armed right after the dial).")
		c.NotCover("the runtime's select fairness; what Close does; late successes are covered only through R2's close-on-cancel path")
		c42(c)
	})
}

func c42(c *engine.Ctx) {
	cn := c.MustFunc("C42.R1", "telegram/dcs", "plain.connect")
	dt := c.MustFunc("C42.R5", "telegram/dcs", "plain.dialTransport")
	if cn == nil || dt == nil {
		return
	}
	// the dial goroutine: closure of connect that calls dialTransport
	var try *ssa.Function
	for _, f := range engine.WithAnon(cn) {
		if f != cn && len(engine.CallsTo(f, false, "(telegram/dcs.plain).dialTransport")) > 0 {
			try = f
		}
	}
	if try == nil {
		c.Undecided("C42.R2", "connect/dial-goroutine", cn.Pos(), "no closure of connect calls dialTransport")
		return
	}
	c.SawFunc(try)
	var dial *ssa.Call
	for _, call := range engine.CallsTo(try, false, "(telegram/dcs.plain).dialTransport") {
		dial, _ = call.(*ssa.Call)
	}
	isDialRes := func(v ssa.Value, idx int) bool {
		ex, ok := engine.Unwrap(v).(*ssa.Extract)
		return ok && ex.Tuple == ssa.Value(dial) && ex.Index == idx
	}
	// ---- R2 + R1
	var sendSel *ssa.Select
	var resultsCell ssa.Value
	for _, sel := range selectsOf(try) {
		for _, st := range sel.States {
			if st.Dir == types.SendOnly {
				sendSel = sel
				resultsCell = cell(st.Chan)
			}
		}
	}
	n2 := 0
	if sendSel == nil || !sendSel.Blocking {
		c.Fail("C42.R2", "dial-goroutine/select", try.Pos(), "the dial goroutine must hand its result over in a blocking select with a send on results")
	} else {
		n2++
		c.Check(engine.Dominates(dial, sendSel), "C42.R2", "dial-goroutine/select-after-dial", sendSel.Pos(), "every path after dialTransport must reach the hand-over select")
		var ctxBody *ssa.BasicBlock
		for i, st := range sendSel.States {
			if st.Dir == types.SendOnly {
				cv := engine.StructFieldValue(st.Send, "conn")
				ev := engine.StructFieldValue(st.Send, "err")
				c.Check(cv != nil && ev != nil && isDialRes(cv, 0) && isDialRes(ev, 1), "C42.R2", "dial-goroutine/sends-own-result", sendSel.Pos(), "the value sent must be {conn, err} of this goroutine's dialTransport call")
			} else {
				// the watched context must be the goroutine's own context parameter (the one
				// connect binds to the cancellable dial context, R3) — not a captured outer one
				own := false
				if dc := engine.CallOf(engine.Unwrap(st.Chan)); dc != nil && engine.CalleeID(dc.Common()) == "(context.Context).Done" && len(try.Params) > 0 {
					own = engine.Unwrap(engine.Args(dc.Common())[0]) == ssa.Value(try.Params[0])
				}
				dialOwn := len(try.Params) > 0 && engine.Unwrap(engine.Args(dial.Common())[1]) == ssa.Value(try.Params[0])
				if own && dialOwn {
					ctxBody = engine.SelectCases(sendSel)[i].Body
				} else if isDoneOf(st.Chan, "p:ctx") {
					c.Fail("C42.R2", "dial-goroutine/watches-own-context", sendSel.Pos(), "the hand-over select and the dial must use the goroutine's own context parameter (watches %s, dials with %s): a loser whose watched context is never cancelled blocks forever with an open connection", engine.Describe(st.Chan), engine.Describe(engine.Args(dial.Common())[1]))
				} else {
					c.Fail("C42.R2", "dial-goroutine/select/other-case", sendSel.Pos(), "unexpected receive case on %s", engine.Describe(st.Chan))
				}
			}
		}
		if ctxBody == nil {
			c.Fail("C42.R2", "dial-goroutine/context-case", sendSel.Pos(), "the hand-over select must also watch the goroutine's context (a loser would block forever)")
		} else {
			n2++
			// the context must be the goroutine's parameter, which connect binds to dialCtx (R3)
			// closing may be delegated to a helper of the package that is handed the
			// connection and closes it on every path on which it is not nil
			viaHelper := false
			isClose := func(i ssa.Instruction) bool {
				ci, ok := i.(ssa.CallInstruction)
				if !ok {
					return false
				}
				if ci.Common().IsInvoke() && ci.Common().Method.Name() == "Close" && isDialRes(ci.Common().Value, 0) {
					return true
				}
				if h := ci.Common().StaticCallee(); h != nil && len(h.Blocks) > 0 && h.Pkg == try.Pkg {
					for k, a := range engine.Args(ci.Common()) {
						if k < len(h.Params) && isDialRes(a, 0) && closesNonNil(h, h.Params[k]) {
							viaHelper = true
							return true
						}
					}
				}
				return false
			}
			nilEdges := engine.EdgesWhere(try, func(k engine.Cmp) bool {
				return isDialRes(k.X, 0) && engine.IsNil(k.Y) && k.Op == token.EQL
			})
			leak := false
			for _, r := range exits(try) {
				if (engine.PathQuery{Fn: try, FromBlk: ctxBody, Cut: nilEdges, Barrier: isClose}).Reaches(r) {
					leak = true
				}
			}
			c.Check(!leak && (len(nilEdges) >= 1 || viaHelper), "C42.R2", "dial-goroutine/closes-on-cancel", sendSel.Pos(), "when its context ended, the goroutine must close a non-nil connection on every path (a late success would leak)")
		}
	}
	// results channel: made unbuffered in connect
	n1 := 0
	if a, ok := resultsCell.(*ssa.Alloc); ok {
		for _, st := range storesTo(cn, a) {
			if mk, isMk := engine.Unwrap(st.Val).(*ssa.MakeChan); isMk {
				n1++
				k, isK := engine.ConstInt(mk.Size)
				c.Check(isK && k == 0, "C42.R1", "connect/results-unbuffered", mk.Pos(), "results must be unbuffered: a buffered result could be left in the channel after connect returned, its connection never closed")
			}
		}
	} else if mk, ok := engine.Unwrap(resultsCell).(*ssa.MakeChan); ok {
		n1++
		k, isK := engine.ConstInt(mk.Size)
		c.Check(isK && k == 0, "C42.R1", "connect/results-unbuffered", mk.Pos(), "results must be unbuffered")
	}
	c.Floor("C42.R1", 1, n1)
	c.Floor("C42.R2", 2, n2)

	// ---- R3
	n3 := 0
	var wc *ssa.Call
	for _, call := range engine.CallsTo(cn, false, "context.WithCancel") {
		if engine.Describe(call.Common().Args[0]) == "p:ctx" {
			wc, _ = call.(*ssa.Call)
		}
	}
	var gos []*ssa.Go
	engine.Instrs(cn, func(i ssa.Instruction) {
		if g, ok := i.(*ssa.Go); ok && closureOf(g.Call.Value) == try {
			gos = append(gos, g)
		}
	})
	for _, g := range gos {
		n3++
		a0 := g.Call.Args[0]
		ex, ok := engine.Unwrap(a0).(*ssa.Extract)
		c.Check(wc != nil && ok && ex.Tuple == ssa.Value(wc) && ex.Index == 0, "C42.R3", "connect/go#"+ordinal(cn, g)+"/cancellable-context", g.Pos(), "dial goroutines must run on the context that connect cancels on return (is %s)", engine.Describe(a0))
		// one goroutine per address: started in a range loop over dcOptions with the element as argument
		c.Check(engine.InCycle(g) && strings.HasPrefix(engine.Describe(g.Call.Args[1]), "p:dcOptions["), "C42.R3", "connect/go#"+ordinal(cn, g)+"/one-per-address", g.Pos(), "one dial per element of dcOptions")
		armed := false
		for _, d := range defersOf(cn) {
			if v, isE := engine.Unwrap(d.Call.Value).(*ssa.Extract); isE && wc != nil && v.Tuple == ssa.Value(wc) && v.Index == 1 && engine.Dominates(d, g) {
				armed = true
			}
		}
		c.Check(armed, "C42.R3", "connect/go#"+ordinal(cn, g)+"/cancel-deferred-first", g.Pos(), "the cancel function must be deferred before a dial goroutine starts: every exit of connect must release the losers")
	}
	c.Floor("C42.R3", 1, n3)

	// ---- R4
	n4 := 0
	var recvSel *ssa.Select
	for _, sel := range selectsOf(cn) {
		for _, sc := range engine.SelectCases(sel) {
			if !sc.Send && cell(sc.Chan) == resultsCell {
				recvSel = sel
			}
		}
	}
	if recvSel == nil {
		c.Fail("C42.R4", "connect/receive", cn.Pos(), "connect never receives from results")
		return
	}
	isGot := func(v ssa.Value, field string) bool {
		var base ssa.Value
		name := ""
		switch f := engine.Unwrap(v).(type) {
		case *ssa.Field:
			base, name = f.X, fieldNameOfField(f)
		case *ssa.UnOp:
			fa, isFA := f.X.(*ssa.FieldAddr)
			if f.Op != token.MUL || !isFA {
				return false
			}
			name = engine.FieldNameOf(fa)
			// local copy of the received struct: exactly one store of the received value
			a, isA := fa.X.(*ssa.Alloc)
			if !isA {
				return false
			}
			var stored []ssa.Value
			for _, st := range storesTo(a.Parent(), a) {
				stored = append(stored, st.Val)
			}
			if len(stored) != 1 {
				return false
			}
			base = stored[0]
		default:
			return false
		}
		ex, isE := engine.Unwrap(base).(*ssa.Extract)
		return isE && ex.Tuple == ssa.Value(recvSel) && ex.Index >= 2 && name == field
	}
	succ := 0
	for _, r := range engine.Returns(cn) {
		if !engine.PathExists(recvSel, r) && !engine.Dominates(recvSel, r) {
			continue // the 0/1-address shortcuts
		}
		v := engine.RetVal(r, 0)
		e := engine.RetVal(r, 1)
		key := "connect/return#" + ordinal(cn, r)
		switch {
		case !engine.IsNil(v):
			succ++
			n4++
			okv := isGot(v, "conn") && engine.IsNil(e) && engine.GuardedBy(r, func(k engine.Cmp) bool {
				return isGot(k.X, "err") && engine.IsNil(k.Y) && k.Op == token.EQL
			})
			c.Check(okv, "C42.R4", key+"/first-success", r.Pos(), "the returned connection must be the conn of a received result whose err is nil (returns %s)", engine.Describe(v))
		case strings.Contains(engine.Describe(e), "(context.Context).Err(p:ctx)"):
			n4++
			inCtx := false
			for _, sc := range engine.SelectCases(recvSel) {
				if !sc.Send && isDoneOf(sc.Chan, "p:ctx") && sc.Body != nil && (sc.Body == r.Block() || sc.Body.Dominates(r.Block())) {
					inCtx = true
				}
			}
			c.Check(inCtx, "C42.R4", key+"/caller-cancel", r.Pos(), "ctx.Err() is returned only from the caller-context case")
		default:
			n4++
			// all failed: guarded by remain == 0, value is the multierr accumulator
			okAll := strings.Contains(engine.Describe(e), "multierr.Append") && engine.GuardedBy(r, func(k engine.Cmp) bool {
				z, isK := engine.ConstInt(k.Y)
				return isK && z == 0 && k.Op == token.EQL && strings.Contains(engine.Describe(k.X), "builtin.len(p:dcOptions)")
			})
			c.Check(okAll, "C42.R4", key+"/all-failed", r.Pos(), "the failure return must be taken only when the remaining counter (started at len(dcOptions), minus one per result) reached 0, and must carry the accumulated errors (returns %s)", engine.Describe(e))
		}
	}
	c.Check(succ == 1, "C42.R4", "connect/one-success-return", cn.Pos(), "exactly one return of the fan-in hands out a connection (found %d)", succ)
	// counter: phi(len(dcOptions), prev-1), decremented once per received result
	{
		okCnt := false
		engine.Instrs(cn, func(i ssa.Instruction) {
			b, ok := i.(*ssa.BinOp)
			if !ok || b.Op != token.SUB {
				return
			}
			if k, isK := engine.ConstInt(b.Y); !isK || k != 1 {
				return
			}
			phi, isPhi := b.X.(*ssa.Phi)
			if !isPhi {
				return
			}
			init, back := false, false
			for _, e := range phi.Edges {
				if call := engine.CallOf(e); call != nil && engine.CalleeID(call.Common()) == "builtin.len" && engine.Describe(call.Common().Args[0]) == "p:dcOptions" {
					init = true
				}
				if e == ssa.Value(b) {
					back = true
				}
			}
			// decremented in the results case only
			inCase := false
			for _, sc := range engine.SelectCases(recvSel) {
				if !sc.Send && cell(sc.Chan) == resultsCell && sc.Body != nil && (sc.Body == b.Block() || sc.Body.Dominates(b.Block())) {
					inCase = true
				}
			}
			if init && back && inCase {
				okCnt = true
			}
		})
		n4++
		c.Check(okCnt, "C42.R4", "connect/remaining-counter", recvSel.Pos(), "the remaining counter must start at len(dcOptions) and decrease by one per received result")
	}
	c.Floor("C42.R4", 4, n4)

	// ---- R5 dialTransport closes on error
	n5 := 0
	var rawDial *ssa.Call
	for _, call := range engine.Calls(dt) {
		cc := call.Common()
		if cc.StaticCallee() == nil && !cc.IsInvoke() && strings.HasSuffix(engine.Describe(cc.Value), ".dial") {
			rawDial, _ = call.(*ssa.Call)
		}
	}
	if rawDial == nil {
		c.Fail("C42.R5", "dialTransport/dial", dt.Pos(), "the raw dial call is not recognised")
		return
	}
	var closer *ssa.Defer
	for _, d := range defersOf(dt) {
		g := closureOf(d.Call.Value)
		if g == nil {
			continue
		}
		for _, call := range engine.Calls(g) {
			cc := call.Common()
			if !cc.IsInvoke() || cc.Method.Name() != "Close" {
				continue
			}
			// guarded by the named error result being non-nil
			if engine.GuardedBy(call, func(k engine.Cmp) bool {
				return k.Op == token.NEQ && engine.IsNil(k.Y) && strings.Contains(descCell(k.X), "rerr")
			}) {
				closer = d
			}
		}
	}
	c.Check(closer != nil, "C42.R5", "dialTransport/deferred-close-on-error", dt.Pos(), "dialTransport must defer a close of the raw connection guarded by its error result")
	if closer != nil {
		for _, r := range engine.Returns(dt) {
			if !engine.PathExists(rawDial, r) {
				continue
			}
			// returns on the dial-error edge have no connection to close
			if engine.GuardedBy(r, func(k engine.Cmp) bool {
				ex, ok := engine.Unwrap(k.X).(*ssa.Extract)
				return ok && ex.Tuple == ssa.Value(rawDial) && ex.Index == 1 && engine.IsNil(k.Y) && k.Op == token.NEQ
			}) {
				continue
			}
			n5++
			c.Check(engine.Dominates(closer, r), "C42.R5", "dialTransport/return#"+ordinal(dt, r)+"/covered-by-close", r.Pos(), "every return after a successful dial must be covered by the deferred close-on-error")
		}
	}
	c.Floor("C42.R5", 3, n5)
}

func fieldNameOfField(f *ssa.Field) string {
	st, ok := f.X.Type().Underlying().(*types.Struct)
	if !ok || f.Field >= st.NumFields() {
		return ""
	}
	return st.Field(f.Field).Name()
}
