package rules

import (
	"go/token"
	"strings"

	"golang.org/x/tools/go/ssa"

	"tdverif/checker/engine"
)

// C11 — exchange answer decryption reports every hash mismatch as an error.
func init() {
	register("C11", []string{"crypto"}, func(c *engine.Ctx) {
		c.Explain("C11: (R1) every success return of crypto.DecryptExchangeAnswer returns the value produced by GuessDataWithHash and is guarded by a non-nil/non-empty test on that same value; (R2) GuessDataWithHash returns a non-nil slice only under bytes.Equal(sha1(returned data), input prefix); (R3) the block-size guard dominates ige.DecryptBlocks.")
		c.NotCover("AES-IGE and SHA-1 themselves; value-level equality of the returned data")
		c11R1(c)
		c11R2(c)
		c11R3(c)
	})
}

// nonEmptyGuard: cmp states v != nil, len(v) != 0, len(v) > 0, len(v) >= 1.
func nonEmptyGuard(cmp engine.Cmp, same func(ssa.Value) bool) bool {
	for _, k := range []engine.Cmp{cmp, cmp.Swap()} {
		if k.Op == token.NEQ && same(k.X) && engine.IsNil(k.Y) {
			return true
		}
		if call, ok := engine.Unwrap(k.X).(*ssa.Call); ok && engine.CalleeID(call.Common()) == "builtin.len" && same(call.Common().Args[0]) {
			n, isc := engine.ConstInt(k.Y)
			if isc && ((k.Op == token.NEQ && n == 0) || (k.Op == token.GTR && n >= 0) || (k.Op == token.GEQ && n >= 1)) {
				return true
			}
		}
	}
	return false
}

func c11R1(c *engine.Ctx) {
	fn := c.MustFunc("C11.R1", "crypto", "DecryptExchangeAnswer")
	if fn == nil {
		return
	}
	n := 0
	for _, r := range engine.SuccessReturns(fn) {
		n++
		key := "DecryptExchangeAnswer/success-return"
		leaves := engine.Leaves(r.Results[0])
		allGuess := len(leaves) > 0
		for _, l := range leaves {
			call := engine.CallOf(l)
			if call == nil || engine.CalleeID(call.Common()) != "crypto.GuessDataWithHash" {
				allGuess = false
			}
		}
		if !allGuess {
			c.Fail("C11.R1", key, r.Pos(), "success return yields %s, which is not the result of GuessDataWithHash", engine.Describe(r.Results[0]))
			continue
		}
		ok := true
		for _, l := range leaves {
			l := l
			same := func(v ssa.Value) bool { return engine.Unwrap(v) == engine.Unwrap(l) }
			if !engine.GuardedBy(r, func(k engine.Cmp) bool { return nonEmptyGuard(k, same) }) {
				ok = false
			}
		}
		if !ok {
			var tested []string
			for _, g := range engine.Guards(r) {
				tested = append(tested, g.Cmp().String())
			}
			c.Fail("C11.R1", key, r.Pos(), "success return of the GuessDataWithHash result is not guarded by a nil/empty test on that value (guards on the path: %s)", strings.Join(tested, "; "))
		} else {
			c.Pass("C11.R1", key, r.Pos(), "returned value originates from GuessDataWithHash and is tested non-nil on the path")
		}
	}
	c.Floor("C11.R1", 1, n)
}

func c11R2(c *engine.Ctx) {
	fn := c.MustFunc("C11.R2", "crypto", "GuessDataWithHash")
	if fn == nil {
		return
	}
	n := 0
	for _, r := range engine.Returns(fn) {
		if engine.IsNil(r.Results[0]) {
			continue
		}
		n++
		ret := engine.Unwrap(r.Results[0])
		ok := engine.GuardedBy(r, func(k engine.Cmp) bool {
			if k.Op != token.EQL {
				return false
			}
			hashOfRet, prefix := false, false
			for _, a := range []ssa.Value{k.X, k.Y} {
				sums := engine.FindCallBack(a, "crypto/sha1.Sum")
				if len(sums) == 1 && engine.Unwrap(sums[0].Common().Args[0]) == ret {
					hashOfRet = true
				} else if sl, ok := engine.Unwrap(a).(*ssa.Slice); ok && sl.X == fn.Params[0] && sl.Low == nil {
					if n, ok := engine.ConstInt(sl.High); ok && n == 20 {
						prefix = true
					}
				}
			}
			return hashOfRet && prefix
		})
		c.Check(ok, "C11.R2", "GuessDataWithHash/non-nil-return", r.Pos(),
			"non-nil return must be guarded by bytes.Equal(sha1.Sum(returned), input[:20]) == true")
	}
	c.Floor("C11.R2", 1, n)
}

func c11R3(c *engine.Ctx) {
	fn := c.MustFunc("C11.R3", "crypto", "DecryptExchangeAnswer")
	if fn == nil {
		return
	}
	// in the function or in a helper of the package it calls (the guard is looked
	// for next to the call, in the same function)
	calls := callsToWithHelpers(fn, 2, "github.com/gotd/ige.DecryptBlocks")
	for _, call := range calls {
		args := call.Common().Args
		ok := engine.GuardedBy(call, func(k engine.Cmp) bool {
			rem, isr := engine.Unwrap(k.X).(*ssa.BinOp)
			z, isz := engine.ConstInt(k.Y)
			if !isr || rem.Op != token.REM || !isz || z != 0 || k.Op != token.EQL {
				return false
			}
			lc := engine.CallOf(rem.X)
			if lc == nil || engine.CalleeID(lc.Common()) != "builtin.len" {
				return false
			}
			d := engine.Describe(lc.Common().Args[0])
			// length of dst or src of DecryptBlocks (dst is make([]byte, len(src)))
			return d == engine.Describe(args[2]) || d == engine.Describe(args[3])
		})
		c.Check(ok, "C11.R3", "DecryptExchangeAnswer/DecryptBlocks", call.Pos(),
			"ige.DecryptBlocks (panics on a partial block) must be guarded by len(buf) %% blockSize == 0")
	}
	c.Floor("C11.R3", 1, len(calls))
	// R4: a mismatch must come back as an error, not as a panic: every slice
	// expression on the guessing path has proven bounds (the candidate
	// data_with_hash[20 : len-i] shrinks below the hash for short inputs)
	bd := engine.NewBounds()
	sites := 0
	for _, name := range []string{"GuessDataWithHash", "DecryptExchangeAnswer"} {
		f := c.MustFunc("C11.R4", "crypto", name)
		if f == nil {
			continue
		}
		issues, n := bd.CheckFunc(f)
		for _, h := range withHelpers(f, 2) {
			if h == f || h.Name() == "GuessDataWithHash" {
				continue
			}
			hi, hn := bd.CheckFunc(h)
			n += hn
			for _, is := range hi {
				c.Fail("C11.R4", name+"/"+h.Name()+"/"+is.What+"#"+ordinal(h, is.Instr), is.Instr.Pos(), "%s", is.Detail)
			}
		}
		sites += n
		for _, is := range issues {
			c.Fail("C11.R4", name+"/"+is.What+"#"+ordinal(f, is.Instr), is.Instr.Pos(), "%s", is.Detail)
		}
		if len(issues) == 0 {
			c.Pass("C11.R4", name+"/bounds", f.Pos(), "%d slice/index sites with proven bounds", n)
		}
	}
	c.Floor("C11.R4", 2, sites)
}
