package rules

import (
	"fmt"
	"go/ast"
	"go/constant"
	"go/token"
	"go/types"
	"sort"
	"strconv"
	"strings"

	"golang.org/x/tools/go/packages"

	"tdverif/checker/engine"
)

// C21 — every generated TL type round-trips and decodes arbitrary bytes safely.
//
// The rules work on the type-checked syntax of the generated packages: the
// generated code is a small, closed language (gen/_template/encode.tmpl,
// decode.tmpl, set_flags.tmpl), and every statement form of it is recognised
// here; anything else is reported as UNDECIDED, never skipped.
func init() {
	register("C21", []string{"tg", "mt", "tg/e2e"}, func(c *engine.Ctx) {
		c.Explain("C21, over every type with EncodeBare/DecodeBare in tg, mt, tg/e2e (thorough: also gen/example): (R1, wire language) the sequence of wire operations written by EncodeBare equals the sequence read by DecodeBare — same fields in the same order, same primitive (PutX ↔ X), boxed vs bare nested object (Encode ↔ Decode / DecodeX(b), EncodeBare ↔ DecodeBare), boxed vs bare vector header (PutVectorHeader ↔ VectorHeader, PutInt(len) ↔ Int), same element form, and every conditional block guarded by the same Flags-field.Has(n) on both sides; vector loops have the canonical counting form. (R2, flags) SetFlags sets bit n of the same flags field exactly for the fields the encoder/decoder guard with Has(n) (conditional-bool fields: the decoder assigns Has(n)); EncodeBare calls SetFlags before writing. (R3, identity) Encode writes PutID(C) and Decode consumes the same constant C, C is the constant TypeID() returns, the registry maps C to this type's name entry and to a constructor of this type, and every DecodeX interface function has, for every implementer of the class in the package, an arm `case <its TypeID constant>` that decodes a value of that type, plus a default that returns an error. (R4, safe subset) decoder bodies contain no index/slice expression, no type assertion, no panic, no division other than the preallocation remainder, and call only buffer decode methods, generated Decode*/DecodeBare, Flags.Has, fmt.Errorf, append, make; every receiver is nil-checked first. (R5) every make in a decoder has length 0 and capacity n %% bin.PreallocateLimit under n > 0.")
		c.NotCover("value equality of floats/NaN; recursion depth of nested objects; JSON/TDLib codecs; TypeInfo")
		c21(c)
	})
}

type wItem struct {
	Kind  string // prim | obj | vec | cond | condbool
	Field string
	Prim  string
	Boxed bool // obj: boxed (Encode/Decode/DecodeX) vs bare; vec: boxed header
	Elem  *wItem
	Flag  string
	Bit   int64
	Body  []wItem
}

func (w wItem) String() string {
	switch w.Kind {
	case "prim":
		return w.Field + ":" + w.Prim
	case "obj":
		if w.Boxed {
			return w.Field + ":obj"
		}
		return w.Field + ":bareobj"
	case "vec":
		h := "vector"
		if !w.Boxed {
			h = "barevector"
		}
		e := "?"
		if w.Elem != nil {
			e = strings.TrimPrefix(w.Elem.String(), ":")
		}
		return w.Field + ":" + h + "<" + e + ">"
	case "cond":
		var b []string
		for _, x := range w.Body {
			b = append(b, x.String())
		}
		return fmt.Sprintf("if %s.%d{%s}", w.Flag, w.Bit, strings.Join(b, " "))
	case "condbool":
		return fmt.Sprintf("%s=%s.%d", w.Field, w.Flag, w.Bit)
	}
	return "?"
}

func itemsString(ws []wItem, skipCondBool bool) string {
	var out []string
	for _, w := range ws {
		if skipCondBool && w.Kind == "condbool" {
			continue
		}
		out = append(out, w.String())
	}
	return strings.Join(out, " ")
}

type genCtx struct {
	c    *engine.Ctx
	pkg  *packages.Package
	rel  string
	recv string // receiver identifier of the current method
	buf  string // buffer parameter identifier
	errs []string
}

func (g *genCtx) bad(n ast.Node, f string, a ...any) {
	pos := g.pkg.Fset.Position(n.Pos())
	g.errs = append(g.errs, fmt.Sprintf("line %d: %s", pos.Line, fmt.Sprintf(f, a...)))
}

// selField returns F for an expression recv.F (or recv.F.G → "F.G" is not used by the generator).
func (g *genCtx) selField(e ast.Expr) (string, bool) {
	s, ok := e.(*ast.SelectorExpr)
	if !ok {
		return "", false
	}
	id, ok := s.X.(*ast.Ident)
	if !ok || id.Name != g.recv {
		return "", false
	}
	return s.Sel.Name, true
}

// bufCall matches buf.M(args) and returns M and the arguments.
func (g *genCtx) bufCall(e ast.Expr) (string, []ast.Expr, bool) {
	call, ok := e.(*ast.CallExpr)
	if !ok {
		return "", nil, false
	}
	s, ok := call.Fun.(*ast.SelectorExpr)
	if !ok {
		return "", nil, false
	}
	id, ok := s.X.(*ast.Ident)
	if !ok || id.Name != g.buf {
		return "", nil, false
	}
	// must really be *bin.Buffer
	if tv, ok := g.pkg.TypesInfo.Types[s.X]; !ok || !strings.HasSuffix(tv.Type.String(), "bin.Buffer") {
		return "", nil, false
	}
	return s.Sel.Name, call.Args, true
}

// hasCall matches recv.Flags.Has(n).
func (g *genCtx) hasCall(e ast.Expr) (flag string, bit int64, ok bool) {
	call, isC := e.(*ast.CallExpr)
	if !isC || len(call.Args) != 1 {
		return "", 0, false
	}
	s, isS := call.Fun.(*ast.SelectorExpr)
	if !isS || s.Sel.Name != "Has" {
		return "", 0, false
	}
	f, isF := g.selField(s.X)
	if !isF {
		return "", 0, false
	}
	tv, okT := g.pkg.TypesInfo.Types[call.Args[0]]
	if !okT || tv.Value == nil {
		return "", 0, false
	}
	v, exact := constant.Int64Val(tv.Value)
	if !exact {
		return "", 0, false
	}
	if tt, okF := g.pkg.TypesInfo.Types[s.X]; !okF || !strings.HasSuffix(tt.Type.String(), "bin.Fields") {
		return "", 0, false
	}
	return f, v, true
}

func isErrNotNil(e ast.Expr) bool {
	b, ok := e.(*ast.BinaryExpr)
	if !ok || b.Op != token.NEQ {
		return false
	}
	x, ok1 := b.X.(*ast.Ident)
	y, ok2 := b.Y.(*ast.Ident)
	return ok1 && ok2 && x.Name == "err" && y.Name == "nil"
}

// isNilCheckReturn matches `if X == nil { return fmt.Errorf(...) }`.
func isNilCheckReturn(s ast.Stmt) (ast.Expr, bool) {
	iff, ok := s.(*ast.IfStmt)
	if !ok || iff.Init != nil || iff.Else != nil {
		return nil, false
	}
	b, ok := iff.Cond.(*ast.BinaryExpr)
	if !ok || b.Op != token.EQL {
		return nil, false
	}
	if y, isI := b.Y.(*ast.Ident); !isI || y.Name != "nil" {
		return nil, false
	}
	if len(iff.Body.List) != 1 {
		return nil, false
	}
	if _, isR := iff.Body.List[0].(*ast.ReturnStmt); !isR {
		return nil, false
	}
	return b.X, true
}

// errReturnBody matches `{ return [nil,] fmt.Errorf(...) }` / `{ return err }`.
func errReturnBody(b *ast.BlockStmt) bool {
	if len(b.List) != 1 {
		return false
	}
	_, ok := b.List[0].(*ast.ReturnStmt)
	return ok
}

// methodOn matches `if err := X.M(buf); err != nil { return ... }` and returns X and M.
func (g *genCtx) encDecIf(s ast.Stmt) (x ast.Expr, method string, ok bool) {
	iff, isIf := s.(*ast.IfStmt)
	if !isIf || iff.Init == nil || iff.Else != nil || !isErrNotNil(iff.Cond) || !errReturnBody(iff.Body) {
		return nil, "", false
	}
	as, isA := iff.Init.(*ast.AssignStmt)
	if !isA || len(as.Lhs) != 1 || len(as.Rhs) != 1 || as.Tok != token.DEFINE {
		return nil, "", false
	}
	call, isC := as.Rhs[0].(*ast.CallExpr)
	if !isC || len(call.Args) != 1 {
		return nil, "", false
	}
	if a, isI := call.Args[0].(*ast.Ident); !isI || a.Name != g.buf {
		return nil, "", false
	}
	sel, isS := call.Fun.(*ast.SelectorExpr)
	if !isS {
		return nil, "", false
	}
	return sel.X, sel.Sel.Name, true
}

// ---------------------------------------------------------------------------
// encoder

func (g *genCtx) encElem(stmts []ast.Stmt, v string) *wItem {
	// element statements inside `for _, v := range ...`
	var rest []ast.Stmt
	for _, s := range stmts {
		if x, ok := isNilCheckReturn(s); ok {
			if id, isI := x.(*ast.Ident); isI && id.Name == v {
				continue
			}
		}
		rest = append(rest, s)
	}
	if len(rest) == 1 {
		if x, m, ok := g.encDecIf(rest[0]); ok {
			if id, isI := x.(*ast.Ident); isI && id.Name == v && (m == "Encode" || m == "EncodeBare") {
				return &wItem{Kind: "obj", Boxed: m == "Encode"}
			}
		}
		if es, ok := rest[0].(*ast.ExprStmt); ok {
			if m, args, isB := g.bufCall(es.X); isB && strings.HasPrefix(m, "Put") && len(args) == 1 {
				if id, isI := args[0].(*ast.Ident); isI && id.Name == v {
					return &wItem{Kind: "prim", Prim: strings.TrimPrefix(m, "Put")}
				}
			}
		}
	}
	if len(rest) == 2 {
		// double vector: buf.PutVectorHeader(len(row)); for _, v := range row {...}
		if es, ok := rest[0].(*ast.ExprStmt); ok {
			if m, args, isB := g.bufCall(es.X); isB && (m == "PutVectorHeader" || m == "PutInt") && len(args) == 1 {
				if rs, isR := rest[1].(*ast.RangeStmt); isR {
					if rid, isI := rs.X.(*ast.Ident); isI && rid.Name == v && lenOf(args[0]) == v {
						vv, _ := rs.Value.(*ast.Ident)
						if vv != nil {
							if e := g.encElem(rs.Body.List, vv.Name); e != nil {
								return &wItem{Kind: "vec", Boxed: m == "PutVectorHeader", Elem: e}
							}
						}
					}
				}
			}
		}
	}
	return nil
}

// lenOf returns the printed operand of len(x) for identifiers and recv.F.
func lenOf(e ast.Expr) string {
	call, ok := e.(*ast.CallExpr)
	if !ok || len(call.Args) != 1 {
		return ""
	}
	if id, isI := call.Fun.(*ast.Ident); !isI || id.Name != "len" {
		return ""
	}
	switch x := call.Args[0].(type) {
	case *ast.Ident:
		return x.Name
	case *ast.SelectorExpr:
		if id, ok := x.X.(*ast.Ident); ok {
			return id.Name + "." + x.Sel.Name
		}
	}
	return ""
}

func (g *genCtx) encItems(stmts []ast.Stmt) []wItem {
	var out []wItem
	for i := 0; i < len(stmts); i++ {
		s := stmts[i]
		// receiver / interface-field nil checks
		if x, ok := isNilCheckReturn(s); ok {
			if id, isI := x.(*ast.Ident); isI && id.Name == g.recv {
				continue
			}
			if _, isF := g.selField(x); isF {
				continue
			}
		}
		if rs, ok := s.(*ast.ReturnStmt); ok {
			if len(rs.Results) == 1 {
				if id, isI := rs.Results[0].(*ast.Ident); isI && id.Name == "nil" && i == len(stmts)-1 {
					continue
				}
			}
			g.bad(s, "unexpected return in encoder")
			continue
		}
		if es, ok := s.(*ast.ExprStmt); ok {
			// recv.SetFlags()
			if call, isC := es.X.(*ast.CallExpr); isC {
				if sel, isS := call.Fun.(*ast.SelectorExpr); isS && sel.Sel.Name == "SetFlags" {
					if id, isI := sel.X.(*ast.Ident); isI && id.Name == g.recv {
						out = append(out, wItem{Kind: "setflags"})
						continue
					}
				}
			}
			if m, args, isB := g.bufCall(es.X); isB && strings.HasPrefix(m, "Put") && len(args) == 1 {
				// vector header?
				if l := lenOf(args[0]); l != "" && strings.HasPrefix(l, g.recv+".") && (m == "PutVectorHeader" || m == "PutInt") && i+1 < len(stmts) {
					if rs, isR := stmts[i+1].(*ast.RangeStmt); isR {
						f, isF := g.selField(rs.X)
						vv, _ := rs.Value.(*ast.Ident)
						if isF && g.recv+"."+f == l && vv != nil {
							if e := g.encElem(rs.Body.List, vv.Name); e != nil {
								out = append(out, wItem{Kind: "vec", Field: f, Boxed: m == "PutVectorHeader", Elem: e})
								i++
								continue
							}
						}
					}
					g.bad(s, "vector header not followed by a recognised element loop")
					continue
				}
				if f, isF := g.selField(args[0]); isF {
					out = append(out, wItem{Kind: "prim", Field: f, Prim: strings.TrimPrefix(m, "Put")})
					continue
				}
			}
			g.bad(s, "unrecognised encoder statement")
			continue
		}
		if x, m, ok := g.encDecIf(s); ok && (m == "Encode" || m == "EncodeBare") {
			if f, isF := g.selField(x); isF {
				out = append(out, wItem{Kind: "obj", Field: f, Boxed: m == "Encode"})
				continue
			}
		}
		if iff, ok := s.(*ast.IfStmt); ok && iff.Init == nil && iff.Else == nil {
			if fl, bit, isH := g.hasCall(iff.Cond); isH {
				out = append(out, wItem{Kind: "cond", Flag: fl, Bit: bit, Body: g.encItems(iff.Body.List)})
				continue
			}
		}
		g.bad(s, "unrecognised encoder statement")
	}
	return out
}

// ---------------------------------------------------------------------------
// decoder

// readAssign matches `value, err := <call>` and returns the call.
func readAssign(s ast.Stmt, lhs0 string) (*ast.CallExpr, bool) {
	as, ok := s.(*ast.AssignStmt)
	if !ok || as.Tok != token.DEFINE || len(as.Lhs) != 2 || len(as.Rhs) != 1 {
		return nil, false
	}
	a, ok1 := as.Lhs[0].(*ast.Ident)
	b, ok2 := as.Lhs[1].(*ast.Ident)
	if !ok1 || !ok2 || a.Name != lhs0 || b.Name != "err" {
		return nil, false
	}
	call, ok := as.Rhs[0].(*ast.CallExpr)
	return call, ok
}

func isErrCheck(s ast.Stmt) bool {
	iff, ok := s.(*ast.IfStmt)
	return ok && iff.Init == nil && iff.Else == nil && isErrNotNil(iff.Cond) && errReturnBody(iff.Body)
}

// decodeFuncCall matches DecodeX(buf) (a package-level generated interface decoder).
func (g *genCtx) decodeFuncCall(call *ast.CallExpr) bool {
	id, ok := call.Fun.(*ast.Ident)
	if !ok || !strings.HasPrefix(id.Name, "Decode") || len(call.Args) != 1 {
		return false
	}
	a, ok := call.Args[0].(*ast.Ident)
	if !ok || a.Name != g.buf {
		return false
	}
	_, isFn := g.pkg.TypesInfo.Uses[id].(*types.Func)
	return isFn
}

// decValue parses the statements that produce `value` (one element or one scalar field):
// returns the item (without Field) and the number of statements consumed.
func (g *genCtx) decValue(stmts []ast.Stmt) (*wItem, int) {
	if len(stmts) >= 2 {
		if call, ok := readAssign(stmts[0], "value"); ok && isErrCheck(stmts[1]) {
			if m, args, isB := g.bufCall(call); isB && len(args) == 0 {
				return &wItem{Kind: "prim", Prim: m}, 2
			}
			if g.decodeFuncCall(call) {
				return &wItem{Kind: "obj", Boxed: true}, 2
			}
		}
		// var value T; if err := value.Decode(buf); err != nil {...}
		if ds, ok := stmts[0].(*ast.DeclStmt); ok {
			if gd, isG := ds.Decl.(*ast.GenDecl); isG && gd.Tok == token.VAR && len(gd.Specs) == 1 {
				if vs, isV := gd.Specs[0].(*ast.ValueSpec); isV && len(vs.Names) == 1 && vs.Names[0].Name == "value" {
					if x, m, okE := g.encDecIf(stmts[1]); okE && (m == "Decode" || m == "DecodeBare") {
						if id, isI := x.(*ast.Ident); isI && id.Name == "value" {
							return &wItem{Kind: "obj", Boxed: m == "Decode"}, 2
						}
					}
				}
			}
		}
	}
	return nil, 0
}

// countingLoop checks `for i := 0; i < n; i++` and returns the body.
func countingLoop(s ast.Stmt, n string) (*ast.BlockStmt, string, bool) {
	fs, ok := s.(*ast.ForStmt)
	if !ok || fs.Init == nil || fs.Cond == nil || fs.Post == nil {
		return nil, "", false
	}
	as, ok := fs.Init.(*ast.AssignStmt)
	if !ok || as.Tok != token.DEFINE || len(as.Lhs) != 1 || len(as.Rhs) != 1 {
		return nil, "", false
	}
	iv, ok := as.Lhs[0].(*ast.Ident)
	if !ok {
		return nil, "", false
	}
	if lit, isL := as.Rhs[0].(*ast.BasicLit); !isL || lit.Value != "0" {
		return nil, "", false
	}
	cond, ok := fs.Cond.(*ast.BinaryExpr)
	if !ok || cond.Op != token.LSS {
		return nil, "", false
	}
	cx, ok1 := cond.X.(*ast.Ident)
	cy, ok2 := cond.Y.(*ast.Ident)
	if !ok1 || !ok2 || cx.Name != iv.Name || cy.Name != n {
		return nil, "", false
	}
	inc, ok := fs.Post.(*ast.IncDecStmt)
	if !ok || inc.Tok != token.INC {
		return nil, "", false
	}
	if px, isI := inc.X.(*ast.Ident); !isI || px.Name != iv.Name {
		return nil, iv.Name, false
	}
	return fs.Body, iv.Name, true
}

// prealloc matches `if n > 0 { target = make(T, 0, n % bin.PreallocateLimit) }`.
func (g *genCtx) prealloc(s ast.Stmt, n string) (target ast.Expr, ok bool) {
	iff, isIf := s.(*ast.IfStmt)
	if !isIf || iff.Init != nil || iff.Else != nil || len(iff.Body.List) != 1 {
		return nil, false
	}
	cond, isB := iff.Cond.(*ast.BinaryExpr)
	if !isB || cond.Op != token.GTR {
		return nil, false
	}
	if x, isI := cond.X.(*ast.Ident); !isI || x.Name != n {
		return nil, false
	}
	if lit, isL := cond.Y.(*ast.BasicLit); !isL || lit.Value != "0" {
		return nil, false
	}
	as, isA := iff.Body.List[0].(*ast.AssignStmt)
	if !isA || as.Tok != token.ASSIGN || len(as.Lhs) != 1 || len(as.Rhs) != 1 {
		return nil, false
	}
	call, isC := as.Rhs[0].(*ast.CallExpr)
	if !isC || len(call.Args) != 3 {
		return nil, false
	}
	if id, isI := call.Fun.(*ast.Ident); !isI || id.Name != "make" {
		return nil, false
	}
	if lit, isL := call.Args[1].(*ast.BasicLit); !isL || lit.Value != "0" {
		return nil, false
	}
	if !g.capOK(call.Args[2], n) {
		return nil, false
	}
	return as.Lhs[0], true
}

// capOK: n % bin.PreallocateLimit.
func (g *genCtx) capOK(e ast.Expr, n string) bool {
	b, ok := e.(*ast.BinaryExpr)
	if !ok || b.Op != token.REM {
		return false
	}
	if x, isI := b.X.(*ast.Ident); !isI || x.Name != n {
		return false
	}
	sel, ok := b.Y.(*ast.SelectorExpr)
	if !ok || sel.Sel.Name != "PreallocateLimit" {
		return false
	}
	obj := g.pkg.TypesInfo.Uses[sel.Sel]
	return obj != nil && obj.Pkg() != nil && strings.HasSuffix(obj.Pkg().Path(), "/td/bin")
}

// decVector parses a vector read whose element target is `target` (recv.F or row).
func (g *genCtx) decVector(stmts []ast.Stmt, lenVar string, assignTo func(ast.Expr) bool) (*wItem, bool) {
	if len(stmts) < 3 {
		return nil, false
	}
	call, ok := readAssign(stmts[0], lenVar)
	if !ok || !isErrCheck(stmts[1]) {
		return nil, false
	}
	m, args, isB := g.bufCall(call)
	if !isB || len(args) != 0 || (m != "VectorHeader" && m != "Int") {
		return nil, false
	}
	i := 2
	if tgt, okP := g.prealloc(stmts[i], lenVar); okP {
		if !assignTo(tgt) {
			g.bad(stmts[i], "preallocation assigns another target than the decoded field")
			return nil, false
		}
		i++
	} else if _, isIf := stmts[i].(*ast.IfStmt); isIf {
		g.bad(stmts[i], "vector preallocation is not `if n > 0 { f = make(T, 0, n %% bin.PreallocateLimit) }`")
		return nil, false
	}
	if i != len(stmts)-1 {
		return nil, false
	}
	body, _, okL := countingLoop(stmts[i], lenVar)
	if !okL {
		g.bad(stmts[i], "vector loop is not `for i := 0; i < %s; i++`", lenVar)
		return nil, false
	}
	bl := body.List
	if len(bl) == 0 {
		return nil, false
	}
	// last statement: target = append(target, value|row)
	last, isA := bl[len(bl)-1].(*ast.AssignStmt)
	if !isA || last.Tok != token.ASSIGN || len(last.Lhs) != 1 || len(last.Rhs) != 1 || !assignTo(last.Lhs[0]) {
		return nil, false
	}
	ap, isC := last.Rhs[0].(*ast.CallExpr)
	if !isC || len(ap.Args) != 2 {
		return nil, false
	}
	if id, isI := ap.Fun.(*ast.Ident); !isI || id.Name != "append" || !assignTo(ap.Args[0]) {
		return nil, false
	}
	appended, _ := ap.Args[1].(*ast.Ident)
	if appended == nil {
		return nil, false
	}
	inner := bl[:len(bl)-1]
	if appended.Name == "value" {
		e, n := g.decValue(inner)
		if e == nil || n != len(inner) {
			return nil, false
		}
		return &wItem{Kind: "vec", Boxed: m == "VectorHeader", Elem: e}, true
	}
	if appended.Name == "row" {
		// innerLen, err := ...; errcheck; var row []T; prealloc; loop
		if len(inner) < 4 {
			return nil, false
		}
		var rest []ast.Stmt
		rest = append(rest, inner[0], inner[1])
		if ds, ok := inner[2].(*ast.DeclStmt); !ok || ds == nil {
			return nil, false
		}
		rest = append(rest, inner[3:]...)
		e, okV := g.decVector(rest, "innerLen", func(x ast.Expr) bool {
			id, isI := x.(*ast.Ident)
			return isI && id.Name == "row"
		})
		if !okV {
			return nil, false
		}
		return &wItem{Kind: "vec", Boxed: m == "VectorHeader", Elem: e}, true
	}
	return nil, false
}

func (g *genCtx) decField(stmts []ast.Stmt) *wItem {
	// nested object in place
	if len(stmts) == 1 {
		if x, m, ok := g.encDecIf(stmts[0]); ok && (m == "Decode" || m == "DecodeBare") {
			if f, isF := g.selField(x); isF {
				return &wItem{Kind: "obj", Field: f, Boxed: m == "Decode"}
			}
		}
	}
	// scalar / interface
	if e, n := g.decValue(stmts); e != nil && n == len(stmts)-1 {
		if as, ok := stmts[n].(*ast.AssignStmt); ok && as.Tok == token.ASSIGN && len(as.Lhs) == 1 && len(as.Rhs) == 1 {
			if v, isI := as.Rhs[0].(*ast.Ident); isI && v.Name == "value" {
				if f, isF := g.selField(as.Lhs[0]); isF {
					e.Field = f
					return e
				}
			}
		}
	}
	// vector
	var field string
	it, ok := g.decVector(stmts, "headerLen", func(x ast.Expr) bool {
		f, isF := g.selField(x)
		if !isF {
			return false
		}
		if field == "" {
			field = f
		}
		return field == f
	})
	if ok {
		it.Field = field
		return it
	}
	return nil
}

func (g *genCtx) decItems(stmts []ast.Stmt) []wItem {
	var out []wItem
	for i, s := range stmts {
		if x, ok := isNilCheckReturn(s); ok {
			if id, isI := x.(*ast.Ident); isI && id.Name == g.recv {
				continue
			}
		}
		if rs, ok := s.(*ast.ReturnStmt); ok {
			if len(rs.Results) == 1 {
				if id, isI := rs.Results[0].(*ast.Ident); isI && id.Name == "nil" && i == len(stmts)-1 {
					continue
				}
			}
			g.bad(s, "unexpected return in decoder")
			continue
		}
		if as, ok := s.(*ast.AssignStmt); ok && as.Tok == token.ASSIGN && len(as.Lhs) == 1 && len(as.Rhs) == 1 {
			if f, isF := g.selField(as.Lhs[0]); isF {
				if fl, bit, isH := g.hasCall(as.Rhs[0]); isH {
					out = append(out, wItem{Kind: "condbool", Field: f, Flag: fl, Bit: bit})
					continue
				}
			}
		}
		if bs, ok := s.(*ast.BlockStmt); ok {
			if it := g.decField(bs.List); it != nil {
				out = append(out, *it)
				continue
			}
			g.bad(s, "unrecognised decoder block")
			continue
		}
		if iff, ok := s.(*ast.IfStmt); ok && iff.Init == nil && iff.Else == nil {
			if fl, bit, isH := g.hasCall(iff.Cond); isH {
				if it := g.decField(iff.Body.List); it != nil {
					out = append(out, wItem{Kind: "cond", Flag: fl, Bit: bit, Body: []wItem{*it}})
					continue
				}
				g.bad(s, "unrecognised conditional decoder block")
				continue
			}
		}
		g.bad(s, "unrecognised decoder statement")
	}
	return out
}

// ---------------------------------------------------------------------------

type genType struct {
	name                                   string
	enc, encBare, dec, decBare, setFlags   *ast.FuncDecl
	typeID, zero                           *ast.FuncDecl
	file                                   *ast.File
}

// c21Zero (R6): Zero() decides in SetFlags of the parent whether an optional nested
// object is written at all, so it must look at every field of the struct.
func c21Zero(c *engine.Ctx, p *packages.Package, key string, gt *genType) {
	if gt.zero == nil {
		return
	}
	obj := p.Types.Scope().Lookup(gt.name)
	if obj == nil {
		return
	}
	st, ok := obj.Type().Underlying().(*types.Struct)
	if !ok {
		return
	}
	_, recv := recvTypeName(gt.zero)
	seen := map[string]bool{}
	bad := ""
	body := gt.zero.Body.List
	for i, s := range body {
		if i == len(body)-1 {
			rs, isR := s.(*ast.ReturnStmt)
			if !isR || len(rs.Results) != 1 {
				bad = "last statement is not `return true`"
			} else if id, isI := rs.Results[0].(*ast.Ident); !isI || id.Name != "true" {
				bad = "last statement is not `return true`"
			}
			continue
		}
		iff, isIf := s.(*ast.IfStmt)
		if !isIf || iff.Init != nil || iff.Else != nil || len(iff.Body.List) != 1 {
			bad = "statement is not `if !(field is zero) { return false }`"
			continue
		}
		if i == 0 {
			if x, okN := isNilCheckReturn(s); okN {
				if id, isI := x.(*ast.Ident); isI && id.Name == recv {
					continue
				}
			}
		}
		un, isU := iff.Cond.(*ast.UnaryExpr)
		rs, isR := iff.Body.List[0].(*ast.ReturnStmt)
		if !isU || un.Op != token.NOT || !isR || len(rs.Results) != 1 {
			bad = "statement is not `if !(field is zero) { return false }`"
			continue
		}
		if id, isI := rs.Results[0].(*ast.Ident); !isI || id.Name != "false" {
			bad = "a non-zero field must make Zero() return false"
			continue
		}
		found := false
		ast.Inspect(un.X, func(n ast.Node) bool {
			if found {
				return false
			}
			if sel, isS := n.(*ast.SelectorExpr); isS {
				if id, isI := sel.X.(*ast.Ident); isI && id.Name == recv {
					seen[sel.Sel.Name] = true
					found = true
					return false
				}
			}
			return true
		})
	}
	var missing []string
	for i := 0; i < st.NumFields(); i++ {
		if !seen[st.Field(i).Name()] {
			missing = append(missing, st.Field(i).Name())
		}
	}
	c.Check(bad == "" && len(missing) == 0, "C21.R6", key+"/zero-covers-every-field", gt.zero.Pos(), "Zero() must test every field (the parent's SetFlags uses it to decide whether this object is written at all): fields not tested %v %s", missing, bad)
}

func recvTypeName(fd *ast.FuncDecl) (string, string) {
	if fd.Recv == nil || len(fd.Recv.List) != 1 {
		return "", ""
	}
	r := fd.Recv.List[0]
	name := ""
	if len(r.Names) == 1 {
		name = r.Names[0].Name
	}
	t := r.Type
	if st, ok := t.(*ast.StarExpr); ok {
		t = st.X
	}
	if id, ok := t.(*ast.Ident); ok {
		return id.Name, name
	}
	return "", name
}

func bufParam(fd *ast.FuncDecl) string {
	if fd.Type.Params == nil || len(fd.Type.Params.List) != 1 || len(fd.Type.Params.List[0].Names) != 1 {
		return ""
	}
	return fd.Type.Params.List[0].Names[0].Name
}

func c21(c *engine.Ctx) {
	rels := []string{"tg", "mt", "tg/e2e"}
	totTypes, totCond, totVec, totIface := 0, 0, 0, 0
	for _, rel := range rels {
		p := c.Pkgs[rel]
		if p == nil {
			c.Undecided("C21.R1", "package:"+rel, 0, "package not loaded")
			continue
		}
		t, cd, v, ifc := c21Package(c, rel, p)
		totTypes += t
		totCond += cd
		totVec += v
		totIface += ifc
	}
	c.Extra["types_compared"] = totTypes
	c.Extra["conditional_blocks"] = totCond
	c.Extra["vectors"] = totVec
	c.Extra["interface_decoders"] = totIface
	c.Floor("C21.R1", 2600, totTypes)
	c.Floor("C21.R2", 2600, totCond)
	c.Floor("C21.R3", 255, totIface)
	if c.Tier == "thorough" && c.Overlay == nil {
		// the generator's own example schema (double vectors, bare vectors of bare types)
		// and the remaining generated packages
		extra := []string{"gen/example", "tgtrace", "tdp/internal/schema"}
		if err := c.Load(extra...); err != nil {
			c.Undecided("C21.R1", "thorough/load-extra", 0, "cannot load %v: %v", extra, err)
			return
		}
		xt := 0
		for _, rel := range extra {
			t, _, _, _ := c21Package(c, rel, c.Pkgs[rel])
			xt += t
		}
		c.Extra["types_compared_extra_packages"] = xt
		c.Extra["configs"] = []string{"tg, mt, tg/e2e (quick)", "gen/example, tgtrace, tdp/internal/schema (thorough)"}
	}
}

func c21Package(c *engine.Ctx, rel string, p *packages.Package) (nTypes, nCond, nVec, nIface int) {
	typesBy := map[string]*genType{}
	var ifaceDecoders []*ast.FuncDecl
	fileOf := map[*ast.FuncDecl]*ast.File{}
	var registry *ast.File
	for _, f := range p.Syntax {
		fname := p.Fset.Position(f.Pos()).Filename
		if !strings.HasSuffix(fname, "_gen.go") {
			continue
		}
		if strings.HasSuffix(fname, "tl_registry_gen.go") {
			registry = f
		}
		for _, d := range f.Decls {
			fd, ok := d.(*ast.FuncDecl)
			if !ok || fd.Body == nil {
				continue
			}
			fileOf[fd] = f
			if fd.Recv == nil {
				if strings.HasPrefix(fd.Name.Name, "Decode") && fd.Type.Results != nil && len(fd.Type.Results.List) == 2 {
					ifaceDecoders = append(ifaceDecoders, fd)
				}
				continue
			}
			tn, _ := recvTypeName(fd)
			if tn == "" {
				continue
			}
			gt := typesBy[tn]
			if gt == nil {
				gt = &genType{name: tn, file: f}
				typesBy[tn] = gt
			}
			switch fd.Name.Name {
			case "Encode":
				gt.enc = fd
			case "EncodeBare":
				gt.encBare = fd
			case "Decode":
				gt.dec = fd
			case "DecodeBare":
				gt.decBare = fd
			case "SetFlags":
				gt.setFlags = fd
			case "TypeID":
				gt.typeID = fd
			case "Zero":
				gt.zero = fd
			}
		}
	}
	var names []string
	for n, gt := range typesBy {
		if gt.encBare != nil || gt.decBare != nil {
			names = append(names, n)
		}
	}
	sort.Strings(names)
	regNames, regCtors := registryMaps(p, registry)
	for _, n := range names {
		gt := typesBy[n]
		key := rel + "." + n
		pos := gt.file.Pos()
		if gt.encBare != nil {
			pos = gt.encBare.Pos()
		}
		if gt.encBare == nil || gt.decBare == nil {
			// box helpers (XBox) have only Encode/Decode; types with one bare side are a mismatch
			c.Fail("C21.R1", key+"/pair", pos, "type has only one of EncodeBare/DecodeBare")
			continue
		}
		nTypes++
		c.FuncsSeen["("+key+").EncodeBare"], c.FuncsSeen["("+key+").DecodeBare"] = true, true
		_, er := recvTypeName(gt.encBare)
		_, dr := recvTypeName(gt.decBare)
		ge := &genCtx{c: c, pkg: p, rel: rel, recv: er, buf: bufParam(gt.encBare)}
		gd := &genCtx{c: c, pkg: p, rel: rel, recv: dr, buf: bufParam(gt.decBare)}
		enc := ge.encItems(gt.encBare.Body.List)
		dec := gd.decItems(gt.decBare.Body.List)
		if len(ge.errs)+len(gd.errs) > 0 {
			c.Undecided("C21.R1", key+"/wire-language", pos, "statement form outside the generated language: %s", strings.Join(append(ge.errs, gd.errs...), "; "))
			c21Safe(c, p, key, gt.decBare)
			continue
		}
		// SetFlags call position
		hasSet := false
		var encW []wItem
		for i, w := range enc {
			if w.Kind == "setflags" {
				hasSet = true
				if i != 0 {
					c.Fail("C21.R2", key+"/setflags-first", pos, "SetFlags must be called before anything is written")
				}
				continue
			}
			encW = append(encW, w)
		}
		es, ds := itemsString(encW, false), itemsString(dec, true)
		if es != ds {
			c.Fail("C21.R1", key+"/wire-language", pos, "EncodeBare writes [%s] but DecodeBare reads [%s]", es, ds)
		} else {
			c.Pass("C21.R1", key+"/wire-language", pos, "[%s]", clip(es, 160))
		}
		// flags
		type fl struct {
			field, flag string
			bit         int64
		}
		var guards []fl
		var walk func(ws []wItem)
		walk = func(ws []wItem) {
			for _, w := range ws {
				switch w.Kind {
				case "cond":
					nCond++
					for _, b := range w.Body {
						guards = append(guards, fl{b.Field, w.Flag, w.Bit})
					}
				case "condbool":
					nCond++
					guards = append(guards, fl{w.Field, w.Flag, w.Bit})
				case "vec":
					nVec++
				}
			}
		}
		walk(dec)
		if len(guards) > 0 || gt.setFlags != nil || hasSet {
			sets, serr := setFlagsTable(p, gt.setFlags)
			var g1, g2 []string
			for _, g := range guards {
				g1 = append(g1, fmt.Sprintf("%s→%s.%d", g.field, g.flag, g.bit))
			}
			for _, s := range sets {
				g2 = append(g2, s)
			}
			sort.Strings(g1)
			sort.Strings(g2)
			switch {
			case serr != "":
				c.Undecided("C21.R2", key+"/flags", pos, "SetFlags outside the generated language: %s", serr)
			case !hasSet:
				c.Fail("C21.R2", key+"/flags", pos, "type has conditional fields but EncodeBare does not call SetFlags")
			case strings.Join(g1, ",") != strings.Join(g2, ","):
				c.Fail("C21.R2", key+"/flags", pos, "SetFlags sets {%s} but the codec guards {%s}", strings.Join(g2, ", "), strings.Join(g1, ", "))
			default:
				c.Pass("C21.R2", key+"/flags", pos, "%d flag bits agree", len(g1))
			}
		}
		// identity
		c21Identity(c, p, key, gt, regNames, regCtors)
		c21Zero(c, p, key, gt)
		// safe subset
		c21Safe(c, p, key, gt.decBare)
		if gt.dec != nil {
			c21Safe(c, p, key, gt.dec)
		}
	}
	// interface decoders
	for _, fd := range ifaceDecoders {
		if c21IfaceDecoder(c, p, rel, fd, typesBy) {
			nIface++
		}
	}
	return
}

func clip(s string, n int) string {
	if len(s) <= n {
		return s
	}
	return s[:n] + "…"
}

// setFlagsTable extracts "Field→Flags.n" entries from SetFlags.
func setFlagsTable(p *packages.Package, fd *ast.FuncDecl) ([]string, string) {
	if fd == nil {
		return nil, ""
	}
	_, recv := recvTypeName(fd)
	var out []string
	for _, s := range fd.Body.List {
		iff, ok := s.(*ast.IfStmt)
		if !ok || iff.Init != nil || iff.Else != nil || len(iff.Body.List) != 1 {
			return nil, "statement is not `if !(zero) { flags.Set(n) }`"
		}
		un, ok := iff.Cond.(*ast.UnaryExpr)
		if !ok || un.Op != token.NOT {
			return nil, "condition is not a negated zero test"
		}
		// first recv.F selector inside the condition
		field := ""
		ast.Inspect(un.X, func(n ast.Node) bool {
			if field != "" {
				return false
			}
			if sel, isS := n.(*ast.SelectorExpr); isS {
				if id, isI := sel.X.(*ast.Ident); isI && id.Name == recv {
					field = sel.Sel.Name
					return false
				}
			}
			return true
		})
		es, ok := iff.Body.List[0].(*ast.ExprStmt)
		if !ok {
			return nil, "body is not a Set call"
		}
		call, ok := es.X.(*ast.CallExpr)
		if !ok || len(call.Args) != 1 {
			return nil, "body is not a Set call"
		}
		sel, ok := call.Fun.(*ast.SelectorExpr)
		if !ok || sel.Sel.Name != "Set" {
			return nil, "body is not a Set call"
		}
		fs, ok := sel.X.(*ast.SelectorExpr)
		if !ok {
			return nil, "Set receiver is not a flags field"
		}
		if id, isI := fs.X.(*ast.Ident); !isI || id.Name != recv {
			return nil, "Set receiver is not a flags field of the receiver"
		}
		tv, okT := p.TypesInfo.Types[call.Args[0]]
		if !okT || tv.Value == nil || field == "" {
			return nil, "bit is not constant or tested field not found"
		}
		bit, _ := constant.Int64Val(tv.Value)
		out = append(out, fmt.Sprintf("%s→%s.%d", field, fs.Sel.Name, bit))
	}
	return out, ""
}

// registryMaps extracts const-object → name / constructor type from TypesMap and TypesConstructorMap.
func registryMaps(p *packages.Package, f *ast.File) (map[types.Object]string, map[types.Object]string) {
	names, ctors := map[types.Object]string{}, map[types.Object]string{}
	if f == nil {
		return names, ctors
	}
	for _, d := range f.Decls {
		fd, ok := d.(*ast.FuncDecl)
		if !ok || fd.Body == nil || (fd.Name.Name != "TypesMap" && fd.Name.Name != "TypesConstructorMap") {
			continue
		}
		ast.Inspect(fd.Body, func(n ast.Node) bool {
			kv, ok := n.(*ast.KeyValueExpr)
			if !ok {
				return true
			}
			id, ok := kv.Key.(*ast.Ident)
			if !ok {
				return true
			}
			obj := p.TypesInfo.Uses[id]
			if obj == nil {
				return true
			}
			if fd.Name.Name == "TypesMap" {
				if lit, isL := kv.Value.(*ast.BasicLit); isL {
					s, _ := strconv.Unquote(lit.Value)
					names[obj] = s
				}
			} else if fl, isF := kv.Value.(*ast.FuncLit); isF {
				// func() bin.Object { return &T{} }
				if len(fl.Body.List) == 1 {
					if rs, isR := fl.Body.List[0].(*ast.ReturnStmt); isR && len(rs.Results) == 1 {
						if un, isU := rs.Results[0].(*ast.UnaryExpr); isU && un.Op == token.AND {
							if cl, isC := un.X.(*ast.CompositeLit); isC {
								if tid, isI := cl.Type.(*ast.Ident); isI {
									ctors[obj] = tid.Name
								}
							}
						}
					}
				}
			}
			return true
		})
	}
	return names, ctors
}

func c21Identity(c *engine.Ctx, p *packages.Package, key string, gt *genType, regNames, regCtors map[types.Object]string) {
	if gt.enc == nil || gt.dec == nil {
		return
	}
	constOf := func(fd *ast.FuncDecl, method string) types.Object {
		var out types.Object
		ast.Inspect(fd.Body, func(n ast.Node) bool {
			call, ok := n.(*ast.CallExpr)
			if !ok || len(call.Args) != 1 {
				return true
			}
			sel, ok := call.Fun.(*ast.SelectorExpr)
			if !ok || sel.Sel.Name != method {
				return true
			}
			if id, isI := call.Args[0].(*ast.Ident); isI {
				out = p.TypesInfo.Uses[id]
			}
			return true
		})
		return out
	}
	ce, cd := constOf(gt.enc, "PutID"), constOf(gt.dec, "ConsumeID")
	if ce == nil && cd == nil {
		// vector pseudo-types have no id
		return
	}
	var ct types.Object
	if gt.typeID != nil {
		ast.Inspect(gt.typeID.Body, func(n ast.Node) bool {
			if rs, ok := n.(*ast.ReturnStmt); ok && len(rs.Results) == 1 {
				if id, isI := rs.Results[0].(*ast.Ident); isI {
					ct = p.TypesInfo.Uses[id]
				}
			}
			return true
		})
	}
	ok := ce != nil && ce == cd && ce == ct
	detail := ""
	if ok {
		if _, isConst := ce.(*types.Const); !isConst {
			ok = false
		}
	}
	if ok && len(regCtors) > 0 {
		if regCtors[ce] != gt.name {
			ok = false
			detail = fmt.Sprintf("; registry constructs %q for this id", regCtors[ce])
		}
		if nm := regNames[ce]; ok && !strings.Contains(nm, "#") {
			ok = false
			detail = "; registry has no name entry"
		} else if ok {
			// name entry carries the same id in hex
			v, _ := constant.Uint64Val(ce.(*types.Const).Val())
			if !strings.HasSuffix(nm, fmt.Sprintf("#%x", v)) {
				ok = false
				detail = fmt.Sprintf("; registry name %q does not carry id %x", nm, v)
			}
		}
	}
	nm := func(o types.Object) string {
		if o == nil {
			return "<none>"
		}
		return o.Name()
	}
	c.Check(ok, "C21.R3", key+"/type-id", gt.enc.Pos(), "Encode writes %s, Decode consumes %s, TypeID() returns %s%s", nm(ce), nm(cd), nm(ct), detail)
}

// c21Safe: the decoder body stays inside the safe subset.
func c21Safe(c *engine.Ctx, p *packages.Package, key string, fd *ast.FuncDecl) {
	_, recv := recvTypeName(fd)
	var bad []string
	first := true
	nilChecked := false
	if len(fd.Body.List) > 0 {
		if x, ok := isNilCheckReturn(fd.Body.List[0]); ok {
			if id, isI := x.(*ast.Ident); isI && id.Name == recv {
				nilChecked = true
			}
		}
	}
	_ = first
	if !nilChecked {
		bad = append(bad, "receiver is not nil-checked first")
	}
	line := func(n ast.Node) string { return fmt.Sprint(p.Fset.Position(n.Pos()).Line) }
	ast.Inspect(fd.Body, func(n ast.Node) bool {
		switch x := n.(type) {
		case *ast.IndexExpr, *ast.SliceExpr:
			bad = append(bad, "line "+line(n)+": index/slice expression")
		case *ast.TypeAssertExpr:
			bad = append(bad, "line "+line(n)+": type assertion")
		case *ast.BinaryExpr:
			if x.Op == token.QUO {
				bad = append(bad, "line "+line(n)+": division")
			}
			if x.Op == token.REM {
				sel, ok := x.Y.(*ast.SelectorExpr)
				if !ok || sel.Sel.Name != "PreallocateLimit" {
					bad = append(bad, "line "+line(n)+": remainder by something else than bin.PreallocateLimit")
				}
			}
		case *ast.GoStmt, *ast.DeferStmt:
			bad = append(bad, "line "+line(n)+": go/defer")
		case *ast.CallExpr:
			switch f := x.Fun.(type) {
			case *ast.Ident:
				switch f.Name {
				case "append", "len", "make":
					if f.Name == "make" {
						if len(x.Args) != 3 {
							bad = append(bad, "line "+line(n)+": make without explicit length 0 and capacity")
						} else if lit, isL := x.Args[1].(*ast.BasicLit); !isL || lit.Value != "0" {
							bad = append(bad, "line "+line(n)+": make with non-zero length")
						} else if b, isB := x.Args[2].(*ast.BinaryExpr); !isB || b.Op != token.REM {
							bad = append(bad, "line "+line(n)+": make capacity is not n % bin.PreallocateLimit")
						}
					}
				case "panic":
					bad = append(bad, "line "+line(n)+": panic")
				default:
					if _, isFn := p.TypesInfo.Uses[f].(*types.Func); !isFn || !strings.HasPrefix(f.Name, "Decode") {
						if _, isType := p.TypesInfo.Uses[f].(*types.TypeName); !isType {
							bad = append(bad, "line "+line(n)+": call of "+f.Name)
						}
					}
				}
			case *ast.SelectorExpr:
				name := f.Sel.Name
				okCall := false
				if tv, ok := p.TypesInfo.Types[f.X]; ok {
					ts := tv.Type.String()
					switch {
					case strings.HasSuffix(ts, "bin.Buffer"):
						okCall = binDecodeMethods[name]
					case strings.HasSuffix(ts, "bin.Fields"):
						okCall = name == "Has" || name == "Decode"
					case name == "Decode" || name == "DecodeBare":
						okCall = true
					}
				}
				if id, isI := f.X.(*ast.Ident); isI && id.Name == "fmt" && name == "Errorf" {
					okCall = true
				}
				if id, isI := f.X.(*ast.Ident); isI && id.Name == "bin" && name == "NewUnexpectedID" {
					okCall = true
				}
				if !okCall {
					bad = append(bad, "line "+line(n)+": call of "+types.ExprString(f))
				}
			default:
				bad = append(bad, "line "+line(n)+": indirect call")
			}
		}
		return true
	})
	c.Check(len(bad) == 0, "C21.R4", key+"/"+fd.Name.Name+"/safe-subset", fd.Pos(), "decoder must stay inside the panic-free subset: %s", strings.Join(bad, "; "))
}

var binDecodeMethods = map[string]bool{
	"PeekID": true, "ConsumeID": true, "VectorHeader": true, "Int": true, "Int32": true, "Uint32": true, "Long": true, "Int53": true, "Uint64": true,
	"Double": true, "Bool": true, "String": true, "Bytes": true, "Int128": true, "Int256": true, "ID": true, "Len": true,
}

// c21IfaceDecoder checks `func DecodeX(buf) (XClass, error)`.
func c21IfaceDecoder(c *engine.Ctx, p *packages.Package, rel string, fd *ast.FuncDecl, typesBy map[string]*genType) bool {
	obj, _ := p.TypesInfo.Defs[fd.Name].(*types.Func)
	if obj == nil {
		return false
	}
	sig := obj.Type().(*types.Signature)
	if sig.Results().Len() != 2 {
		return false
	}
	iface, ok := sig.Results().At(0).Type().Underlying().(*types.Interface)
	named, isNamed := sig.Results().At(0).Type().(*types.Named)
	if !ok || !isNamed || !strings.HasSuffix(named.Obj().Name(), "Class") {
		return false
	}
	key := rel + "." + fd.Name.Name
	// implementers in the package
	want := map[string]bool{}
	sc := p.Types.Scope()
	for _, n := range sc.Names() {
		tn, isT := sc.Lookup(n).(*types.TypeName)
		if !isT {
			continue
		}
		if _, isStruct := tn.Type().Underlying().(*types.Struct); !isStruct {
			continue
		}
		if types.Implements(types.NewPointer(tn.Type()), iface) {
			want[n] = true
		}
	}
	got := map[string]bool{}
	hasDefault := false
	var sw *ast.SwitchStmt
	for _, s := range fd.Body.List {
		if x, isSw := s.(*ast.SwitchStmt); isSw {
			sw = x
		}
	}
	if sw == nil {
		c.Undecided("C21.R3", key+"/arms", fd.Pos(), "interface decoder without a switch on the peeked id")
		return true
	}
	problems := []string{}
	for _, cl := range sw.Body.List {
		cc := cl.(*ast.CaseClause)
		if cc.List == nil {
			hasDefault = true
			// default must return an error
			okD := false
			if len(cc.Body) == 1 {
				if rs, isR := cc.Body[0].(*ast.ReturnStmt); isR && len(rs.Results) == 2 {
					if id, isI := rs.Results[0].(*ast.Ident); isI && id.Name == "nil" {
						okD = true
					}
				}
			}
			if !okD {
				problems = append(problems, "default arm does not return (nil, error)")
			}
			continue
		}
		if len(cc.List) != 1 {
			problems = append(problems, "arm with several ids")
			continue
		}
		id, isI := cc.List[0].(*ast.Ident)
		if !isI || !strings.HasSuffix(id.Name, "TypeID") {
			problems = append(problems, "arm is not a TypeID constant")
			continue
		}
		tname := strings.TrimSuffix(id.Name, "TypeID")
		// body: v := T{}; if err := v.Decode(buf)...; return &v, nil
		okBody := false
		if len(cc.Body) == 3 {
			if as, isA := cc.Body[0].(*ast.AssignStmt); isA && len(as.Rhs) == 1 {
				if cl, isC := as.Rhs[0].(*ast.CompositeLit); isC {
					if tid, isT := cl.Type.(*ast.Ident); isT && tid.Name == tname {
						if iff, isIf := cc.Body[1].(*ast.IfStmt); isIf && iff.Init != nil {
							if ia, isIA := iff.Init.(*ast.AssignStmt); isIA && len(ia.Rhs) == 1 {
								if call, isCall := ia.Rhs[0].(*ast.CallExpr); isCall {
									if sel, isS := call.Fun.(*ast.SelectorExpr); isS && sel.Sel.Name == "Decode" {
										okBody = true
									}
								}
							}
						}
					}
				}
			}
		}
		if !okBody {
			problems = append(problems, "arm "+id.Name+" does not decode a "+tname)
		}
		// the constant must be this type's id constant
		if gt := typesBy[tname]; gt == nil || gt.dec == nil {
			problems = append(problems, "arm "+id.Name+" names no generated type")
		}
		got[tname] = true
	}
	var missing, extra []string
	for n := range want {
		if !got[n] {
			missing = append(missing, n)
		}
	}
	for n := range got {
		if !want[n] {
			extra = append(extra, n)
		}
	}
	sort.Strings(missing)
	sort.Strings(extra)
	ok2 := len(missing) == 0 && len(extra) == 0 && hasDefault && len(problems) == 0
	c.Check(ok2, "C21.R3", key+"/arms", fd.Pos(), "%d implementers of %s; missing arms %v, arms for non-implementers %v, default arm %v %s", len(want), named.Obj().Name(), missing, extra, hasDefault, strings.Join(problems, "; "))
	return true
}
