package rules

import (
	"fmt"
	"go/token"
	"go/types"
	"strings"

	"golang.org/x/tools/go/ssa"

	"tdverif/checker/engine"
)

// C09 — key exchange with the in-tree server yields the same key on both
// sides (structural clauses only: the two flows are sibling implementations of
// one protocol and must agree in the shape of the Diffie-Hellman computation,
// the byte layout of the key, the key id, the salt and the confirmation hash).
func init() {
	register("C09", []string{"exchange", "crypto"}, func(c *engine.Ctx) {
		c.Explain("C09 (structural clauses only; client flow and in-tree server flow cross-checked as siblings): (R1, DH algebra) the client sends g_b = Exp(g, b, p) and derives the key as Exp(g_a, b, p) with the same b and the same p = dh_prime it validated (CheckDH, CheckDHParams on exactly these values), g and g_a read from the server's inner data; the server sends g, g_a, dh_prime of one GA/DhPrime draw and derives Exp(g_b, a, p) with the a of that draw; TestServerRNG.GA returns (a, Exp(g, a, p)) and accepts a draw only inside both ranges the client's CheckDHParams enforces (same bounds). (R2, layout) both sides write the big integer right-aligned into the whole 256-byte key array (big.Int.FillBytes on key[:]; crypto.FillBytes is a bounds-checked wrapper of it whose failure aborts the server). (R3, id) the client result is {Value: key, ID: key.ID()}, the server's is key.WithID() = {k, k.ID()}. (R4, salt) both sides call crypto.ServerSalt(new_nonce, server_nonce) with new_nonce the value sent/received in p_q_inner_data and server_nonce the value sent/received in resPQ (the client having compared the echoed one). (R5, confirmation) the server sends NonceHash1(new_nonce, key) of the key it returns; the client's success return is guarded by equality of NonceHash1(new_nonce, key) with the received hash, for the key it returns, and that key was filled before.")
		c.NotCover("the arithmetic itself ((g^a)^b = (g^b)^a mod p is mathematics, not shape); RSA_PAD/AES-IGE transport of the inner data (C11, C12); random streams; concurrency of the two flows")
		c09(c)
	})
}

func c09(c *engine.Ctx) {
	cl := c.MustFunc("C09.R1", "exchange", "ClientExchange.Run")
	sv := c.MustFunc("C09.R1", "exchange", "ServerExchange.Run")
	ga := c.MustFunc("C09.R1", "exchange", "TestServerRNG.GA")
	if cl == nil || sv == nil || ga == nil {
		return
	}
	exps := func(fn *ssa.Function) []*ssa.Call {
		var out []*ssa.Call
		for _, call := range engine.CallsTo(fn, false, "(*math/big.Int).Exp") {
			cc, _ := call.(*ssa.Call)
			if cc != nil && !engine.IsNil(engine.Args(cc.Common())[3]) {
				out = append(out, cc)
			}
		}
		return out
	}
	// Exp(recv, x, y, m): operands
	op := func(e *ssa.Call, i int) ssa.Value { return engine.Unwrap(engine.Args(e.Common())[i]) }
	// "innerData.GA" names a field of a message by the message's *type*
	// (mt.ServerDHInnerData, mt.ClientDHInnerData, …), not by the local variable
	// that happens to hold it: spec = "<TypeName>.<Field>".
	setBytesOf := func(v ssa.Value, spec string) bool {
		call := engine.CallOf(v)
		return call != nil && engine.CalleeID(call.Common()) == "(*math/big.Int).SetBytes" && c09FieldOf(engine.Args(call.Common())[1], spec)
	}
	n1 := 0
	// ---- client
	var cKeyExp, cGB *ssa.Call
	var cFill ssa.CallInstruction
	ce := exps(cl)
	for _, e := range ce {
		if setBytesOf(op(e, 1), "ServerDHInnerData.GA") {
			cKeyExp = e
		} else {
			cGB = e
		}
	}
	for _, call := range engine.CallsTo(cl, false, "(*math/big.Int).FillBytes", "crypto.FillBytes") {
		if cKeyExp != nil && engine.CallOf(engine.Args(call.Common())[0]) == cKeyExp {
			cFill = call
		}
	}
	if cFill == nil {
		c.Fail("C09.R2", "client/key-right-aligned-in-256-bytes", cl.Pos(), "the client does not write Exp(g_a, b, p) into the key array with FillBytes: any other conversion (Bytes + copy) left-aligns a secret with leading zero bytes, while the server right-aligns it")
	}
	n1++
	if cKeyExp == nil || cGB == nil || len(ce) != 2 {
		c.Fail("C09.R1", "client/dh-shape", cl.Pos(), "the client flow must compute exactly two modular exponentiations (g_b and the key) and fill the key from the second (found %d)", len(ce))
	} else {
		sameB := op(cKeyExp, 2) == op(cGB, 2)
		sameP := op(cKeyExp, 3) == op(cGB, 3) && setBytesOf(op(cGB, 3), "ServerDHInnerData.DhPrime")
		okGA := setBytesOf(op(cKeyExp, 1), "ServerDHInnerData.GA")
		bCall := engine.CallOf(op(cGB, 2))
		okB := bCall != nil && engine.CalleeID(bCall.Common()) == "crypto/rand.Int"
		gCall := engine.CallOf(op(cGB, 1))
		okG := gCall != nil && engine.CalleeID(gCall.Common()) == "math/big.NewInt" && c09FieldOf(gCall.Common().Args[0], "ServerDHInnerData.G")
		c.Check(sameB && sameP && okGA && okB && okG, "C09.R1", "client/key=g_a^b-mod-p", cKeyExp.Pos(), "key must be Exp(g_a, b, p) with the b and p of g_b = Exp(g, b, p); g, g_a, p from the server's inner data (same b: %v, same p: %v, g_a: %v, b random: %v, g: %v)", sameB, sameP, okGA, okB, okG)
		// g_b sent is that exponentiation
		n1++
		sent := false
		engine.Instrs(cl, func(i ssa.Instruction) {
			st, ok := i.(*ssa.Store)
			if !ok {
				return
			}
			if fa, isFA := st.Addr.(*ssa.FieldAddr); isFA && engine.FieldNameOf(fa) == "GB" {
				if by := engine.CallOf(st.Val); by != nil && engine.CalleeID(by.Common()) == "(*math/big.Int).Bytes" && engine.CallOf(engine.Args(by.Common())[0]) == cGB {
					sent = true
				}
			}
		})
		c.Check(sent, "C09.R1", "client/sends-g_b", cGB.Pos(), "client_DH_inner_data.g_b must be the bytes of Exp(g, b, p)")
		// validated values are the used values
		n1++
		okChk := false
		for _, call := range engine.CallsTo(cl, false, "crypto.CheckDHParams") {
			a := call.Common().Args
			if engine.Unwrap(a[0]) == op(cGB, 3) && engine.Unwrap(a[1]) == op(cGB, 1) && engine.Unwrap(a[2]) == op(cKeyExp, 1) && engine.CallOf(a[3]) == cGB && engine.Dominates(call, cKeyExp) {
				okChk = true
			}
		}
		okDH := false
		for _, call := range engine.CallsTo(cl, false, "crypto.CheckDH") {
			if engine.Unwrap(call.Common().Args[1]) == op(cGB, 3) && engine.Dominates(call, cKeyExp) {
				okDH = true
			}
		}
		c.Check(okChk && okDH, "C09.R1", "client/validated-values-are-used-values", cKeyExp.Pos(), "CheckDH and CheckDHParams must examine the very p, g, g_a, g_b the key is computed from (CheckDHParams: %v, CheckDH: %v)", okChk, okDH)
	}
	// ---- server
	var sKeyExp *ssa.Call
	var sFill *ssa.Call
	for _, call := range engine.CallsTo(sv, false, "(*math/big.Int).FillBytes", "crypto.FillBytes") {
		sFill, _ = call.(*ssa.Call)
	}
	if sFill != nil {
		sKeyExp = engine.CallOf(engine.Args(sFill.Common())[0])
	}
	var gaCall, dpCall *ssa.Call
	for _, call := range engine.Calls(sv) {
		if call.Common().IsInvoke() {
			switch call.Common().Method.Name() {
			case "GA":
				gaCall, _ = call.(*ssa.Call)
			case "DhPrime":
				dpCall, _ = call.(*ssa.Call)
			}
		}
	}
	n1++
	if sKeyExp == nil || gaCall == nil || dpCall == nil || len(exps(sv)) != 1 {
		c.Fail("C09.R1", "server/dh-shape", sv.Pos(), "the server flow must draw (a, g_a) and dh_prime once and compute exactly one modular exponentiation, the key")
	} else {
		okA := isResult(op(sKeyExp, 2), gaCall, 0)
		okP := isResult(op(sKeyExp, 3), dpCall, 0) && isResult(gaCall.Common().Args[1], dpCall, 0)
		okGB := setBytesOf(op(sKeyExp, 1), "ClientDHInnerData.GB")
		c.Check(okA && okP && okGB, "C09.R1", "server/key=g_b^a-mod-p", sKeyExp.Pos(), "key must be Exp(g_b, a, p) with the a of the GA draw and the p that draw used (a: %v, p: %v, g_b: %v)", okA, okP, okGB)
		// what it sends: g, g_a, p of that draw
		n1++
		sent := map[string]bool{}
		engine.Instrs(sv, func(i ssa.Instruction) {
			st, ok := i.(*ssa.Store)
			if !ok {
				return
			}
			fa, isFA := st.Addr.(*ssa.FieldAddr)
			if !isFA || !strings.HasSuffix(fa.X.Type().String(), "mt.ServerDHInnerData") {
				return
			}
			switch engine.FieldNameOf(fa) {
			case "G":
				sent["G"] = engine.Unwrap(st.Val) == engine.Unwrap(gaCall.Common().Args[0])
				if k1, ok1 := engine.ConstInt(st.Val); ok1 {
					k2, ok2 := engine.ConstInt(gaCall.Common().Args[0])
					sent["G"] = ok2 && k1 == k2
				}
			case "GA":
				by := engine.CallOf(st.Val)
				sent["GA"] = by != nil && engine.CalleeID(by.Common()) == "(*math/big.Int).Bytes" && isResult(engine.Args(by.Common())[0], gaCall, 1)
			case "DhPrime":
				by := engine.CallOf(st.Val)
				sent["DhPrime"] = by != nil && engine.CalleeID(by.Common()) == "(*math/big.Int).Bytes" && isResult(engine.Args(by.Common())[0], dpCall, 0)
			}
		})
		c.Check(sent["G"] && sent["GA"] && sent["DhPrime"], "C09.R1", "server/sends-its-draw", sv.Pos(), "server_DH_inner_data must carry the g, g_a and dh_prime of the draw the key is derived from (%v)", sent)
	}
	// ---- generator
	for _, r := range engine.SuccessReturns(ga) {
		n1++
		a, g := engine.Unwrap(engine.RetVal(r, 0)), engine.CallOf(engine.RetVal(r, 1))
		ok := g != nil && engine.CalleeID(g.Common()) == "(*math/big.Int).Exp" && op(g, 2) == a && engine.Describe(op(g, 3)) == "p:dhPrime" && engine.Describe(op(g, 1)) == "math/big.NewInt(p:g)"
		c.Check(ok, "C09.R1", "TestServerRNG.GA/returns-a-and-g^a", r.Pos(), "GA must return (a, Exp(g, a, dhPrime)) for one and the same a")
		// accepted only inside both client ranges, with the client's bounds
		// the client's interval is the one CheckDHParams accepts g_a in (class
		// evaluation, bigrange.go); the server's guards are evaluated to a·p + k
		// and must lie inside it
		var bounds []string
		var prime ssa.Value
		for _, p := range ga.Params {
			if engine.Describe(p) == "p:dhPrime" {
				prime = p
			}
		}
		want := "unknown"
		okLo, okHi := false, false
		if d := dhParamsEval(c); d.err == nil && prime != nil {
			lo, hi, any := d.acceptedInterval(1)
			want = fmt.Sprintf("(%v .. %v)", lo, hi)
			okLo, okHi = any && lo == nil, any && hi == nil
			for _, call := range engine.CallsTo(ga, false, "crypto.InRange") {
				cc, _ := call.(*ssa.Call)
				if cc == nil || engine.CallOf(cc.Common().Args[0]) != g {
					continue
				}
				if !engine.GuardedBy(r, func(k engine.Cmp) bool {
					kb, isB := engine.ConstBool(k.Y)
					return engine.CallOf(k.X) == cc && isB && ((kb && k.Op == token.EQL) || (!kb && k.Op == token.NEQ))
				}) {
					continue
				}
				sl, e1 := bigEval(cc.Common().Args[1], prime)
				sh, e2 := bigEval(cc.Common().Args[2], prime)
				if e1 != nil || e2 != nil {
					bounds = append(bounds, "unevaluated")
					continue
				}
				bounds = append(bounds, fmt.Sprintf("(%v .. %v)", sl, sh))
				if lo != nil {
					if cmp, ok := cmpSym(sl, *lo); ok && cmp >= 0 {
						okLo = true
					}
				}
				if hi != nil {
					if cmp, ok := cmpSym(sh, *hi); ok && cmp <= 0 {
						okHi = true
					}
				}
			}
		} else if d.err != nil {
			want = "unknown: " + d.err.Error()
		}
		n1++
		c.Check(okLo && okHi, "C09.R1", "TestServerRNG.GA/accepts-only-what-the-client-accepts", r.Pos(), "an honest server must not offer a g_a the client refuses: the draw must be accepted only inside the client's interval %s (guards found: %v)", want, bounds)
	}
	c.Floor("C09.R1", 7, n1)

	// ---- R2 layout
	n2 := 0
	whole256 := func(v ssa.Value) (bool, *ssa.Alloc) {
		sl, ok := engine.Unwrap(v).(*ssa.Slice)
		if !ok || sl.Low != nil || sl.High != nil {
			return false, nil
		}
		al, isA := sl.X.(*ssa.Alloc)
		if !isA {
			return false, nil
		}
		arr, isArr := al.Type().(*types.Pointer).Elem().Underlying().(*types.Array)
		return isArr && arr.Len() == 256, al
	}
	var cKey, sKey *ssa.Alloc
	if cFill != nil {
		n2++
		ok, al := whole256(engine.Args(cFill.Common())[1])
		cKey = al
		okFn := engine.CalleeID(cFill.Common()) == "(*math/big.Int).FillBytes"
		if engine.CalleeID(cFill.Common()) == "crypto.FillBytes" {
			okFn = c09FillGuarded(cl, cFill)
		}
		c.Check(ok && okFn, "C09.R2", "client/key-right-aligned-in-256-bytes", cFill.Pos(), "the client must write the key with big.Int.FillBytes over the whole 256-byte array (a shorter secret is left-padded with zeros, as on the server)")
	}
	if sFill != nil {
		n2++
		ok, al := whole256(engine.Args(sFill.Common())[1])
		sKey = al
		okFn := engine.CalleeID(sFill.Common()) == "(*math/big.Int).FillBytes" || c09FillGuarded(sv, sFill)
		c.Check(ok && okFn, "C09.R2", "server/key-right-aligned-in-256-bytes", sFill.Pos(), "the server must write the key with FillBytes over the whole 256-byte array and abort when it does not fit")
	}
	if fb := c.MustFunc("C09.R2", "crypto", "FillBytes"); fb != nil {
		n2++
		ok := false
		for _, r := range engine.Returns(fb) {
			if b, isK := engine.ConstBool(r.Results[0]); isK && b {
				ok = false
				for _, call := range engine.CallsTo(fb, false, "(*math/big.Int).FillBytes") {
					a := engine.Args(call.Common())
					if a[0] == ssa.Value(fb.Params[0]) && a[1] == ssa.Value(fb.Params[1]) && engine.Dominates(call, r) {
						ok = true
					}
				}
			}
		}
		c.Check(ok, "C09.R2", "crypto.FillBytes/wraps-big.Int.FillBytes", fb.Pos(), "crypto.FillBytes must report true only after b.FillBytes(to) on its own arguments")
		n2++
		cFillBytesGuard(c, "C09.R2")
	}
	c.Floor("C09.R2", 3, n2)

	// ---- R3 id, R5 confirmation, R4 salt
	n3, n4, n5 := 0, 0, 0
	for _, r := range c09Success(cl) {
		res := r.Results[0]
		ak := engine.StructFieldValue(res, "AuthKey")
		n3++
		okID := false
		if ak != nil && cKey != nil {
			v, id := engine.StructFieldValue(ak, "Value"), engine.StructFieldValue(ak, "ID")
			idc := engine.CallOf(id)
			okID = v != nil && c09LoadOf(v, cKey) && idc != nil && engine.CalleeID(idc.Common()) == "(crypto.Key).ID" && c09LoadOf(engine.Args(idc.Common())[0], cKey) && engine.Dominates(cFill, idc)
		}
		c.Check(okID, "C09.R3", "client/result-key-and-id", r.Pos(), "the client result must be {Value: key, ID: key.ID()} of the key that was filled (AuthKey is %s)", engine.Describe(ak))
		n5++
		okH := cKey != nil && cFill != nil && engine.Dominates(cFill, r) && engine.GuardedBy(r, func(k engine.Cmp) bool {
			for _, q := range []engine.Cmp{k, k.Swap()} {
				h := engine.CallOf(q.X)
				if h == nil || engine.CalleeID(h.Common()) != "crypto.NonceHash1" || q.Op != token.EQL {
					continue
				}
				if c09LoadOf(h.Common().Args[1], cKey) && strings.HasSuffix(engine.Describe(q.Y), ".NewNonceHash1") && engine.Dominates(cFill, h) {
					return true
				}
			}
			return false
		})
		c.Check(okH, "C09.R5", "client/success-only-after-hash-confirmation", r.Pos(), "the client may succeed only when NonceHash1(new_nonce, key) of the returned key equals the hash the server sent")
		n4++
		salt := engine.CallOf(engine.StructFieldValue(res, "ServerSalt"))
		okS := false
		if salt != nil && engine.CalleeID(salt.Common()) == "crypto.ServerSalt" {
			nn, sn := salt.Common().Args[0], salt.Common().Args[1]
			// new_nonce is what was sent in p_q_inner_data (both modes)
			sentNN := 0
			engine.Instrs(cl, func(i ssa.Instruction) {
				if st, ok := i.(*ssa.Store); ok {
					if fa, isFA := st.Addr.(*ssa.FieldAddr); isFA && engine.FieldNameOf(fa) == "NewNonce" && strings.Contains(fa.X.Type().String(), "mt.PQInnerData") {
						if engine.Unwrap(st.Val) == engine.Unwrap(nn) {
							sentNN++
						} else {
							sentNN = -99
						}
					}
				}
			})
			// server_nonce: the echoed one, compared with the resPQ one
			dsn := engine.Describe(sn)
			cmpd := engine.GuardedBy(salt, func(k engine.Cmp) bool {
				dx, dy := engine.Describe(k.X), engine.Describe(k.Y)
				return k.Op == token.EQL && ((dx == dsn && c09FieldOf(k.Y, "ResPQ.ServerNonce")) || (dy == dsn && c09FieldOf(k.X, "ResPQ.ServerNonce")))
			}) || c09FieldOf(sn, "ResPQ.ServerNonce")
			hn := false
			for _, h := range engine.CallsTo(cl, false, "crypto.NonceHash1") {
				if engine.Unwrap(h.Common().Args[0]) == engine.Unwrap(nn) {
					hn = true
				}
			}
			okS = sentNN >= 2 && cmpd && hn
		}
		c.Check(okS, "C09.R4", "client/salt-from-sent-new-nonce-and-server-nonce", r.Pos(), "the client salt must be ServerSalt(new_nonce, server_nonce): the new_nonce it sent in p_q_inner_data (both modes; also the one hashed) and the server_nonce of resPQ")
	}
	for _, r := range c09Success(sv) {
		res := r.Results[0]
		n3++
		kc := engine.CallOf(engine.StructFieldValue(res, "Key"))
		okID := kc != nil && sKey != nil && engine.CalleeID(kc.Common()) == "(crypto.Key).WithID" && c09LoadOf(engine.Args(kc.Common())[0], sKey) && engine.Dominates(sFill, kc)
		c.Check(okID, "C09.R3", "server/result-key-with-id", r.Pos(), "the server result must be key.WithID() of the key that was filled")
		// the hash it sent
		n5++
		okH := false
		var hNN ssa.Value
		engine.Instrs(sv, func(i ssa.Instruction) {
			if st, ok := i.(*ssa.Store); ok {
				if fa, isFA := st.Addr.(*ssa.FieldAddr); isFA && engine.FieldNameOf(fa) == "NewNonceHash1" {
					h := engine.CallOf(st.Val)
					if h != nil && engine.CalleeID(h.Common()) == "crypto.NonceHash1" && sKey != nil && c09LoadOf(h.Common().Args[1], sKey) && engine.Dominates(sFill, h) {
						okH = true
						hNN = h.Common().Args[0]
					}
				}
			}
		})
		c.Check(okH, "C09.R5", "server/sends-hash-of-its-key", r.Pos(), "dh_gen_ok must carry NonceHash1(new_nonce, key) of the key the server returns")
		n4++
		salt := engine.CallOf(engine.StructFieldValue(res, "ServerSalt"))
		okS := false
		if salt != nil && engine.CalleeID(salt.Common()) == "crypto.ServerSalt" {
			nn, sn := salt.Common().Args[0], salt.Common().Args[1]
			sentSN := false
			engine.Instrs(sv, func(i ssa.Instruction) {
				if st, ok := i.(*ssa.Store); ok {
					if fa, isFA := st.Addr.(*ssa.FieldAddr); isFA && engine.FieldNameOf(fa) == "ServerNonce" && strings.HasSuffix(fa.X.Type().String(), "mt.ResPQ") && engine.Unwrap(st.Val) == engine.Unwrap(sn) {
						sentSN = true
					}
				}
			})
			okS = sentSN && hNN != nil && engine.Describe(nn) == engine.Describe(hNN) && c09FieldOf(nn, "PQInnerData.NewNonce")
		}
		c.Check(okS, "C09.R4", "server/salt-from-received-new-nonce-and-own-server-nonce", r.Pos(), "the server salt must be ServerSalt(new_nonce, server_nonce): the new_nonce received in p_q_inner_data (also the one hashed) and the server_nonce it sent in resPQ")
	}
	if wid := c.MustFunc("C09.R3", "crypto", "Key.WithID"); wid != nil {
		for _, r := range engine.Returns(wid) {
			n3++
			v, id := engine.StructFieldValue(r.Results[0], "Value"), engine.StructFieldValue(r.Results[0], "ID")
			idc := engine.CallOf(id)
			ok := v != nil && engine.Describe(v) == "p:k" && idc != nil && engine.CalleeID(idc.Common()) == "(crypto.Key).ID" && engine.Describe(engine.Args(idc.Common())[0]) == "p:k"
			c.Check(ok, "C09.R3", "crypto.Key.WithID", r.Pos(), "WithID must return {Value: k, ID: k.ID()}")
		}
	}
	c.Floor("C09.R3", 3, n3)
	c.Floor("C09.R4", 2, n4)
	c.Floor("C09.R5", 2, n5)
}

// cFillBytesGuard: big.Int.FillBytes panics when the value needs more bytes
// than the buffer has; crypto.FillBytes exists to turn that into "false". The
// call must therefore lie behind a test that the byte length rounded UP,
// (BitLen+7)/8, does not exceed len(to) (rounding down lets 8k+1..8k+7-bit
// values through to the panic). Shared by C09.R2 and C14.R3.
func cFillBytesGuard(c *engine.Ctx, rule string) {
	fb := c.MustFunc(rule, "crypto", "FillBytes")
	if fb == nil {
		return
	}
	calls := engine.CallsTo(fb, false, "(*math/big.Int).FillBytes")
	for _, call := range calls {
		ok := engine.GuardedBy(call, func(k engine.Cmp) bool {
			for _, q := range []engine.Cmp{k, k.Swap()} {
				lc := engine.CallOf(q.Y)
				if lc == nil || engine.CalleeID(lc.Common()) != "builtin.len" || engine.Unwrap(lc.Common().Args[0]) != ssa.Value(fb.Params[1]) {
					continue
				}
				if q.Op != token.LEQ {
					continue
				}
				// X = (BitLen(b) + 7) / 8   (or >> 3)
				div, isDiv := engine.Unwrap(q.X).(*ssa.BinOp)
				if !isDiv {
					continue
				}
				d, isK := engine.ConstInt(div.Y)
				if !isK || !((div.Op == token.QUO && d == 8) || (div.Op == token.SHR && d == 3)) {
					continue
				}
				add, isAdd := engine.Unwrap(div.X).(*ssa.BinOp)
				if !isAdd || add.Op != token.ADD {
					continue
				}
				seven, isS := engine.ConstInt(add.Y)
				bl := engine.CallOf(add.X)
				if isS && seven == 7 && bl != nil && engine.CalleeID(bl.Common()) == "(*math/big.Int).BitLen" && engine.Unwrap(bl.Common().Args[0]) == ssa.Value(fb.Params[0]) {
					return true
				}
			}
			return false
		})
		c.Check(ok, rule, "crypto.FillBytes/size-guard-rounds-up", call.Pos(), "b.FillBytes(to) must be behind (b.BitLen()+7)/8 <= len(to); any weaker test lets a value one to seven bits too long reach the panic in big.Int.FillBytes")
	}
	if len(calls) == 0 {
		c.Fail(rule, "crypto.FillBytes/size-guard-rounds-up", fb.Pos(), "crypto.FillBytes does not call big.Int.FillBytes")
	}
}

// c09FieldOf: v is (a load of) field F of a value whose named type is T,
// spec = "T.F" — whatever variable holds it.
func c09FieldOf(v ssa.Value, spec string) bool {
	i := strings.LastIndex(spec, ".")
	typ, field := spec[:i], spec[i+1:]
	v = engine.Unwrap(v)
	var fa *ssa.FieldAddr
	switch x := v.(type) {
	case *ssa.UnOp:
		if x.Op != token.MUL {
			return false
		}
		fa, _ = x.X.(*ssa.FieldAddr)
	case *ssa.FieldAddr:
		fa = x
	case *ssa.Field:
		t := x.X.Type()
		if n, ok := t.(*types.Named); ok && n.Obj().Name() == typ {
			if st, isS := n.Underlying().(*types.Struct); isS && x.Field < st.NumFields() {
				return st.Field(x.Field).Name() == field
			}
		}
		return false
	}
	if fa == nil || engine.FieldNameOf(fa) != field {
		return false
	}
	t := fa.X.Type()
	if p, ok := t.Underlying().(*types.Pointer); ok {
		t = p.Elem()
	}
	n, ok := t.(*types.Named)
	return ok && n.Obj().Name() == typ
}

// c09LoadOf: v is (a load of) the alloc al.
func c09LoadOf(v ssa.Value, al *ssa.Alloc) bool {
	v = engine.Unwrap(v)
	if v == ssa.Value(al) {
		return true
	}
	ld, ok := v.(*ssa.UnOp)
	return ok && ld.Op == token.MUL && ld.X == ssa.Value(al)
}

// c09FillGuarded: every success return of fn is behind fill's result == true.
func c09FillGuarded(fn *ssa.Function, fill ssa.CallInstruction) bool {
	rs := c09Success(fn)
	for _, r := range rs {
		if !engine.GuardedBy(r, func(k engine.Cmp) bool {
			kb, isB := engine.ConstBool(k.Y)
			cl := engine.CallOf(k.X)
			return cl != nil && ssa.CallInstruction(cl) == fill && isB && ((kb && k.Op == token.EQL) || (!kb && k.Op == token.NEQ))
		}) {
			return false
		}
	}
	return len(rs) > 0
}

// c09Success: returns whose error result is the constant nil (a call result
// such as serverError(...) is an error return, not a success).
func c09Success(fn *ssa.Function) []*ssa.Return {
	var out []*ssa.Return
	idx := engine.ErrIndex(fn)
	for _, r := range engine.Returns(fn) {
		if idx >= 0 && engine.ReturnKind(r, idx) == "nil" {
			out = append(out, r)
		}
	}
	return out
}
