package rules

import (
	"go/token"
	"go/types"
	"strings"

	"golang.org/x/tools/go/ssa"

	"tdverif/checker/engine"
)

// C16 — transport codecs deliver exactly the frames that were sent.
func init() {
	register("C16", []string{"proto/codec", "transport", "bin"}, func(c *engine.Ctx) {
		c.Explain("C16: writer/reader framing agreement and stream discipline. (R1) abridged: the writer uses the 1-byte form iff len>>2 < T, writes marker M and a 3-byte length otherwise; the reader reads 3 more bytes iff first byte >= T', and T == T' == M == 127, both shift by 2; intermediate: PutInt(len) ↔ readLen; full: written length = len+12 ↔ payload = n-12, CRC over everything before the CRC on both sides, write/read sequence numbers drawn from their own counters with AddInt64(+1)-1; padded: padding = byte %% 4 and the reader strips n %% 4. (R2) in proto/codec every use of an io.Reader parameter is as the source of io.ReadFull or a hand-over to another checked reader function (result independent of read chunking). (R3) transport.connection calls codec.Write under writeMux and codec.Read under readMux. (R4) every implementer of codec.Codec returns checkProtocolError(b) from a successful Read. (R5) detectCodec: first byte == AbridgedClientStart[0] → Abridged; 4 bytes == IntermediateClientStart / PaddedIntermediateClientStart → those codecs; otherwise Full with the consumed bytes replayed in front of the stream.")
		c.NotCover("payload byte equality; the obfuscated stream (C18); concurrent senders beyond R3")
		c16R1(c)
		c16R2(c)
		c16R3(c)
		c16R4(c)
		c16R5(c)
	})
}

func c16R1(c *engine.Ctx) {
	w := c.MustFunc("C16.R1", "proto/codec", "writeAbridged")
	r := c.MustFunc("C16.R1", "proto/codec", "readAbridged")
	if w != nil && r != nil {
		var tW, tR, marker, shW, shR int64 = -1, -1, -1, -1, -1
		// (the length prefix may be written/read by a helper of the package)
		instrsWithHelpers(w, func(i ssa.Instruction) {
			switch x := i.(type) {
			case *ssa.If:
				// whichever way the test is written: one of the two edges says "len>>s < T"
				for _, br := range []bool{true, false} {
					k := engine.Guard{If: x, Branch: br}.Cmp()
					for _, q := range []engine.Cmp{k, k.Swap()} {
						sh, ok := engine.Unwrap(q.X).(*ssa.BinOp)
						t, isK := engine.ConstInt(q.Y)
						if !ok || sh.Op != token.SHR || !isK {
							continue
						}
						switch q.Op {
						case token.LSS:
							tW = t
						case token.LEQ:
							tW = t + 1
						default:
							continue
						}
						shW, _ = engine.ConstInt(sh.Y)
					}
				}
			case *ssa.Store:
				if ia, ok := x.Addr.(*ssa.IndexAddr); ok {
					if idx, isK := engine.ConstInt(ia.Index); isK && idx == 0 {
						if v, isV := engine.ConstInt(x.Val); isV && strings.Contains(engine.Describe(ia.X), "buf") {
							marker = v
						}
					}
				}
			}
		})
		instrsWithHelpers(r, func(i ssa.Instruction) {
			switch x := i.(type) {
			case *ssa.If:
				for _, br := range []bool{true, false} {
					k := engine.Guard{If: x, Branch: br}.Cmp()
					for _, q := range []engine.Cmp{k, k.Swap()} {
						t, isK := engine.ConstInt(q.Y)
						if !strings.HasSuffix(engine.Describe(q.X), ".Buf[0]") || !isK {
							continue
						}
						switch q.Op {
						case token.GEQ:
							tR = t
						case token.GTR:
							tR = t + 1
						}
					}
				}
			case *ssa.BinOp:
				if x.Op == token.SHL {
					shR, _ = engine.ConstInt(x.Y)
				}
			}
		})
		c.Check(tW == 127 && tR == 127 && marker == 127 && shW == 2 && shR == 2, "C16.R1", "abridged/threshold-marker", w.Pos(),
			"writer short form iff len>>%d < %d, marker %d; reader long form iff first byte >= %d, payload length n<<%d (specification: 127, 0x7f, 2)", shW, tW, marker, tR, shR)
	}
	// intermediate
	wi := c.MustFunc("C16.R1", "proto/codec", "writeIntermediate")
	ri := c.MustFunc("C16.R1", "proto/codec", "readIntermediate")
	if wi != nil && ri != nil {
		okW := false
		for _, call := range engine.CallsTo(wi, false, "(*bin.Buffer).PutInt") {
			d := engine.Describe(call.Common().Args[1])
			if strings.Contains(d, ".Len(") || strings.Contains(d, "builtin.len(") {
				okW = true
			}
		}
		okR := false
		for _, call := range engine.CallsTo(ri, false, "(*bin.Buffer).ResetN") {
			if x := isCallTo(call.Common().Args[1], "proto/codec.readLen"); x != nil {
				okR = true
			}
		}
		c.Check(okW && okR, "C16.R1", "intermediate/length-prefix", wi.Pos(), "writer prefixes the payload length, reader allocates exactly the length read")
	}
	// padded
	wp := c.MustFunc("C16.R1", "proto/codec", "writePaddedIntermediate")
	if wp != nil && ri != nil {
		iv := engine.NewIntervals()
		okPad := false
		engine.Instrs(wp, func(i ssa.Instruction) {
			if b, ok := i.(*ssa.BinOp); ok && b.Op == token.REM {
				if iv.At(b, b).Hi <= 3 && iv.At(b, b).Lo >= 0 {
					okPad = true
				}
			}
		})
		okStrip := false
		engine.Instrs(ri, func(i ssa.Instruction) {
			if b, ok := i.(*ssa.BinOp); ok && b.Op == token.REM {
				if m, _ := engine.ConstInt(b.Y); m == 4 && isCallTo(b.X, "proto/codec.readLen") != nil {
					okStrip = true
				}
			}
		})
		c.Check(okPad && okStrip, "C16.R1", "padded/padding-lt-4", wp.Pos(), "writer pads with fewer than 4 bytes and the reader strips n %% 4")
	}
	// full
	wf := c.MustFunc("C16.R1", "proto/codec", "writeFull")
	rf := c.MustFunc("C16.R1", "proto/codec", "readFull")
	if wf != nil && rf != nil {
		bd := engine.NewBounds()
		var wOff int64 = -1
		puts := engine.CallsTo(wf, false, "(*bin.Buffer).PutInt")
		if len(puts) >= 2 {
			base, off := bd.Linear(puts[0].Common().Args[1], puts[0])
			if strings.Contains(engine.Describe(base), "Len(") {
				wOff = off
			}
		}
		okSeq := len(puts) >= 2 && puts[1].Common().Args[1] == ssa.Value(wf.Params[1])
		var rOff int64 = -1
		for _, call := range engine.CallsTo(rf, false, "(*bin.Buffer).Skip") {
			base, off := bd.Linear(call.Common().Args[1], call)
			if isCallTo(base, "proto/codec.readLen") != nil {
				rOff = -off
			}
		}
		c.Check(wOff == 12 && rOff == 12 && okSeq, "C16.R1", "full/length", wf.Pos(), "writer length = payload+%d, reader payload = n-%d (specification 12: length, seqno, crc); seqno written second: %v", wOff, rOff, okSeq)
		// CRC: writer over write.Raw() before PutUint32(crc); reader over b.Buf[0:n-4] compared to the trailing word
		okWC := false
		for _, crc := range engine.CallsTo(wf, false, "hash/crc32.ChecksumIEEE") {
			for _, pu := range engine.CallsTo(wf, false, "(*bin.Buffer).PutUint32") {
				if engine.CallOf(pu.Common().Args[1]) == crc.(*ssa.Call) && engine.Dominates(crc, pu) {
					okWC = true
					// all payload puts precede the checksum
					for _, p := range append(puts, engine.CallsTo(wf, false, "(*bin.Buffer).Put")...) {
						if !engine.Dominates(p, crc) {
							okWC = false
						}
					}
				}
			}
		}
		okRC := false
		for _, crc := range engine.CallsTo(rf, false, "hash/crc32.ChecksumIEEE") {
			sl, ok := crc.Common().Args[0].(*ssa.Slice)
			if !ok {
				continue
			}
			lo, _ := engine.ConstInt(sl.Low)
			base, off := bd.Linear(sl.High, crc)
			if lo == 0 && isCallTo(base, "proto/codec.readLen") != nil && off == -4 {
				// compared with the word read last; mismatch rejects
				for _, r := range engine.SuccessReturns(rf) {
					if engine.GuardedBy(r, func(k engine.Cmp) bool {
						return k.Op == token.EQL && engine.CallOf(k.Y) == crc.(*ssa.Call) && isCallTo(k.X, "(*bin.Buffer).Uint32") != nil
					}) {
						okRC = true
					}
				}
			}
		}
		c.Check(okWC && okRC, "C16.R1", "full/crc", wf.Pos(), "CRC32 must cover length, seqno and payload on both sides and a mismatch must reject (writer=%v reader=%v)", okWC, okRC)
		// seqno equality check in reader
		okSeqR := false
		for _, r := range engine.SuccessReturns(rf) {
			if engine.GuardedBy(r, func(k engine.Cmp) bool {
				return k.Op == token.EQL && k.Y == ssa.Value(rf.Params[1]) && isCallTo(k.X, "(*bin.Buffer).Int") != nil
			}) {
				okSeqR = true
			}
		}
		c.Check(okSeqR, "C16.R1", "full/seqno-check", rf.Pos(), "the reader must reject a frame whose sequence number differs from its counter")
		// counters
		for _, spec := range []struct{ m, field, callee string }{{"Full.Write", "wSeqNo", "proto/codec.writeFull"}, {"Full.Read", "rSeqNo", "proto/codec.readFull"}} {
			fn := c.MustFunc("C16.R1", "proto/codec", spec.m)
			if fn == nil {
				continue
			}
			ok := false
			for _, call := range engine.CallsTo(fn, false, spec.callee) {
				d := engine.Describe(call.Common().Args[1])
				if d == "(sync/atomic.AddInt64(p:i."+spec.field+", 1) - 1)" {
					ok = true
				}
			}
			c.Check(ok, "C16.R1", "full/"+spec.field, fn.Pos(), "%s must number frames 0,1,2… from its own counter %s", spec.m, spec.field)
			// a number is consumed only for a frame that goes to the wire: no
			// exit between drawing the number and the framing call, and the
			// counter is touched nowhere else in the method
			adds := engine.CallsTo(fn, false, "sync/atomic.AddInt64", "sync/atomic.StoreInt64")
			okUse := len(adds) == 1
			for _, add := range adds {
				for _, fr := range engine.CallsTo(fn, false, spec.callee) {
					for _, r := range exits(fn) {
						if (engine.PathQuery{Fn: fn, From: add, Barrier: func(i ssa.Instruction) bool { return i == fr.(ssa.Instruction) }}).Reaches(r) {
							okUse = false
						}
					}
				}
			}
			c.Check(okUse, "C16.R1", "full/"+spec.field+"/consumed-only-by-a-frame", fn.Pos(), "%s must draw a sequence number only for a frame it hands to %s (a number consumed by a rejected call desynchronises every later frame)", spec.m, engine.Short(spec.callee))
		}
	}
}

func c16R2(c *engine.Ctx) {
	n := 0
	ioReader := "io.Reader"
	sp := c.SSA["proto/codec"]
	readerFns := map[*ssa.Function]bool{}
	for _, f := range allFunctions(c, sp) {
		for _, p := range f.Params {
			if p.Type().String() == ioReader {
				readerFns[f] = true
			}
		}
	}
	for f := range readerFns {
		for _, p := range f.Params {
			if p.Type().String() != ioReader || p.Referrers() == nil {
				continue
			}
			for _, ref := range *p.Referrers() {
				n++
				key := engine.FuncID(f) + "/reader-use#" + ordinalRef(f, ref)
				switch x := ref.(type) {
				case *ssa.Call:
					id := engine.CalleeID(x.Common())
					if id == "io.ReadFull" && x.Common().Args[0] == ssa.Value(p) {
						c.Pass("C16.R2", key, x.Pos(), "consumed through io.ReadFull")
						continue
					}
					if callee := x.Common().StaticCallee(); callee != nil && readerFns[callee] {
						c.Pass("C16.R2", key, x.Pos(), "handed to %s (checked)", engine.FuncID(callee))
						continue
					}
					if x.Common().IsInvoke() && x.Common().Method.Name() == "Read" && x.Common().Value != ssa.Value(p) {
						// interface codec delegation: NoHeader.Read → embedded Codec.Read(r, b)
						c.Pass("C16.R2", key, x.Pos(), "delegated to the wrapped codec's Read")
						continue
					}
					c.Fail("C16.R2", key, x.Pos(), "io.Reader parameter used by %s: a short read would split a frame (only io.ReadFull may consume the stream)", id)
				case *ssa.DebugRef:
					n--
				default:
					c.Fail("C16.R2", key, ref.Pos(), "io.Reader parameter escapes through %T", ref)
				}
			}
		}
	}
	c.Floor("C16.R2", 7, n)
}

func ordinalRef(f *ssa.Function, in ssa.Instruction) string {
	return ordinal(f, in)
}

func c16R3(c *engine.Ctx) {
	for _, spec := range []struct{ fn, io, mu string }{
		{"connection.Recv", "(transport.Codec).Read", "p:c.readMux"},
		{"connection.Send", "(transport.Codec).Write", "p:c.writeMux"},
	} {
		fn := c.MustFunc("C16.R3", "transport", spec.fn)
		if fn == nil {
			continue
		}
		ls := engine.Locksets(fn)
		calls := engine.CallsTo(fn, false, spec.io)
		for _, call := range calls {
			c.Check(ls[call][spec.mu], "C16.R3", spec.fn+"/locked", call.Pos(), "%s must hold %s so that frames are not interleaved (held: %v)", spec.io, spec.mu, keys(ls[call]))
		}
		c.Floor("C16.R3/"+spec.fn, 1, len(calls))
	}
}

func c16R4(c *engine.Ctx) {
	pkg := c.Pkgs["proto/codec"].Types
	iface, _ := pkg.Scope().Lookup("Codec").Type().Underlying().(*types.Interface)
	if iface == nil {
		c.Undecided("C16.R4", "anchor:Codec", 0, "interface proto/codec.Codec does not resolve")
		return
	}
	n := 0
	for _, name := range pkg.Scope().Names() {
		tn, ok := pkg.Scope().Lookup(name).(*types.TypeName)
		if !ok || types.IsInterface(tn.Type()) {
			continue
		}
		for _, t := range []types.Type{tn.Type(), types.NewPointer(tn.Type())} {
			if !types.Implements(t, iface) {
				continue
			}
			sel := c.Prog.MethodSets.MethodSet(t).Lookup(pkg, "Read")
			if sel == nil {
				continue
			}
			fn := c.Prog.MethodValue(sel)
			if fn == nil || fn.Synthetic != "" && !strings.Contains(fn.Synthetic, "wrapper") {
				continue
			}
			if fn.Synthetic != "" {
				// promoted through embedding (NoHeader embeds Codec): delegates to the wrapped implementer
				n++
				c.Pass("C16.R4", name+".Read/delegates", fn.Pos(), "Read is promoted from the embedded Codec")
				break
			}
			n++
			ok := true
			for _, r := range engine.SuccessReturns(fn) {
				call := isCallTo(engine.RetVal(r, 0), "proto/codec.checkProtocolError")
				if call == nil || call.Common().Args[0] != ssa.Value(fn.Params[len(fn.Params)-1]) {
					ok = false
				}
			}
			c.Check(ok, "C16.R4", name+".Read/protocol-error", fn.Pos(), "a successful Read must return checkProtocolError(b): 4-byte frames are transport error codes")
			break
		}
	}
	c.Floor("C16.R4", 4, n)
	// checkProtocolError: 4-byte frame → ProtocolErr with negated code
	if fn := c.MustFunc("C16.R4", "proto/codec", "checkProtocolError"); fn != nil {
		okLen := false
		engine.Instrs(fn, func(i ssa.Instruction) {
			if iff, ok := i.(*ssa.If); ok {
				k := engine.Guard{If: iff, Branch: true}.Cmp()
				if n, isN := engine.ConstInt(k.Y); isN && n == 4 && strings.Contains(engine.Describe(k.X), "Len(") && (k.Op == token.NEQ || k.Op == token.EQL) {
					okLen = true
				}
			}
		})
		c.Check(okLen, "C16.R4", "checkProtocolError/four-bytes", fn.Pos(), "exactly 4-byte frames are reported as protocol errors")
	}
}

func c16R5(c *engine.Ctx) {
	fn := c.MustFunc("C16.R5", "transport", "detectCodec")
	if fn == nil {
		return
	}
	rows := map[string]string{}
	for _, r := range engine.SuccessReturns(fn) {
		codecVal := engine.Describe(engine.RetVal(r, 0))
		rd := engine.Describe(engine.RetVal(r, 1))
		var conds []string
		for _, g := range engine.Guards(r) {
			k := g.Cmp()
			if k.Op == token.EQL || k.Op == token.NEQ {
				d := engine.Describe(k.X) + " " + k.Op.String() + " " + engine.Describe(k.Y)
				if strings.Contains(d, "ClientStart") {
					conds = append(conds, d)
				}
			}
		}
		rows[codecVal] = strings.Join(conds, " && ") + " => reader " + rd
	}
	want := map[string][2]string{
		"(transport.Protocol).Codec(g:transport.Abridged)":           {"== g:proto/codec.AbridgedClientStart[0]", "reader p:c"},
		"(transport.Protocol).Codec(g:transport.Intermediate)":       {"== g:proto/codec.IntermediateClientStart", "reader p:c"},
		"(transport.Protocol).Codec(g:transport.PaddedIntermediate)": {"== g:proto/codec.PaddedIntermediateClientStart", "reader p:c"},
		"(transport.Protocol).Codec(g:transport.Full)":               {"!= g:proto/codec.PaddedIntermediateClientStart", "io.MultiReader("},
	}
	for k, w := range want {
		got, ok := rows[k]
		short := k[strings.LastIndex(k, ".")+1:]
		c.Check(ok && strings.Contains(got, w[0]) && strings.Contains(got, w[1]), "C16.R5", "detectCodec/"+strings.TrimSuffix(short, ")"), fn.Pos(), "row: %s (need condition %q and %q)", got, w[0], w[1])
	}
	// Full: the 4 consumed bytes are replayed
	okReplay := false
	for _, mr := range engine.CallsTo(fn, false, "io.MultiReader") {
		vs := variadicVals(mr.Common().Args[0])
		if len(vs) == 2 && engine.Describe(vs[1]) == "p:c" {
			if nr := engine.FindCallBack(vs[0], "bytes.NewReader"); len(nr) == 1 {
				// the whole array the detection bytes were read into (by role, not by name)
				root, lo, okRoot := sliceRoot(nr[0].Common().Args[0])
				whole := false
				if sl, isSl := engine.Unwrap(nr[0].Common().Args[0]).(*ssa.Slice); isSl && okRoot && lo == 0 {
					hi, isK := engine.ConstInt(sl.High)
					whole = sl.High == nil || (isK && hi == 4)
				}
				filled := false
				for _, rf := range engine.CallsTo(fn, false, "io.ReadFull") {
					if r2, _, ok2 := sliceRoot(rf.Common().Args[1]); ok2 && r2 == root && engine.Dominates(rf, mr) {
						filled = true
					}
				}
				if whole && filled {
					okReplay = true
				}
			}
		}
	}
	c.Check(okReplay, "C16.R5", "detectCodec/full-replays-header", fn.Pos(), "for the full transport the 4 bytes read for detection must be put back in front of the stream")
	// tags written by the codecs are the ones detected
	for _, name := range []string{"Abridged", "Intermediate", "PaddedIntermediate"} {
		wh := c.Func("proto/codec", name+".WriteHeader")
		if wh == nil {
			continue
		}
		ok := false
		for _, call := range engine.Calls(wh) {
			if call.Common().IsInvoke() && call.Common().Method.Name() == "Write" && strings.Contains(engine.Describe(call.Common().Args[0]), "g:proto/codec."+name+"ClientStart") {
				ok = true
			}
		}
		c.Check(ok, "C16.R5", name+"/header-tag", wh.Pos(), "%s.WriteHeader must send %sClientStart (the tag detectCodec matches)", name, name)
	}
}
