package rules

import (
	"fmt"
	"go/token"
	"sort"
	"strings"

	"golang.org/x/tools/go/ssa"

	"tdverif/checker/engine"
)

// C13 — DH and factorisation checks accept exactly the specification's inputs.
func init() {
	register("C13", []string{"crypto"}, func(c *engine.Ctx) {
		c.Explain("C13: (R1) CheckGP evaluated abstractly for g ∈ {-1..9} × residue test ∈ {true,false}: accepts exactly g ∈ {2,3,5,6,7} with a passing residue test and g = 4 unconditionally; the (modulus, residues) passed to checkSubgroup equal the specification table {2:(8,{7}), 3:(3,{2}), 5:(5,{1,4}), 6:(24,{19,23}), 7:(7,{3,5,6})}; checkSubgroup returns true only under p mod divider == an expected residue. (R2, exhaustive 9 classes) InRange(x,min,max) ⇔ min < x < max. (R3, exhaustive over order classes; assumption 2^2047 <= p < 2^2048, which CheckDH enforces and which fixes the order of the bounds) every bound CheckDHParams compares g, g_a, g_b with is evaluated to a*p+k, each of the three is placed in every position relative to the bounds (below, equal, between, ... : 9^3 classes for the four specified bounds), the function is run abstractly in every class with InRange answered from R2, and the verdict must be: accepted exactly when g is strictly inside (1,p-1) and g_a, g_b are strictly inside (1,p-1) and (2^1984,p-2^1984); a violation names the class. (R4) CheckDH rejects BitLen != 2048; checkPrime tests p and (p-1)/2. (R5) DecomposePQ swaps its results exactly when p > q.")
		c.NotCover("Pollard-rho correctness/termination; Miller-Rabin; big.Int arithmetic")
		c13R1(c)
		c13R2(c)
		c13R3(c)
		c13R4(c)
		c13R5(c)
	})
}

func c13R1(c *engine.Ctx) {
	fn := c.MustFunc("C13.R1", "crypto", "CheckGP")
	if fn == nil {
		return
	}
	spec := map[int64]string{2: "8:[7]", 3: "3:[2]", 5: "5:[1 4]", 6: "24:[19 23]", 7: "7:[3 5 6]"}
	n := 0
	for g := int64(-1); g <= 9; g++ {
		for _, residueOK := range []bool{true, false} {
			g, residueOK := g, residueOK
			n++
			key := fmt.Sprintf("CheckGP/g=%d/residue-test=%v", g, residueOK)
			var sub *ssa.Call
			res, err := engine.AbstractRunOpt(fn, func(x, y ssa.Value) (int, bool) {
				if x == ssa.Value(fn.Params[0]) {
					if k, ok := engine.ConstInt(y); ok {
						return cmp64(g, k), true
					}
				}
				return 0, false
			}, func(v ssa.Value) (bool, bool) {
				if call := isCallTo(v, "crypto.checkSubgroup"); call != nil {
					sub = call
					return residueOK, true
				}
				return false, false
			})
			if err != nil {
				c.Undecided("C13.R1", key, fn.Pos(), "abstract evaluation failed: %v", err)
				continue
			}
			accepted := engine.ReturnKind(res.Ret, 0) == "nil"
			want := g == 4 || (spec[g] != "" && residueOK)
			c.Check(accepted == want, "C13.R1", key, res.Ret.Pos(), "g=%d with residue test %v: accepted=%v, specification %v", g, residueOK, accepted, want)
			if spec[g] != "" && residueOK {
				// which call was evaluated on this path, and with which table row
				onPath := sub != nil
				row := ""
				if sub != nil {
					inPath := false
					for _, bi := range res.Path {
						if sub.Block().Index == bi {
							inPath = true
						}
					}
					onPath = inPath
					div, _ := engine.ConstInt(sub.Common().Args[1])
					row = fmt.Sprintf("%d:%v", div, variadicInts(sub.Common().Args[2]))
					okP := sub.Common().Args[0] == ssa.Value(fn.Params[1])
					onPath = onPath && okP
				}
				c.Check(onPath && row == spec[g], "C13.R1", fmt.Sprintf("CheckGP/g=%d/table-row", g), res.Ret.Pos(), "g=%d tests p mod %s, specification %s", g, row, spec[g])
			}
			if g == 4 {
				c.Check(sub == nil || !blockOnPath(res, sub.Block()), "C13.R1", "CheckGP/g=4/no-condition", res.Ret.Pos(), "g=4 has no residue condition")
			}
			sub = nil
		}
	}
	c.Extra["exhaustive"] = true
	c.Floor("C13.R1", 22, n)
	// checkSubgroup
	cs := c.MustFunc("C13.R1", "crypto", "checkSubgroup")
	if cs == nil {
		return
	}
	m := 0
	for _, r := range engine.Returns(cs) {
		b, isB := engine.ConstBool(engine.RetVal(r, 0))
		if !isB {
			c.Fail("C13.R1", "checkSubgroup/return#"+ordinal(cs, r), r.Pos(), "non-constant result %s", engine.Describe(r.Results[0]))
			continue
		}
		if !b {
			continue
		}
		m++
		ok := engine.GuardedBy(r, func(k engine.Cmp) bool {
			if k.Op != token.EQL {
				return false
			}
			dx, dy := engine.Describe(k.X), engine.Describe(k.Y)
			remOK := strings.Contains(dx, "(*math/big.Int).Rem(") && strings.Contains(dx, "p:p") && strings.Contains(dx, "math/big.NewInt(p:divider)") && strings.HasPrefix(dx, "(*math/big.Int).Int64(")
			return remOK && strings.HasPrefix(dy, "p:expected[")
		})
		c.Check(ok, "C13.R1", "checkSubgroup/true-only-on-match", r.Pos(), "checkSubgroup returns true only when p mod divider equals an expected residue")
	}
	c.Floor("C13.R1b", 1, m)
}

func blockOnPath(res *engine.AbstractResult, b *ssa.BasicBlock) bool {
	for _, bi := range res.Path {
		if b.Index == bi {
			return true
		}
	}
	return false
}

// variadicInts lists the integer constants of a variadic argument (slice of a
// freshly allocated array with constant stores).
func variadicInts(v ssa.Value) []int64 {
	sl, ok := v.(*ssa.Slice)
	if !ok {
		return nil
	}
	a, ok := sl.X.(*ssa.Alloc)
	if !ok {
		return nil
	}
	vals := map[int64]int64{}
	for _, r := range *a.Referrers() {
		ia, ok := r.(*ssa.IndexAddr)
		if !ok {
			continue
		}
		idx, _ := engine.ConstInt(ia.Index)
		for _, rr := range *ia.Referrers() {
			if st, ok := rr.(*ssa.Store); ok {
				if k, ok := engine.ConstInt(st.Val); ok {
					vals[idx] = k
				}
			}
		}
	}
	var out []int64
	for i := int64(0); i < int64(len(vals)); i++ {
		out = append(out, vals[i])
	}
	sort.Slice(out, func(i, j int) bool { return out[i] < out[j] })
	return out
}

func c13R2(c *engine.Ctx) {
	fn := c.MustFunc("C13.R2", "crypto", "InRange")
	if fn == nil {
		return
	}
	x, lo, hi := fn.Params[0], fn.Params[1], fn.Params[2]
	n := 0
	for _, a := range []int{-1, 0, 1} {
		for _, b := range []int{-1, 0, 1} {
			a, b := a, b
			n++
			res, err := engine.AbstractRun(fn, func(p, q ssa.Value) (int, bool) {
				call := isCallTo(p, "(*math/big.Int).Cmp")
				k, isK := engine.ConstInt(q)
				if call == nil || !isK {
					return 0, false
				}
				ar := call.Common().Args
				switch {
				case ar[0] == ssa.Value(x) && ar[1] == ssa.Value(lo):
					return cmp64(int64(a), k), true
				case ar[0] == ssa.Value(lo) && ar[1] == ssa.Value(x):
					return cmp64(int64(-a), k), true
				case ar[0] == ssa.Value(x) && ar[1] == ssa.Value(hi):
					return cmp64(int64(b), k), true
				case ar[0] == ssa.Value(hi) && ar[1] == ssa.Value(x):
					return cmp64(int64(-b), k), true
				}
				return 0, false
			})
			key := fmt.Sprintf("InRange/class(x?min=%d,x?max=%d)", a, b)
			if err != nil || res.Bool == nil {
				c.Undecided("C13.R2", key, fn.Pos(), "abstract evaluation failed: %v", err)
				continue
			}
			want := a > 0 && b < 0
			c.Check(*res.Bool == want, "C13.R2", key, fn.Pos(), "InRange with sign(x-min)=%d sign(x-max)=%d yields %v, strict range requires %v", a, b, *res.Bool, want)
		}
	}
	c.Extra["classes_inrange"] = n
	c.Floor("C13.R2", 9, n)
}

func c13R3(c *engine.Ctx) {
	fn := c.MustFunc("C13.R3", "crypto", "CheckDHParams")
	if fn == nil {
		return
	}
	bits, _ := constInt(c, "crypto", "RSAKeyBits")
	c.Check(bits == 2048, "C13.R3", "RSAKeyBits", fn.Pos(), "RSAKeyBits = %d (2048 expected: safety margin 2^(2048-64))", bits)
	// decided by class evaluation (bigrange.go): g, g_a, g_b are placed in every
	// order class relative to the bounds the function uses and the specified ones
	d := dhParamsEval(c)
	if d.err != nil {
		c.Undecided("C13.R3", "CheckDHParams/classes", fn.Pos(), "class evaluation of CheckDHParams failed: %v", d.err)
		return
	}
	c.Extra["classes_checkdhparams"] = d.t.Runs
	for _, r := range d.ranges {
		cls := d.acceptedOutside(r)
		c.Check(cls == "", "C13.R3", "CheckDHParams/"+r.name, fn.Pos(), "CheckDHParams must refuse every value outside %s; it accepts the class: %s", r.name, cls)
	}
	cls := d.rejectedInside()
	c.Check(cls == "", "C13.R3", "CheckDHParams/accepts-every-value-inside", fn.Pos(), "CheckDHParams must accept values strictly inside all ranges; it refuses the class: %s", cls)
	c.Floor("C13.R3", 729, d.t.Runs)
}

func c13R4(c *engine.Ctx) {
	// CheckDH accepts exactly 2048-bit primes: the accepting path lies on the
	// BitLen(p) == 2048 edge (a one-sided test accepts the other side)
	if dh := c.MustFunc("C13.R4", "crypto", "CheckDH"); dh != nil {
		bits, _ := constInt(c, "crypto", "RSAKeyBits")
		n := 0
		for _, r := range engine.SuccessReturns(dh) {
			n++
			ok := engine.GuardedBy(r, func(k engine.Cmp) bool {
				call := isCallTo(k.X, "(*math/big.Int).BitLen")
				v, isN := engine.ConstInt(k.Y)
				return call != nil && call.Common().Args[0] == ssa.Value(dh.Params[1]) && k.Op == token.EQL && isN && v == bits && bits == 2048
			})
			c.Check(ok, "C13.R4", "CheckDH/exactly-2048-bit#"+ordinal(dh, r), r.Pos(), "CheckDH may accept only when p.BitLen() == 2048 holds on the path (both a shorter and a longer prime must be refused)")
		}
		c.Floor("C13.R4", 1, n)
	}
	fn := c.MustFunc("C13.R4", "crypto", "checkPrime")
	if fn == nil {
		return
	}
	for _, r := range engine.SuccessReturns(fn) {
		okP, okHalf := false, false
		for _, g := range engine.Guards(r) {
			k := g.Cmp()
			call := isCallTo(k.X, "crypto.Prime")
			b, isB := engine.ConstBool(k.Y)
			if call == nil || !isB || !b {
				continue
			}
			d := engine.Describe(call.Common().Args[0])
			if d == "p:p" {
				okP = true
			}
			if strings.HasPrefix(d, "(*math/big.Int).Quo(") && strings.Contains(d, "(*math/big.Int).Sub(math/big.NewInt(0), p:p, math/big.NewInt(1))") && strings.HasSuffix(d, "math/big.NewInt(2))") {
				okHalf = true
			}
		}
		c.Check(okP, "C13.R4", "checkPrime/p-prime", r.Pos(), "checkPrime must require Prime(p)")
		c.Check(okHalf, "C13.R4", "checkPrime/half-prime", r.Pos(), "checkPrime must require Prime((p-1)/2)")
	}
}

// cmpSigns: the values s of a three-way comparison result (-1, 0, +1) for which
// "s op cst" holds.
func cmpSigns(op token.Token, cst int64) map[int]bool {
	out := map[int]bool{}
	for _, s := range []int64{-1, 0, 1} {
		holds := false
		switch op {
		case token.EQL:
			holds = s == cst
		case token.NEQ:
			holds = s != cst
		case token.GTR:
			holds = s > cst
		case token.GEQ:
			holds = s >= cst
		case token.LSS:
			holds = s < cst
		case token.LEQ:
			holds = s <= cst
		}
		if holds {
			out[int(s)] = true
		}
	}
	return out
}

func c13R5(c *engine.Ctx) {
	fn := c.MustFunc("C13.R5", "crypto", "DecomposePQ")
	if fn == nil {
		return
	}
	n := 0
	for _, r := range engine.Returns(fn) {
		if engine.ReturnKind(r, 2) == "nonnil" {
			continue
		}
		n++
		// Every way of reaching this return — one per incoming edge when the results
		// are selected by phis, the return itself otherwise — must carry a comparison
		// of the two returned values that implies first <= second.
		type way struct {
			a, b  ssa.Value
			conds []engine.Guard
		}
		var ways []way
		p0, ok0 := engine.RetVal(r, 0).(*ssa.Phi)
		p1, ok1 := engine.RetVal(r, 1).(*ssa.Phi)
		if ok0 && ok1 && p0.Block() == p1.Block() {
			for k, pred := range p0.Block().Preds {
				last := pred.Instrs[len(pred.Instrs)-1]
				conds := engine.Guards(last)
				if iff, isIf := last.(*ssa.If); isIf {
					conds = append(conds, engine.Guard{If: iff, Branch: pred.Succs[0] == p0.Block()})
				}
				ways = append(ways, way{p0.Edges[k], p1.Edges[k], conds})
			}
		} else {
			ways = append(ways, way{engine.RetVal(r, 0), engine.RetVal(r, 1), engine.Guards(r)})
		}
		okAll := true
		detail := ""
		for _, w := range ways {
			a, b := engine.Unwrap(w.a), engine.Unwrap(w.b)
			ordered := false
			for _, gd := range w.conds {
				kc := gd.Cmp()
				call := isCallTo(kc.X, "(*math/big.Int).Cmp")
				cst, isK := engine.ConstInt(kc.Y)
				if call == nil || !isK {
					continue
				}
				x, y := engine.Unwrap(call.Common().Args[0]), engine.Unwrap(call.Common().Args[1])
				signs := cmpSigns(kc.Op, cst) // possible signs of x-y on this edge
				switch {
				case x == a && y == b: // a-b must be <= 0
					ordered = ordered || (len(signs) > 0 && !signs[1])
				case x == b && y == a: // b-a must be >= 0
					ordered = ordered || (len(signs) > 0 && !signs[-1])
				}
			}
			if !ordered {
				okAll = false
				detail = "(" + engine.Describe(a) + ", " + engine.Describe(b) + ") is returned on a path without a comparison that puts the first below the second"
			}
		}
		c.Check(okAll, "C13.R5", "DecomposePQ/ordered-result", r.Pos(), "the factors must be returned in ascending order: swap exactly when p > q %s", detail)
	}
	c.Floor("C13.R5", 1, n)
	// R5b: the search loop is left only with a non-trivial divisor: every path to the
	// division pq / g passes the edges g.Cmp(1) == 1 (g > 1) and g.Cmp(pq') == -1 (g < pq),
	// where g is the divisor of that division and pq' the dividend
	for _, div := range engine.CallsTo(fn, false, "(*math/big.Int).Div") {
		a := div.Common().Args
		what, g := a[1], a[2]
		sideEdges := func(other func(ssa.Value) bool, sign int64) map[[2]*ssa.BasicBlock]bool {
			return engine.EdgesWhere(fn, func(k engine.Cmp) bool {
				call := isCallTo(k.X, "(*math/big.Int).Cmp")
				v, isK := engine.ConstInt(k.Y)
				if call == nil || !isK {
					return false
				}
				if ss := cmpSigns(k.Op, v); len(ss) != 1 || !ss[int(sign)] {
					return false
				}
				return call.Common().Args[0] == g && other(call.Common().Args[1])
			})
		}
		gt1 := sideEdges(func(v ssa.Value) bool { return engine.Describe(v) == "math/big.NewInt(1)" }, 1)
		ltPQ := sideEdges(func(v ssa.Value) bool { return v == what }, -1)
		ok1 := len(gt1) >= 1 && everyPathPasses(fn, div, gt1, nil)
		ok2 := len(ltPQ) >= 1 && everyPathPasses(fn, div, ltPQ, nil)
		c.Check(ok1 && ok2, "C13.R5", "DecomposePQ/divisor-non-trivial", div.Pos(), "the factor used to split pq must be known to satisfy 1 < g < pq on every path (g > 1 edge: %v, g < pq edge: %v): a round that degenerates to g = pq must be retried, not returned as (1, pq)", ok1, ok2)
		// the dividend is a copy of the pq parameter
		c.Check(strings.Contains(engine.Describe(what), "p:pq"), "C13.R5", "DecomposePQ/divides-pq", div.Pos(), "the dividend must be pq (is %s)", engine.Describe(what))
	}
}
