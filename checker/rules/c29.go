package rules

import (
	"go/token"
	"sort"
	"strings"

	"golang.org/x/tools/go/ssa"

	"tdverif/checker/engine"
)

// C29 — requests survive primary connection loss without duplicates.
func init() {
	register("C29", []string{"telegram", "telegram/internal/manager", "rpc"}, func(c *engine.Ctx) {
		c.Explain("C29: (R1) Client.invokeConn re-invokes only when errRetryableOnNewConn(err) is true for the error of the last attempt: every cycle through conn.Invoke passes the true edge of that test, and every other outcome returns the attempt's error unchanged. (R2, select cover + snapshot) the wait before a retry is a blocking select with the caller context, the client context (whose case returns a non-nil error, so a closed client never waits for a reconnect) and the connChanged channel read together with conn in one connMux critical section; replaceConn swaps conn, closes the old channel and installs a fresh one, and every caller holds connMux. (R3) telegram.errRetryableOnNewConn is the disjunction over exactly {pool.ErrConnDead, rpc.ErrEngineClosed}, evaluated for all truth assignments (the acknowledged case of C26 yields neither). (R4) every attempt sends the same input and output with the caller's context. (R5, manager) Conn.Run signals 'dead' on every exit unconditionally (deferred), waitSession's blocking select watches readiness, dead and the caller context, returns pool.ErrConnDead on dead and ctx.Err() on the context, and Conn.Invoke returns the waitSession error wrapped (so it stays classifiable).")
		c.NotCover("server-side duplicate detection; liveness of the reconnect loop; kills at protocol steps are classified by C26's rules, not replayed here")
		c29(c)
		c29R6(c)
		// "acknowledged ⇒ not sent again" keys on the engine's ack bookkeeping:
		// every id of an ack batch must reach its waiter (shared with C25.R4)
		c25R4(c, "C29.R7")
	})
}

// c29Snapshot: v is result i of a call, from fn, of a method of the same
// receiver in the same package whose every return gives, in position i, a load
// of a receiver field; returns that load (inside the helper), else nil.
func c29Snapshot(fn *ssa.Function, v ssa.Value) *ssa.UnOp {
	if v == nil {
		return nil
	}
	ex, ok := engine.Unwrap(v).(*ssa.Extract)
	if !ok {
		return nil
	}
	call, isC := ex.Tuple.(*ssa.Call)
	if !isC {
		return nil
	}
	h := call.Common().StaticCallee()
	if h == nil || h.Pkg != fn.Pkg || len(h.Blocks) == 0 || len(call.Common().Args) == 0 || engine.Unwrap(call.Common().Args[0]) != ssa.Value(fn.Params[0]) {
		return nil
	}
	var out *ssa.UnOp
	for _, r := range engine.Returns(h) {
		if ex.Index >= len(r.Results) {
			return nil
		}
		ld, isL := engine.Unwrap(r.Results[ex.Index]).(*ssa.UnOp)
		if !isL || ld.Op != token.MUL {
			return nil
		}
		if out != nil && out != ld {
			return nil
		}
		out = ld
	}
	return out
}

// c29R6: "once the client is closed, pending and new invocations return" rests
// on R5's dead signal, which only a connection that is *run* ever sends. The
// reconnect loop installs the replacement as c.conn before it sleeps, and
// invokeConn waiters move to it at once; so runUntilRestart must start the
// current c.conn on every path, also when its context is already cancelled
// (Run then fails immediately and marks the connection dead).
func c29R6(c *engine.Ctx) {
	fn := c.MustFunc("C29.R6", "telegram", "Client.runUntilRestart")
	if fn == nil {
		return
	}
	var run ssa.CallInstruction
	var runMC *ssa.MakeClosure
	for _, call := range engine.CallsTo(fn, false, "(*tdsync.CancellableGroup).Go") {
		a := engine.Args(call.Common())
		mc, ok := engine.Unwrap(a[1]).(*ssa.MakeClosure)
		if !ok || len(mc.Bindings) != 1 {
			continue
		}
		f, _ := mc.Fn.(*ssa.Function)
		if f == nil || !strings.HasSuffix(f.Name(), "Run$bound") {
			continue
		}
		if engine.Describe(mc.Bindings[0]) == "p:c.conn" {
			run, runMC = call, mc
		}
	}
	ok := run != nil
	if ok {
		ls := engine.Locksets(fn)
		if ld, isL := engine.Unwrap(runMC.Bindings[0]).(*ssa.UnOp); isL {
			ok = ls[ld]["p:c.connMux"]
		}
		for _, r := range exits(fn) {
			if (engine.PathQuery{Fn: fn, Barrier: func(i ssa.Instruction) bool { return i == run.(ssa.Instruction) }}).Reaches(r) {
				ok = false
			}
		}
	}
	c.Check(ok, "C29.R6", "runUntilRestart/current-conn-is-always-run", fn.Pos(), "every path through runUntilRestart must start c.conn (read under connMux) with g.Go(conn.Run): a replacement connection that is installed but never run never signals dead, and callers waiting on it hang after the client is closed")
	c.Floor("C29.R6", 1, 1)
}

func c29(c *engine.Ctx) {
	ic := c.MustFunc("C29.R1", "telegram", "Client.invokeConn")
	if ic == nil {
		return
	}
	// ---- R1 + R4
	var inv *ssa.Call
	n1 := 0
	for _, call := range engine.Calls(ic) {
		cc := call.Common()
		if cc.IsInvoke() && cc.Method.Name() == "Invoke" && engine.InCycle(call) {
			inv, _ = call.(*ssa.Call)
		}
	}
	if inv == nil {
		c.Fail("C29.R1", "invokeConn/attempt", ic.Pos(), "no conn.Invoke inside a retry cycle found")
		return
	}
	a := inv.Common().Args
	c.Check(len(a) == 3 && engine.Describe(a[0]) == "p:ctx" && engine.Describe(a[1]) == "p:input" && engine.Describe(a[2]) == "p:output", "C29.R4", "invokeConn/same-request", inv.Pos(), "every attempt must send the caller's (ctx, input, output)")
	var cls *ssa.Call
	for _, call := range engine.CallsTo(ic, false, "telegram.errRetryableOnNewConn") {
		if engine.Unwrap(call.Common().Args[0]) == ssa.Value(inv) {
			cls, _ = call.(*ssa.Call)
		}
	}
	if cls == nil {
		c.Fail("C29.R1", "invokeConn/classifies-attempt-error", inv.Pos(), "the attempt's error must be classified with errRetryableOnNewConn")
		return
	}
	n1++
	retry := engine.EdgesWhere(ic, callBool(cls, true))
	c.Check(len(retry) == 1 && !(engine.PathQuery{Fn: ic, From: inv, Cut: retry}).Reaches(inv), "C29.R1", "invokeConn/retry-only-if-retryable", inv.Pos(), "every cycle back to conn.Invoke must pass the true edge of errRetryableOnNewConn(err of this attempt): an acknowledged request (plain context error) must never be sent again")
	// the retry edge is taken only when err != nil
	for e := range retry {
		iff := e[0].Instrs[len(e[0].Instrs)-1]
		n1++
		nonNil := func(k engine.Cmp) bool {
			return engine.Unwrap(k.X) == ssa.Value(inv) && engine.IsNil(k.Y) && k.Op == token.NEQ
		}
		// err != nil dominates the test, or is implied by the retry edge itself (the
		// whole condition kept in a variable)
		c.Check(engine.GuardedBy(iff, nonNil) || engine.EdgesWhere(ic, nonNil)[e], "C29.R1", "invokeConn/classified-only-on-error", iff.Pos(), "the classification is consulted only for a non-nil error")
	}
	// non-retry returns hand back the attempt's error unchanged
	for _, r := range engine.Returns(ic) {
		if engine.Unwrap(engine.RetVal(r, 0)) != ssa.Value(inv) {
			continue
		}
		n1++
		// not reachable through the retry edge
		viaRetry := false
		for e := range retry {
			if (engine.PathQuery{Fn: ic, FromBlk: e[1], Barrier: func(i ssa.Instruction) bool { return i == ssa.Instruction(inv) }}).Reaches(r) {
				viaRetry = true
			}
		}
		c.Check(!viaRetry, "C29.R1", "invokeConn/return#"+ordinal(ic, r)+"/result-of-last-attempt", r.Pos(), "the attempt's own result is returned only when no retry was decided")
	}
	c.Floor("C29.R1", 3, n1)

	// ---- R2
	n2 := 0
	var wait *ssa.Select
	for _, sel := range selectsOf(ic) {
		if sel.Blocking && engine.InCycle(sel) {
			wait = sel
		}
	}
	if wait == nil {
		c.Fail("C29.R2", "invokeConn/wait", ic.Pos(), "no blocking wait for the replacement connection")
	} else {
		// reachable only via the retry edge
		n2++
		c.Check(everyPathPasses(ic, wait, retry, nil), "C29.R2", "invokeConn/wait-only-after-retryable", wait.Pos(), "the wait for a new connection happens only after a retryable failure")
		has := map[string]*ssa.BasicBlock{}
		var chLoad ssa.Value
		for _, sc := range engine.SelectCases(wait) {
			if sc.Send {
				continue
			}
			d := engine.Describe(sc.Chan)
			if ld := c29Snapshot(ic, sc.Chan); ld != nil {
				d = engine.Describe(ld) // read inside a snapshot helper such as primaryConn()
			}
			// a channel obtained from a helper of the same receiver (clientDone()
			// returning c.ctx.Done() or nil): described by what the helper returns
			if hc, isC := engine.Unwrap(sc.Chan).(*ssa.Call); isC {
				if h := hc.Common().StaticCallee(); h != nil && len(h.Blocks) > 0 && h.Pkg == ic.Pkg && len(h.Params) == 1 && len(hc.Common().Args) == 1 && engine.Unwrap(hc.Common().Args[0]) == ssa.Value(ic.Params[0]) {
					var ds []string
					for _, r := range engine.Returns(h) {
						for _, l := range engine.Leaves(engine.RetVal(r, 0)) {
							if !engine.IsNil(l) {
								ds = append(ds, strings.ReplaceAll(engine.Describe(l), "p:"+engine.ParamName(h.Params[0])+".", "p:c."))
							}
						}
					}
					if len(ds) > 0 {
						d = strings.Join(ds, " | ")
					}
				}
			}
			switch {
			case isDoneOf(sc.Chan, "p:ctx"):
				has["caller"] = sc.Body
			case strings.Contains(d, "(context.Context).Done(p:c.ctx)"):
				has["client"] = sc.Body
			case d == "p:c.connChanged":
				has["changed"] = sc.Body
				chLoad = sc.Chan
			default:
				c.Undecided("C29.R2", "invokeConn/wait/case#"+itoa(int64(sc.Index)), wait.Pos(), "unrecognised wait case on %s", d)
			}
		}
		n2++
		c.Check(has["caller"] != nil && has["client"] != nil && has["changed"] != nil, "C29.R2", "invokeConn/wait/cover", wait.Pos(), "the wait must watch the caller context, the client context and the connection-changed signal (has %v)", keysOfBlocks(has))
		for _, k := range []string{"caller", "client"} {
			b := has[k]
			if b == nil {
				continue
			}
			n2++
			ok := !(engine.PathQuery{Fn: ic, FromBlk: b}).Reaches(inv)
			for _, r := range engine.Returns(ic) {
				if b == r.Block() || b.Dominates(r.Block()) {
					if engine.IsNil(engine.RetVal(r, 0)) {
						ok = false
					}
				}
			}
			c.Check(ok, "C29.R2", "invokeConn/wait/"+k+"-case-returns-error", wait.Pos(), "when the %s context ends the invocation must return a non-nil error and never wait or retry again", k)
		}
		// snapshot under connMux: conn used by the attempt and the channel waited on are loaded in one critical section
		snapFn := ic
		connLoad, _ := engine.Unwrap(inv.Common().Value).(*ssa.UnOp)
		chL, _ := engine.Unwrap(chLoad).(*ssa.UnOp)
		// both may come out of one call of a snapshot helper: then the two
		// reads and the lock are looked for in the helper, and they are one
		// snapshot only if they are results of the same call
		if a, b := c29Snapshot(ic, inv.Common().Value), c29Snapshot(ic, chLoad); a != nil && b != nil {
			ea, _ := engine.Unwrap(inv.Common().Value).(*ssa.Extract)
			eb, _ := engine.Unwrap(chLoad).(*ssa.Extract)
			if ea != nil && eb != nil && ea.Tuple == eb.Tuple {
				connLoad, chL, snapFn = a, b, a.Parent()
			}
		}
		ls := engine.Locksets(snapFn)
		okSnap := connLoad != nil && chL != nil && ls[connLoad]["p:c.connMux"] && ls[chL]["p:c.connMux"] && engine.Describe(connLoad.X) == "p:c.conn"
		if okSnap {
			for _, u := range engine.CallsTo(snapFn, false, "(*sync.Mutex).Unlock") {
				if engine.Describe(u.Common().Args[0]) != "p:c.connMux" {
					continue
				}
				fst, snd := ssa.Instruction(connLoad), ssa.Instruction(chL)
				if engine.Dominates(snd, fst) {
					fst, snd = snd, fst
				}
				if engine.Dominates(fst, u) && engine.Dominates(u, snd) {
					okSnap = false
				}
			}
		}
		n2++
		c.Check(okSnap, "C29.R2", "invokeConn/snapshot-conn-and-signal", inv.Pos(), "conn and connChanged must be read under connMux in one critical section: otherwise a replacement between the two reads is missed and the request waits for a change that already happened")
	}
	if rc := c.MustFunc("C29.R2", "telegram", "Client.replaceConn"); rc != nil {
		var cl ssa.CallInstruction
		for _, call := range engine.Calls(rc) {
			if engine.CalleeID(call.Common()) == "builtin.close" && engine.Describe(call.Common().Args[0]) == "p:c.connChanged" {
				cl = call
			}
		}
		fresh, setConn := false, false
		engine.Instrs(rc, func(i ssa.Instruction) {
			st, ok := i.(*ssa.Store)
			if !ok {
				return
			}
			switch engine.Describe(st.Addr) {
			case "p:c.connChanged":
				if _, isMk := engine.Unwrap(st.Val).(*ssa.MakeChan); isMk && cl != nil && engine.Dominates(cl, st) {
					fresh = true
				}
			case "p:c.conn":
				setConn = engine.Describe(st.Val) == "p:conn"
			}
		})
		n2++
		c.Check(cl != nil && fresh && setConn, "C29.R2", "replaceConn/swap-close-renew", rc.Pos(), "replaceConn must install the new connection, close the old signal channel and create a fresh one")
		for _, f0 := range allFunctions(c, c.SSA["telegram"]) {
			for _, f := range engine.WithAnon(f0) {
				for _, call := range engine.Calls(f) {
					if call.Common().StaticCallee() != rc {
						continue
					}
					n2++
					recv := engine.Describe(engine.Args(call.Common())[0])
					c.Check(engine.Locksets(f)[call][recv+".connMux"], "C29.R2", engine.FuncID(f)+"/replaceConn#"+ordinalCall(f, call)+"/under-connMux", call.Pos(), "replaceConn does not lock: its caller must hold connMux")
				}
			}
		}
	}
	c.Floor("C29.R2", 6, n2)

	// ---- R3
	if fn := c.MustFunc("C29.R3", "telegram", "errRetryableOnNewConn"); fn != nil {
		var tests []*ssa.Call
		var targets []string
		for _, call := range engine.CallsTo(fn, false, "github.com/go-faster/errors.Is", "errors.Is") {
			cc := call.(*ssa.Call)
			tests = append(tests, cc)
			targets = append(targets, engine.Describe(cc.Common().Args[1]))
		}
		sort.Strings(targets)
		c.Check(strings.Join(targets, ",") == "g:pool.ErrConnDead,g:rpc.ErrEngineClosed", "C29.R3", "errRetryableOnNewConn/set", fn.Pos(), "retryable errors must be exactly {pool.ErrConnDead, rpc.ErrEngineClosed} (tests %v)", targets)
		n3 := 0
		for mask := 0; len(tests) > 0 && len(tests) <= 4 && mask < 1<<len(tests); mask++ {
			res, err := engine.AbstractRunOpt(fn, func(x, y ssa.Value) (int, bool) { return 0, false }, func(v ssa.Value) (bool, bool) {
				for i, t := range tests {
					if v == ssa.Value(t) {
						return mask&(1<<i) != 0, true
					}
				}
				return false, false
			})
			if err != nil || res.Bool == nil {
				c.Undecided("C29.R3", "errRetryableOnNewConn/evaluate", fn.Pos(), "cannot evaluate abstractly: %v", err)
				break
			}
			n3++
			c.Check(*res.Bool == (mask != 0), "C29.R3", "errRetryableOnNewConn/assignment-"+itoa(int64(mask)), fn.Pos(), "for test outcomes %b the function returns %v; it must be the disjunction", mask, *res.Bool)
		}
		c.Floor("C29.R3", 4, n3)
	}

	// ---- R5 manager
	n5 := 0
	if run := c.MustFunc("C29.R5", "telegram/internal/manager", "Conn.Run"); run != nil {
		ok := false
		for _, d := range defersOf(run) {
			if strings.HasSuffix(engine.CalleeID(d.Common()), "Ready).Signal") && engine.Describe(engine.Args(d.Common())[0]) == "p:c.dead" && len(engine.Guards(d)) == 0 {
				// armed before anything can exit
				cov := true
				for _, r := range exits(run) {
					if !engine.Dominates(d, r) {
						cov = false
					}
				}
				ok = cov
			}
		}
		n5++
		c.Check(ok, "C29.R5", "manager.Conn.Run/dead-signalled-on-every-exit", run.Pos(), "Run must defer c.dead.Signal() unconditionally: a connection stopped by cancellation must also wake requests blocked in waitSession")
	}
	if ws := c.MustFunc("C29.R5", "telegram/internal/manager", "Conn.waitSession"); ws != nil {
		for _, sel := range selectsOf(ws) {
			if !sel.Blocking {
				continue
			}
			n5++
			has := map[string]*ssa.BasicBlock{}
			for _, sc := range engine.SelectCases(sel) {
				d := engine.Describe(sc.Chan)
				switch {
				case strings.Contains(d, "Ready(p:c.gotConfig)"):
					has["ready"] = sc.Body
				case strings.Contains(d, "Ready(p:c.dead)"):
					has["dead"] = sc.Body
				case isDoneOf(sc.Chan, "p:ctx"):
					has["ctx"] = sc.Body
				}
			}
			c.Check(has["ready"] != nil && has["dead"] != nil && has["ctx"] != nil, "C29.R5", "manager.Conn.waitSession/cover", sel.Pos(), "the readiness wait must also watch connection death and the caller context (has %v)", keysOfBlocks(has))
			for _, r := range engine.Returns(ws) {
				switch {
				case has["dead"] != nil && (has["dead"] == r.Block() || has["dead"].Dominates(r.Block())):
					n5++
					c.Check(engine.Describe(engine.RetVal(r, 0)) == "g:pool.ErrConnDead", "C29.R5", "manager.Conn.waitSession/dead-returns-ErrConnDead", r.Pos(), "a request that found its connection dead before it was sent must fail with pool.ErrConnDead (retryable)")
				case has["ctx"] != nil && (has["ctx"] == r.Block() || has["ctx"].Dominates(r.Block())):
					n5++
					c.Check(engine.Describe(engine.RetVal(r, 0)) == "(context.Context).Err(p:ctx)", "C29.R5", "manager.Conn.waitSession/ctx-returns-ctx-err", r.Pos(), "caller cancellation must surface as ctx.Err()")
				}
			}
		}
	}
	if inv := c.MustFunc("C29.R5", "telegram/internal/manager", "Conn.Invoke"); inv != nil {
		for _, call := range engine.CallsTo(inv, false, "(*telegram/internal/manager.Conn).waitSession") {
			n5++
			wc := call.(*ssa.Call)
			ok := false
			for _, r := range engine.Returns(inv) {
				if w := engine.CallOf(engine.RetVal(r, 0)); w != nil && strings.HasSuffix(engine.CalleeID(w.Common()), "errors.Wrap") && engine.Unwrap(w.Common().Args[0]) == ssa.Value(wc) {
					ok = true
				}
			}
			// the request is not sent when waitSession failed
			sent := false
			e := engine.EdgesWhere(inv, func(k engine.Cmp) bool { return engine.Unwrap(k.X) == ssa.Value(wc) && engine.IsNil(k.Y) && k.Op == token.NEQ })
			for ed := range e {
				for _, pc := range engine.Calls(inv) {
					if pc.Common().IsInvoke() && pc.Common().Method.Name() == "Invoke" && (engine.PathQuery{Fn: inv, FromBlk: ed[1]}).Reaches(pc) {
						sent = true
					}
				}
			}
			c.Check(ok && !sent && len(e) == 1, "C29.R5", "manager.Conn.Invoke/wait-error-wrapped-not-sent", call.Pos(), "a failed waitSession must be returned wrapped (classifiable with errors.Is) without sending the request")
		}
	}
	c.Floor("C29.R5", 5, n5)
}

func keysOfBlocks(m map[string]*ssa.BasicBlock) []string {
	var out []string
	for k, v := range m {
		if v != nil {
			out = append(out, k)
		}
	}
	sort.Strings(out)
	return out
}
