package rules

import (
	"go/token"
	"sort"
	"strings"

	"golang.org/x/tools/go/ssa"

	"tdverif/checker/engine"
)

// C26 — closing or cancelling never strands callers and classifies retryability.
func init() {
	register("C26", []string{"rpc", "pool", "telegram", "mtproto"}, func(c *engine.Ctx) {
		c.Explain("C26: (R1, select cover) every blocking select of Engine.Do and retryUntilAck has a case on e.reqCtx.Done(); New takes reqCtx and reqCancel from one context.WithCancelCause call; ForceClose calls reqCancel(ErrEngineClosed) before Close; Do refuses a closed engine with ErrEngineClosed. (R2, error origins) in the retry loop the engine-closed case returns nil only after a successful poll of the ack channel and otherwise an error wrapping context.Cause(e.reqCtx); in Do (request acknowledged) the engine-closed case returns the handler result only after a poll of done and otherwise an error built from e.reqCtx.Err(), never from the cause. (R3, sibling sets) pool.errRetryableOnNewConn and telegram.errRetryableOnNewConn are evaluated for every truth assignment of their errors.Is tests: both are the disjunction over exactly {pool.ErrConnDead, rpc.ErrEngineClosed}. (R4, drop) the drop handler is called at one site, outside any cycle, with the request of Do, only in the caller-context case and only under sent == true, and in that case every path with sent == true passes it; the return between retryUntilAck and the wait is taken only when the error is not the retry context's own error, so a context-ended retry always reaches the drop decision; mtproto wires dropRPC, which asks to drop req.MsgID. (R5) the classification keys on the ack: waitAck/NotifyAcks/removeAck bookkeeping (one channel per id, every id of a batch visited, close+delete under e.mux).")
		c.NotCover("promptness (time); schedules; whether the transport delivers the drop request")
		c26(c)
	})
}

func c26(c *engine.Ctx) {
	do := c.MustFunc("C26.R1", "rpc", "Engine.Do")
	ru := c.MustFunc("C26.R1", "rpc", "Engine.retryUntilAck")
	if do == nil || ru == nil {
		return
	}
	// ---- R1
	n1 := 0
	var doSel, loopSel *ssa.Select
	for _, root := range []*ssa.Function{do, ru} {
		for _, f := range engine.WithAnon(root) {
			c.SawFunc(f)
			for _, sel := range selectsOf(f) {
				if !sel.Blocking {
					continue
				}
				n1++
				has := false
				for _, sc := range engine.SelectCases(sel) {
					if !sc.Send && isDoneOf(sc.Chan, "p:e.reqCtx") {
						has = true
					}
				}
				c.Check(has, "C26.R1", engine.FuncID(f)+"/select#"+ordinal(f, sel)+"/has-engine-ctx-case", sel.Pos(), "a blocking wait of the rpc engine must also wait for e.reqCtx.Done(), otherwise ForceClose strands the caller")
				if root == do {
					doSel = sel
				} else {
					loopSel = sel
				}
			}
		}
	}
	c.Floor("C26.R1", 2, n1)
	if fc := c.MustFunc("C26.R1", "rpc", "Engine.ForceClose"); fc != nil {
		var cancel, cl ssa.CallInstruction
		for _, call := range engine.Calls(fc) {
			cc := call.Common()
			if cc.StaticCallee() == nil && !cc.IsInvoke() && descCell(cc.Value) == "p:e.reqCancel" {
				cancel = call
			}
			if engine.CalleeID(cc) == "(*rpc.Engine).Close" {
				cl = call
			}
		}
		ok := cancel != nil && cl != nil && engine.Dominates(cancel, cl) && engine.Describe(cancel.Common().Args[0]) == "g:rpc.ErrEngineClosed"
		c.Check(ok, "C26.R1", "ForceClose/cancel-with-cause-before-close", fc.Pos(), "ForceClose must call reqCancel(ErrEngineClosed) before waiting in Close")
		// … on every path: a ForceClose that returns without cancelling leaves
		// the pending calls (and a Close already waiting for them) stranded
		uncond := cancel != nil
		for _, r := range exits(fc) {
			if cancel != nil && (engine.PathQuery{Fn: fc, Barrier: func(i ssa.Instruction) bool { return i == cancel.(ssa.Instruction) }}).Reaches(r) {
				uncond = false
			}
		}
		c.Check(uncond, "C26.R1", "ForceClose/cancels-on-every-path", fc.Pos(), "every path through ForceClose must call reqCancel (also when a graceful Close is already in progress)")
	}
	if nw := c.MustFunc("C26.R1", "rpc", "New"); nw != nil {
		ok := false
		for _, r := range engine.Returns(nw) {
			cx := engine.StructFieldValue(r.Results[0], "reqCtx")
			cn := engine.StructFieldValue(r.Results[0], "reqCancel")
			ex, ok1 := cx.(*ssa.Extract)
			en, ok2 := cn.(*ssa.Extract)
			if ok1 && ok2 && ex.Tuple == en.Tuple && ex.Index == 0 && en.Index == 1 {
				if call := engine.CallOf(ex); call != nil && engine.CalleeID(call.Common()) == "context.WithCancelCause" {
					ok = true
				}
			}
		}
		c.Check(ok, "C26.R1", "New/reqCtx-and-cancel-paired", nw.Pos(), "reqCtx and reqCancel must come from one context.WithCancelCause call")
	}
	// closed engine refuses with ErrEngineClosed
	{
		found := false
		for _, r := range engine.Returns(do) {
			if engine.GuardedBy(r, func(k engine.Cmp) bool {
				b, ok := engine.ConstBool(k.Y)
				return ok && b && engine.Describe(k.X) == "p:e.closed"
			}) {
				found = true
				c.Check(engine.Describe(engine.RetVal(r, 0)) == "g:rpc.ErrEngineClosed", "C26.R1", "Do/closed-engine-error", r.Pos(), "a closed engine must refuse with ErrEngineClosed (nothing was sent: retryable)")
			}
		}
		c.Check(found, "C26.R1", "Do/closed-engine-refused", do.Pos(), "Do must refuse when e.closed is set")
	}

	// ---- R2
	n2 := 0
	s := rpcDoShape(c, "C26.R2")
	if loopSel != nil {
		lf := loopSel.Parent()
		isAck := func(v ssa.Value) bool {
			return strings.HasPrefix(descCell(v), "(*rpc.Engine).waitAck(p:e, p:req.MsgID)")
		}
		for _, sc := range engine.SelectCases(loopSel) {
			if sc.Send || !isDoneOf(sc.Chan, "p:e.reqCtx") || sc.Body == nil {
				continue
			}
			for _, r := range engine.Returns(lf) {
				if !(sc.Body == r.Block() || sc.Body.Dominates(r.Block())) {
					continue
				}
				n2++
				v := engine.RetVal(r, engine.ErrIndex(lf))
				key := "retry-loop/engine-closed/return#" + ordinal(lf, r)
				if engine.IsNil(v) {
					polled := false
					for _, rv := range recvsOf(lf) {
						if isAck(rv.Chan) && rv.Select != nil && rv.Select != loopSel && afterRecv(rv, r) {
							polled = true
						}
					}
					c.Check(polled, "C26.R2", key, r.Pos(), "the unacknowledged engine-closed path may report success only after the ack channel was found closed")
				} else {
					d := descCell(v)
					c.Check(strings.Contains(d, "context.Cause(p:e.reqCtx)"), "C26.R2", key, r.Pos(), "engine closed before the ack: the error must wrap context.Cause(e.reqCtx) (= ErrEngineClosed, retryable); is %s", d)
				}
			}
		}
	}
	if doSel != nil && s != nil {
		for _, sc := range engine.SelectCases(doSel) {
			if sc.Send || !isDoneOf(sc.Chan, "p:e.reqCtx") || sc.Body == nil {
				continue
			}
			for _, r := range engine.Returns(do) {
				if !(sc.Body == r.Block() || sc.Body.Dominates(r.Block())) {
					continue
				}
				n2++
				v := engine.RetVal(r, 0)
				key := "Do/engine-closed/return#" + ordinal(do, r)
				if ld, ok := v.(*ssa.UnOp); ok && s.resCell != nil && cell(ld.X) == s.resCell {
					polled := false
					for _, rv := range recvsOf(do) {
						if cell(rv.Chan) == s.doneCell && afterRecv(rv, r) {
							polled = true
						}
					}
					c.Check(polled, "C26.R2", key, r.Pos(), "the result may be preferred over the close only after done was received")
					continue
				}
				d := descCell(v)
				c.Check(strings.Contains(d, "(context.Context).Err(p:e.reqCtx)") && !strings.Contains(d, "context.Cause") && !strings.Contains(d, "ErrEngineClosed"), "C26.R2", key, r.Pos(),
					"engine closed after the ack: the server may have processed the request, the error must be the plain context error (not retryable), never the ErrEngineClosed cause; is %s", d)
			}
		}
	}
	c.Floor("C26.R2", 4, n2)

	// ---- R3 sibling classification sets
	want := []string{"g:pool.ErrConnDead", "g:rpc.ErrEngineClosed"}
	n3 := 0
	for _, site := range [][2]string{{"pool", "errRetryableOnNewConn"}, {"telegram", "errRetryableOnNewConn"}} {
		fn := c.MustFunc("C26.R3", site[0], site[1])
		if fn == nil {
			continue
		}
		var tests []*ssa.Call
		var targets []string
		for _, call := range engine.CallsTo(fn, false, "github.com/go-faster/errors.Is", "errors.Is") {
			cc := call.(*ssa.Call)
			tests = append(tests, cc)
			targets = append(targets, engine.Describe(cc.Common().Args[1]))
			c.Check(engine.Describe(cc.Common().Args[0]) == "p:err", "C26.R3", site[0]+"."+site[1]+"/tests-its-argument#"+ordinalCall(fn, call), call.Pos(), "errors.Is must test the function's argument")
		}
		sort.Strings(targets)
		c.Check(strings.Join(targets, ",") == strings.Join(want, ","), "C26.R3", site[0]+"."+site[1]+"/set", fn.Pos(), "retryable-on-new-connection errors must be exactly {pool.ErrConnDead, rpc.ErrEngineClosed}; tests %v", targets)
		// truth table: result == OR of the tests
		okTT := len(tests) > 0 && len(tests) <= 4
		for mask := 0; okTT && mask < 1<<len(tests); mask++ {
			res, err := engine.AbstractRunOpt(fn, func(x, y ssa.Value) (int, bool) { return 0, false }, func(v ssa.Value) (bool, bool) {
				for i, t := range tests {
					if v == ssa.Value(t) {
						return mask&(1<<i) != 0, true
					}
				}
				return false, false
			})
			if err != nil || res.Bool == nil {
				c.Undecided("C26.R3", site[0]+"."+site[1]+"/evaluate", fn.Pos(), "cannot evaluate the classification function abstractly: %v", err)
				okTT = false
				break
			}
			n3++
			if *res.Bool != (mask != 0) {
				okTT = false
				c.Fail("C26.R3", site[0]+"."+site[1]+"/disjunction", fn.Pos(), "for test outcomes %b the function returns %v; it must be the disjunction of its tests", mask, *res.Bool)
			}
		}
		if okTT {
			c.Pass("C26.R3", site[0]+"."+site[1]+"/disjunction", fn.Pos(), "evaluated for all %d truth assignments: result is the disjunction of the tests", 1<<len(tests))
		}
	}
	c.Floor("C26.R3", 8, n3)

	// ---- R4 drop
	c26R4(c, do, doSel)
	// ---- R5 "acknowledged" is what the classification keys on: ack bookkeeping (shared with C25.R4)
	c25R4(c, "C26.R5")
	// ---- R6 who may produce the retryable error. The classification of R3
	// means "nothing acknowledged was lost" only if ErrEngineClosed reaches a
	// caller from the two engine sites decided above and from nowhere else:
	// every other reference may only be the target of errors.Is.
	n6 := 0
	for _, p := range []string{"rpc", "pool", "telegram", "mtproto"} {
		for _, f := range allFunctions(c, c.SSA[p]) {
			for _, g := range engine.WithAnon(f) {
				engine.Instrs(g, func(i ssa.Instruction) {
					ld, ok := i.(*ssa.UnOp)
					if !ok || ld.Op != token.MUL {
						return
					}
					gl, isG := ld.X.(*ssa.Global)
					if !isG || gl.Name() != "ErrEngineClosed" || gl.Pkg == nil || !strings.HasSuffix(gl.Pkg.Pkg.Path(), "/rpc") {
						return
					}
					for _, ref := range *ld.Referrers() {
						n6++
						okRef, why := false, "flows into "+ref.String()
						switch r := ref.(type) {
						case *ssa.Call:
							id := engine.CalleeID(r.Common())
							a := r.Common().Args
							if strings.HasSuffix(id, "errors.Is") && len(a) == 2 && a[1] == ssa.Value(ld) && a[0] != ssa.Value(ld) {
								okRef = true
							}
							if p == "rpc" && engine.FuncID(g) == "(*rpc.Engine).ForceClose" && descCell(r.Common().Value) == "p:e.reqCancel" {
								okRef = true
							}
						case *ssa.Store:
							// the error result spilled for the deferred calls
							_, slot := r.Addr.(*ssa.Alloc)
							okRef = slot && r.Val == ssa.Value(ld) && p == "rpc" && engine.FuncID(g) == "(*rpc.Engine).Do" && engine.GuardedBy(r, func(k engine.Cmp) bool {
								b, isB := engine.ConstBool(k.Y)
								return isB && b && engine.Describe(k.X) == "p:e.closed"
							})
						case *ssa.Return:
							okRef = p == "rpc" && engine.FuncID(g) == "(*rpc.Engine).Do" && engine.GuardedBy(r, func(k engine.Cmp) bool {
								b, isB := engine.ConstBool(k.Y)
								return isB && b && engine.Describe(k.X) == "p:e.closed"
							})
						}
						c.Check(okRef, "C26.R6", engine.FuncID(g)+"/ErrEngineClosed#"+ordinal(g, ld), ld.Pos(), "rpc.ErrEngineClosed may be produced only by Do on a closed engine and as ForceClose's cancel cause; elsewhere it may only be tested with errors.Is (%s)", why)
					}
				})
			}
		}
	}
	c.Floor("C26.R6", 4, n6)
}

func c26R4(c *engine.Ctx, do *ssa.Function, doSel *ssa.Select) {
	n := 0
	var drops []ssa.CallInstruction
	for _, f := range engine.WithAnon(do) {
		for _, call := range engine.Calls(f) {
			cc := call.Common()
			if cc.StaticCallee() == nil && !cc.IsInvoke() && descCell(cc.Value) == "p:e.drop" {
				drops = append(drops, call)
			}
		}
	}
	// the drop may be issued by a method of the engine that Do calls with its
	// request (dropCanceled(ctx, logger, req)): the call of that method is then
	// the drop site, provided the method drops its request parameter exactly once
	// on every path
	var dropArg ssa.Value
	if len(drops) == 0 {
		for _, hc := range engine.Calls(do) {
			h := hc.Common().StaticCallee()
			if h == nil || len(h.Blocks) == 0 || h.Pkg != do.Pkg || len(h.Params) == 0 {
				continue
			}
			var inner []ssa.CallInstruction
			for _, call := range engine.Calls(h) {
				cc := call.Common()
				if cc.StaticCallee() == nil && !cc.IsInvoke() && engine.Describe(cc.Value) == "p:"+engine.ParamName(h.Params[0])+".drop" {
					inner = append(inner, call)
				}
			}
			if len(inner) != 1 || engine.InCycle(inner[0]) {
				continue
			}
			skips := false
			for _, x := range exits(h) {
				if (engine.PathQuery{Fn: h, FromBlk: h.Blocks[0], Barrier: func(i ssa.Instruction) bool { return i == ssa.Instruction(inner[0]) }}).Reaches(x) {
					skips = true
				}
			}
			if a := argOfParam(inner[0].Common().Args[0], hc); a != nil && !skips {
				drops = append(drops, hc)
				dropArg = a
			}
		}
	}
	c.Check(len(drops) == 1, "C26.R4", "Do/one-drop-site", do.Pos(), "exactly one call of the drop handler expected in Do, found %d", len(drops))
	if len(drops) != 1 || doSel == nil {
		return
	}
	drop := drops[0]
	if dropArg == nil {
		dropArg = drop.Common().Args[0]
	}
	var ruCall *ssa.Call
	for _, call := range engine.CallsTo(do, false, "(*rpc.Engine).retryUntilAck") {
		ruCall, _ = call.(*ssa.Call)
	}
	if ruCall == nil || drop.Parent() != do {
		c.Fail("C26.R4", "Do/shape", do.Pos(), "retryUntilAck call or in-function drop call not found")
		return
	}
	isSent := func(v ssa.Value) bool {
		ex, ok := engine.Unwrap(v).(*ssa.Extract)
		return ok && ex.Tuple == ssa.Value(ruCall) && ex.Index == 0
	}
	sentIs := func(want bool) func(engine.Cmp) bool {
		return func(k engine.Cmp) bool {
			b, ok := engine.ConstBool(k.Y)
			return ok && isSent(k.X) && b == want
		}
	}
	n++
	c.Check(descCell(dropArg) == "p:req", "C26.R4", "Do/drop/argument", drop.Pos(), "the drop handler must receive the request of this call")
	c.Check(!engine.InCycle(drop), "C26.R4", "Do/drop/once", drop.Pos(), "the drop call must not lie on a cycle (exactly one drop)")
	c.Check(engine.GuardedBy(drop, sentIs(true)), "C26.R4", "Do/drop/only-if-sent", drop.Pos(), "a request that was never sent must not be dropped")
	var ctxBody *ssa.BasicBlock
	for _, sc := range engine.SelectCases(doSel) {
		if !sc.Send && isDoneOf(sc.Chan, "p:ctx") {
			ctxBody = sc.Body
		}
	}
	inCtx := ctxBody != nil && (ctxBody == drop.Block() || ctxBody.Dominates(drop.Block()))
	c.Check(inCtx, "C26.R4", "Do/drop/only-on-caller-cancel", drop.Pos(), "the drop request belongs to the caller-context case of the wait")
	if ctxBody != nil {
		// every path of the ctx case with sent == true passes the drop call
		cut := engine.EdgesWhere(do, sentIs(false))
		for _, r := range engine.Returns(do) {
			if !(ctxBody == r.Block() || ctxBody.Dominates(r.Block())) {
				continue
			}
			n++
			miss := engine.PathQuery{Fn: do, FromBlk: ctxBody, Cut: cut, Barrier: func(i ssa.Instruction) bool { return i == drop.(ssa.Instruction) }}.Reaches(r)
			c.Check(!miss, "C26.R4", "Do/cancel-case/return#"+ordinal(do, r)+"/drop-if-sent", r.Pos(), "a cancelled call whose request was sent must pass the drop call before returning")
		}
	}
	// the early return between retryUntilAck and the wait
	for _, r := range engine.Returns(do) {
		if !engine.Dominates(ruCall, r) || engine.PathExists(doSel, r) {
			continue
		}
		n++
		ok := engine.GuardedBy(r, func(k engine.Cmp) bool {
			call, isC := engine.Unwrap(k.X).(*ssa.Call)
			b, isB := engine.ConstBool(k.Y)
			if !isC || !isB || b {
				return false
			}
			id := engine.CalleeID(call.Common())
			if id != "github.com/go-faster/errors.Is" && id != "errors.Is" {
				return false
			}
			a := call.Common().Args
			e0, ok0 := engine.Unwrap(a[0]).(*ssa.Extract)
			if !ok0 || e0.Tuple != ssa.Value(ruCall) || e0.Index != 1 {
				return false
			}
			errCall := engine.CallOf(a[1])
			if errCall == nil || engine.CalleeID(errCall.Common()) != "(context.Context).Err" {
				return false
			}
			return engine.Unwrap(engine.Args(errCall.Common())[0]) == engine.Unwrap(ruCall.Common().Args[1])
		})
		c.Check(ok, "C26.R4", "Do/early-return#"+ordinal(do, r)+"/not-on-context-end", r.Pos(), "Do may return straight after retryUntilAck only when the error is not the retry context's own error (errors.Is(err, retryCtx.Err()) == false); a context that ended after the send must reach the drop decision")
	}
	// one drop site, at least one return of the cancel case, the early return
	// (today's tree has three returns in the cancel case; a single merged one is the same behaviour)
	c.Floor("C26.R4", 3, n)
	// wiring in mtproto: DropHandler is Conn.dropRPC which drops req.MsgID
	if dr := c.MustFunc("C26.R4", "mtproto", "Conn.dropRPC"); dr != nil {
		ok := false
		for _, call := range engine.CallsTo(dr, false, "(*mtproto.Conn).Invoke") {
			in := engine.Args(call.Common())[2]
			if v := engine.StructFieldValue(in, "ReqMsgID"); v != nil && engine.Describe(v) == "p:req.MsgID" {
				ok = true
			}
		}
		c.Check(ok, "C26.R4", "mtproto/dropRPC/drops-request-id", dr.Pos(), "dropRPC must send rpc_drop_answer for req.MsgID")
	}
	wired := false
	for _, f := range allFunctions(c, c.SSA["mtproto"]) {
		engine.Instrs(f, func(i ssa.Instruction) {
			st, ok := i.(*ssa.Store)
			if !ok {
				return
			}
			if fa, isF := st.Addr.(*ssa.FieldAddr); isF && engine.FieldNameOf(fa) == "DropHandler" && strings.Contains(engine.Describe(st.Val), "dropRPC") {
				wired = true
			}
		})
	}
	c.Check(wired, "C26.R4", "mtproto/drop-handler-wired", 0, "mtproto must install Conn.dropRPC as the engine's DropHandler")
}
