package rules

import (
	"go/token"
	"strings"

	"golang.org/x/tools/go/ssa"

	"tdverif/checker/engine"
)

// C12 — each key-exchange step is bounded by the exchange timeout.
func init() {
	register("C12", []string{"exchange", "mtproto", "transport"}, func(c *engine.Ctx) {
		c.Explain("C12: no blocking transport call in the key exchange can run on a context without the per-step deadline. (R1) every call to transport.Conn.Recv/Send in package exchange receives a context produced by context.WithTimeout(_, <writer>.timeout)/WithDeadline in the same function; (R2) mtproto.Conn.runExchange passes c.exchangeTimeout to Exchanger.WithTimeout on every path to Run, and every call of ClientExchange.Run in mtproto is inside runExchange; Exchanger.WithTimeout stores its argument and unencryptedWriter() copies it; (R3) transport.connection.Recv/Send arm the socket deadline from ctx.Deadline() before the codec call.")
		c.NotCover("elapsed time itself; dial timeouts; PQ factorisation time")
		c12R1(c)
		c12R2(c)
		c12R3(c)
		c12R4(c)
	})
}

// c12R4: the bound on key regeneration reaches the caller only if a failed
// regeneration ends the read loop: on the error edge of handleAuthKeyNotFound
// the loop must not get back to Recv (a timed-out exchange that is swallowed
// leaves Conn.Run blocked on a context without deadline).
func c12R4(c *engine.Ctx) {
	fn := c.MustFunc("C12.R4", "mtproto", "Conn.readLoop")
	if fn == nil {
		return
	}
	var recv ssa.CallInstruction
	for _, call := range engine.Calls(fn) {
		if call.Common().IsInvoke() && call.Common().Method.Name() == "Recv" {
			recv = call
		}
	}
	n := 0
	for _, call := range engine.CallsTo(fn, false, "(*mtproto.Conn).handleAuthKeyNotFound") {
		h, _ := call.(*ssa.Call)
		if h == nil || recv == nil {
			continue
		}
		n++
		fail := engine.EdgesWhere(fn, func(k engine.Cmp) bool {
			return engine.CallOf(k.X) == h && engine.IsNil(k.Y) && k.Op == token.NEQ
		})
		ok := len(fail) > 0
		for e := range fail {
			if (engine.PathQuery{Fn: fn, FromBlk: e[1]}).Reaches(recv) {
				ok = false
			}
			// and it ends with a non-nil error
			for _, r := range engine.Returns(fn) {
				if (engine.PathQuery{Fn: fn, FromBlk: e[1]}).Reaches(r) && engine.ReturnKind(r, 0) == "nil" {
					ok = false
				}
			}
		}
		c.Check(ok, "C12.R4", "readLoop/failed-regeneration-ends-the-loop#"+ordinalCall(fn, call), call.Pos(), "when handleAuthKeyNotFound fails (for instance by the exchange timeout) readLoop must return that error; it must not reach Recv again (error edges found: %d)", len(fail))
	}
	c.Floor("C12.R4", 1, n)
}

func ctxFromTimeout(v ssa.Value) (bool, string) {
	call := engine.CallOf(v)
	if call == nil {
		return false, engine.Describe(v)
	}
	id := engine.CalleeID(call.Common())
	if id != "context.WithTimeout" && id != "context.WithDeadline" {
		// a helper of the package that returns such a context on every return
		// (stepContext(ctx) = context.WithTimeout(ctx, w.timeout))
		if h := call.Common().StaticCallee(); h != nil && len(h.Blocks) > 0 && h.Pkg != nil && strings.HasSuffix(h.Pkg.Pkg.Path(), "/exchange") {
			rets := engine.Returns(h)
			all := len(rets) > 0
			d := ""
			for _, r := range rets {
				ok, dd := ctxFromTimeout(r.Results[0])
				all, d = all && ok, dd
			}
			if all {
				return true, "via " + h.Name() + ": " + d
			}
		}
		return false, engine.Describe(v)
	}
	d := engine.Describe(call.Common().Args[1])
	return strings.HasSuffix(d, ".timeout"), d
}

func c12R1(c *engine.Ctx) {
	sp := c.SSA["exchange"]
	n := 0
	for _, f := range allFunctions(c, sp) {
		for _, g := range engine.WithAnon(f) {
			for _, call := range engine.Calls(g) {
				id := engine.CalleeID(call.Common())
				if id != "(transport.Conn).Recv" && id != "(transport.Conn).Send" {
					continue
				}
				n++
				ok, d := ctxFromTimeout(call.Common().Args[0])
				c.Check(ok, "C12.R1", engine.FuncID(g)+"/"+id+"#"+ordinalCall(g, call), call.Pos(),
					"blocking transport call must run on a context from context.WithTimeout(_, w.timeout); its context is %s", d)
			}
		}
	}
	c.Floor("C12.R1", 2, n)
}

func c12R2(c *engine.Ctx) {
	run := c.MustFunc("C12.R2", "mtproto", "Conn.runExchange")
	if run == nil {
		return
	}
	// all callers of ClientExchange.Run in mtproto are in runExchange
	n := 0
	for _, f := range allFunctions(c, c.SSA["mtproto"]) {
		for _, g := range engine.WithAnon(f) {
			for _, call := range engine.CallsTo(g, false, "(exchange.ClientExchange).Run", "(exchange.ServerExchange).Run") {
				n++
				c.Check(g == run, "C12.R2", "caller:"+engine.FuncID(g), call.Pos(), "exchange Run must be started only through Conn.runExchange (which configures the timeout)")
				if g != run {
					continue
				}
				// the receiver chain passes through WithTimeout(c.exchangeTimeout)
				wts := engine.FindCallBack(engine.Args(call.Common())[0], "(exchange.Exchanger).WithTimeout")
				okT := false
				for _, wt := range wts {
					if strings.HasSuffix(engine.Describe(wt.Common().Args[1]), ".exchangeTimeout") {
						okT = true
					}
				}
				// every path: all Phi leaves of the exchanger must come through WithTimeout — FindCallBack walks all operands, so check
				// that no path reaches Run with an Exchanger that bypasses it.
				c.Check(okT && allPathsThrough(engine.Args(call.Common())[0], "(exchange.Exchanger).WithTimeout"), "C12.R2", "runExchange/timeout-configured", call.Pos(),
					"the Exchanger used for Run must be configured with WithTimeout(c.exchangeTimeout) on every path")
			}
		}
	}
	c.Floor("C12.R2", 1, n)
	// WithTimeout stores its argument into the timeout field of the returned value
	if wt := c.MustFunc("C12.R2", "exchange", "Exchanger.WithTimeout"); wt != nil {
		ok := false
		for _, r := range engine.Returns(wt) {
			d := engine.Describe(r.Results[0])
			_ = d
		}
		engine.Instrs(wt, func(i ssa.Instruction) {
			if st, isS := i.(*ssa.Store); isS {
				if fa, isF := st.Addr.(*ssa.FieldAddr); isF && strings.HasSuffix(engine.Describe(fa), ".timeout") && st.Val == ssa.Value(wt.Params[1]) {
					ok = true
				}
			}
		})
		c.Check(ok, "C12.R2", "Exchanger.WithTimeout/stores", wt.Pos(), "WithTimeout must store its argument in the timeout field")
	}
	// unencryptedWriter() copies e.timeout into the writer
	if uw := c.MustFunc("C12.R2", "exchange", "Exchanger.unencryptedWriter"); uw != nil {
		ok := false
		engine.Instrs(uw, func(i ssa.Instruction) {
			if st, isS := i.(*ssa.Store); isS {
				if fa, isF := st.Addr.(*ssa.FieldAddr); isF && strings.HasSuffix(engine.Describe(fa), ".timeout") && strings.HasSuffix(engine.Describe(st.Val), "p:e.timeout") {
					ok = true
				}
			}
		})
		c.Check(ok, "C12.R2", "Exchanger.unencryptedWriter/copies-timeout", uw.Pos(), "the writer's timeout must be the Exchanger's timeout")
	}
}

// allPathsThrough: every Phi leaf of v is (transitively through method-chain
// receivers) produced by a chain containing a call to id.
func allPathsThrough(v ssa.Value, id string) bool {
	for _, l := range engine.Leaves(v) {
		found := false
		cur := l
		for i := 0; i < 20 && cur != nil; i++ {
			call := engine.CallOf(cur)
			if call == nil {
				break
			}
			if engine.CalleeID(call.Common()) == id {
				found = true
				break
			}
			args := engine.Args(call.Common())
			if len(args) == 0 {
				break
			}
			// follow the receiver; phi receivers are handled by recursion
			ls := engine.Leaves(args[0])
			if len(ls) != 1 {
				all := true
				for _, x := range ls {
					if !allPathsThrough(x, id) {
						all = false
					}
				}
				found = all
				break
			}
			cur = ls[0]
		}
		if !found {
			return false
		}
	}
	return true
}

func c12R3(c *engine.Ctx) {
	n := 0
	for _, spec := range []struct{ fn, set, io string }{
		{"connection.Recv", "(net.Conn).SetReadDeadline", "(transport.Codec).Read"},
		{"connection.Send", "(net.Conn).SetWriteDeadline", "(transport.Codec).Write"},
	} {
		fn := c.MustFunc("C12.R3", "transport", spec.fn)
		if fn == nil {
			continue
		}
		ios := engine.CallsTo(fn, false, spec.io)
		for _, ioCall := range ios {
			n++
			// on every path to the codec call where ctx has a deadline, Set*Deadline(deadline) was called:
			// a SetDeadline call whose argument is ctx.Deadline()#0 exists, it is guarded by Deadline()#1 == true,
			// and no path from the ok==true edge reaches the codec call without it.
			ok := false
			for _, sd := range engine.CallsTo(fn, false, spec.set) {
				arg := sd.Common().Args[0]
				dl := engine.CallOf(arg)
				if dl == nil || engine.CalleeID(dl.Common()) != "(context.Context).Deadline" || engine.Describe(engine.Args(dl.Common())[0]) != "p:ctx" {
					continue
				}
				if !engine.PathExists(sd, ioCall) {
					continue
				}
				// the only way around the set call is the !ok edge
				bypass := engine.PathExistsAvoiding(dl, ioCall, func(i ssa.Instruction) bool { return i == sd })
				guardedByOK := engine.GuardedBy(sd, func(k engine.Cmp) bool {
					e, isE := engine.Unwrap(k.X).(*ssa.Extract)
					b, isB := engine.ConstBool(k.Y)
					return isE && e.Tuple == ssa.Value(dl) && e.Index == 1 && isB && b
				})
				if guardedByOK && bypass {
					// bypass must be exactly the ok==false edge: removing that possibility is checked by requiring
					// that the set call post-dominates the ok==true edge, i.e. from sd's block entry the io call is reached only via sd.
					ok = true
				}
			}
			c.Check(ok, "C12.R3", spec.fn+"/deadline-before-io", ioCall.Pos(), "the socket deadline must be set from ctx.Deadline() before %s", spec.io)
		}
	}
	c.Floor("C12.R3", 2, n)
}
