package rules

import (
	"go/token"
	"go/types"
	"strings"

	"golang.org/x/tools/go/ssa"

	"tdverif/checker/engine"
)

// Shared helpers for the concurrency-shaped rules (rpc engine, pool, pings,
// dialing, updates): closures and their bindings, channel operations, select
// cases, lock coverage.

// closureOf returns the anonymous function a value denotes (MakeClosure or a
// plain function value), or nil.
func closureOf(v ssa.Value) *ssa.Function {
	switch x := engine.Unwrap(v).(type) {
	case *ssa.MakeClosure:
		f, _ := x.Fn.(*ssa.Function)
		return f
	case *ssa.Function:
		return x
	}
	return nil
}

// makeClosureOf returns the MakeClosure that creates fn inside parent.
func makeClosureOf(parent, fn *ssa.Function) *ssa.MakeClosure {
	var out *ssa.MakeClosure
	for _, p := range engine.WithAnon(parent) {
		engine.Instrs(p, func(i ssa.Instruction) {
			if mc, ok := i.(*ssa.MakeClosure); ok && mc.Fn == ssa.Value(fn) {
				out = mc
			}
		})
	}
	return out
}

// bindingOf maps a free variable of a closure to the value bound to it in the
// enclosing function (following nested closures up to the outermost binding).
func bindingOf(fv *ssa.FreeVar) ssa.Value {
	fn := fv.Parent()
	if fn == nil || fn.Parent() == nil {
		return nil
	}
	mc := makeClosureOf(fn.Parent(), fn)
	if mc == nil {
		return nil
	}
	for i, f := range fn.FreeVars {
		if f == fv && i < len(mc.Bindings) {
			b := mc.Bindings[i]
			if outer, ok := b.(*ssa.FreeVar); ok {
				return bindingOf(outer)
			}
			return b
		}
	}
	return nil
}

// cell resolves an address-like value (alloc, free variable bound to an
// alloc) to the outermost variable cell it denotes, so that the same captured
// variable compares equal across closures.
func cell(v ssa.Value) ssa.Value {
	for i := 0; i < 10; i++ {
		switch x := v.(type) {
		case *ssa.FreeVar:
			b := bindingOf(x)
			if b == nil {
				return v
			}
			v = b
			continue
		case *ssa.UnOp:
			if x.Op == token.MUL {
				// load of a cell: identity of the loaded variable
				v = x.X
				continue
			}
		case *ssa.ChangeType:
			v = x.X
			continue
		case *ssa.MakeInterface:
			v = x.X
			continue
		}
		break
	}
	return v
}

// sameCell reports whether two values denote (loads of) the same variable.
func sameCell(a, b ssa.Value) bool {
	ca, cb := cell(a), cell(b)
	if ca == cb {
		return true
	}
	// fields of the same parameter/receiver: compare descriptions after
	// mapping free variables to parameters
	return descCell(a) == descCell(b) && descCell(a) != ""
}

// descCell renders a value like Describe, with free variables replaced by the
// description of their binding (so "fv:e.rpc" inside a closure and "p:e.rpc"
// in the enclosing method compare equal).
func descCell(v ssa.Value) string {
	d := engine.Describe(v)
	if !strings.Contains(d, "fv:") {
		return d
	}
	// substitute every free variable of the enclosing closure chain
	var fn *ssa.Function
	switch x := v.(type) {
	case ssa.Instruction:
		fn = x.Parent()
	case *ssa.FreeVar:
		fn = x.Parent()
	}
	for f := fn; f != nil && f.Parent() != nil; f = f.Parent() {
		for _, fv := range f.FreeVars {
			b := bindingOf(fv)
			if b == nil {
				continue
			}
			bd := engine.Describe(b)
			if strings.Contains(bd, "fv:") {
				continue
			}
			d = replaceToken(d, "fv:"+engine.FreeVarName(fv), bd)
		}
	}
	return d
}

// replaceToken replaces occurrences of old that are not followed by an
// identifier character.
func replaceToken(s, old, new string) string {
	var b strings.Builder
	for {
		i := strings.Index(s, old)
		if i < 0 {
			b.WriteString(s)
			return b.String()
		}
		j := i + len(old)
		if j < len(s) && (s[j] == '_' || s[j] >= '0' && s[j] <= '9' || s[j] >= 'a' && s[j] <= 'z' || s[j] >= 'A' && s[j] <= 'Z') {
			b.WriteString(s[:j])
			s = s[j:]
			continue
		}
		b.WriteString(s[:i])
		b.WriteString(new)
		s = s[j:]
	}
}

// chanRecv is one receive operation on a channel.
type chanRecv struct {
	Chan     ssa.Value
	At       ssa.Instruction // the UnOp or the Select
	Body     *ssa.BasicBlock // first block executed after the receive
	Blocking bool            // false for a case of a select that has a default
	Select   *ssa.Select
	Index    int
}

// recvsOf lists the receive operations of fn (plain receives and select cases).
func recvsOf(fn *ssa.Function) []chanRecv {
	var out []chanRecv
	engine.Instrs(fn, func(i ssa.Instruction) {
		switch x := i.(type) {
		case *ssa.UnOp:
			if x.Op == token.ARROW {
				out = append(out, chanRecv{Chan: x.X, At: x, Body: x.Block(), Blocking: true})
			}
		case *ssa.Select:
			for _, sc := range engine.SelectCases(x) {
				if sc.Send {
					continue
				}
				out = append(out, chanRecv{Chan: sc.Chan, At: x, Body: sc.Body, Blocking: x.Blocking, Select: x, Index: sc.Index})
			}
		}
	})
	return out
}

// afterRecv reports whether instruction at is executed only after the receive
// r completed (its body block dominates at; for a plain receive the receive
// instruction dominates it).
func afterRecv(r chanRecv, at ssa.Instruction) bool {
	if r.Select == nil {
		return engine.Dominates(r.At, at)
	}
	if r.Body == nil {
		return false
	}
	return r.Body == at.Block() || r.Body.Dominates(at.Block())
}

// selectsOf lists the select statements of fn.
func selectsOf(fn *ssa.Function) []*ssa.Select {
	var out []*ssa.Select
	engine.Instrs(fn, func(i ssa.Instruction) {
		if s, ok := i.(*ssa.Select); ok {
			out = append(out, s)
		}
	})
	return out
}

// chanDesc names a channel operand: ctx.Done() of a described context, a
// field, a captured variable.
func chanDesc(v ssa.Value) string { return descCell(v) }

// isDoneOf reports whether channel value v is X.Done() with X described by
// one of the given strings.
func isDoneOf(v ssa.Value, ctxs ...string) bool {
	call := engine.CallOf(engine.Unwrap(v))
	if call == nil || engine.CalleeID(call.Common()) != "(context.Context).Done" {
		return false
	}
	d := descCell(engine.Args(call.Common())[0])
	for _, c := range ctxs {
		if d == c {
			return true
		}
	}
	return false
}

// heldAt reports whether lock (described) is held at instruction i.
func heldAt(ls map[ssa.Instruction]map[string]bool, i ssa.Instruction, lock string) bool {
	for k := range ls[i] {
		if k == lock {
			return true
		}
	}
	return false
}

// mapUpdatesOf lists MapUpdate instructions of fn whose map is described by m.
func mapUpdatesOf(fn *ssa.Function, m string) []*ssa.MapUpdate {
	var out []*ssa.MapUpdate
	engine.Instrs(fn, func(i ssa.Instruction) {
		if mu, ok := i.(*ssa.MapUpdate); ok && descCell(mu.Map) == m {
			out = append(out, mu)
		}
	})
	return out
}

// lookupsOf lists map Lookup instructions of fn whose map is described by m.
func lookupsOf(fn *ssa.Function, m string) []*ssa.Lookup {
	var out []*ssa.Lookup
	engine.Instrs(fn, func(i ssa.Instruction) {
		if lk, ok := i.(*ssa.Lookup); ok {
			if _, isMap := lk.X.Type().Underlying().(*types.Map); isMap && descCell(lk.X) == m {
				out = append(out, lk)
			}
		}
	})
	return out
}

// casOn returns the CompareAndSwap calls of fn on the given variable cell.
func casOn(fn *ssa.Function, target ssa.Value) []*ssa.Call {
	var out []*ssa.Call
	for _, call := range engine.Calls(fn) {
		id := engine.CalleeID(call.Common())
		if !strings.HasPrefix(id, "sync/atomic.CompareAndSwap") && !strings.HasSuffix(id, ").CompareAndSwap") {
			continue
		}
		cc, ok := call.(*ssa.Call)
		if !ok {
			continue
		}
		if target == nil || cell(engine.Args(call.Common())[0]) == cell(target) {
			out = append(out, cc)
		}
	}
	return out
}

// guardedByCall reports whether sink runs only when the boolean result of
// call equals want.
func guardedByCall(sink ssa.Instruction, call *ssa.Call, want bool) bool {
	return engine.GuardedBy(sink, func(k engine.Cmp) bool {
		if engine.Unwrap(k.X) != ssa.Value(call) {
			return false
		}
		switch k.Op {
		case token.ILLEGAL:
			return want
		case token.EQL:
			b, ok := engine.ConstBool(k.Y)
			return ok && b == want
		case token.NEQ:
			b, ok := engine.ConstBool(k.Y)
			return ok && b != want
		}
		return false
	})
}

// exits lists the instructions that leave fn: returns and explicit panics.
func exits(fn *ssa.Function) []ssa.Instruction {
	var out []ssa.Instruction
	engine.Instrs(fn, func(i ssa.Instruction) {
		switch i.(type) {
		case *ssa.Return:
			// the recover block is not reachable on the normal CFG
			if fn.Recover != nil && i.Block() == fn.Recover {
				return
			}
			out = append(out, i)
		}
	})
	return out
}

// callBool matches the comparison "call's boolean result == want".
func callBool(call *ssa.Call, want bool) func(engine.Cmp) bool {
	return func(k engine.Cmp) bool {
		if engine.Unwrap(k.X) != ssa.Value(call) {
			return false
		}
		b, ok := engine.ConstBool(k.Y)
		if !ok {
			return false
		}
		switch k.Op {
		case token.EQL:
			return b == want
		case token.NEQ:
			return b != want
		}
		return false
	}
}

// everyPathPasses reports whether every path from the entry of fn to
// instruction to traverses one of the cut edges or a barrier instruction.
func everyPathPasses(fn *ssa.Function, to ssa.Instruction, cut map[[2]*ssa.BasicBlock]bool, barrier func(ssa.Instruction) bool) bool {
	return !engine.PathQuery{Fn: fn, Cut: cut, Barrier: barrier}.Reaches(to)
}

// recvCut returns, for the blocking receives of fn on the channel cell ch, the
// barrier predicate (plain receives) and the cut edges (select cases).
func recvCut(fn *ssa.Function, ch ssa.Value, blockingOnly bool) (map[[2]*ssa.BasicBlock]bool, func(ssa.Instruction) bool) {
	cut := map[[2]*ssa.BasicBlock]bool{}
	plain := map[ssa.Instruction]bool{}
	for _, rv := range recvsOf(fn) {
		if cell(rv.Chan) != cell(ch) || (blockingOnly && !rv.Blocking) {
			continue
		}
		if rv.Select == nil {
			plain[rv.At] = true
		} else if rv.Body != nil {
			for _, p := range rv.Body.Preds {
				cut[[2]*ssa.BasicBlock{p, rv.Body}] = true
			}
		}
	}
	return cut, func(i ssa.Instruction) bool { return plain[i] }
}

// retOrdinal is the ordinal of a return among the function's returns.
func retOrdinal(fn *ssa.Function, r ssa.Instruction) string { return ordinal(fn, r) }

// defersOf lists the Defer instructions of fn.
func defersOf(fn *ssa.Function) []*ssa.Defer {
	var out []*ssa.Defer
	engine.Instrs(fn, func(i ssa.Instruction) {
		if d, ok := i.(*ssa.Defer); ok {
			out = append(out, d)
		}
	})
	return out
}

// coversExits reports whether instruction d (typically a Defer) is executed
// on every path from `from` to any exit of the function: either d dominates
// from, or no path from `from` reaches an exit avoiding d.
func coversExits(d, from ssa.Instruction) bool {
	if engine.Dominates(d, from) {
		return true
	}
	for _, e := range exits(from.Parent()) {
		if engine.PathExistsAvoiding(from, e, func(i ssa.Instruction) bool { return i == d }) {
			return false
		}
	}
	return true
}

// storesTo lists stores in fn (not nested closures) whose address denotes the
// given variable cell.
func storesTo(fn *ssa.Function, target ssa.Value) []*ssa.Store {
	var out []*ssa.Store
	engine.Instrs(fn, func(i ssa.Instruction) {
		if st, ok := i.(*ssa.Store); ok && cell(st.Addr) == cell(target) {
			out = append(out, st)
		}
	})
	return out
}

// allocNamed finds the local variable cell with the given source name in fn.
func allocNamed(fn *ssa.Function, name string) *ssa.Alloc {
	var out *ssa.Alloc
	engine.Instrs(fn, func(i ssa.Instruction) {
		if a, ok := i.(*ssa.Alloc); ok && a.Comment == name && out == nil {
			out = a
		}
	})
	return out
}
