package rules

import (
	"go/token"
	"sort"
	"strings"

	"golang.org/x/tools/go/ssa"

	"tdverif/checker/engine"
)

// C04 — encrypted messages round-trip; padding 12..1024; length % 16 == 0.
func init() {
	register("C04", []string{"crypto", "bin", "mtproto"}, func(c *engine.Ctx) {
		c.Explain("C04: (R1) crypto.countPadding(l, _) ⊆ [12,1024] for every l ≥ 0 (intervals; call sites pass a length); (R1b, exhaustive mod 16) (l + countPadding(l, _)) %% 16 == 0 for every residue of l; (R2) EncryptedMessageData.Encode/EncodeWithoutCopy vs Decode/DecodeWithoutCopy and EncryptedMessage.Encode vs Decode/DecodeWithoutCopy perform the same wire operations on the same fields in the same order; (R3) encryptMessage derives msg_key and AES keys with c.encryptSide, Decrypt/decryptMessage with c.encryptSide.DecryptSide(), and DecryptSide swaps Client and Server; (R4) decryptMessage rejects len %% 16 != 0 before DecryptAES256Blocks; (R5) Decrypt accepts everything Encrypt can produce: at its accepting return the payload-length interval is exactly [0, MaxInt32] and the padding interval exactly [12, 1024] (no extra rejection); (R6) every EncryptedMessageData that mtproto.Conn.newEncryptedMessage hands to Encrypt carries Salt = session salt, SessionID = session id, MessageID and SeqNo = the parameters, on every branch, and is encrypted with the same session's key.")
		c.NotCover("AES-IGE and SHA-256 values; equality of decrypted and original payload bytes")
		c04R1(c)
		c04R2(c)
		c04R3(c)
		c04R4(c)
		c04R5(c)
		c04R6(c)
		c04R7(c)
	})
}

func c04R1(c *engine.Ctx) {
	fn := c.MustFunc("C04.R1", "crypto", "countPadding")
	if fn == nil {
		return
	}
	iv := engine.NewIntervals()
	res := iv.EvalWith(fn, map[*ssa.Parameter]engine.Interval{fn.Params[0]: {Lo: 0, Hi: engine.PosInf}})
	c.Check(len(res) == 1 && res[0].Lo >= 12 && res[0].Hi <= 1024, "C04.R1", "countPadding/range", fn.Pos(),
		"countPadding(l ≥ 0, any byte) ∈ %v must be within [12, 1024]", res)
	// call sites pass a non-negative length
	n := 0
	for _, f := range allFunctions(c, c.SSA["crypto"]) {
		for _, call := range engine.CallsTo(f, true, "crypto.countPadding") {
			n++
			a := iv.At(call.Common().Args[0], call)
			c.Check(a.Lo >= 0, "C04.R1", "countPadding/arg@"+engine.FuncID(f), call.Pos(), "length argument %s ∈ %s must be ≥ 0", engine.Describe(call.Common().Args[0]), a)
			// the padding is appended to the buffer whose length was passed
		}
	}
	c.Floor("C04.R1", 1, n)
	// R1b residues
	m := residueCheck(c, "C04.R1b", "countPadding", fn, fn.Params[0], 16, func(r int64, res engine.Lin) (bool, string) {
		return res.A == 0 && (r+res.B)%16 == 0 && res.S%16 == 0 && res.B >= 12, "l + padding must be divisible by 16 (padding = B + S·t)"
	})
	c.Floor("C04.R1b", 16, m)
}

type codecPair struct {
	typ            string
	writer, reader string
}

func c04R2(c *engine.Ctx) {
	pairs := []codecPair{
		{"EncryptedMessageData", "Encode", "Decode"},
		{"EncryptedMessageData", "Encode", "DecodeWithoutCopy"},
		{"EncryptedMessage", "Encode", "Decode"},
		{"EncryptedMessage", "Encode", "DecodeWithoutCopy"},
	}
	n := wirePairs(c, "C04.R2", "crypto", pairs)
	// EncodeWithoutCopy: same leading fields as Encode
	w1 := c.MustFunc("C04.R2", "crypto", "EncryptedMessageData.Encode")
	w2 := c.MustFunc("C04.R2", "crypto", "EncryptedMessageData.EncodeWithoutCopy")
	if w1 != nil && w2 != nil {
		a, _ := engine.WireOps(w1, w1.Params[0], w1.Params[1], true)
		b, _ := engine.WireOps(w2, w2.Params[0], w2.Params[1], true)
		var spine []engine.WireOp
		var nilRet *ssa.Return
		for _, r := range engine.Returns(w2) {
			if engine.IsNil(r.Results[0]) {
				nilRet = r
			}
		}
		for _, o := range b {
			if nilRet != nil && engine.Dominates(o.Instr, nilRet) {
				spine = append(spine, o)
			}
		}
		ok := len(spine) == len(a)
		msg := ""
		for i := 0; ok && i < len(a); i++ {
			ka, kb := a[i].Kind, spine[i].Kind
			if i == len(a)-1 {
				ka, kb = "Rest", strings.Replace(kb, "Raw", "Rest", 1)
			}
			if ka != kb || (i < 4 && a[i].Field != spine[i].Field) {
				ok = false
				msg = a[i].String() + " vs " + spine[i].String()
			}
		}
		n++
		c.Check(ok, "C04.R2", "EncryptedMessageData/EncodeWithoutCopy~Encode", w2.Pos(), "EncodeWithoutCopy must write the same header as Encode: [%s] vs [%s] %s", engine.OpsString(spine), engine.OpsString(a), msg)
	}
	c.Floor("C04.R2", 5, n)
}

// wirePairs compares writer/reader wire-operation sequences of methods of one type.
func wirePairs(c *engine.Ctx, rule, pkg string, pairs []codecPair) int {
	n := 0
	for _, p := range pairs {
		w := c.MustFunc(rule, pkg, p.typ+"."+p.writer)
		r := c.MustFunc(rule, pkg, p.typ+"."+p.reader)
		if w == nil || r == nil {
			continue
		}
		n++
		key := p.typ + "/" + p.writer + "~" + p.reader
		wo, err1 := engine.WireOps(w, w.Params[0], w.Params[1], true)
		ro, err2 := engine.WireOps(r, r.Params[0], r.Params[1], false)
		if err1 != nil || err2 != nil || len(wo) == 0 {
			c.Undecided(rule, key, w.Pos(), "cannot extract wire operations: %v %v (writer ops %d)", err1, err2, len(wo))
			continue
		}
		ok, msg := engine.CompatibleOps(wo, ro)
		c.Check(ok, rule, key, r.Pos(), "writer [%s] vs reader [%s] %s", engine.OpsString(wo), engine.OpsString(ro), msg)
	}
	return n
}

func c04R3(c *engine.Ctx) {
	n := 0
	check := func(fname string, wantDecrypt bool) {
		fn := c.MustFunc("C04.R3", "crypto", fname)
		if fn == nil {
			return
		}
		for _, call := range engine.CallsTo(fn, false, "crypto.MessageKey", "crypto.Keys") {
			n++
			side := engine.Describe(call.Common().Args[2])
			want := "p:c.encryptSide"
			if wantDecrypt {
				want = "(crypto.Side).DecryptSide(p:c.encryptSide)"
			}
			c.Check(side == want, "C04.R3", fname+"/"+engine.CalleeID(call.Common()), call.Pos(), "side argument is %s, must be %s", side, want)
		}
	}
	check("Cipher.encryptMessage", false)
	check("Cipher.Decrypt", true)
	check("Cipher.decryptMessage", true)
	c.Floor("C04.R3", 4, n)
	// DecryptSide swaps Client(0) and Server(1): evaluate its single expression on both constants
	if ds := c.MustFunc("C04.R3", "crypto", "Side.DecryptSide"); ds != nil {
		ok := false
		for _, r := range engine.Returns(ds) {
			if b, isB := r.Results[0].(*ssa.BinOp); isB && b.Op == token.XOR {
				if k, isK := engine.ConstInt(b.Y); isK && k == 1 && b.X == ssa.Value(ds.Params[0]) {
					ok = true
				}
				if k, isK := engine.ConstInt(b.X); isK && k == 1 && b.Y == ssa.Value(ds.Params[0]) {
					ok = true
				}
			}
			if b, isB := r.Results[0].(*ssa.BinOp); isB && b.Op == token.SUB {
				if k, isK := engine.ConstInt(b.X); isK && k == 1 && b.Y == ssa.Value(ds.Params[0]) {
					ok = true
				}
			}
		}
		cl, _ := constInt(c, "crypto", "Client")
		sv, _ := constInt(c, "crypto", "Server")
		c.Check(ok && cl == 0 && sv == 1, "C04.R3", "Side.DecryptSide/swaps", ds.Pos(), "DecryptSide must map Client(0)↔Server(1)")
	}
}

func c04R4(c *engine.Ctx) {
	fn := c.MustFunc("C04.R4", "crypto", "Cipher.decryptMessage")
	if fn == nil {
		return
	}
	calls := engine.CallsTo(fn, false, "github.com/gotd/ige.DecryptAES256Blocks", "github.com/gotd/ige.DecryptBlocks")
	for _, call := range calls {
		args := call.Common().Args
		src := args[len(args)-1]
		ok := engine.GuardedBy(call, func(k engine.Cmp) bool {
			rem, isr := engine.Unwrap(k.X).(*ssa.BinOp)
			z, isz := engine.ConstInt(k.Y)
			if !isr || rem.Op != token.REM || !isz || z != 0 || k.Op != token.EQL {
				return false
			}
			m, _ := engine.ConstInt(rem.Y)
			lc := engine.CallOf(rem.X)
			return m == 16 && lc != nil && engine.CalleeID(lc.Common()) == "builtin.len" && engine.Describe(lc.Common().Args[0]) == engine.Describe(src)
		})
		c.Check(ok, "C04.R4", "decryptMessage/block-guard", call.Pos(), "AES-IGE decryption (panics on partial blocks) must be guarded by len(EncryptedData) %% 16 == 0")
	}
	c.Floor("C04.R4", 1, len(calls))
}

func c04R5(c *engine.Ctx) {
	fn := c.MustFunc("C04.R5", "crypto", "Cipher.Decrypt")
	if fn == nil {
		return
	}
	iv := engine.NewBounds().IV
	n := 0
	for _, r := range engine.SuccessReturns(fn) {
		var pad *ssa.BinOp
		var dataLen ssa.Value
		engine.Instrs(fn, func(i ssa.Instruction) {
			b, ok := i.(*ssa.BinOp)
			if !ok || b.Op != token.SUB {
				return
			}
			dx, dy := engine.Describe(b.X), engine.Describe(b.Y)
			if strings.HasPrefix(dx, "builtin.len(") && strings.Contains(dx, "MessageDataWithPadding") && strings.HasSuffix(dy, ".MessageDataLen") {
				pad, dataLen = b, b.Y
			}
		})
		if pad == nil {
			c.Undecided("C04.R5", "Decrypt/padding-value", r.Pos(), "cannot find len(MessageDataWithPadding) - MessageDataLen")
			continue
		}
		n++
		d := iv.At(dataLen, r)
		p := iv.At(pad, r)
		c.Check(d.Lo <= 0 && d.Hi >= 1<<31-1, "C04.R5", "Decrypt/accepts-all-lengths", r.Pos(), "payload lengths accepted ∈ %s: every length ≥ 0 that Encrypt can produce (including 0) must be accepted", d)
		c.Check(p.Lo <= 12 && p.Hi >= 1024, "C04.R5", "Decrypt/accepts-all-paddings", r.Pos(), "paddings accepted ∈ %s: the whole range 12..1024 that a peer may use must be accepted", p)
	}
	c.Floor("C04.R5", 1, n)
}

// c04R7: no stale view of the output buffer. A slice taken from b.Buf is a
// view of the array b had at that moment; any later write through b may move
// the contents to a new array, after which a write through the old view is
// lost (EncodeWithoutCopy back-patches the length field through such a view).
// Rule: between the load of b.Buf a view derives from and every use of the
// view as a write target there is no call that receives b.
func c04R7(c *engine.Ctx) {
	n := 0
	for _, name := range []string{"EncryptedMessageData.EncodeWithoutCopy", "EncryptedMessageData.Encode", "EncryptedMessage.Encode", "Cipher.Encrypt", "Cipher.encryptMessage"} {
		fn := c.Func("crypto", name)
		if fn == nil {
			continue
		}
		var bufParams []*ssa.Parameter
		for _, p := range fn.Params {
			if strings.HasSuffix(p.Type().String(), "bin.Buffer") {
				bufParams = append(bufParams, p)
			}
		}
		for _, b := range bufParams {
			engine.Instrs(fn, func(i ssa.Instruction) {
				ld, ok := i.(*ssa.UnOp)
				if !ok || ld.Op != token.MUL {
					return
				}
				fa, isFA := ld.X.(*ssa.FieldAddr)
				if !isFA || engine.FieldNameOf(fa) != "Buf" || fa.X != ssa.Value(b) {
					return
				}
				// views derived from this load that are written through: a
				// bin.Buffer literal whose Buf is a slice of it, receiving a call
				seen := map[ssa.Value]bool{}
				var sinks []ssa.CallInstruction
				var walk func(v ssa.Value, d int)
				walk = func(v ssa.Value, d int) {
					if v == nil || seen[v] || d > 6 || v.Referrers() == nil {
						return
					}
					seen[v] = true
					for _, r := range *v.Referrers() {
						switch x := r.(type) {
						case *ssa.Slice:
							walk(x, d+1)
						case *ssa.Store:
							if x.Val == v {
								if f2, ok2 := x.Addr.(*ssa.FieldAddr); ok2 {
									walk(f2.X, d+1) // the struct holding the view
								}
							}
						case ssa.CallInstruction:
							if x.Common().Value != v || !x.Common().IsInvoke() {
								sinks = append(sinks, x)
							}
						}
					}
				}
				walk(ld, 0)
				for _, s := range sinks {
					// a sink that itself receives b is a write through b, not through the view
					viaB := false
					for _, a := range engine.Args(s.Common()) {
						if a == ssa.Value(b) {
							viaB = true
						}
					}
					if viaB {
						continue
					}
					n++
					var between []string
					for _, k := range engine.Calls(fn) {
						if k == s {
							continue
						}
						takesB := false
						for _, a := range engine.Args(k.Common()) {
							if a == ssa.Value(b) {
								takesB = true
							}
						}
						id := engine.CalleeID(k.Common())
						if !takesB || id == "(*bin.Buffer).Len" || id == "(bin.Buffer).Len" || id == "(*bin.Buffer).Raw" {
							continue
						}
						if engine.PathExists(ld, k) && engine.PathExists(k, s) {
							between = append(between, engine.Short(id)+" at "+c.Position(k.Pos()))
						}
					}
					c.Check(len(between) == 0, "C04.R7", name+"/view-of-"+b.Name()+".Buf#"+ordinalCall(fn, s), s.Pos(), "a view of %s.Buf taken at %s is written through here after %s may have grown (and moved) the buffer: %v", b.Name(), c.Position(ld.Pos()), b.Name(), between)
				}
			})
		}
	}
	c.Floor("C04.R7", 1, n)
}

func c04R6(c *engine.Ctx) { c04R6As(c, "C04.R6") }

// c04R6As decides the header-origin rule under the given rule id (C08.R7
// shares it: the numbers drawn are the numbers sent).
func c04R6As(c *engine.Ctx, rule string) {
	fn := c.MustFunc(rule, "mtproto", "Conn.newEncryptedMessage")
	if fn == nil {
		return
	}
	var sess *ssa.Call
	for _, call := range engine.CallsTo(fn, false, "(*mtproto.Conn).session") {
		sess, _ = call.(*ssa.Call)
	}
	n := 0
	for _, call := range engine.Calls(fn) {
		if !strings.HasSuffix(engine.CalleeID(call.Common()), ".Encrypt") || len(engine.Args(call.Common())) != 4 {
			continue
		}
		args := engine.Args(call.Common())
		okKey := sess != nil && engine.Describe(args[1]) == engine.Describe(sess)+".Key"
		c.Check(okKey, rule, "newEncryptedMessage/key", call.Pos(), "the message must be encrypted with the current session's key (got %s)", engine.Describe(args[1]))
		// d: the struct passed by value = load of the local d
		ld, ok := args[2].(*ssa.UnOp)
		if !ok {
			c.Undecided(rule, "newEncryptedMessage/data", call.Pos(), "cannot resolve the EncryptedMessageData passed to Encrypt")
			continue
		}
		// definitions of d: whole-struct stores (from literals) — each must set the four header fields
		defs := 0
		engine.Instrs(fn, func(i ssa.Instruction) {
			st, isS := i.(*ssa.Store)
			if !isS || st.Addr != ld.X {
				return
			}
			defs++
			n++
			key := "newEncryptedMessage/header#" + ordinal(fn, st)
			want := map[string]func(ssa.Value) bool{
				"Salt":      func(v ssa.Value) bool { return sess != nil && engine.Describe(v) == engine.Describe(sess)+".Salt" },
				"SessionID": func(v ssa.Value) bool { return sess != nil && engine.Describe(v) == engine.Describe(sess)+".ID" },
				"MessageID": func(v ssa.Value) bool { return v == ssa.Value(fn.Params[1]) },
				"SeqNo":     func(v ssa.Value) bool { return v == ssa.Value(fn.Params[2]) },
			}
			// the literal is either built in a temporary and copied (*d = *tmp) or, as go/ssa
			// does for assignments to an existing variable, zeroed and filled in place in the same block
			fieldVals := func(f string) []ssa.Value {
				if src, isL := st.Val.(*ssa.UnOp); isL {
					return engine.FieldPathStores(src.X, []string{f})
				}
				var out []ssa.Value
				for _, in := range st.Block().Instrs {
					fs, ok := in.(*ssa.Store)
					if !ok {
						continue
					}
					if fa, ok := fs.Addr.(*ssa.FieldAddr); ok && fa.X == ld.X && engine.FieldNameOf(fa) == f {
						out = append(out, fs.Val)
					}
				}
				return out
			}
			var bad []string
			for f, okf := range want {
				vals := fieldVals(f)
				if len(vals) != 1 || !okf(vals[0]) {
					got := "unset (zero)"
					if len(vals) == 1 {
						got = engine.Describe(vals[0])
					}
					bad = append(bad, f+"="+got)
				}
			}
			sort.Strings(bad)
			c.Check(len(bad) == 0, rule, key, st.Pos(), "every branch must fill Salt, SessionID, MessageID, SeqNo from the session and the parameters; wrong: %v", bad)
		})
		// direct field stores into d (no literal) are not used today; if d has no whole-struct definition the rule cannot decide
		if defs == 0 {
			c.Undecided(rule, "newEncryptedMessage/definitions", call.Pos(), "no whole-struct definition of the message data found")
		}
	}
	c.Floor(rule, 3, n)
}
