package rules

import (
	"go/token"
	"strings"

	"golang.org/x/tools/go/ssa"

	"tdverif/checker/engine"
)

// C04 — encrypted messages round-trip; padding 12..1024; length % 16 == 0.
func init() {
	register("C04", []string{"crypto", "bin"}, func(c *engine.Ctx) {
		c.Explain("C04: (R1) crypto.countPadding(l, _) ⊆ [12,1024] for every l ≥ 0 (intervals; call sites pass a length); (R1b, exhaustive mod 16) (l + countPadding(l, _)) %% 16 == 0 for every residue of l; (R2) EncryptedMessageData.Encode/EncodeWithoutCopy vs Decode/DecodeWithoutCopy and EncryptedMessage.Encode vs Decode/DecodeWithoutCopy perform the same wire operations on the same fields in the same order; (R3) encryptMessage derives msg_key and AES keys with c.encryptSide, Decrypt/decryptMessage with c.encryptSide.DecryptSide(), and DecryptSide swaps Client and Server; (R4) decryptMessage rejects len %% 16 != 0 before DecryptAES256Blocks.")
		c.NotCover("AES-IGE and SHA-256 values; equality of decrypted and original payload bytes")
		c04R1(c)
		c04R2(c)
		c04R3(c)
		c04R4(c)
	})
}

func c04R1(c *engine.Ctx) {
	fn := c.MustFunc("C04.R1", "crypto", "countPadding")
	if fn == nil {
		return
	}
	iv := engine.NewIntervals()
	res := iv.EvalWith(fn, map[*ssa.Parameter]engine.Interval{fn.Params[0]: {Lo: 0, Hi: engine.PosInf}})
	c.Check(len(res) == 1 && res[0].Lo >= 12 && res[0].Hi <= 1024, "C04.R1", "countPadding/range", fn.Pos(),
		"countPadding(l ≥ 0, any byte) ∈ %v must be within [12, 1024]", res)
	// call sites pass a non-negative length
	n := 0
	for _, f := range allFunctions(c, c.SSA["crypto"]) {
		for _, call := range engine.CallsTo(f, true, "crypto.countPadding") {
			n++
			a := iv.At(call.Common().Args[0], call)
			c.Check(a.Lo >= 0, "C04.R1", "countPadding/arg@"+engine.FuncID(f), call.Pos(), "length argument %s ∈ %s must be ≥ 0", engine.Describe(call.Common().Args[0]), a)
			// the padding is appended to the buffer whose length was passed
		}
	}
	c.Floor("C04.R1", 1, n)
	// R1b residues
	m := residueCheck(c, "C04.R1b", "countPadding", fn, fn.Params[0], 16, func(r int64, res engine.Lin) (bool, string) {
		return res.A == 0 && (r+res.B)%16 == 0 && res.S%16 == 0 && res.B >= 12, "l + padding must be divisible by 16 (padding = B + S·t)"
	})
	c.Floor("C04.R1b", 16, m)
}

type codecPair struct {
	typ            string
	writer, reader string
}

func c04R2(c *engine.Ctx) {
	pairs := []codecPair{
		{"EncryptedMessageData", "Encode", "Decode"},
		{"EncryptedMessageData", "Encode", "DecodeWithoutCopy"},
		{"EncryptedMessage", "Encode", "Decode"},
		{"EncryptedMessage", "Encode", "DecodeWithoutCopy"},
	}
	n := wirePairs(c, "C04.R2", "crypto", pairs)
	// EncodeWithoutCopy: same leading fields as Encode
	w1 := c.MustFunc("C04.R2", "crypto", "EncryptedMessageData.Encode")
	w2 := c.MustFunc("C04.R2", "crypto", "EncryptedMessageData.EncodeWithoutCopy")
	if w1 != nil && w2 != nil {
		a, _ := engine.WireOps(w1, w1.Params[0], w1.Params[1], true)
		b, _ := engine.WireOps(w2, w2.Params[0], w2.Params[1], true)
		var spine []engine.WireOp
		var nilRet *ssa.Return
		for _, r := range engine.Returns(w2) {
			if engine.IsNil(r.Results[0]) {
				nilRet = r
			}
		}
		for _, o := range b {
			if nilRet != nil && engine.Dominates(o.Instr, nilRet) {
				spine = append(spine, o)
			}
		}
		ok := len(spine) == len(a)
		msg := ""
		for i := 0; ok && i < len(a); i++ {
			ka, kb := a[i].Kind, spine[i].Kind
			if i == len(a)-1 {
				ka, kb = "Rest", strings.Replace(kb, "Raw", "Rest", 1)
			}
			if ka != kb || (i < 4 && a[i].Field != spine[i].Field) {
				ok = false
				msg = a[i].String() + " vs " + spine[i].String()
			}
		}
		n++
		c.Check(ok, "C04.R2", "EncryptedMessageData/EncodeWithoutCopy~Encode", w2.Pos(), "EncodeWithoutCopy must write the same header as Encode: [%s] vs [%s] %s", engine.OpsString(spine), engine.OpsString(a), msg)
	}
	c.Floor("C04.R2", 5, n)
}

// wirePairs compares writer/reader wire-operation sequences of methods of one type.
func wirePairs(c *engine.Ctx, rule, pkg string, pairs []codecPair) int {
	n := 0
	for _, p := range pairs {
		w := c.MustFunc(rule, pkg, p.typ+"."+p.writer)
		r := c.MustFunc(rule, pkg, p.typ+"."+p.reader)
		if w == nil || r == nil {
			continue
		}
		n++
		key := p.typ + "/" + p.writer + "~" + p.reader
		wo, err1 := engine.WireOps(w, w.Params[0], w.Params[1], true)
		ro, err2 := engine.WireOps(r, r.Params[0], r.Params[1], false)
		if err1 != nil || err2 != nil || len(wo) == 0 {
			c.Undecided(rule, key, w.Pos(), "cannot extract wire operations: %v %v (writer ops %d)", err1, err2, len(wo))
			continue
		}
		ok, msg := engine.CompatibleOps(wo, ro)
		c.Check(ok, rule, key, r.Pos(), "writer [%s] vs reader [%s] %s", engine.OpsString(wo), engine.OpsString(ro), msg)
	}
	return n
}

func c04R3(c *engine.Ctx) {
	n := 0
	check := func(fname string, wantDecrypt bool) {
		fn := c.MustFunc("C04.R3", "crypto", fname)
		if fn == nil {
			return
		}
		for _, call := range engine.CallsTo(fn, false, "crypto.MessageKey", "crypto.Keys") {
			n++
			side := engine.Describe(call.Common().Args[2])
			want := "p:c.encryptSide"
			if wantDecrypt {
				want = "(crypto.Side).DecryptSide(p:c.encryptSide)"
			}
			c.Check(side == want, "C04.R3", fname+"/"+engine.CalleeID(call.Common()), call.Pos(), "side argument is %s, must be %s", side, want)
		}
	}
	check("Cipher.encryptMessage", false)
	check("Cipher.Decrypt", true)
	check("Cipher.decryptMessage", true)
	c.Floor("C04.R3", 4, n)
	// DecryptSide swaps Client(0) and Server(1): evaluate its single expression on both constants
	if ds := c.MustFunc("C04.R3", "crypto", "Side.DecryptSide"); ds != nil {
		ok := false
		for _, r := range engine.Returns(ds) {
			if b, isB := r.Results[0].(*ssa.BinOp); isB && b.Op == token.XOR {
				if k, isK := engine.ConstInt(b.Y); isK && k == 1 && b.X == ssa.Value(ds.Params[0]) {
					ok = true
				}
				if k, isK := engine.ConstInt(b.X); isK && k == 1 && b.Y == ssa.Value(ds.Params[0]) {
					ok = true
				}
			}
			if b, isB := r.Results[0].(*ssa.BinOp); isB && b.Op == token.SUB {
				if k, isK := engine.ConstInt(b.X); isK && k == 1 && b.Y == ssa.Value(ds.Params[0]) {
					ok = true
				}
			}
		}
		cl, _ := constInt(c, "crypto", "Client")
		sv, _ := constInt(c, "crypto", "Server")
		c.Check(ok && cl == 0 && sv == 1, "C04.R3", "Side.DecryptSide/swaps", ds.Pos(), "DecryptSide must map Client(0)↔Server(1)")
	}
}

func c04R4(c *engine.Ctx) {
	fn := c.MustFunc("C04.R4", "crypto", "Cipher.decryptMessage")
	if fn == nil {
		return
	}
	calls := engine.CallsTo(fn, false, "github.com/gotd/ige.DecryptAES256Blocks", "github.com/gotd/ige.DecryptBlocks")
	for _, call := range calls {
		args := call.Common().Args
		src := args[len(args)-1]
		ok := engine.GuardedBy(call, func(k engine.Cmp) bool {
			rem, isr := engine.Unwrap(k.X).(*ssa.BinOp)
			z, isz := engine.ConstInt(k.Y)
			if !isr || rem.Op != token.REM || !isz || z != 0 || k.Op != token.EQL {
				return false
			}
			m, _ := engine.ConstInt(rem.Y)
			lc := engine.CallOf(rem.X)
			return m == 16 && lc != nil && engine.CalleeID(lc.Common()) == "builtin.len" && engine.Describe(lc.Common().Args[0]) == engine.Describe(src)
		})
		c.Check(ok, "C04.R4", "decryptMessage/block-guard", call.Pos(), "AES-IGE decryption (panics on partial blocks) must be guarded by len(EncryptedData) %% 16 == 0")
	}
	c.Floor("C04.R4", 1, len(calls))
}
