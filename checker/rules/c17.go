package rules

import (
	"go/constant"
	"go/types"

	"golang.org/x/tools/go/ssa"

	"tdverif/checker/engine"
)

// C17 — decoding arbitrary transport input never crashes / over-allocates.
func init() {
	register("C17", []string{"proto/codec", "bin"}, func(c *engine.Ctx) {
		c.Explain("C17: interval obligations over the transport read paths (readLen, readAbridged, readIntermediate, readPaddedIntermediate, readFull, checkProtocolError): (R1) every allocation size reaching ResetN/Expand/make is within [0, maxMessageSize+12]; (R2) every slice/index bound is non-negative with low ≤ high, and every Skip argument is ≥ 0; a wire-derived length reaches such a sink only through a dominating reject branch that bounds it on both sides. readLen's result interval is re-derived on every run.")
		c.NotCover("upper bounds against len(buffer) where the length is set relationally by ResetN/Expand; allocation inside io; the obfuscated/websocket wrappers")
		c17(c)
	})
}

var c17Funcs = []string{"readLen", "readAbridged", "readIntermediate", "readPaddedIntermediate", "readFull", "checkProtocolError",
	"Abridged.Read", "Intermediate.Read", "PaddedIntermediate.Read", "Full.Read", "NoHeader.Read"}

func constInt(c *engine.Ctx, pkg, name string) (int64, bool) {
	p := c.Pkgs[pkg]
	if p == nil {
		return 0, false
	}
	k, ok := p.Types.Scope().Lookup(name).(*types.Const)
	if !ok {
		return 0, false
	}
	return constant.Int64Val(k.Val())
}

func c17(c *engine.Ctx) {
	limit, ok := constInt(c, "proto/codec", "maxMessageSize")
	if !ok {
		c.Undecided("C17.R1", "anchor:maxMessageSize", 0, "constant proto/codec.maxMessageSize does not resolve")
		return
	}
	c.Extra["frame_limit"] = limit
	bd := engine.NewBounds()
	bd.SkipUpper = true
	allocs, sites, skips := 0, 0, 0
	// the anchor set, closed under static calls that stay inside proto/codec
	// (a helper introduced on a read path is analysed too)
	names := append([]string{}, c17Funcs...)
	fnOf := map[string]*ssa.Function{}
	seenFn := map[*ssa.Function]bool{}
	for k := 0; k < len(names); k++ {
		fn := fnOf[names[k]]
		if fn == nil {
			fn = c.Func("proto/codec", names[k])
		}
		if fn == nil || seenFn[fn] {
			continue
		}
		seenFn[fn] = true
		fnOf[names[k]] = fn
		for _, f := range engine.WithAnon(fn) {
			for _, call := range engine.Calls(f) {
				cal := call.Common().StaticCallee()
				if cal == nil || cal.Pkg == nil || cal.Pkg != fn.Pkg || seenFn[cal] || len(cal.Blocks) == 0 {
					continue
				}
				nm := cal.Name()
				if recv := cal.Signature.Recv(); recv != nil {
					t := recv.Type()
					if p, ok := t.(*types.Pointer); ok {
						t = p.Elem()
					}
					if n, ok := t.(*types.Named); ok {
						nm = n.Obj().Name() + "." + nm
					}
				}
				if _, dup := fnOf[nm]; !dup {
					fnOf[nm] = cal
					names = append(names, nm)
				}
			}
		}
	}
	for _, name := range names {
		fn := fnOf[name]
		if fn == nil {
			if name == "NoHeader.Read" {
				continue
			}
			c.Undecided("C17", "anchor:"+name, 0, "anchor function proto/codec.%s does not resolve", name)
			continue
		}
		// R1 allocation sinks
		for _, call := range engine.Calls(fn) {
			id := engine.CalleeID(call.Common())
			switch id {
			case "(*bin.Buffer).ResetN", "(*bin.Buffer).Expand":
				allocs++
				arg := call.Common().Args[1]
				iv := bd.IV.At(arg, call)
				c.Check(iv.Lo >= 0 && iv.Hi <= limit+12, "C17.R1", name+"/"+id+"#"+ordinalCall(fn, call), call.Pos(),
					"allocation size %s ∈ %s must lie in [0, %d] (frame limit + header)", engine.Describe(arg), iv, limit+12)
			case "(encoding/binary.littleEndian).Uint16", "(encoding/binary.littleEndian).Uint32", "(encoding/binary.littleEndian).Uint64",
				"(encoding/binary.bigEndian).Uint16", "(encoding/binary.bigEndian).Uint32", "(encoding/binary.bigEndian).Uint64",
				"(encoding/binary.littleEndian).PutUint16", "(encoding/binary.littleEndian).PutUint32", "(encoding/binary.littleEndian).PutUint64",
				"(encoding/binary.bigEndian).PutUint16", "(encoding/binary.bigEndian).PutUint32", "(encoding/binary.bigEndian).PutUint64":
				// the byte-order helpers index their argument at width-1
				skips++
				need := int64(2)
				switch id[len(id)-2:] {
				case "32":
					need = 4
				case "64":
					need = 8
				}
				arg := engine.Args(call.Common())[1]
				lb := bd.LenLB(arg, call)
				c.Check(lb >= need, "C17.R2", name+"/byteorder#"+ordinalCall(fn, call), call.Pos(),
					"%s reads %d bytes of %s whose length is only known to be ≥ %d here", engine.Short(id), need, engine.Describe(arg), lb)
			case "(*bin.Buffer).Skip":
				skips++
				arg := call.Common().Args[1]
				iv := bd.IV.At(arg, call)
				c.Check(iv.Lo >= 0, "C17.R2", name+"/Skip#"+ordinalCall(fn, call), call.Pos(),
					"Skip argument %s ∈ %s must be ≥ 0 (Skip slices the buffer with it)", engine.Describe(arg), iv)
			}
		}
		engine.Instrs(fn, func(i ssa.Instruction) {
			if ms, ok := i.(*ssa.MakeSlice); ok {
				allocs++
				iv := bd.IV.At(ms.Len, ms)
				c.Check(iv.Lo >= 0 && iv.Hi <= limit+12, "C17.R1", name+"/make#"+ordinal(fn, ms), ms.Pos(),
					"make size %s ∈ %s must lie in [0, %d]", engine.Describe(ms.Len), iv, limit+12)
			}
		})
		// R2 bounds
		issues, n := bd.CheckFunc(fn)
		sites += n
		for _, is := range issues {
			c.Fail("C17.R2", name+"/"+is.What+"#"+ordinal(fn, is.Instr), is.Instr.Pos(), "%s", is.Detail)
		}
		if len(issues) == 0 && n > 0 {
			c.Pass("C17.R2", name+"/bounds", fn.Pos(), "%d slice/index sites: bounds non-negative and ordered", n)
		}
	}
	// readLen summary, re-derived
	if fn := c.Func("proto/codec", "readLen"); fn != nil {
		s := bd.IV.Summary(fn)
		if len(s) > 0 {
			c.Check(s[0].Lo >= 1 && s[0].Hi <= limit, "C17.R1", "readLen/summary", fn.Pos(), "readLen success result ∈ %s must be within [1, %d]", s[0], limit)
		}
	}
	c.Floor("C17.R1", 4, allocs)
	c.Floor("C17.R2", 10, sites+skips)
}
