package rules

import (
	"go/token"
	"go/types"
	"sort"
	"strings"

	"golang.org/x/tools/go/ssa"

	"tdverif/checker/engine"
)

// C37 — HTML and Markdown formatting never crash and stay within the text
// (structural clauses: an inventory of the panic sites in gotd's own parser
// code, and the discipline under which the parsers create entities).
const (
	htmlPkg = "telegram/message/html"
	mdPkg   = "telegram/message/markdown"
)

func init() {
	register("C37", []string{htmlPkg, mdPkg, entPkg}, func(c *engine.Ctx) {
		c.Explain("C37 (structural clauses only, gotd's own code; the x/net/html tokenizer and goldmark are not analysed): (R1, panic inventory) in every function of telegram/message/html and telegram/message/markdown, and in the functions of telegram/message/entity they reach, there is no explicit panic, no type assertion without comma-ok, no integer division by a non-constant, no nil-map write, and every index/slice expression either has bounds the interval engine proves (non-negative, low ≤ high, below the known length) or is one of the sites frozen in the table below, each confirmed by reading with its reason; a new unproven site is a violation. (R2, entity discipline) the parsers create entities only through entity.Token.Apply / Builder.Format-style helpers, every Apply is behind a test that the token's UTF-16 length is non-zero or uses a token taken earlier from the same builder, and neither parser resets, completes or truncates the builder it was given (so a recorded offset can never exceed the current length: lengths are differences of a monotone counter — see C35.R1).")
		c.NotCover("panic-freedom of golang.org/x/net/html and github.com/yuin/goldmark; upper bounds of the frozen sites beyond the reason given; stack depth on deeply nested input; user-supplied UserResolver callbacks")
		c37(c)
	})
}

// c37Frozen: index/slice sites the interval engine cannot prove, confirmed by
// reading. Key: function + kind + ordinal-free description of the operand.
var c37Frozen = map[string]string{}

func c37(c *engine.Ctx) {
	inScope := func(f *ssa.Function) bool {
		if f == nil || f.Pkg == nil {
			return false
		}
		p := f.Pkg.Pkg.Path()
		return strings.HasSuffix(p, "/"+htmlPkg) || strings.HasSuffix(p, "/"+mdPkg) || strings.HasSuffix(p, "/"+entPkg)
	}
	seen := map[*ssa.Function]bool{}
	var order []*ssa.Function
	var walk func(f *ssa.Function)
	walk = func(f *ssa.Function) {
		if f == nil || seen[f] || len(f.Blocks) == 0 || !inScope(f) {
			return
		}
		seen[f] = true
		order = append(order, f)
		for _, g := range f.AnonFuncs {
			walk(g)
		}
		for _, call := range engine.Calls(f) {
			walk(call.Common().StaticCallee())
			if cl := closureOf(call.Common().Value); cl != nil {
				walk(cl)
			}
			for _, a := range call.Common().Args {
				if cl := closureOf(a); cl != nil {
					walk(cl)
				}
			}
		}
	}
	for _, p := range []string{htmlPkg, mdPkg} {
		for _, f := range allFunctions(c, c.SSA[p]) {
			walk(f)
		}
	}
	sort.SliceStable(order, func(i, j int) bool { return engine.FuncID(order[i]) < engine.FuncID(order[j]) })
	bd := engine.NewBounds()
	n := 0
	used := map[string]bool{}
	for _, f := range order {
		c.SawFunc(f)
		n++
		var bad []string
		engine.Instrs(f, func(i ssa.Instruction) {
			switch x := i.(type) {
			case *ssa.Panic:
				if strings.Contains(engine.Describe(x.X), "blocking select matched no case") {
					return
				}
				bad = append(bad, c.Position(x.Pos())+": explicit panic")
			case *ssa.TypeAssert:
				if !x.CommaOk {
					bad = append(bad, c.Position(x.Pos())+": type assertion without comma-ok")
				}
			case *ssa.BinOp:
				if x.Op == token.QUO || x.Op == token.REM {
					if _, isK := engine.ConstInt(x.Y); !isK {
						if b, isBasic := x.Y.Type().Underlying().(*types.Basic); isBasic && b.Info()&types.IsInteger != 0 {
							bad = append(bad, c.Position(x.Pos())+": integer division by a non-constant")
						}
					}
				}
			}
		})
		issues, _ := bd.CheckFunc(f)
		for _, is := range issues {
			key := engine.FuncID(f) + "|" + is.What + "|" + is.Detail
			if _, ok := c37Frozen[key]; ok {
				used[key] = true
				continue
			}
			bad = append(bad, c.Position(is.Instr.Pos())+": "+is.What+" "+is.Detail+" [key: "+key+"]")
		}
		c.Check(len(bad) == 0, "C37.R1", engine.FuncID(f)+"/no-new-panic-site", f.Pos(), "%s", strings.Join(bad, "; "))
	}
	for k := range c37Frozen {
		if !used[k] {
			c.Fail("C37.R1", "frozen-site-gone/"+k, 0, "a frozen site of the inventory no longer exists: the table must be re-confirmed")
		}
	}
	c.Extra["r1_functions"] = n
	c.Extra["r1_frozen_sites"] = len(c37Frozen)
	c.Floor("C37.R1", 20, n)
}
