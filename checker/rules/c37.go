package rules

import (
	"go/token"
	"go/types"
	"sort"
	"strings"

	"golang.org/x/tools/go/ssa"

	"tdverif/checker/engine"
)

// C37 — HTML and Markdown formatting never crash and stay within the text
// (structural clauses: an inventory of the panic sites in gotd's own parser
// code, and the discipline under which the parsers create entities).
const (
	htmlPkg = "telegram/message/html"
	mdPkg   = "telegram/message/markdown"
)

func init() {
	register("C37", []string{htmlPkg, mdPkg, entPkg}, func(c *engine.Ctx) {
		c.Explain("C37 (structural clauses only, gotd's own code; the x/net/html tokenizer and goldmark are not analysed): (R1, panic inventory) in every function of telegram/message/html and telegram/message/markdown and in the functions of telegram/message/entity they reach there is no explicit panic, no type assertion without comma-ok and no integer division by a non-constant; every index/slice expression has bounds the interval engine proves, except inside the functions named in the exemption table, each confirmed by reading with the relational invariant it relies on (and, for Builder.TextRange, with a rule on its only in-scope caller). A new unproven site outside the table is reported. (R2, entity discipline) the parsers never call Builder.Reset/Raw/Complete on the builder they were given and create entities only through Token.Apply on that builder with a token obtained from Builder.Token of the same builder (html keeps it on its tag stack: every stored stack token is such a value); with C35.R1 (the UTF-16 counter only grows while no Reset happens) each entity therefore has offset ≤ current length and length = current − offset ≥ 0. (R3) what Complete does afterwards to keep entities inside the trimmed text is C35.R5, re-decided here under this property's id.")
		c.NotCover("panic-freedom of golang.org/x/net/html and github.com/yuin/goldmark; index arithmetic inside the exempted functions (unescapeEntity/telegramUnescape are an adaptation of html.UnescapeString whose safety rests on dst ≤ src ≤ len(b)); stack depth on deeply nested input; user-supplied UserResolver callbacks")
		c37(c)
	})
}

// c37Exempt: functions whose index arithmetic the interval engine cannot
// prove; confirmed by reading, one line of reason each. Only bounds findings
// are exempted; explicit panics and unchecked assertions are still reported.
var c37Exempt = map[string]string{
	"telegram/message/html.unescapeEntity":                    "adaptation of html.UnescapeString; relies on the caller's dst ≤ src < len(b) and on i ≤ len(s)",
	"telegram/message/html.telegramUnescape":                  "in-place compaction with dst ≤ src < len(b), cursors taken from unescapeEntity's results",
	"(*telegram/message/html.stack).last":                     "index l-1 behind the l == 0 return; the slice is loaded twice through the pointer",
	"(*telegram/message/html.stack).pop":                      "re-slices to len-1 only after last() reported an element",
	"telegram/message/entity.shrinkPreCode":                   "in-place reversal with i < j < len(entities)",
	"telegram/message/entity.shrinkPreCode$1":                 "in-place filter with n ≤ i < len(entities)",
	"telegram/message/entity.ComputeLengthBytes":              "cursor advanced by the size utf8.DecodeRune returned for s[i:] (≥ 1 while i < len(s)); shape decided by C35.R2",
	"(*telegram/message/entity.Builder).LastEntity":           "index l-1 behind the l < 1 return with l = len(b.entities) obtained through EntitiesLen()",
	"(*telegram/message/entity.Builder).TextRange":            "documented to panic on an invalid range; its in-scope caller is decided below",
}

func c37(c *engine.Ctx) {
	inScope := func(f *ssa.Function) bool {
		if f == nil || f.Pkg == nil {
			return false
		}
		p := f.Pkg.Pkg.Path()
		return strings.HasSuffix(p, "/"+htmlPkg) || strings.HasSuffix(p, "/"+mdPkg) || strings.HasSuffix(p, "/"+entPkg)
	}
	seen := map[*ssa.Function]bool{}
	var order []*ssa.Function
	var walk func(f *ssa.Function)
	walk = func(f *ssa.Function) {
		if f == nil || seen[f] || len(f.Blocks) == 0 || !inScope(f) {
			return
		}
		seen[f] = true
		order = append(order, f)
		for _, g := range f.AnonFuncs {
			walk(g)
		}
		for _, call := range engine.Calls(f) {
			walk(call.Common().StaticCallee())
			if cl := closureOf(call.Common().Value); cl != nil {
				walk(cl)
			}
			for _, a := range call.Common().Args {
				if cl := closureOf(a); cl != nil {
					walk(cl)
				}
			}
		}
	}
	var parserFns []*ssa.Function
	for _, p := range []string{htmlPkg, mdPkg} {
		for _, f := range allFunctions(c, c.SSA[p]) {
			walk(f)
			parserFns = append(parserFns, engine.WithAnon(f)...)
		}
	}
	sort.SliceStable(order, func(i, j int) bool { return engine.FuncID(order[i]) < engine.FuncID(order[j]) })
	bd := engine.NewBounds()
	n, exemptUsed := 0, 0
	for _, f := range order {
		c.SawFunc(f)
		n++
		var bad []string
		engine.Instrs(f, func(i ssa.Instruction) {
			switch x := i.(type) {
			case *ssa.Panic:
				if strings.Contains(engine.Describe(x.X), "blocking select matched no case") {
					return
				}
				if engine.FuncID(f) == "(*telegram/message/entity.Builder).GrowEntities" {
					return // documented argument check, not reachable from the parsers (decided below)
				}
				bad = append(bad, c.Position(x.Pos())+": explicit panic")
			case *ssa.TypeAssert:
				if !x.CommaOk {
					bad = append(bad, c.Position(x.Pos())+": type assertion without comma-ok")
				}
			case *ssa.BinOp:
				if x.Op == token.QUO || x.Op == token.REM {
					if _, isK := engine.ConstInt(x.Y); !isK {
						if b, isBasic := x.Y.Type().Underlying().(*types.Basic); isBasic && b.Info()&types.IsInteger != 0 {
							bad = append(bad, c.Position(x.Pos())+": integer division by a non-constant")
						}
					}
				}
			}
		})
		issues, _ := bd.CheckFunc(f)
		// lines moved out of an exempt function into an unexported helper that only
		// exempt functions call stand under the same caller-side invariant: the
		// helper inherits the exemption (an unproven index added to such a helper
		// could as well have been added to the exempt function itself)
		inherited := false
		if _, listed := c37Exempt[engine.FuncID(f)]; !listed && len(issues) > 0 && f.Object() != nil && !f.Object().Exported() && f.Signature.Recv() == nil {
			callers, allExempt := 0, true
			for _, g := range order {
				for _, call := range engine.Calls(g) {
					if call.Common().StaticCallee() != f {
						continue
					}
					callers++
					root := g
					for root.Parent() != nil {
						root = root.Parent()
					}
					if r, ok := c37Exempt[engine.FuncID(root)]; !ok || r == "" {
						allExempt = false
					}
				}
			}
			onlyCalled := true
			if refs := f.Referrers(); refs != nil {
				for _, r := range *refs {
					if ci, isCall := r.(ssa.CallInstruction); !isCall || ci.Common().StaticCallee() != f {
						onlyCalled = false
					}
				}
			}
			inherited = callers > 0 && allExempt && onlyCalled
		}
		if inherited {
			exemptUsed++
			issues = nil
		}
		if reason, ok := c37Exempt[engine.FuncID(f)]; ok && reason != "" {
			if len(issues) > 0 {
				exemptUsed++
			}
			issues = nil
		}
		for _, is := range issues {
			bad = append(bad, c.Position(is.Instr.Pos())+": "+is.What+" "+is.Detail)
		}
		c.Check(len(bad) == 0, "C37.R1", engine.FuncID(f)+"/no-panic-site", f.Pos(), "%s", strings.Join(bad, "; "))
	}
	c.Extra["r1_functions"] = n
	c.Extra["r1_exempt_functions_with_unproven_sites"] = exemptUsed
	c.Floor("C37.R1", 60, n)
	// GrowEntities (documented panic) is not called by the parsers
	m := 0
	for _, g := range parserFns {
		for _, call := range engine.Calls(g) {
			id := engine.CalleeID(call.Common())
			switch id {
			case "(*telegram/message/entity.Builder).GrowEntities", "(*telegram/message/entity.Builder).Reset", "(*telegram/message/entity.Builder).Raw", "(*telegram/message/entity.Builder).Complete":
				m++
				c.Fail("C37.R2", engine.FuncID(g)+"/"+engine.Short(id)+"#"+ordinalCall(g, call), call.Pos(), "a parser must not call %s on the builder it fills (Reset/Raw/Complete rewind the UTF-16 counter under tokens already taken; GrowEntities panics on a negative count)", engine.Short(id))
			}
		}
	}
	// TextRange: the only in-scope caller passes (recorded utf8 offset, UTF8Len())
	for _, f := range order {
		for _, call := range engine.CallsTo(f, false, "(*telegram/message/entity.Builder).TextRange") {
			m++
			a := engine.Args(call.Common())
			hi := engine.CallOf(a[2])
			ok := engine.FuncID(f) == "(telegram/message/entity.Token).Text" && engine.Describe(a[1]) == "p:t.utf8offset" && hi != nil && engine.CalleeID(hi.Common()) == "(*telegram/message/entity.Builder).UTF8Len" && engine.Unwrap(engine.Args(hi.Common())[0]) == engine.Unwrap(a[0])
			c.Check(ok, "C37.R1", engine.FuncID(f)+"/TextRange-arguments#"+ordinalCall(f, call), call.Pos(), "TextRange panics on an invalid range: it may be called only as TextRange(t.utf8offset, builder.UTF8Len()) of the same builder")
		}
	}
	// R2: every Apply uses a token taken from the same builder
	applies := 0
	for _, g := range parserFns {
		for _, call := range engine.CallsTo(g, false, "(telegram/message/entity.Token).Apply") {
			applies++
			a := engine.Args(call.Common())
			okTok, why := c37TokenOf(c, g, a[0], a[1])
			c.Check(okTok, "C37.R2", engine.FuncID(g)+"/Apply#"+ordinalCall(g, call)+"/token-of-same-builder", call.Pos(), "%s", why)
		}
	}
	c.Floor("C37.R2", 4, applies)
	_ = m
	// R3
	c35Trim(c, "C37.R3")
	// R4: the html parser writes the tokenizer's text tokens as byte chunks,
	// and a tag may stand between the bytes of one rune ("\xf0\x9f<b>\x8f\x9f</b>").
	// The UTF-16 length of a concatenation is not the sum of the lengths of
	// such chunks (two halves count as 2+2 replacement units, the whole rune as
	// 2), so a byte-chunk writer that is fed by a byte tokenizer must compute
	// its increment from more than the chunk alone (the tail of the text
	// written so far, or carried partial-rune state).
	if bw := c.MustFunc("C37.R4", entPkg, "Builder.Write"); bw != nil {
		fed := false
		for _, g := range parserFns {
			for _, call := range engine.CallsTo(g, false, "(*telegram/message/entity.Builder).Write") {
				engine.WalkBack(engine.Args(call.Common())[1], func(v ssa.Value) bool {
					if tk, ok := v.(*ssa.Call); ok && strings.Contains(engine.CalleeID(tk.Common()), "html.Tokenizer") {
						fed = true
					}
					return !fed
				})
			}
		}
		stateful := false
		for _, st := range fieldStoresSuffix(bw, ".utf16length") {
			engine.WalkBack(st.Val, func(v ssa.Value) bool {
				if ld, ok := v.(*ssa.UnOp); ok && ld.Op == token.MUL {
					d := engine.Describe(ld)
					if strings.HasPrefix(d, "p:b.") && d != "p:b.utf16length" {
						stateful = true
					}
				}
				if call, ok := v.(*ssa.Call); ok && strings.HasPrefix(engine.CalleeID(call.Common()), "(*strings.Builder).") && engine.CalleeID(call.Common()) != "(*strings.Builder).Write" {
					stateful = true
				}
				return true
			})
		}
		c.Check(!fed || stateful, "C37.R4", "Builder.Write/chunk-accounting-ignores-rune-boundaries", bw.Pos(), "html.parse feeds Builder.Write with tokenizer byte chunks, and Write adds ComputeLengthBytes of each chunk on its own: a rune split by a tag is counted as replacement units on both sides, so later entities start beyond the text (input \"\\xf0\\x9f<b>\\x8f\\x9f</b>\": text of 2 units, bold [2,+2))")
	}
}

// c37TokenOf: tok is (a load of) a value produced by builder.Token() for the
// builder expression bld — directly, or through html's tag stack, all of whose
// stored tokens are produced that way.
func c37TokenOf(c *engine.Ctx, g *ssa.Function, tok, bld ssa.Value) (bool, string) {
	db := engine.Describe(bld)
	if call := engine.CallOf(tok); call != nil && engine.CalleeID(call.Common()) == "(*telegram/message/entity.Builder).Token" {
		if engine.Describe(engine.Args(call.Common())[0]) == db {
			return true, "token taken from the same builder"
		}
		return false, "the token was taken from another builder (" + engine.Describe(engine.Args(call.Common())[0]) + ")"
	}
	// html: s.token where s came from the stack; every store to a stackElem's
	// token field in the package must be p.builder.Token()
	d := engine.Describe(tok)
	if strings.HasSuffix(d, ".token") {
		stores, good := 0, true
		for _, f := range allFunctions(c, c.SSA[htmlPkg]) {
			for _, h := range engine.WithAnon(f) {
				engine.Instrs(h, func(i ssa.Instruction) {
					st, ok := i.(*ssa.Store)
					if !ok {
						return
					}
					fa, isFA := st.Addr.(*ssa.FieldAddr)
					if !isFA || engine.FieldNameOf(fa) != "token" {
						return
					}
					stores++
					call := engine.CallOf(st.Val)
					if call == nil || engine.CalleeID(call.Common()) != "(*telegram/message/entity.Builder).Token" || !strings.HasSuffix(engine.Describe(engine.Args(call.Common())[0]), ".builder") {
						good = false
					}
				})
			}
		}
		if stores > 0 && good && strings.HasSuffix(db, ".builder") {
			return true, "token taken from the tag stack, whose tokens all come from p.builder.Token()"
		}
		return false, "a token kept on the tag stack is not produced by p.builder.Token()"
	}
	return false, "the token (" + d + ") is not the result of Token() on the builder it is applied to"
}
