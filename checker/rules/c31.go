package rules

import (
	"strings"

	"golang.org/x/tools/go/ssa"

	"tdverif/checker/engine"
)

// C31 — session file updates are atomic with respect to crashes.
func init() {
	register("C31", []string{"session"}, func(c *engine.Ctx) {
		c.Explain("C31: API-discipline rule on FileStorage.StoreSession and the same-package helpers it calls: the destination path (f.Path) is never handed to a truncating / in-place write API (os.WriteFile, os.Create, os.OpenFile); the only call that names it as a write target is os.Rename(tmp, f.Path), and that rename is dominated by a successful Write, Sync and Close of the temporary file.")
		c.NotCover("filesystem rename semantics; fsync of the parent directory")
		fn := c.MustFunc("C31.R1", "session", "FileStorage.StoreSession")
		if fn == nil {
			return
		}
		fns := reachSamePkg(c, fn, 3)
		inPlace := map[string]bool{"os.WriteFile": true, "os.Create": true, "os.OpenFile": true, "io/ioutil.WriteFile": true, "os.Truncate": true,
			"os.Remove": true, "os.RemoveAll": true, "os.Link": true, "os.Symlink": true}
		n, renames := 0, 0
		for _, f := range fns {
			for _, call := range engine.Calls(f) {
				id := engine.CalleeID(call.Common())
				if inPlace[id] {
					n++
					d := engine.Describe(call.Common().Args[0])
					isDest := strings.HasSuffix(d, ".Path") || strings.Contains(d, ".Path") && !strings.Contains(d, "CreateTemp")
					c.Check(!isDest, "C31.R1", engine.FuncID(f)+"/"+id, call.Pos(),
						"%s(%s, …) modifies or removes the session file in place: a crash right after it leaves an empty, partial or missing session", id, d)
				}
				if id == "os.Rename" {
					renames++
					n++
					dst := engine.Describe(call.Common().Args[1])
					src := call.Common().Args[0]
					// the destination is the storage path and the source is not (it is the temp
					// file's name, which may well have been derived from the path's directory)
					okDst := strings.Contains(dst, ".Path") && engine.Describe(src) != dst
					// source is the name of a temp file created by os.CreateTemp; Write, Sync, Close on it dominate the rename with nil errors
					tmp := engine.FindCallBack(src, "os.CreateTemp")
					okSeq := len(tmp) == 1
					if okSeq {
						isTmp := func(v ssa.Value) bool { return engine.CallOf(v) == tmp[0] }
						for _, m := range []string{"(*os.File).Write", "(*os.File).Sync", "(*os.File).Close"} {
							if !fileOpBefore(f, isTmp, m, call, 1) {
								okSeq = false
							}
						}
					}
					c.Check(okDst && okSeq, "C31.R1", engine.FuncID(f)+"/os.Rename", call.Pos(),
						"the session file must be replaced by renaming a temp file after its successful Write, Sync and Close (dst=%s)", dst)
				}
			}
		}
		c.Check(renames > 0 || n == 0, "C31.R1", "StoreSession/atomic-replace", fn.Pos(), "StoreSession must publish the new contents with os.Rename of a fully written temp file")
		c.Floor("C31.R1", 1, n)
	})
}

// fileOpBefore: instruction at (in f) is reached only after a successful call of
// method m on the file identified by isFile — made in f itself, or inside a
// same-package helper that is handed the file, whose nil-error result guards
// at, and every nil-error return of which is in turn reached only after a
// successful m on that parameter.
func fileOpBefore(f *ssa.Function, isFile func(ssa.Value) bool, m string, at ssa.Instruction, depth int) bool {
	for _, mc := range engine.CallsTo(f, false, m) {
		if isFile(engine.Args(mc.Common())[0]) && engine.Dominates(mc, at) && errNilGuards(mc, at) {
			return true
		}
	}
	if depth <= 0 {
		return false
	}
	for _, hc := range engine.Calls(f) {
		h := hc.Common().StaticCallee()
		if h == nil || len(h.Blocks) == 0 || h.Pkg != f.Pkg || !engine.Dominates(hc, at) || !errNilGuards(hc, at) {
			continue
		}
		for i, a := range engine.Args(hc.Common()) {
			if i >= len(h.Params) || !isFile(a) {
				continue
			}
			p := ssa.Value(h.Params[i])
			isP := func(v ssa.Value) bool { return engine.Unwrap(v) == p }
			idx := engine.ErrIndex(h)
			all, any := true, false
			for _, r := range engine.Returns(h) {
				if idx < 0 || engine.ReturnKind(r, idx) == "nonnil" {
					continue
				}
				any = true
				// "return tmp.Close()": the returned error is that of m itself
				if mc := engine.CallOf(engine.RetVal(r, idx)); mc != nil && engine.CalleeID(mc.Common()) == m && isP(engine.Args(mc.Common())[0]) {
					continue
				}
				if !fileOpBefore(h, isP, m, r, depth-1) {
					all = false
				}
			}
			if all && any {
				return true
			}
		}
	}
	return false
}

// errNilGuards: `at` is reached only when the error result of call mc is nil.
func errNilGuards(mc ssa.CallInstruction, at ssa.Instruction) bool {
	v := mc.Value()
	if v == nil {
		return false
	}
	return engine.GuardedBy(at, func(k engine.Cmp) bool {
		if !engine.IsNil(k.Y) || k.Op.String() != "==" {
			return false
		}
		x := engine.Unwrap(k.X)
		if x == ssa.Value(v) {
			return true
		}
		if e, ok := x.(*ssa.Extract); ok && e.Tuple == ssa.Value(v) {
			return true
		}
		return false
	})
}

// reachSamePkg returns fn and the same-package functions it statically calls, to the given depth.
func reachSamePkg(c *engine.Ctx, fn *ssa.Function, depth int) []*ssa.Function {
	seen := map[*ssa.Function]bool{}
	var out []*ssa.Function
	var walk func(f *ssa.Function, d int)
	walk = func(f *ssa.Function, d int) {
		if f == nil || seen[f] || len(f.Blocks) == 0 {
			return
		}
		seen[f] = true
		c.SawFunc(f)
		for _, g := range engine.WithAnon(f) {
			out = append(out, g)
			if d == 0 {
				continue
			}
			for _, call := range engine.Calls(g) {
				callee := call.Common().StaticCallee()
				if callee != nil && callee.Pkg == fn.Pkg {
					walk(callee, d-1)
				}
			}
		}
	}
	walk(fn, depth)
	return out
}
