package rules

import (
	"go/token"
	"go/types"
	"strings"

	"golang.org/x/tools/go/ssa"

	"tdverif/checker/engine"
)

// C41 — only valid salts are used; one retry on bad_server_salt.
func init() {
	register("C41", []string{"mtproto/salts", "mtproto"}, func(c *engine.Ctx) {
		c.Explain("C41: (R1) Salts.Get returns (x, true) only on paths guarded by e.ValidUntil > deadline.Unix() for the very element e whose Salt is returned, and that element is the last one of the list; the in-place filter keeps exactly the elements with ValidUntil > date; every access to Salts.salts holds saltsMux. (R2, exhaustive over the 3 order classes) saltSlice.Less(i,j) is ValidUntil_i > ValidUntil_j (descending, so the last element is the one expiring soonest), Swap exchanges i and j, and Store sorts with saltSlice after appending and de-duplicating, on every path. (R3) updateSalt asks for a salt valid at the connection clock's Now() + 5 minutes and stores it only when one was found; session() calls updateSalt before it reads c.salt under sessionMux; outgoing encrypted messages take Salt from session(); every write of c.salt holds sessionMux. (R4) Conn.Invoke re-sends only under Code == codeIncorrectServerSalt (48) of a *badMessageError, after storeSalt(NewSalt) of that same error, with the same request, through one further rpc.Do that lies outside any cycle, and Invoke does not call itself; handleBadMsg passes BadMsgID/NewServerSalt of the decoded bad_server_salt.")
		c.NotCover("ValidSince of future salts; sequences of salt sets over time; the clock")
		c41(c)
	})
}

func c41(c *engine.Ctx) {
	// ---- R1
	n1 := 0
	get := c.MustFunc("C41.R1", "mtproto/salts", "Salts.Get")
	if get != nil {
		ls := engine.Locksets(get)
		for _, r := range engine.Returns(get) {
			b, isB := engine.ConstBool(engine.RetVal(r, 1))
			if !isB || !b {
				continue
			}
			n1++
			v := engine.Describe(engine.RetVal(r, 0))
			// v = p:s.salts[IDX].Salt
			elem := strings.TrimSuffix(v, ".Salt")
			okElem := strings.HasSuffix(v, ".Salt") && strings.HasPrefix(elem, "p:s.salts[") && strings.Contains(elem, "(builtin.len(p:s.salts) - 1)")
			guarded := engine.GuardedBy(r, func(k engine.Cmp) bool {
				return k.Op == token.GTR && engine.Describe(k.X) == elem+".ValidUntil" && strings.Contains(engine.Describe(k.Y), "(time.Time).Unix(p:deadline)")
			})
			c.Check(okElem, "C41.R1", "Get/returns-last-element", r.Pos(), "the salt handed out must be the last (soonest-expiring) element of the descending list (returns %s)", v)
			c.Check(guarded, "C41.R1", "Get/valid-until-after-deadline", r.Pos(), "a salt may be returned only under element.ValidUntil > deadline.Unix() for the returned element")
		}
		// filter keeps exactly ValidUntil > date
		keep := 0
		engine.Instrs(get, func(i ssa.Instruction) {
			st, ok := i.(*ssa.Store)
			if !ok || !strings.HasPrefix(engine.Describe(st.Addr), "p:s.salts[") || !engine.InCycle(st) {
				return
			}
			if _, isIdx := st.Addr.(*ssa.IndexAddr); !isIdx {
				return
			}
			keep++
			n1++
			g := engine.GuardedBy(st, func(k engine.Cmp) bool {
				return k.Op == token.GTR && strings.HasSuffix(engine.Describe(k.X), ".ValidUntil") && strings.Contains(engine.Describe(k.Y), "(time.Time).Unix(p:deadline)")
			})
			c.Check(g, "C41.R1", "Get/filter-keeps-valid-only", st.Pos(), "the in-place filter must keep an element only under ValidUntil > date")
		})
		_ = ls
	}
	// locks on s.salts in all functions of the package
	for _, f := range allFunctions(c, c.SSA["mtproto/salts"]) {
		if f.Signature.Recv() == nil || !strings.Contains(f.Signature.Recv().Type().String(), "salts.Salts") {
			continue
		}
		ls := engine.Locksets(f)
		engine.Instrs(f, func(i ssa.Instruction) {
			var addr ssa.Value
			switch x := i.(type) {
			case *ssa.Store:
				addr = x.Addr
			case *ssa.UnOp:
				if x.Op == token.MUL {
					addr = x.X
				}
			}
			if addr == nil || engine.Describe(addr) != "p:s.salts" {
				return
			}
			if _, isFA := addr.(*ssa.FieldAddr); !isFA {
				return
			}
			n1++
			c.Check(ls[i]["p:s.saltsMux"], "C41.R1", engine.FuncID(f)+"/salts#"+ordinal(f, i)+"/lock", i.Pos(), "Salts.salts must be accessed under saltsMux")
		})
	}
	c.Floor("C41.R1", 8, n1)

	// ---- R2
	n2 := 0
	if less := c.MustFunc("C41.R2", "mtproto/salts", "saltSlice.Less"); less != nil {
		pi, pj := less.Params[1], less.Params[2]
		sym := func(v ssa.Value) string {
			d := engine.Describe(v)
			if !strings.HasSuffix(d, ".ValidUntil") {
				return ""
			}
			di, dj := engine.DependsOn(v, pi), engine.DependsOn(v, pj)
			switch {
			case di && !dj:
				return "I"
			case dj && !di:
				return "J"
			}
			return ""
		}
		names := map[int]string{-1: "<", 0: "=", 1: ">"}
		for _, o := range []int{-1, 0, 1} {
			n2++
			key := "saltSlice.Less/class(validUntil" + names[o] + ")"
			r, err := engine.AbstractRun(less, func(x, y ssa.Value) (int, bool) {
				sx, sy := sym(x), sym(y)
				switch {
				case sx == "I" && sy == "J":
					return o, true
				case sx == "J" && sy == "I":
					return -o, true
				}
				return 0, false
			})
			if err != nil || r.Bool == nil {
				c.Undecided("C41.R2", key, less.Pos(), "abstract evaluation failed: %v", err)
				continue
			}
			c.Check(*r.Bool == (o > 0), "C41.R2", key, less.Pos(), "Less(i,j) with ValidUntil_i %s ValidUntil_j is %v; descending order requires %v (Get takes the last element as the soonest-expiring one)", names[o], *r.Bool, o > 0)
		}
		c.Extra["exhaustive"] = true
	}
	if sw := c.MustFunc("C41.R2", "mtproto/salts", "saltSlice.Swap"); sw != nil {
		// two stores: s[i] = old s[j], s[j] = old s[i]
		okSwap := 0
		engine.Instrs(sw, func(i ssa.Instruction) {
			st, ok := i.(*ssa.Store)
			if !ok {
				return
			}
			a, v := engine.Describe(st.Addr), engine.Describe(st.Val)
			if (a == "p:s[p:i]" && v == "p:s[p:j]") || (a == "p:s[p:j]" && v == "p:s[p:i]") {
				okSwap++
			}
		})
		n2++
		c.Check(okSwap == 2, "C41.R2", "saltSlice.Swap/exchanges", sw.Pos(), "Swap must exchange elements i and j")
	}
	if store := c.MustFunc("C41.R2", "mtproto/salts", "Salts.Store"); store != nil {
		var srt ssa.CallInstruction
		for _, call := range engine.CallsTo(store, false, "sort.Sort", "sort.Stable") {
			if mi, ok := call.Common().Args[0].(*ssa.MakeInterface); ok && strings.HasSuffix(mi.X.Type().String(), "salts.saltSlice") && engine.Describe(mi.X) == "p:s.salts" {
				srt = call
			}
		}
		n2++
		okS := srt != nil
		if okS {
			for _, r := range exits(store) {
				if !engine.Dominates(srt, r) {
					okS = false
				}
			}
			// the sort comes after the last store to s.salts
			engine.Instrs(store, func(i ssa.Instruction) {
				if st, ok := i.(*ssa.Store); ok && engine.Describe(st.Addr) == "p:s.salts" && engine.PathExists(srt, st) {
					okS = false
				}
			})
		}
		c.Check(okS, "C41.R2", "Store/sorts-descending-after-merge", store.Pos(), "Store must sort the merged list with saltSlice before returning (Get relies on the order)")
		// appended values are the parameter
		app := false
		for _, call := range engine.CallsTo(store, false, "builtin.append") {
			if engine.Describe(call.Common().Args[0]) == "p:s.salts" && strings.HasPrefix(engine.Describe(call.Common().Args[1]), "p:salts") {
				app = true
			}
		}
		n2++
		c.Check(app, "C41.R2", "Store/appends-argument", store.Pos(), "Store must merge its argument into the stored list")
	}
	c.Floor("C41.R2", 6, n2)

	// ---- R3
	n3 := 0
	if us := c.MustFunc("C41.R3", "mtproto", "Conn.updateSalt"); us != nil {
		for _, call := range engine.CallsTo(us, false, "(*mtproto/salts.Salts).Get") {
			n3++
			d := engine.Describe(engine.Args(call.Common())[1])
			ok := strings.HasPrefix(d, "(time.Time).Add((clock.Clock).Now(p:c.clock), ")
			var dur int64 = -1
			if add := engine.CallOf(engine.Args(call.Common())[1]); add != nil && len(engine.Args(add.Common())) == 2 {
				dur, _ = engine.ConstInt(engine.Args(add.Common())[1])
			}
			c.Check(ok && dur == 300e9, "C41.R3", "updateSalt/lookahead", call.Pos(), "the salt must be valid at the connection clock's Now() + 5 minutes (asks for %s, offset %d ns)", d, dur)
			cc := call.(*ssa.Call)
			for _, st := range engine.CallsTo(us, false, "(*mtproto.Conn).storeSalt") {
				n3++
				ex, isE := engine.Unwrap(engine.Args(st.Common())[1]).(*ssa.Extract)
				okV := isE && ex.Tuple == ssa.Value(cc) && ex.Index == 0
				okG := engine.GuardedBy(st, func(k engine.Cmp) bool {
					e2, ok := engine.Unwrap(k.X).(*ssa.Extract)
					b, isB := engine.ConstBool(k.Y)
					return ok && e2.Tuple == ssa.Value(cc) && e2.Index == 1 && isB && b
				})
				c.Check(okV && okG, "C41.R3", "updateSalt/stores-found-salt-only", st.Pos(), "the current salt may be replaced only by the salt Get returned with ok == true (otherwise the last server-told salt stays)")
			}
		}
	}
	if se := c.MustFunc("C41.R3", "mtproto", "Conn.session"); se != nil {
		var up ssa.CallInstruction
		for _, call := range engine.CallsTo(se, false, "(*mtproto.Conn).updateSalt") {
			up = call
		}
		ls := engine.Locksets(se)
		engine.Instrs(se, func(i ssa.Instruction) {
			ld, ok := i.(*ssa.UnOp)
			if !ok || ld.Op != token.MUL || engine.Describe(ld.X) != "p:c.salt" {
				return
			}
			n3++
			c.Check(up != nil && engine.Dominates(up, ld) && ls[ld]["p:c.sessionMux"], "C41.R3", "session/refreshes-salt-before-reading", ld.Pos(), "session() must call updateSalt before reading c.salt, and read it under sessionMux")
		})
	}
	// all writes of c.salt in mtproto under sessionMux
	for _, f0 := range allFunctions(c, c.SSA["mtproto"]) {
		for _, f := range engine.WithAnon(f0) {
			var ls map[ssa.Instruction]map[string]bool
			engine.Instrs(f, func(i ssa.Instruction) {
				st, ok := i.(*ssa.Store)
				if !ok {
					return
				}
				fa, isFA := st.Addr.(*ssa.FieldAddr)
				if !isFA || engine.FieldNameOf(fa) != "salt" || !strings.HasSuffix(fa.X.Type().String(), "mtproto.Conn") {
					return
				}
				if _, fresh := fa.X.(*ssa.Alloc); fresh {
					return
				}
				if ls == nil {
					ls = engine.Locksets(f)
				}
				n3++
				c.Check(ls[st][engine.Describe(fa.X)+".sessionMux"], "C41.R3", engine.FuncID(f)+"/salt-store#"+ordinal(f, st)+"/lock", st.Pos(), "c.salt must be written under sessionMux")
			})
		}
	}
	if ne := c.MustFunc("C41.R3", "mtproto", "Conn.newEncryptedMessage"); ne != nil {
		ok := false
		engine.Instrs(ne, func(i ssa.Instruction) {
			st, isS := i.(*ssa.Store)
			if !isS {
				return
			}
			if fa, isFA := st.Addr.(*ssa.FieldAddr); isFA && engine.FieldNameOf(fa) == "Salt" {
				if strings.HasPrefix(engine.Describe(st.Val), "(*mtproto.Conn).session(p:c)") && strings.HasSuffix(engine.Describe(st.Val), ".Salt") {
					ok = true
				}
			}
		})
		n3++
		c.Check(ok, "C41.R3", "newEncryptedMessage/salt-from-session", ne.Pos(), "outgoing messages must carry the salt of session() (which refreshes it first)")
	}
	c.Floor("C41.R3", 6, n3)

	// ---- R4
	n4 := 0
	if inv := c.MustFunc("C41.R4", "mtproto", "Conn.Invoke"); inv != nil {
		dos := engine.CallsTo(inv, false, "(*rpc.Engine).Do")
		c.Check(len(dos) == 2, "C41.R4", "Invoke/two-do-sites", inv.Pos(), "Invoke must contain the first send and exactly one retry (rpc.Do call sites: %d)", len(dos))
		c.Check(len(engine.CallsTo(inv, true, "(*mtproto.Conn).Invoke")) == 0, "C41.R4", "Invoke/no-recursion", inv.Pos(), "the bad-salt retry must not re-enter Invoke (a second rejection would be retried again and again)")
		if len(dos) == 2 {
			first, second := dos[0], dos[1]
			if engine.Dominates(second, first) {
				first, second = second, first
			}
			n4++
			c.Check(!engine.InCycle(second) && !engine.InCycle(first), "C41.R4", "Invoke/retry-outside-cycle", second.Pos(), "the retry must not lie on a cycle (exactly one re-send)")
			c.Check(engine.Describe(second.Common().Args[2]) == engine.Describe(first.Common().Args[2]) && engine.Describe(second.Common().Args[1]) == "p:ctx", "C41.R4", "Invoke/retry-same-request", second.Pos(), "the retry must send the same request")
			// guard: Code == 48 on the error of the first Do (through errors.As target)
			code, _ := constInt(c, "mtproto", "codeIncorrectServerSalt")
			var codeSrc string
			gCode := engine.GuardedBy(second, func(k engine.Cmp) bool {
				v, isK := engine.ConstInt(k.Y)
				if k.Op == token.EQL && isK && v == code && strings.HasSuffix(engine.Describe(k.X), ".Code") {
					codeSrc = strings.TrimSuffix(engine.Describe(k.X), ".Code")
					return true
				}
				return false
			})
			c.Check(gCode && code == 48, "C41.R4", "Invoke/retry-only-on-bad-salt", second.Pos(), "the retry must be guarded by Code == codeIncorrectServerSalt (= 48; constant is %d)", code)
			gAs := engine.GuardedBy(second, func(k engine.Cmp) bool {
				call, isC := engine.Unwrap(k.X).(*ssa.Call)
				b, isB := engine.ConstBool(k.Y)
				if !isC || !isB || !b || !strings.HasSuffix(engine.CalleeID(call.Common()), "errors.As") {
					return false
				}
				return engine.Unwrap(call.Common().Args[0]) == first.Value() || engine.DependsOn(call.Common().Args[0], first.Value())
			})
			c.Check(gAs, "C41.R4", "Invoke/retry-error-of-first-send", second.Pos(), "the inspected error must be the result of the first send (errors.As on it)")
			stored := false
			for _, st := range engine.CallsTo(inv, false, "(*mtproto.Conn).storeSalt") {
				a := engine.Describe(engine.Args(st.Common())[1])
				if engine.Dominates(st, second) && strings.HasSuffix(a, ".NewSalt") && strings.TrimSuffix(a, ".NewSalt") == codeSrc {
					stored = true
				}
			}
			c.Check(stored, "C41.R4", "Invoke/new-salt-stored-before-retry", second.Pos(), "storeSalt(NewSalt of the same error) must precede the retry")
		}
	}
	if hb := c.MustFunc("C41.R4", "mtproto", "Conn.handleBadMsg"); hb != nil {
		// a notification site: NotifyError(id, &badMessageError{Code, NewSalt}) in
		// handleBadMsg itself, or a call of a helper of the package that does
		// exactly that with its own parameters (then the call-site arguments count)
		type site struct {
			call           ssa.CallInstruction
			id, code, salt ssa.Value
		}
		var sites []site
		for _, call := range engine.Calls(hb) {
			if engine.CalleeID(call.Common()) == "(*rpc.Engine).NotifyError" {
				a := engine.Args(call.Common())
				sites = append(sites, site{call, a[1], engine.StructFieldValue(a[2], "Code"), engine.StructFieldValue(a[2], "NewSalt")})
				continue
			}
			h := call.Common().StaticCallee()
			if h == nil || h.Pkg != hb.Pkg || len(h.Blocks) == 0 {
				continue
			}
			inner := engine.CallsTo(h, false, "(*rpc.Engine).NotifyError")
			if len(inner) != 1 {
				continue
			}
			ia := engine.Args(inner[0].Common())
			args := engine.Args(call.Common())
			toSite := func(v ssa.Value) ssa.Value {
				if v == nil {
					return nil
				}
				for i, p := range h.Params {
					if engine.Unwrap(v) == ssa.Value(p) && i < len(args) {
						return args[i]
					}
				}
				return nil
			}
			s := site{call, toSite(ia[1]), toSite(engine.StructFieldValue(ia[2], "Code")), toSite(engine.StructFieldValue(ia[2], "NewSalt"))}
			if k, isK := engine.ConstInt(s.salt); isK && k == 0 {
				s.salt = nil // no new salt for this kind of notification
			}
			sites = append(sites, s)
		}
		for _, s := range sites {
			call := s.call
			id := engine.Describe(s.id)
			if s.id == nil || !strings.HasSuffix(id, ".BadMsgID") {
				c.Fail("C41.R4", "handleBadMsg/notify#"+ordinalCall(hb, call)+"/id", call.Pos(), "the notified request must be BadMsgID of the decoded notification (is %s)", id)
				continue
			}
			base := strings.TrimSuffix(id, ".BadMsgID")
			n4++
			c.Check(s.code != nil && engine.Describe(s.code) == base+".ErrorCode", "C41.R4", "handleBadMsg/notify#"+ordinalCall(hb, call)+"/code", call.Pos(), "the error must carry ErrorCode of the same notification")
			if s.salt != nil {
				n4++
				c.Check(engine.Describe(s.salt) == base+".NewServerSalt", "C41.R4", "handleBadMsg/notify#"+ordinalCall(hb, call)+"/new-salt", call.Pos(), "NewSalt must be NewServerSalt of the same notification (is %s)", engine.Describe(s.salt))
			}
		}
	}
	c.Floor("C41.R4", 4, n4)
	// R5: the retry in Invoke recognises the rejection with errors.As on a
	// *badMessageError; errors.As matches the dynamic type exactly, so every
	// badMessageError that is turned into an error value in the package must
	// have that very type (a value where a pointer is expected silently
	// disables the retry and the salt update).
	want := map[string]bool{}
	for _, f := range allFunctions(c, c.SSA["mtproto"]) {
		for _, g := range engine.WithAnon(f) {
			for _, call := range engine.Calls(g) {
				if !strings.HasSuffix(engine.CalleeID(call.Common()), "errors.As") || len(call.Common().Args) != 2 {
					continue
				}
				tgt := call.Common().Args[1]
				if mi, ok := tgt.(*ssa.MakeInterface); ok {
					tgt = mi.X
				}
				if p, ok := tgt.Type().(*types.Pointer); ok && strings.Contains(p.Elem().String(), "badMessageError") {
					want[p.Elem().String()] = true
				}
			}
		}
	}
	n5 := 0
	for _, f := range allFunctions(c, c.SSA["mtproto"]) {
		for _, g := range engine.WithAnon(f) {
			engine.Instrs(g, func(i ssa.Instruction) {
				mi, ok := i.(*ssa.MakeInterface)
				if !ok || !strings.Contains(mi.X.Type().String(), "badMessageError") {
					return
				}
				if it, isI := mi.Type().Underlying().(*types.Interface); !isI || it.NumMethods() == 0 {
					return // formatting arguments (interface{}) are not error values
				}
				n5++
				c.Check(len(want) == 1 && want[mi.X.Type().String()], "C41.R5", engine.FuncID(g)+"/bad-message-error-type#"+ordinal(g, mi), mi.Pos(), "an error of type %s is produced, but the retry logic extracts %v with errors.As", mi.X.Type().String(), keys(want))
			})
		}
	}
	c.Floor("C41.R5", 1, n5)
}
