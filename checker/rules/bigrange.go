package rules

import (
	"fmt"
	"math/big"
	"sort"

	"golang.org/x/tools/go/ssa"

	"tdverif/checker/engine"
)

// Range tests on big integers, decided by class evaluation instead of by the
// spelling of the tests: every bound a function compares its subjects with is
// evaluated to a·P + k (P the prime parameter, k exact), the bounds are ordered
// (for a 2048-bit P), each subject is placed in every order class relative to
// them (below the first, equal to it, between the first and the second, …), and
// the function is run abstractly in each class. The verdict per class (accept /
// reject) is compared with the specification. A test may be written as InRange,
// as two Cmp calls, negated, De Morgan'd, kept in a local: the classes do not
// change.

// bigSym is a·P + k.
type bigSym struct {
	a int64
	k *big.Int
}

func (s bigSym) String() string {
	ks := s.k.String()
	if s.k.BitLen() > 64 {
		sign := ""
		t := new(big.Int).Abs(s.k)
		if s.k.Sign() < 0 {
			sign = "-"
		}
		if new(big.Int).Lsh(big.NewInt(1), uint(t.BitLen()-1)).Cmp(t) == 0 {
			ks = fmt.Sprintf("%s2^%d", sign, t.BitLen()-1)
		} else {
			ks = fmt.Sprintf("%s(%d-bit)", sign, t.BitLen())
		}
	}
	ps := fmt.Sprintf("%d*p", s.a)
	if s.a == 1 {
		ps = "p"
	}
	switch {
	case s.a == 0:
		return ks
	case s.k.Sign() == 0:
		return ps
	case s.k.Sign() < 0:
		return ps + ks
	}
	return ps + "+" + ks
}

// cmpSym orders two symbolic values for any P with 2^2047 <= P < 2^2048; ok is
// false when the constants are too large for the order to be independent of P.
func cmpSym(x, y bigSym) (int, bool) {
	if x.k.BitLen() > 2040 || y.k.BitLen() > 2040 {
		return 0, false
	}
	if x.a != y.a {
		if x.a < y.a {
			return -1, true
		}
		return 1, true
	}
	return x.k.Cmp(y.k), true
}

// big.Int methods that do not change their receiver.
var bigPure = map[string]bool{
	"Cmp": true, "CmpAbs": true, "BitLen": true, "Bytes": true, "FillBytes": true, "Sign": true, "Int64": true, "Uint64": true,
	"IsInt64": true, "IsUint64": true, "String": true, "Text": true, "Bit": true, "ProbablyPrime": true, "TrailingZeroBits": true,
	"Append": true, "Format": true,
}

// bigMutatedBesides: v (a *big.Int value) is the receiver of a mutating method
// other than except.
func bigMutatedBesides(v ssa.Value, except *ssa.Call) bool {
	refs := v.Referrers()
	if refs == nil {
		return false
	}
	for _, r := range *refs {
		call, ok := r.(ssa.CallInstruction)
		if !ok {
			continue
		}
		if c, isC := r.(*ssa.Call); isC && c == except {
			continue
		}
		callee := call.Common().StaticCallee()
		if callee == nil || callee.Signature.Recv() == nil || callee.Pkg == nil || callee.Pkg.Pkg.Path() != "math/big" {
			continue
		}
		args := call.Common().Args
		if len(args) > 0 && args[0] == v && !bigPure[callee.Name()] {
			return true
		}
	}
	return false
}

// bigEval evaluates a *big.Int expression to a·P + k.
func bigEval(v ssa.Value, prime ssa.Value) (bigSym, error) {
	return bigEvalD(v, prime, 0, nil)
}

// bigEvalHelper: result idx of a call of a helper with a body (dhSafetyRange(p)
// returning both bounds): every return of the helper must evaluate, with the
// helper's parameters bound to the evaluated arguments, to the same value.
func bigEvalHelper(call *ssa.Call, idx int, prime ssa.Value, depth int, env map[*ssa.Parameter]bigSym) (bigSym, error) {
	h := call.Common().StaticCallee()
	if h == nil || len(h.Blocks) == 0 || h.Pkg == nil || call.Parent() == nil || h.Pkg != call.Parent().Pkg {
		return bigSym{}, fmt.Errorf("%s is not a big.Int expression over the prime", engine.Describe(call))
	}
	inner := map[*ssa.Parameter]bigSym{}
	for i, a := range engine.Args(call.Common()) {
		if i >= len(h.Params) {
			break
		}
		if s, err := bigEvalD(a, prime, depth+1, env); err == nil {
			inner[h.Params[i]] = s
		}
	}
	var out *bigSym
	for _, r := range engine.Returns(h) {
		if idx >= len(r.Results) {
			return bigSym{}, fmt.Errorf("%s has no result %d", h.Name(), idx)
		}
		s, err := bigEvalD(engine.RetVal(r, idx), nil, depth+1, inner)
		if err != nil {
			return bigSym{}, fmt.Errorf("in %s: %v", h.Name(), err)
		}
		if out != nil && (out.a != s.a || out.k.Cmp(s.k) != 0) {
			return bigSym{}, fmt.Errorf("%s returns different values on different paths", h.Name())
		}
		out = &s
	}
	if out == nil {
		return bigSym{}, fmt.Errorf("%s never returns", h.Name())
	}
	return *out, nil
}

func bigEvalD(v ssa.Value, prime ssa.Value, depth int, env map[*ssa.Parameter]bigSym) (bigSym, error) {
	v = engine.Unwrap(v)
	if depth > 12 {
		return bigSym{}, fmt.Errorf("expression too deep")
	}
	if prime != nil && v == prime {
		return bigSym{a: 1, k: new(big.Int)}, nil
	}
	if p, isP := v.(*ssa.Parameter); isP {
		if s, bound := env[p]; bound {
			return s, nil
		}
	}
	if ex, isE := v.(*ssa.Extract); isE {
		if hc, isC := ex.Tuple.(*ssa.Call); isC {
			return bigEvalHelper(hc, ex.Index, prime, depth, env)
		}
	}
	call, ok := v.(*ssa.Call)
	if !ok {
		return bigSym{}, fmt.Errorf("%s is not a big.Int expression over the prime", engine.Describe(v))
	}
	if callee := call.Common().StaticCallee(); callee != nil && len(callee.Blocks) > 0 && callee.Pkg != nil && call.Parent() != nil && callee.Pkg == call.Parent().Pkg && callee.Signature.Results().Len() == 1 {
		return bigEvalHelper(call, 0, prime, depth, env)
	}
	if bigMutatedBesides(call, nil) {
		return bigSym{}, fmt.Errorf("%s is changed in place after it is computed", engine.Describe(v))
	}
	id := engine.CalleeID(call.Common())
	args := engine.Args(call.Common())
	fresh := func(z ssa.Value) error {
		z = engine.Unwrap(z)
		zc, isC := z.(*ssa.Call)
		if isC && engine.CalleeID(zc.Common()) == "math/big.NewInt" && !bigMutatedBesides(zc, call) {
			return nil
		}
		if al, isA := z.(*ssa.Alloc); isA && !bigMutatedBesides(al, call) {
			return nil
		}
		return fmt.Errorf("receiver %s of %s is not a fresh value", engine.Describe(z), id)
	}
	sub := func(i int) (bigSym, error) { return bigEvalD(args[i], prime, depth+1, env) }
	switch id {
	case "math/big.NewInt":
		n, isK := engine.ConstInt(args[0])
		if !isK {
			return bigSym{}, fmt.Errorf("NewInt of a non-constant")
		}
		return bigSym{k: big.NewInt(n)}, nil
	case "(*math/big.Int).Sub", "(*math/big.Int).Add":
		if err := fresh(args[0]); err != nil {
			return bigSym{}, err
		}
		x, err := sub(1)
		if err != nil {
			return bigSym{}, err
		}
		y, err := sub(2)
		if err != nil {
			return bigSym{}, err
		}
		if id == "(*math/big.Int).Sub" {
			return bigSym{a: x.a - y.a, k: new(big.Int).Sub(x.k, y.k)}, nil
		}
		return bigSym{a: x.a + y.a, k: new(big.Int).Add(x.k, y.k)}, nil
	case "(*math/big.Int).Exp":
		if err := fresh(args[0]); err != nil {
			return bigSym{}, err
		}
		x, err := sub(1)
		if err != nil {
			return bigSym{}, err
		}
		y, err := sub(2)
		if err != nil {
			return bigSym{}, err
		}
		if !engine.IsNil(args[3]) || x.a != 0 || y.a != 0 || !y.k.IsInt64() || y.k.Int64() < 0 || y.k.Int64() > 8192 || x.k.BitLen() > 16 {
			return bigSym{}, fmt.Errorf("Exp outside the supported form (small base, small exponent, no modulus)")
		}
		return bigSym{k: new(big.Int).Exp(x.k, y.k, nil)}, nil
	case "(*math/big.Int).Lsh":
		if err := fresh(args[0]); err != nil {
			return bigSym{}, err
		}
		x, err := sub(1)
		if err != nil {
			return bigSym{}, err
		}
		n, isK := engine.ConstInt(args[2])
		if !isK || n < 0 || n > 8192 || x.a != 0 {
			return bigSym{}, fmt.Errorf("Lsh by a non-constant")
		}
		return bigSym{k: new(big.Int).Lsh(x.k, uint(n))}, nil
	case "(*math/big.Int).SetBit":
		if err := fresh(args[0]); err != nil {
			return bigSym{}, err
		}
		x, err := sub(1)
		if err != nil {
			return bigSym{}, err
		}
		i, isI := engine.ConstInt(args[2])
		b, isB := engine.ConstInt(args[3])
		if !isI || !isB || i < 0 || i > 8192 || x.a != 0 || x.k.Sign() < 0 {
			return bigSym{}, fmt.Errorf("SetBit outside the supported form")
		}
		return bigSym{k: new(big.Int).SetBit(x.k, int(i), uint(b))}, nil
	case "(*math/big.Int).Set":
		if err := fresh(args[0]); err != nil {
			return bigSym{}, err
		}
		return sub(1)
	}
	return bigSym{}, fmt.Errorf("unsupported big.Int operation %s", id)
}

// bigRangeTable is the verdict of a range-checking function in every order
// class of its subjects.
type bigRangeTable struct {
	Bounds   []bigSym // ascending, distinct
	Subjects []ssa.Value
	// Accept[class] for class = Σ pos(subject i)·(2m+1)^i, pos in 0..2m
	Accept map[int]bool
	Runs   int
}

func (t *bigRangeTable) nPos() int { return 2*len(t.Bounds) + 1 }

// pos splits a class index into the per-subject positions.
func (t *bigRangeTable) pos(class int) []int {
	out := make([]int, len(t.Subjects))
	for i := range out {
		out[i] = class % t.nPos()
		class /= t.nPos()
	}
	return out
}

// boundIndex finds b among the table's bounds.
func (t *bigRangeTable) boundIndex(b bigSym) int {
	for i, x := range t.Bounds {
		if c, ok := cmpSym(x, b); ok && c == 0 {
			return i
		}
	}
	return -1
}

// empty: position p is the open interval between two adjacent integers (no
// value belongs to the class; its verdict means nothing).
func (t *bigRangeTable) empty(p int) bool {
	if p%2 == 1 || p == 0 || p == 2*len(t.Bounds) {
		return false
	}
	lo, hi := t.Bounds[p/2-1], t.Bounds[p/2]
	return lo.a == hi.a && new(big.Int).Sub(hi.k, lo.k).Cmp(big.NewInt(1)) == 0
}

// anyEmpty: one of the positions is an empty class.
func (t *bigRangeTable) anyEmpty(pos []int) bool {
	for _, p := range pos {
		if t.empty(p) {
			return true
		}
	}
	return false
}

// posName renders a position for a report.
func (t *bigRangeTable) posName(p int) string {
	switch {
	case p%2 == 1:
		return "= " + t.Bounds[p/2].String()
	case p == 0:
		return "< " + t.Bounds[0].String()
	case p == 2*len(t.Bounds):
		return "> " + t.Bounds[len(t.Bounds)-1].String()
	}
	return "in (" + t.Bounds[p/2-1].String() + ", " + t.Bounds[p/2].String() + ")"
}

// bigRangeEval runs fn in every order class. inRange is the strict-range
// predicate function (crypto.InRange, verified on its own), accept tells whether
// a return of fn accepts. extra bounds are added to the ones fn mentions so that
// the specification's bounds are always among the classes.
func bigRangeEval(fn *ssa.Function, prime ssa.Value, subjects []ssa.Value, inRange string, extra []bigSym, accept func(*ssa.Return) (bool, bool)) (*bigRangeTable, error) {
	isSubject := func(v ssa.Value) int {
		v = engine.Unwrap(v)
		for i, s := range subjects {
			if v == s {
				return i
			}
		}
		return -1
	}
	t := &bigRangeTable{Subjects: subjects, Accept: map[int]bool{}}
	var bounds []bigSym
	add := func(b bigSym) error {
		for _, x := range bounds {
			c, ok := cmpSym(x, b)
			if !ok {
				return fmt.Errorf("bound %s cannot be ordered independently of the prime", b)
			}
			if c == 0 {
				return nil
			}
		}
		bounds = append(bounds, b)
		return nil
	}
	for _, b := range extra {
		if err := add(b); err != nil {
			return nil, err
		}
	}
	symOf := map[ssa.Value]bigSym{}
	evalBound := func(v ssa.Value) error {
		b, err := bigEval(v, prime)
		if err != nil {
			return err
		}
		symOf[engine.Unwrap(v)] = b
		return add(b)
	}
	var bad error
	engine.Instrs(fn, func(in ssa.Instruction) {
		call, ok := in.(*ssa.Call)
		if !ok || bad != nil {
			return
		}
		id := engine.CalleeID(call.Common())
		args := engine.Args(call.Common())
		switch id {
		case "(*math/big.Int).Cmp":
			sx, sy := isSubject(args[0]), isSubject(args[1])
			switch {
			case sx >= 0 && sy < 0:
				bad = evalBound(args[1])
			case sy >= 0 && sx < 0:
				bad = evalBound(args[0])
			default:
				bad = fmt.Errorf("comparison %s is not between a subject and a bound", engine.Describe(call))
			}
		case inRange:
			if isSubject(args[0]) < 0 {
				bad = fmt.Errorf("%s applied to %s, which is not a subject", inRange, engine.Describe(args[0]))
				return
			}
			if bad = evalBound(args[1]); bad == nil {
				bad = evalBound(args[2])
			}
		}
	})
	if bad != nil {
		return nil, bad
	}
	var sortErr error
	sort.Slice(bounds, func(i, j int) bool {
		c, ok := cmpSym(bounds[i], bounds[j])
		if !ok {
			sortErr = fmt.Errorf("bounds cannot be ordered")
		}
		return c < 0
	})
	if sortErr != nil {
		return nil, sortErr
	}
	t.Bounds = bounds
	// sign of (subject at position p) − bound b
	signAt := func(p int, b bigSym) int {
		i := t.boundIndex(b)
		return cmp64(int64(p), int64(2*i+1))
	}
	total := 1
	for range subjects {
		total *= t.nPos()
	}
	if total > 200000 {
		return nil, fmt.Errorf("%d classes: too many bounds", total)
	}
	for class := 0; class < total; class++ {
		pos := t.pos(class)
		cmpVal := func(v ssa.Value) (int, bool) {
			call, ok := engine.Unwrap(v).(*ssa.Call)
			if !ok || engine.CalleeID(call.Common()) != "(*math/big.Int).Cmp" {
				return 0, false
			}
			args := engine.Args(call.Common())
			if sx := isSubject(args[0]); sx >= 0 {
				return signAt(pos[sx], symOf[engine.Unwrap(args[1])]), true
			}
			if sy := isSubject(args[1]); sy >= 0 {
				return -signAt(pos[sy], symOf[engine.Unwrap(args[0])]), true
			}
			return 0, false
		}
		rel := func(p, q ssa.Value) (int, bool) {
			if s, ok := cmpVal(p); ok {
				if k, isK := engine.ConstInt(q); isK {
					return cmp64(int64(s), k), true
				}
				if s2, ok2 := cmpVal(q); ok2 {
					return cmp64(int64(s), int64(s2)), true
				}
			}
			if s, ok := cmpVal(q); ok {
				if k, isK := engine.ConstInt(p); isK {
					return cmp64(k, int64(s)), true
				}
			}
			return 0, false
		}
		boolOf := func(v ssa.Value) (bool, bool) {
			call, ok := engine.Unwrap(v).(*ssa.Call)
			if !ok || engine.CalleeID(call.Common()) != inRange {
				return false, false
			}
			args := engine.Args(call.Common())
			s := isSubject(args[0])
			if s < 0 {
				return false, false
			}
			return signAt(pos[s], symOf[engine.Unwrap(args[1])]) > 0 && signAt(pos[s], symOf[engine.Unwrap(args[2])]) < 0, true
		}
		res, err := engine.AbstractRunOpt(fn, rel, boolOf)
		if err != nil {
			return nil, fmt.Errorf("class %v: %v", pos, err)
		}
		acc, ok := accept(res.Ret)
		if !ok {
			return nil, fmt.Errorf("class %v: the return at %v neither accepts nor rejects", pos, res.Ret.Pos())
		}
		t.Accept[class] = acc
		t.Runs++
	}
	return t, nil
}

// ---------------------------------------------------------------------------
// crypto.CheckDHParams

// dhRange is one specified range of CheckDHParams.
type dhRange struct {
	name    string
	subject int // index in (g, gA, gB)
	lo, hi  bigSym
}

type dhParamsTable struct {
	t      *bigRangeTable
	ranges []dhRange
	err    error
}

// one entry: the table of the context evaluated last (a map would keep every
// mutant's program alive)
var dhParamsLast struct {
	c *engine.Ctx
	t *dhParamsTable
}

// dhParamsEval: CheckDHParams(dhPrime, g, gA, gB) in every order class of g,
// g_a, g_b relative to the bounds it uses and the specified ones.
func dhParamsEval(c *engine.Ctx) *dhParamsTable {
	if dhParamsLast.c == c {
		return dhParamsLast.t
	}
	out := &dhParamsTable{}
	dhParamsLast.c, dhParamsLast.t = c, out
	fn := c.Func("crypto", "CheckDHParams")
	if fn == nil || len(fn.Params) != 4 {
		out.err = fmt.Errorf("crypto.CheckDHParams(dhPrime, g, gA, gB) not found")
		return out
	}
	bits, _ := constInt(c, "crypto", "RSAKeyBits")
	if bits != 2048 {
		out.err = fmt.Errorf("RSAKeyBits = %d (2048 expected)", bits)
		return out
	}
	one := bigSym{k: big.NewInt(1)}
	pm1 := bigSym{a: 1, k: big.NewInt(-1)}
	smin := bigSym{k: new(big.Int).Lsh(big.NewInt(1), uint(bits-64))}
	smax := bigSym{a: 1, k: new(big.Int).Neg(smin.k)}
	out.ranges = []dhRange{
		{"g in (1,p-1)", 0, one, pm1},
		{"g_a in (1,p-1)", 1, one, pm1},
		{"g_b in (1,p-1)", 2, one, pm1},
		{"g_a in (2^1984, p-2^1984)", 1, smin, smax},
		{"g_b in (2^1984, p-2^1984)", 2, smin, smax},
	}
	idx := engine.ErrIndex(fn)
	out.t, out.err = bigRangeEval(fn, fn.Params[0], []ssa.Value{fn.Params[1], fn.Params[2], fn.Params[3]}, "crypto.InRange",
		[]bigSym{one, smin, smax, pm1}, func(r *ssa.Return) (bool, bool) {
			switch engine.ReturnKind(r, idx) {
			case "nil":
				return true, true
			case "nonnil":
				return false, true
			}
			return false, false
		})
	return out
}

// inside: position p lies strictly inside (lo, hi).
func (d *dhParamsTable) inside(p int, r dhRange) bool {
	return p > 2*d.t.boundIndex(r.lo)+1 && p < 2*d.t.boundIndex(r.hi)+1
}

// acceptedOutside: an accepted class whose subject lies outside r ("" if none).
func (d *dhParamsTable) acceptedOutside(r dhRange) string {
	total := len(d.t.Accept)
	for class := 0; class < total; class++ {
		if !d.t.Accept[class] {
			continue
		}
		pos := d.t.pos(class)
		if !d.t.anyEmpty(pos) && !d.inside(pos[r.subject], r) {
			return d.className(pos)
		}
	}
	return ""
}

// rejectedInside: a rejected class with every subject inside every range.
func (d *dhParamsTable) rejectedInside() string {
	total := len(d.t.Accept)
	for class := 0; class < total; class++ {
		if d.t.Accept[class] {
			continue
		}
		pos := d.t.pos(class)
		all := !d.t.anyEmpty(pos)
		for _, r := range d.ranges {
			all = all && d.inside(pos[r.subject], r)
		}
		if all {
			return d.className(pos)
		}
	}
	return ""
}

func (d *dhParamsTable) className(pos []int) string {
	return fmt.Sprintf("g %s, g_a %s, g_b %s", d.t.posName(pos[0]), d.t.posName(pos[1]), d.t.posName(pos[2]))
}

// acceptedInterval: the bounds between which subject s is accepted when the
// other subjects are valid: (lo, hi), each nil when unbounded; ok false when no
// class is accepted at all.
func (d *dhParamsTable) acceptedInterval(s int) (lo, hi *bigSym, ok bool) {
	minP, maxP := -1, -1
	for class := 0; class < len(d.t.Accept); class++ {
		if !d.t.Accept[class] {
			continue
		}
		if d.t.anyEmpty(d.t.pos(class)) {
			continue
		}
		p := d.t.pos(class)[s]
		if minP < 0 || p < minP {
			minP = p
		}
		if p > maxP {
			maxP = p
		}
	}
	if minP < 0 {
		return nil, nil, false
	}
	// the greatest bound not accepted below minP / the least bound not accepted above maxP
	if i := (minP+1)/2 - 1; i >= 0 {
		b := d.t.Bounds[i]
		lo = &b
	}
	if i := maxP / 2; i < len(d.t.Bounds) {
		b := d.t.Bounds[i]
		hi = &b
	}
	return lo, hi, true
}
