package rules

import (
	"go/token"
	"go/types"

	"golang.org/x/tools/go/ssa"

	"tdverif/checker/engine"
)

// C38 — Bot-API file ids round-trip; decoding never panics.
func init() {
	register("C38", []string{"fileid", "bin"}, func(c *engine.Ctx) {
		c.Explain("C38: (R1, wrap rule) no arithmetic on a sub-word integer in rleEncode/rleDecode may leave its type range: the zero-run counter is a byte, its increment must be dominated by a saturation guard. (R3) every slice/index expression in DecodeFileID, rleDecode, rleEncode, decodeLatestFileID and PhotoSizeSource.decode is proven in range.")
		c.Explain("(R2) FileID.encodeLatestFileID and decodeLatestFileID perform the same wire operations in the same order, with the optional file reference and URL optional on both sides.")
		c.NotCover("value equality of encode∘decode; the flag bits that make the optional fields present; PhotoSizeSource's inner layout; base64")
		c38R1(c)
		c38R3(c)
		// R2 writer/reader agreement of the latest-version layout: the same
		// primitives in the same order, optional ones optional on both sides
		n := wirePairs(c, "C38.R2", "fileid", []codecPair{{"FileID", "encodeLatestFileID", "decodeLatestFileID"}})
		c.Floor("C38.R2", 1, n)
	})
}

func narrowInt(t types.Type) bool {
	b, ok := t.Underlying().(*types.Basic)
	if !ok {
		return false
	}
	switch b.Kind() {
	case types.Int8, types.Int16, types.Uint8, types.Uint16:
		return true
	}
	return false
}

func c38R1(c *engine.Ctx) {
	iv := engine.NewBounds().IV
	n := 0
	for _, name := range []string{"rleEncode", "rleDecode"} {
		fn := c.MustFunc("C38.R1", "fileid", name)
		if fn == nil {
			continue
		}
		engine.Instrs(fn, func(i ssa.Instruction) {
			// narrowing conversions of a wider counter: the value must fit the target type
			if cv, isCv := i.(*ssa.Convert); isCv && narrowInt(cv.Type()) {
				if sb, isB := cv.X.Type().Underlying().(*types.Basic); isB && sb.Info()&types.IsInteger != 0 && !narrowInt(cv.X.Type()) {
					n++
					src := iv.At(cv.X, cv)
					tr := engine.TypeRange(cv.Type())
					c.Check(src.Lo >= tr.Lo && src.Hi <= tr.Hi, "C38.R1", name+"/convert#"+ordinal(fn, cv), cv.Pos(),
						"%s(%s) with the operand in %s does not fit %s: a run length of 256 would be written as 0", cv.Type(), engine.Describe(cv.X), src, tr)
				}
				return
			}
			b, ok := i.(*ssa.BinOp)
			if !ok || !narrowInt(b.Type()) {
				return
			}
			switch b.Op {
			case token.ADD, token.SUB, token.MUL, token.SHL:
			default:
				return
			}
			n++
			raw, ok := iv.BinRaw(b, b)
			tr := engine.TypeRange(b.Type())
			key := name + "/" + b.Op.String() + "#" + ordinal(fn, b)
			if !ok {
				c.Undecided("C38.R1", key, b.Pos(), "operation not modelled")
				return
			}
			c.Check(raw.Lo >= tr.Lo && raw.Hi <= tr.Hi, "C38.R1", key, b.Pos(),
				"%s on %s yields %s, must stay within %s (a run counter that wraps loses 256 zero bytes)", b.Op, b.Type(), raw, tr)
		})
	}
	c.Floor("C38.R1", 1, n)
}

func c38R3(c *engine.Ctx) {
	bd := engine.NewBounds()
	sites := 0
	for _, name := range []string{"DecodeFileID", "rleDecode", "rleEncode", "FileID.decodeLatestFileID", "PhotoSizeSource.decode",
		"PhotoSizeSource.readLocalIDVolumeID", "PhotoSizeSource.readDialog", "PhotoSizeSource.readStickerSet"} {
		fn := c.MustFunc("C38.R3", "fileid", name)
		if fn == nil {
			continue
		}
		issues, n := bd.CheckFunc(fn)
		sites += n
		for _, is := range issues {
			c.Fail("C38.R3", name+"/"+is.What+"#"+ordinal(fn, is.Instr), is.Instr.Pos(), "%s", is.Detail)
		}
		if len(issues) == 0 {
			c.Pass("C38.R3", name+"/bounds", fn.Pos(), "%d slice/index sites proven in range", n)
		}
	}
	c.Floor("C38.R3", 4, sites)
	// R4: run-length coding changes the length of its input (an isolated zero
	// byte becomes two bytes), so it cannot work in place: no call in the
	// package may pass two byte slices that are views of the same array (a
	// destination like buf[:0] next to the source buf).
	calls := 0
	for _, f := range allFunctions(c, c.SSA["fileid"]) {
		for _, g := range engine.WithAnon(f) {
			for _, call := range engine.Calls(g) {
				callee := call.Common().StaticCallee()
				if callee == nil || callee.Pkg != f.Pkg {
					continue
				}
				bases := map[string]int{}
				for _, a := range engine.Args(call.Common()) {
					if s, ok := a.Type().Underlying().(*types.Slice); !ok || !types.Identical(s.Elem(), types.Typ[types.Byte]) {
						continue
					}
					v := engine.Unwrap(a)
					for {
						if sl, isSl := v.(*ssa.Slice); isSl {
							v = engine.Unwrap(sl.X)
							continue
						}
						break
					}
					bases[engine.Describe(v)]++
				}
				calls++
				dup := ""
				for b, k := range bases {
					if k > 1 {
						dup = b
					}
				}
				c.Check(dup == "", "C38.R4", engine.FuncID(g)+"/"+engine.Short(engine.CalleeID(call.Common()))+"#"+ordinalCall(g, call)+"/no-overlapping-slices", call.Pos(), "two byte-slice arguments are views of the same array (%s): a length-changing transformation in place overwrites bytes it has not read yet", dup)
			}
		}
	}
	c.Floor("C38.R4", 3, calls)
}
