package rules

import (
	"fmt"
	"strconv"
	"strings"

	"golang.org/x/tools/go/ssa"

	"tdverif/checker/engine"
)

// C06 — key derivation matches the MTProto 2.0 and 1.0 specifications.
//
// The specification is a table of substring offsets and concatenation orders;
// that table is in the shape of the code. Hash inputs and copy splices are
// extracted per function as spans base[lo:hi] with bounds folded to linear
// forms in x and compared with the table transcribed from core.telegram.org.
func init() {
	register("C06", []string{"crypto"}, func(c *engine.Ctx) {
		c.Explain("C06: per function of crypto/keys.go, keys_old.go, kdf_v1.go and bind.go the ordered hash inputs and copy splices are extracted as spans over parameters with bounds folded to a·x+b, and compared with the table transcribed from the MTProto 2.0 / 1.0 specification (msg_key_large, msg_key, sha256_a/b, aes_key/iv, x by side; sha1_a..d, v1 key/iv splices, msg_key v1). EncryptBindMessage: envelope order, msg_key computed before the padding append, KeysV1 keyed with the permanent key, auth_key_id = permKey.ID.")
		c.NotCover("SHA-1/SHA-256/AES themselves; the transcription of the specification table is trusted; restructuring that moves slicing into new helpers is reported as UNDECIDED")
		c06(c)
	})
}

type shapeSpec struct {
	fn     string
	xParam int      // index of the x parameter (or -1: x is the result of getX / none)
	writes []string // expected hash inputs, in order
	copies []string // expected copy splices, in order
}

var c06Specs = []shapeSpec{
	// msg_key_large = SHA256(substr(auth_key, 88+x, 32) + plaintext + padding)
	{"msgKeyLarge", -1, []string{"P1[1x+88:1x+120]", "P2"}, nil},
	// msg_key = substr(msg_key_large, 8, 16)
	{"messageKey", -1, nil, []string{"v@0 ← P0[8:24]"}},
	// sha256_a = SHA256(msg_key + substr(auth_key, x, 36))
	{"sha256a", 3, []string{"P2", "P1[1x:1x+36]"}, nil},
	// sha256_b = SHA256(substr(auth_key, 40+x, 36) + msg_key)
	{"sha256b", 3, []string{"P1[1x+40:1x+76]", "P2"}, nil},
	// aes_key = substr(sha256_a, 0, 8) + substr(sha256_b, 8, 16) + substr(sha256_a, 24, 8)
	{"aesKey", -1, nil, []string{"P2@0 ← P0[0:8]", "P2@8 ← P1[8:24]", "P2@24 ← P0[24:32]"}},
	// v1
	{"sha1a", 3, []string{"P2", "P1[1x:1x+32]"}, nil},
	{"sha1b", 3, []string{"P1[1x+32:1x+48]", "P2", "P1[1x+48:1x+64]"}, nil},
	{"sha1c", 3, []string{"P1[1x+64:1x+96]", "P2"}, nil},
	{"sha1d", 3, []string{"P2", "P1[1x+96:1x+128]"}, nil},
}

func normSpans(ss []string) string { return strings.Join(ss, " ; ") }

func c06(c *engine.Ctx) {
	n := 0
	for _, sp := range c06Specs {
		fn := c.MustFunc("C06.R1", "crypto", sp.fn)
		if fn == nil {
			continue
		}
		n++
		sc := shapeCtx(fn, sp.xParam)
		key := sp.fn + "/shape"
		if sp.writes != nil {
			spans, _, err := sc.HashWrites()
			if err != nil {
				c.Undecided("C06.R1", key, fn.Pos(), "%v", err)
				continue
			}
			var got []string
			for _, s := range spans {
				got = append(got, s.String())
			}
			c.Check(normSpans(got) == normSpans(sp.writes), "C06.R1", key, fn.Pos(), "hash inputs [%s], specification [%s]", normSpans(got), normSpans(sp.writes))
		}
		if sp.copies != nil {
			cps, err := sc.Copies()
			if err != nil {
				c.Undecided("C06.R1", key, fn.Pos(), "%v", err)
				continue
			}
			var got []string
			for _, cp := range cps {
				got = append(got, normCopy(cp))
			}
			c.Check(normSpans(got) == normSpans(sp.copies), "C06.R1", key, fn.Pos(), "splices [%s], specification [%s]", normSpans(got), normSpans(sp.copies))
		}
	}
	c.Floor("C06.R1", 9, n)
	c06Wiring(c)
	c06V1(c)
	c06Bind(c)
	c06Inner(c)
	c06Pure(c)
}

// c06Inner: bind_auth_key_inner#75a3f765 nonce:long temp_auth_key_id:long
// perm_auth_key_id:long temp_session_id:long expires_at:int — writer and reader
// must both follow this order (a consistent swap on both sides round-trips but
// is not what the server reads).
func c06Inner(c *engine.Ctx) {
	want := "ID(0x75a3f765) Long:Nonce Long:TempAuthKeyID Long:PermAuthKeyID Long:TempSessionID Int:ExpiresAt"
	for _, spec := range []struct {
		name   string
		writer bool
	}{{"BindAuthKeyInner.Encode", true}, {"BindAuthKeyInner.Decode", false}} {
		fn := c.MustFunc("C06.R5", "crypto", spec.name)
		if fn == nil {
			continue
		}
		ops, err := engine.WireOps(fn, fn.Params[0], fn.Params[1], spec.writer)
		if err != nil {
			c.Undecided("C06.R5", spec.name+"/wire-order", fn.Pos(), "%v", err)
			continue
		}
		var got []string
		for _, o := range ops {
			s := o.Kind
			if o.Field != "" {
				s += ":" + o.Field
			}
			got = append(got, s)
		}
		c.Check(strings.Join(got, " ") == want, "C06.R5", spec.name+"/wire-order", fn.Pos(), "bind_auth_key_inner is laid out as [%s], specification [%s]", strings.Join(got, " "), want)
	}
}

// c06Pure: key derivation must be a function of its arguments only — no
// package-level variable may be read or written by the KDF functions (a shared
// scratch buffer makes concurrent derivations corrupt each other's keys).
func c06Pure(c *engine.Ctx) {
	n := 0
	for _, name := range []string{"msgKeyLarge", "messageKey", "MessageKey", "sha256a", "sha256b", "aesKey", "aesIV", "Keys", "getX",
		"sha1a", "sha1b", "sha1c", "sha1d", "KeysV1", "MessageKeyV1", "OldKeys"} {
		fn := c.Func("crypto", name)
		if fn == nil {
			continue
		}
		n++
		var globals []string
		engine.Instrs(fn, func(i ssa.Instruction) {
			for _, op := range i.Operands(nil) {
				if g, ok := (*op).(*ssa.Global); ok {
					globals = append(globals, g.Name())
				}
			}
		})
		c.Check(len(globals) == 0, "C06.R6", name+"/no-package-state", fn.Pos(), "key derivation must depend on its arguments only; it touches package-level variables %v", globals)
	}
	c.Floor("C06.R6", 10, n)
	// the bind message handed to the caller must be the caller's own bytes: it
	// is kept until the bind request was answered (and retried), so it may
	// alias neither package state nor a pooled buffer the function gives back
	if fn := c.MustFunc("C06.R6", "crypto", "EncryptBindMessage"); fn != nil {
		var puts []ssa.Value
		for _, call := range engine.Calls(fn) {
			if engine.CalleeID(call.Common()) == "(*bin.Pool).Put" {
				puts = append(puts, engine.Unwrap(engine.Args(call.Common())[1]))
			}
		}
		m := 0
		for _, r := range engine.SuccessReturns(fn) {
			m++
			var bad []string
			engine.WalkBack(r.Results[0], func(v ssa.Value) bool {
				if g, ok := v.(*ssa.Global); ok {
					bad = append(bad, "package variable "+g.Name())
				}
				if call, ok := v.(*ssa.Call); ok {
					switch engine.CalleeID(call.Common()) {
					case "builtin.append":
						// append(nil-or-fresh, x...) copies x: stop at a copy into a fresh slice
						if engine.IsNil(call.Common().Args[0]) {
							return false
						}
					case "(*bin.Pool).Get":
						for _, p := range puts {
							if p == ssa.Value(call) {
								bad = append(bad, "pooled buffer released at return")
							}
						}
						return false
					}
				}
				return true
			})
			c.Check(len(bad) == 0, "C06.R6", "EncryptBindMessage/result-owned-by-caller#"+ordinal(fn, r), r.Pos(), "the returned bind message aliases %v: the next call overwrites it while the caller still uses it", bad)
		}
		c.Floor("C06.R6b", 1, m)
	}
}

func normCopy(cp engine.Copy) string {
	base := cp.Dst.Base
	// the named result array of messageKey / closures: call it v
	if strings.HasPrefix(base, "alloc:") || strings.HasPrefix(base, "new ") {
		base = "v"
	}
	return base + dstAt(cp) + " ← " + cp.Src.String()
}

// dstAt renders the destination of a copy by where it starts: copy() moves
// min(len(dst), len(src)) bytes, so dst[8:], dst[8:24] and dst[8:8+16] receive
// the same bytes from a 16-byte source. A destination window that is provably
// shorter than the source is marked, because then fewer bytes arrive.
func dstAt(cp engine.Copy) string {
	lo := cp.Dst.Lo
	s := "@" + strconv.FormatInt(lo.B, 10)
	if lo.A != 0 {
		s = "@" + strconv.FormatInt(lo.A, 10) + "x" + fmt.Sprintf("%+d", lo.B)
	}
	if !cp.Dst.Full && !cp.Src.Full && cp.Dst.Hi.A == cp.Dst.Lo.A && cp.Src.Hi.A == cp.Src.Lo.A {
		if (cp.Dst.Hi.B - cp.Dst.Lo.B) < (cp.Src.Hi.B - cp.Src.Lo.B) {
			s += "(window shorter than source)"
		}
	}
	return s
}

func shapeCtx(fn *ssa.Function, xParam int) *engine.ShapeCtx {
	return &engine.ShapeCtx{Fn: fn, IV: engine.NewIntervals(), IsX: func(v ssa.Value) bool {
		if xParam >= 0 && xParam < len(fn.Params) && v == ssa.Value(fn.Params[xParam]) {
			return true
		}
		if call, ok := v.(*ssa.Call); ok && engine.CalleeID(call.Common()) == "crypto.getX" {
			return true
		}
		return false
	}}
}

// c06Wiring: getX table, aesIV = aesKey with swapped inputs, Keys and MessageKey plumbing.
func c06Wiring(c *engine.Ctx) {
	if gx := c.MustFunc("C06.R2", "crypto", "getX"); gx != nil {
		want := map[int64]int64{0: 0, 1: 8}
		for side, w := range want {
			side := side
			res, err := engine.AbstractRun(gx, func(x, y ssa.Value) (int, bool) {
				if x == ssa.Value(gx.Params[0]) {
					if k, ok := engine.ConstInt(y); ok {
						return cmp64(side, k), true
					}
				}
				return 0, false
			})
			ok := err == nil && res.Const != nil && *res.Const == w
			got := int64(-1)
			if err == nil && res.Const != nil {
				got = *res.Const
			}
			c.Check(ok, "C06.R2", fmt.Sprintf("getX/side%d", side), gx.Pos(), "x for side %d is %d, specification %d (0 for client→server, 8 for server→client)", side, got, w)
		}
	}
	if iv := c.MustFunc("C06.R2", "crypto", "aesIV"); iv != nil {
		ok := false
		for _, call := range engine.CallsTo(iv, false, "crypto.aesKey") {
			a := call.Common().Args
			if a[0] == ssa.Value(iv.Params[1]) && a[1] == ssa.Value(iv.Params[0]) && a[2] == ssa.Value(iv.Params[2]) {
				ok = true
			}
		}
		cps, _ := shapeCtx(iv, -1).Copies()
		var got []string
		for _, cp := range cps {
			got = append(got, normCopy(cp))
		}
		want := []string{"P2@0 ← P1[0:8]", "P2@8 ← P0[8:24]", "P2@24 ← P1[24:32]"}
		if len(cps) > 0 {
			ok = normSpans(got) == normSpans(want)
		}
		c.Check(ok, "C06.R2", "aesIV/swapped", iv.Pos(), "aes_iv = substr(sha256_b,0,8)+substr(sha256_a,8,16)+substr(sha256_b,24,8): aesIV must be aesKey with a and b exchanged (direct splices: [%s])", normSpans(got))
	}
	if k := c.MustFunc("C06.R2", "crypto", "Keys"); k != nil {
		var a, b *ssa.Call
		okA, okB := false, false
		for _, call := range engine.Calls(k) {
			cc := call.Common()
			switch engine.CalleeID(cc) {
			case "crypto.sha256a", "crypto.sha256b":
				x := engine.Describe(cc.Args[3])
				good := x == "crypto.getX(p:mode)" && strings.Contains(engine.Describe(cc.Args[1]), "authKey") && strings.Contains(engine.Describe(cc.Args[2]), "msgKey")
				if engine.CalleeID(cc) == "crypto.sha256a" {
					a, _ = call.(*ssa.Call)
					okA = good
				} else {
					b, _ = call.(*ssa.Call)
					okB = good
				}
			}
		}
		c.Check(okA && okB, "C06.R2", "Keys/sha256-args", k.Pos(), "sha256_a and sha256_b must be computed from (auth_key, msg_key, x = getX(mode))")
		okKey, okIV := false, false
		for _, call := range engine.Calls(k) {
			cc := call.Common()
			if a == nil || b == nil {
				break
			}
			switch engine.CalleeID(cc) {
			case "crypto.aesKey":
				okKey = cc.Args[0] == ssa.Value(a) && cc.Args[1] == ssa.Value(b) && strings.Contains(engine.Describe(cc.Args[2]), "key")
			case "crypto.aesIV":
				okIV = cc.Args[0] == ssa.Value(a) && cc.Args[1] == ssa.Value(b) && strings.Contains(engine.Describe(cc.Args[2]), "iv")
			}
		}
		c.Check(okKey && okIV, "C06.R2", "Keys/aes-args", k.Pos(), "aesKey(a, b, &key) and aesIV(a, b, &iv) must receive sha256_a, sha256_b in this order")
	}
	if mk := c.MustFunc("C06.R2", "crypto", "MessageKey"); mk != nil {
		ok := false
		for _, r := range engine.Returns(mk) {
			call := engine.CallOf(r.Results[0])
			if call != nil && engine.CalleeID(call.Common()) == "crypto.messageKey" {
				in := engine.CallOf(call.Common().Args[0])
				if in != nil && engine.CalleeID(in.Common()) == "crypto.msgKeyLarge" {
					a := in.Common().Args
					if a[1] == ssa.Value(mk.Params[0]) && a[2] == ssa.Value(mk.Params[1]) && a[3] == ssa.Value(mk.Params[2]) {
						ok = true
					}
				}
			}
		}
		c.Check(ok, "C06.R2", "MessageKey/plumbing", mk.Pos(), "MessageKey must be messageKey(msgKeyLarge(_, authKey, plaintextPadded, mode))")
	}
	// msgKeyLarge returns h.Sum of the same hash that received the writes
	for _, name := range []string{"msgKeyLarge", "sha256a", "sha256b", "sha1a", "sha1b", "sha1c", "sha1d"} {
		fn := c.Func("crypto", name)
		if fn == nil {
			continue
		}
		ok := false
		want := "crypto/sha256.New"
		if strings.HasPrefix(name, "sha1") {
			want = "crypto/sha1.New"
		}
		// every return (a second "fast" path must be the same function of the
		// same inputs, which only the one checked hash guarantees)
		rets := engine.Returns(fn)
		ok = len(rets) > 0
		for _, r := range rets {
			good := false
			call := engine.CallOf(r.Results[0])
			if call != nil && call.Common().IsInvoke() && call.Common().Method.Name() == "Sum" {
				h := engine.CallOf(call.Common().Value)
				if h != nil && engine.CalleeID(h.Common()) == want {
					good = true
					for _, w := range engine.Calls(fn) {
						if w.Common().IsInvoke() && w.Common().Method.Name() == "Write" && w.Common().Value != ssa.Value(h) {
							good = false
						}
					}
				}
			}
			ok = ok && good
		}
		c.Check(ok, "C06.R2", name+"/hash", fn.Pos(), "%s must return Sum of the %s hash that received the inputs", name, want)
	}
}

func c06V1(c *engine.Ctx) {
	// MessageKeyV1 = SHA1(plaintext)[4:20]
	if fn := c.MustFunc("C06.R3", "crypto", "MessageKeyV1"); fn != nil {
		cps, err := shapeCtx(fn, -1).Copies()
		ok := err == nil && len(cps) == 1 && cps[0].Src.String() == "crypto/sha1.Sum(p:plaintext)[4:20]" && cps[0].Dst.Lo == (engine.Lin{})
		got := ""
		if len(cps) > 0 {
			got = cps[0].String()
		}
		c.Check(ok, "C06.R3", "MessageKeyV1/shape", fn.Pos(), "msg_key v1 = substr(SHA1(plaintext), 4, 16); got %s", got)
	}
	// KeysV1 and OldKeys splices
	wantKey := []string{"@0 ← a[0:8]", "@8 ← b[8:20]", "@20 ← c[4:16]"}
	wantIV := []string{"@0 ← a[8:20]", "@12 ← b[0:8]", "@20 ← c[16:20]", "@24 ← d[0:8]"}
	if fn := c.MustFunc("C06.R3", "crypto", "KeysV1"); fn != nil {
		names := map[*ssa.Call]string{}
		okX := true
		for _, call := range engine.Calls(fn) {
			id := engine.CalleeID(call.Common())
			if strings.HasPrefix(id, "crypto.sha1") {
				names[call.(*ssa.Call)] = strings.TrimPrefix(id, "crypto.sha1")
				if k, isK := engine.ConstInt(call.Common().Args[3]); !isK || k != 0 {
					okX = false
				}
				if call.Common().Args[1] != ssa.Value(fn.Params[0]) || call.Common().Args[2] != ssa.Value(fn.Params[1]) {
					okX = false
				}
			}
		}
		c.Check(okX && len(names) == 4, "C06.R3", "KeysV1/x-zero", fn.Pos(), "the binding KDF uses sha1_a..d of (authKey, msgKey) with x = 0")
		cps, err := shapeCtx(fn, -1).Copies()
		if err != nil {
			c.Undecided("C06.R3", "KeysV1/splices", fn.Pos(), "%v", err)
		} else {
			var key, iv []string
			for _, cp := range cps {
				s := v1Splice(cp, names)
				if strings.Contains(engine.Describe(cp.Call.Common().Args[0]), "key") {
					key = append(key, s)
				} else {
					iv = append(iv, s)
				}
			}
			c.Check(normSpans(key) == normSpans(wantKey), "C06.R3", "KeysV1/aes-key", fn.Pos(), "aes_key v1 splices [%s], specification [%s]", normSpans(key), normSpans(wantKey))
			c.Check(normSpans(iv) == normSpans(wantIV), "C06.R3", "KeysV1/aes-iv", fn.Pos(), "aes_iv v1 splices [%s], specification [%s]", normSpans(iv), normSpans(wantIV))
		}
	}
	if fn := c.MustFunc("C06.R3", "crypto", "OldKeys"); fn != nil {
		// closures aesKey(a,b,c) and aesIV(a,b,c,d): parameters are the sha1 values
		for _, an := range fn.AnonFuncs {
			cps, err := shapeCtx(an, -1).Copies()
			if err != nil {
				c.Undecided("C06.R3", "OldKeys/"+an.Name(), an.Pos(), "%v", err)
				continue
			}
			var got []string
			for _, cp := range cps {
				src := cp.Src.String()
				for i, l := range []string{"a", "b", "c", "d"} {
					src = strings.Replace(src, fmt.Sprintf("P%d", i), l, 1)
				}
				got = append(got, dstAt(cp)+" ← "+src)
			}
			want := wantKey
			if len(an.Params) == 4 {
				want = wantIV
			}
			c.Check(normSpans(got) == normSpans(want), "C06.R3", fmt.Sprintf("OldKeys/closure%d", len(an.Params)), an.Pos(), "v1 splices [%s], specification [%s]", normSpans(got), normSpans(want))
		}
		okX := true
		m := 0
		for _, call := range engine.Calls(fn) {
			if strings.HasPrefix(engine.CalleeID(call.Common()), "crypto.sha1") {
				m++
				if engine.Describe(call.Common().Args[3]) != "crypto.getX(p:mode)" {
					okX = false
				}
			}
		}
		c.Check(okX && m == 4, "C06.R3", "OldKeys/x", fn.Pos(), "OldKeys must use x = getX(mode) for sha1_a..d")
	}
}

func v1Splice(cp engine.Copy, names map[*ssa.Call]string) string {
	src := cp.Src
	base := src.Base
	for call, n := range names {
		if base == engine.Describe(call) {
			base = n
		}
	}
	src.Base = base
	return dstAt(cp) + " ← " + src.String()
}

func c06Bind(c *engine.Ctx) {
	fn := c.MustFunc("C06.R4", "crypto", "EncryptBindMessage")
	if fn == nil {
		return
	}
	// envelope: the operations on the plaintext buffer, in order
	var env []string
	var envCalls []ssa.CallInstruction
	var plaintext ssa.Value
	for _, call := range engine.Calls(fn) {
		id := engine.CalleeID(call.Common())
		if id == "crypto.MessageKeyV1" {
			if _, b, _, ok := fieldLoadOf(call.Common().Args[0]); ok {
				plaintext = b
			}
		}
	}
	if plaintext == nil {
		c.Undecided("C06.R4", "EncryptBindMessage/msg-key", fn.Pos(), "MessageKeyV1(plaintext.Buf) not found")
		return
	}
	for _, call := range engine.Calls(fn) {
		id := engine.CalleeID(call.Common())
		if strings.HasPrefix(id, "(*bin.Buffer).Put") && call.Common().Args[0] == plaintext {
			d := strings.TrimPrefix(id, "(*bin.Buffer).")
			arg := engine.Describe(call.Common().Args[1])
			switch {
			case arg == "p:msgID":
				d += "(msgID)"
			case arg == "0":
				d += "(0)"
			case strings.Contains(arg, "Len("):
				d += "(len(payload))"
			case isRandom16(fn, call):
				d += "(random16)"
			case strings.HasSuffix(arg, ".Buf"):
				d += "(payload)"
			default:
				d += "(" + arg + ")"
			}
			env = append(env, d)
			envCalls = append(envCalls, call)
		}
	}
	want := "Put(random16) PutLong(msgID) PutInt32(0) PutInt32(len(payload)) Put(payload)"
	okOrder := true
	for i := 1; i < len(envCalls); i++ {
		if !engine.Dominates(envCalls[i-1], envCalls[i]) {
			okOrder = false
		}
	}
	c.Check(strings.Join(env, " ") == want && okOrder, "C06.R4", "EncryptBindMessage/envelope", fn.Pos(), "binding envelope is [%s], specification [%s]", strings.Join(env, " "), want)
	// msg_key before padding, KeysV1(permKey.Value, msgKey), AuthKeyID = permKey.ID
	var mk, kv ssa.CallInstruction
	for _, call := range engine.Calls(fn) {
		switch engine.CalleeID(call.Common()) {
		case "crypto.MessageKeyV1":
			mk = call
		case "crypto.KeysV1":
			kv = call
		}
	}
	okBefore := mk != nil
	if mk != nil {
		engine.Instrs(fn, func(i ssa.Instruction) {
			st, ok := i.(*ssa.Store)
			if !ok {
				return
			}
			if fa, isFA := st.Addr.(*ssa.FieldAddr); isFA && fa.X == plaintext {
				// a direct store to plaintext.Buf (the padding append): must not precede the msg_key computation
				if engine.PathExists(st, mk) {
					okBefore = false
				}
			}
		})
		for _, ec := range envCalls {
			if !engine.Dominates(ec, mk) {
				okBefore = false
			}
		}
	}
	c.Check(okBefore, "C06.R4", "EncryptBindMessage/msg-key-before-padding", fn.Pos(), "msg_key = SHA1(envelope without padding)[4:20]: MessageKeyV1 must follow the envelope writes and precede the padding append")
	okKeys := kv != nil && mk != nil && engine.Describe(kv.Common().Args[0]) == "p:permKey.Value" && engine.CallOf(kv.Common().Args[1]) == mk.(*ssa.Call)
	c.Check(okKeys, "C06.R4", "EncryptBindMessage/kdf-v1-perm-key", fn.Pos(), "the binding message must be encrypted with KeysV1(permKey.Value, msg_key)")
	okID, okMK := false, false
	engine.Instrs(fn, func(i ssa.Instruction) {
		st, ok := i.(*ssa.Store)
		if !ok {
			return
		}
		d := engine.Describe(st.Addr)
		if strings.HasSuffix(d, ".AuthKeyID") && engine.Describe(st.Val) == "p:permKey.ID" {
			okID = true
		}
		if strings.HasSuffix(d, ".MsgKey") && mk != nil && engine.CallOf(st.Val) == mk.(*ssa.Call) {
			okMK = true
		}
	})
	c.Check(okID && okMK, "C06.R4", "EncryptBindMessage/header", fn.Pos(), "the encrypted message must carry perm_auth_key_id and the v1 msg_key")
}

func fieldLoadOf(v ssa.Value) (*ssa.UnOp, ssa.Value, int, bool) {
	u, ok := v.(*ssa.UnOp)
	if !ok {
		return nil, nil, 0, false
	}
	fa, ok := u.X.(*ssa.FieldAddr)
	if !ok {
		return nil, nil, 0, false
	}
	return u, fa.X, fa.Field, true
}

// isRandom16: the argument of the Put call is a 16-byte slice filled by a
// dominating io.ReadFull from the random source.
func isRandom16(fn *ssa.Function, put ssa.CallInstruction) bool {
	arg := put.Common().Args[1]
	l := engine.NewIntervals().LenOf(arg, put)
	if l.Lo != 16 || l.Hi != 16 {
		return false
	}
	for _, rf := range engine.CallsTo(fn, false, "io.ReadFull") {
		if rf.Common().Args[1] == arg && engine.Dominates(rf, put) && strings.Contains(engine.Describe(rf.Common().Args[0]), "rand") {
			return true
		}
	}
	return false
}
