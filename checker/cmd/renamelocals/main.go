// renamelocals is test tooling for the checker, not a check: it rewrites a
// scratch copy of gotd/td so that every local variable (and, with -params, every
// parameter, result and receiver) of the hand-written files of the given
// packages gets a new name. The program it produces behaves exactly like the
// original; every check must stay silent on it (DESIGN.md §8c).
//
//	renamelocals -dir /tmp/wt/x [-params] [-gen] ./crypto/... ./mtproto/...
package main

import (
	"bytes"
	"flag"
	"fmt"
	"go/ast"
	"go/format"
	"go/token"
	"go/types"
	"os"
	"strings"

	"golang.org/x/tools/go/packages"
)

func main() {
	dir := flag.String("dir", "", "root of the scratch copy (never /repo)")
	params := flag.Bool("params", false, "rename parameters, results and receivers too")
	gen := flag.Bool("gen", false, "also rewrite generated files (*_gen.go)")
	suffix := flag.String("suffix", "Zz", "suffix appended to every renamed identifier")
	noRename := flag.Bool("norename", false, "do not rename (use with -invertif / -swapcmp)")
	invertIf := flag.Bool("invertif", false, "rewrite every if c {A} else {B} as if !(c) {B} else {A}")
	swapCmp := flag.Bool("swapcmp", false, "mirror comparisons whose operands have no side effects: a < b becomes b > a, a == b becomes b == a")
	condLocal := flag.Bool("condlocal", false, "keep every compound if-condition in a local first: if a && b {…} becomes cN := a && b; if cN {…}")
	flag.Parse()
	condLocalOn = *condLocal
	if *dir == ""|| strings.HasPrefix(*dir, "/repo") {
		fmt.Fprintln(os.Stderr, "renamelocals: -dir must name a scratch copy")
		os.Exit(2)
	}
	pats := flag.Args()
	if len(pats) == 0 {
		pats = []string{"./..."}
	}
	cfg := &packages.Config{
		Mode: packages.NeedName | packages.NeedFiles | packages.NeedSyntax | packages.NeedTypes | packages.NeedTypesInfo | packages.NeedCompiledGoFiles,
		Dir:  *dir,
		Fset: token.NewFileSet(),
		Env:  append(os.Environ(), "GOFLAGS=-mod=mod", "GOWORK=off"),
	}
	pkgs, err := packages.Load(cfg, pats...)
	if err != nil {
		fmt.Fprintln(os.Stderr, "load:", err)
		os.Exit(2)
	}
	files, idents := 0, 0
	for _, p := range pkgs {
		if len(p.Errors) > 0 {
			fmt.Fprintln(os.Stderr, "package", p.PkgPath, "has errors:", p.Errors[0])
			os.Exit(2)
		}
		for i, f := range p.Syntax {
			name := p.CompiledGoFiles[i]
			if strings.HasSuffix(name, "_test.go") || (!*gen && strings.HasSuffix(name, "_gen.go")) || !strings.HasPrefix(name, *dir) {
				continue
			}
			n := 0
			if !*noRename {
				n += rename(p, f, *params, *suffix)
			}
			if *invertIf {
				n += invertIfs(f)
			}
			if *swapCmp {
				n += swapComparisons(p, f)
			}
			if condLocalOn {
				n += condLocals(f)
			}
			if n == 0 {
				continue
			}
			var buf bytes.Buffer
			if err := format.Node(&buf, cfg.Fset, f); err != nil {
				// comments inside a moved expression can defeat the printer: leave
				// that file as it is
				fmt.Fprintln(os.Stderr, "skipped (cannot be printed):", name, err)
				continue
			}
			if err := os.WriteFile(name, buf.Bytes(), 0o644); err != nil {
				fmt.Fprintln(os.Stderr, err)
				os.Exit(2)
			}
			files++
			idents += n
		}
	}
	fmt.Printf("renamelocals: %d identifiers renamed in %d files of %d packages\n", idents, files, len(pkgs))
}

var condLocalOn bool

// condLocals rewrites, in every statement list, "if a && b {…}" (a compound
// condition, no init statement, not an else-if) as "condZzN := a && b; if
// condZzN {…}": the same expression is evaluated once, at the same point.
func condLocals(f *ast.File) int {
	n := 0
	rewrite := func(list []ast.Stmt) []ast.Stmt {
		var out []ast.Stmt
		for _, st := range list {
			ifs, ok := st.(*ast.IfStmt)
			if ok && ifs.Init == nil {
				if be, isB := ifs.Cond.(*ast.BinaryExpr); isB && (be.Op == token.LAND || be.Op == token.LOR) {
					n++
					name := ast.NewIdent(fmt.Sprintf("condZz%d", n))
					out = append(out, &ast.AssignStmt{Lhs: []ast.Expr{name}, Tok: token.DEFINE, Rhs: []ast.Expr{ifs.Cond}})
					ifs.Cond = ast.NewIdent(name.Name)
				}
			}
			out = append(out, st)
		}
		return out
	}
	ast.Inspect(f, func(nd ast.Node) bool {
		switch x := nd.(type) {
		case *ast.BlockStmt:
			x.List = rewrite(x.List)
		case *ast.CaseClause:
			x.Body = rewrite(x.Body)
		case *ast.CommClause:
			x.Body = rewrite(x.Body)
		}
		return true
	})
	return n
}

// invertIfs rewrites if c {A} else {B} (B a plain block, not an else-if) as
// if !(c) {B} else {A}: the same condition is evaluated once, the same block runs.
func invertIfs(f *ast.File) int {
	n := 0
	ast.Inspect(f, func(nd ast.Node) bool {
		st, ok := nd.(*ast.IfStmt)
		if !ok {
			return true
		}
		els, isBlock := st.Else.(*ast.BlockStmt)
		if !isBlock {
			return true
		}
		cond := st.Cond
		if u, isNot := cond.(*ast.UnaryExpr); isNot && u.Op == token.NOT {
			st.Cond = u.X
		} else {
			st.Cond = &ast.UnaryExpr{Op: token.NOT, X: &ast.ParenExpr{X: cond}}
		}
		st.Body, st.Else = els, st.Body
		n++
		return true
	})
	return n
}

// swapComparisons mirrors comparisons one operand of which is a constant (or
// nil): no evaluation order is involved, a < 3 becomes 3 > a.
func swapComparisons(p *packages.Package, f *ast.File) int {
	mirror := map[token.Token]token.Token{token.EQL: token.EQL, token.NEQ: token.NEQ, token.LSS: token.GTR, token.GTR: token.LSS, token.LEQ: token.GEQ, token.GEQ: token.LEQ}
	isConst := func(e ast.Expr) bool {
		tv, ok := p.TypesInfo.Types[e]
		return ok && (tv.Value != nil || tv.IsNil())
	}
	n := 0
	ast.Inspect(f, func(nd ast.Node) bool {
		b, ok := nd.(*ast.BinaryExpr)
		if !ok {
			return true
		}
		m, isCmp := mirror[b.Op]
		if !isCmp || isConst(b.X) == isConst(b.Y) {
			return true
		}
		b.X, b.Y, b.Op = b.Y, b.X, m
		n++
		return true
	})
	return n
}

// rename gives every local variable of f a new name and returns the number of
// identifiers changed.
func rename(p *packages.Package, f *ast.File, params bool, suffix string) int {
	info := p.TypesInfo
	// identifiers that declare parameters, results and receivers
	sig := map[token.Pos]bool{}
	markFields := func(fl *ast.FieldList) {
		if fl == nil {
			return
		}
		for _, fd := range fl.List {
			for _, n := range fd.Names {
				sig[n.Pos()] = true
			}
		}
	}
	ast.Inspect(f, func(n ast.Node) bool {
		switch x := n.(type) {
		case *ast.FuncDecl:
			markFields(x.Recv)
			markFields(x.Type.Params)
			markFields(x.Type.Results)
		case *ast.FuncLit:
			markFields(x.Type.Params)
			markFields(x.Type.Results)
		case *ast.FuncType:
			// parameter names inside function types (fields, interface methods) are
			// not variables of a body; never renamed
			if x.Params != nil {
				for _, fd := range x.Params.List {
					for _, nm := range fd.Names {
						if !sig[nm.Pos()] {
							sig[nm.Pos()] = true
						}
					}
				}
			}
		}
		return true
	})
	isLocal := func(v *types.Var) bool {
		if v == nil || v.IsField() || v.Name() == "_" || v.Pkg() == nil {
			return false
		}
		if v.Parent() == nil || v.Parent() == v.Pkg().Scope() || v.Parent() == types.Universe {
			return false
		}
		return true
	}
	// declaration positions to rename
	decl := map[token.Pos]bool{}
	ast.Inspect(f, func(n ast.Node) bool {
		switch x := n.(type) {
		case *ast.Ident:
			if v, ok := info.Defs[x].(*types.Var); ok && isLocal(v) {
				if sig[x.Pos()] && !params {
					return true
				}
				decl[x.Pos()] = true
			}
		case *ast.TypeSwitchStmt:
			// switch y := x.(type): y is declared implicitly in each clause
			if as, ok := x.Assign.(*ast.AssignStmt); ok && len(as.Lhs) == 1 {
				if id, isID := as.Lhs[0].(*ast.Ident); isID && id.Name != "_" {
					decl[id.Pos()] = true
				}
			}
		}
		return true
	})
	// named results of functions without a body-level use still count; function
	// types of declarations without bodies (none in this repository) are skipped
	n := 0
	ast.Inspect(f, func(nd ast.Node) bool {
		id, ok := nd.(*ast.Ident)
		if !ok || id.Name == "_" {
			return true
		}
		if decl[id.Pos()] {
			id.Name += suffix
			n++
			return true
		}
		if v, isV := info.Uses[id].(*types.Var); isV && decl[v.Pos()] {
			id.Name += suffix
			n++
		}
		return true
	})
	// struct literals written with field: value where value is a renamed local of
	// the same name stay correct (only the value identifier is a use of the local)
	return n
}
