// tdcheck decides the static rules of one property on /repo's current source.
package main

import (
	"encoding/json"
	"flag"
	"fmt"
	"go/token"
	"os"
	"path/filepath"
	"os/exec"
	"runtime/debug"
	"sort"
	"sync"
	"strconv"
	"strings"

	"tdverif/checker/engine"
	"tdverif/checker/rules"
)

type mutant struct {
	Name   string `json:"name"`
	File   string `json:"file"`   // repo-relative
	Old    string `json:"old"`    // exact text, must occur exactly once
	New    string `json:"new"`    // replacement
	Expect string `json:"expect"` // substring of the obligation key that must be violated
	Why    string `json:"why"`
	More   []struct {
		File string `json:"file"`
		Old  string `json:"old"`
		New  string `json:"new"`
	} `json:"more"` // further edits of the same mutant (cooperating changes)
}

func main() {
	prop := flag.String("prop", "", "property id (Cnn)")
	tier := flag.String("tier", "quick", "quick|thorough")
	mut := flag.String("mutant", "", "mutant json: analyse with the edit overlaid, expect the named rule to fire")
	list := flag.Bool("list", false, "list properties with rules")
	only := flag.String("only", "", "print only obligations whose key contains this (replay)")
	verbose := flag.Bool("v", false, "print every obligation")
	dump := flag.String("calls", "", "debug: pkg:Func — print the callee ids and argument descriptions of a function and exit")
	dumpParams := flag.Bool("dump-params", false, "write checker/param_names.json: the parameter names of every function in the packages the rules load (the baseline descriptions are written against)")
	flag.Parse()
	if *list {
		fmt.Println(strings.Join(rules.All(), " "))
		return
	}
	if *dumpParams {
		pk := map[string]bool{}
		for _, p := range rules.All() {
			for _, q := range rules.Get(p).Pkgs {
				switch q {
				case "tg", "mt", "tg/e2e", "tgtrace", "gen/example", "tdp/internal/schema":
				default:
					pk[q] = true
				}
			}
		}
		var list []string
		for q := range pk {
			list = append(list, q)
		}
		sort.Strings(list)
		c := engine.NewCtx("dbg", "quick")
		os.Remove(filepath.Join(c.VerifDir, "checker", "param_names.json"))
		if err := c.Load(list...); err != nil {
			fmt.Println(err)
			os.Exit(2)
		}
		b, _ := json.MarshalIndent(c.ParamNames(), "", " ")
		if err := os.WriteFile(filepath.Join(c.VerifDir, "checker", "param_names.json"), b, 0o644); err != nil {
			fmt.Println(err)
			os.Exit(2)
		}
		fmt.Printf("param_names.json: %d functions of %d packages\n", len(c.ParamNames()), len(list))
		return
	}
	if *dump != "" {
		parts := strings.SplitN(*dump, ":", 2)
		c := engine.NewCtx("dbg", "quick")
		if err := c.Load(parts[0]); err != nil {
			fmt.Println(err)
			os.Exit(2)
		}
		fn := c.Func(parts[0], parts[1])
		for _, f := range engine.WithAnon(fn) {
			fmt.Println("==", engine.FuncID(f))
			for _, call := range engine.Calls(f) {
				var as []string
				for _, a := range engine.Args(call.Common()) {
					as = append(as, engine.Describe(a))
				}
				fmt.Printf("  %s  %s(%s)\n", c.Position(call.Pos()), engine.CalleeID(call.Common()), strings.Join(as, ", "))
			}
		}
		return
	}
	r := rules.Get(*prop)
	if r == nil {
		fmt.Fprintf(os.Stderr, "no rules for property %q\n", *prop)
		os.Exit(2)
	}
	c := engine.NewCtx(*prop, *tier)
	if s := os.Getenv("VERIF_SEED"); s != "" {
		c.Seed, _ = strconv.ParseInt(s, 10, 64)
	}
	var m *mutant
	if *mut != "" {
		b, err := os.ReadFile(*mut)
		if err != nil {
			fmt.Fprintln(os.Stderr, err)
			os.Exit(2)
		}
		m = &mutant{}
		if err := json.Unmarshal(b, m); err != nil {
			fmt.Fprintln(os.Stderr, *mut, err)
			os.Exit(2)
		}
		path := filepath.Join(c.RepoDir, m.File)
		src, err := os.ReadFile(path)
		if err != nil || strings.Count(string(src), m.Old) != 1 {
			fmt.Printf("MUTANT-STALE %s: anchor text occurs %d times in %s\n", m.Name, strings.Count(string(src), m.Old), m.File)
			os.Exit(3)
		}
		c.Overlay = map[string][]byte{path: []byte(strings.Replace(string(src), m.Old, m.New, 1))}
		for _, e := range m.More {
			p2 := filepath.Join(c.RepoDir, e.File)
			src2, ok := c.Overlay[p2]
			if !ok {
				src2, err = os.ReadFile(p2)
			}
			if err != nil || strings.Count(string(src2), e.Old) != 1 {
				fmt.Printf("MUTANT-STALE %s: anchor text occurs %d times in %s\n", m.Name, strings.Count(string(src2), e.Old), e.File)
				os.Exit(3)
			}
			c.Overlay[p2] = []byte(strings.Replace(string(src2), e.Old, e.New, 1))
		}
	}
	code := run(c, r)
	if m != nil {
		// mutant mode: success iff a violation whose key contains Expect was raised
		hit := false
		for _, o := range c.Obls {
			if o.Verdict != engine.OK && strings.Contains(o.Key, m.Expect) {
				hit = true
				fmt.Printf("MUTANT-DETECTED %s: %s at %s: %s\n", m.Name, o.Key, o.Pos, o.Detail)
				break
			}
		}
		if !hit {
			fmt.Printf("MUTANT-MISSED %s: expected a violation of %q\n", m.Name, m.Expect)
			for _, o := range c.Obls {
				if o.Verdict != engine.OK {
					fmt.Printf("   other: %s %s\n", o.Key, o.Detail)
				}
			}
			os.Exit(1)
		}
		os.Exit(0)
	}
	if *verbose || *only != "" {
		for _, o := range c.Obls {
			if *only == "" || strings.Contains(o.Key, *only) {
				fmt.Printf("  [%s] %s at %s: %s\n", o.Verdict, o.Key, o.Pos, o.Detail)
			}
		}
	}
	os.Exit(code)
}

// selfTest applies every stored mutant of the property as an in-memory overlay
// (one sub-process each, at most 4 at a time) and records whether the rule it
// targets fires. A missed mutant is reported in the evidence and on stdout; it
// is a weakness of the checker, not a violation of the property, so it does
// not raise an alarm.
func selfTest(c *engine.Ctx) {
	files, _ := filepath.Glob(filepath.Join(c.VerifDir, "mutants", c.Prop, "*.json"))
	sort.Strings(files)
	exe, _ := os.Executable()
	type res struct{ name, out string; code int }
	results := make([]res, len(files))
	sem := make(chan struct{}, 4)
	var wg sync.WaitGroup
	for i, f := range files {
		wg.Add(1)
		go func(i int, f string) {
			defer wg.Done()
			sem <- struct{}{}
			defer func() { <-sem }()
			cmd := exec.Command(exe, "-prop", c.Prop, "-mutant", f)
			cmd.Env = os.Environ()
			out, err := cmd.CombinedOutput()
			code := 0
			if ee, ok := err.(*exec.ExitError); ok {
				code = ee.ExitCode()
			} else if err != nil {
				code = 2
			}
			results[i] = res{filepath.Base(f), strings.TrimSpace(string(out)), code}
		}(i, f)
	}
	wg.Wait()
	det, miss, stale := 0, 0, 0
	var lines []string
	for _, r := range results {
		first := strings.SplitN(r.out, "\n", 2)[0]
		switch r.code {
		case 0:
			det++
		case 3:
			stale++
		default:
			miss++
			fmt.Printf("SELFTEST-MISSED %s %s\n", c.Prop, first)
		}
		lines = append(lines, first)
	}
	c.Extra["mutants_applied"] = len(files) - stale
	c.Extra["mutants_detected"] = det
	c.Extra["mutants_missed"] = miss
	c.Extra["mutants_stale"] = stale
	c.Extra["mutant_results"] = lines
	fmt.Printf("%s self-test: %d mutants, %d detected, %d missed, %d stale\n", c.Prop, len(files), det, miss, stale)
}

func run(c *engine.Ctx, r *rules.Rule) (code int) {
	defer func() {
		if p := recover(); p != nil {
			c.Undecided("E0", "panic", token.NoPos, "checker panic: %v\n%s", p, debug.Stack())
			code, _ = c.Finish(c.Overlay == nil)
		}
	}()
	if err := c.Load(r.Pkgs...); err != nil {
		c.Undecided("E0", "load", token.NoPos, "%v", err)
		code, _ = c.Finish(c.Overlay == nil)
		return code
	}
	r.Run(c)
	if c.Tier == "thorough" && c.Overlay == nil {
		selfTest(c)
	}
	if len(c.Obls) == 0 {
		c.Undecided("E0", "vacuous", token.NoPos, "no obligation was generated")
	}
	code, res := c.Finish(c.Overlay == nil)
	if c.Overlay == nil {
		nok := 0
		for _, o := range c.Obls {
			if o.Verdict == engine.OK {
				nok++
			}
		}
		fmt.Printf("%s %s: %d obligations, %d discharged, %d known findings, %d violations; %d functions analysed\n",
			c.Prop, c.Tier, len(c.Obls), nok, len(res.Known), len(res.Violations), len(c.FuncsSeen))
	}
	return code
}
