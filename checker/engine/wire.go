package engine

import (
	"fmt"
	"go/token"
	"sort"
	"strings"

	"golang.org/x/tools/go/ssa"
)

// E8 (SSA form, hand-written codecs) — the wire-operation sequence of an
// encoder or decoder: the calls on the *bin.Buffer parameter that every
// successful execution performs, in dominance order, each with its primitive
// kind and the struct field it carries. Operations inside a loop are marked
// Loop; operations on a conditional path are marked Cond.

type WireOp struct {
	Kind  string // Long, Int, Int32, ID(0x…), Raw, Rest, Int128, String, Bytes, Obj(T), …
	Field string // field of the receiver carried by the op ("" if none/constant)
	Loop  bool
	Cond  bool
	Instr ssa.Instruction
	sub   int // order among the operations of one inlined helper call
}

// nesting of helper inlining in WireOps (runs are sequential)
var wireDepth int

func (w WireOp) String() string {
	s := w.Kind
	if w.Field != "" {
		s += "→" + w.Field
	}
	if w.Loop {
		s = "*" + s
	}
	if w.Cond {
		s = "?" + s
	}
	return s
}

// fieldOf renders the receiver field a value denotes: p:recv.F → "F".
func fieldOf(v ssa.Value, recv *ssa.Parameter) string {
	d := Describe(v)
	pre := "p:" + ParamName(recv) + "."
	if strings.HasPrefix(d, pre) {
		f := strings.TrimPrefix(d, pre)
		// strip slicing/indexing of the field
		if i := strings.IndexAny(f, "[("); i >= 0 {
			f = f[:i]
		}
		return f
	}
	return ""
}

// storedField: the receiver field the value (or an Extract of it) is stored to.
func storedField(v ssa.Value, recv *ssa.Parameter) string {
	var out string
	var visit func(v ssa.Value, d int)
	visit = func(v ssa.Value, d int) {
		if d > 4 || v.Referrers() == nil {
			return
		}
		for _, r := range *v.Referrers() {
			switch x := r.(type) {
			case *ssa.Store:
				if x.Val == v {
					if f := fieldOfAddr(x.Addr, recv); f != "" {
						out = f
					}
				}
			case *ssa.Extract:
				if x.Index == 0 {
					visit(x, d+1)
				}
			case *ssa.Convert:
				visit(x, d+1)
			case *ssa.ChangeType:
				visit(x, d+1)
			case *ssa.Phi:
				visit(x, d+1)
			}
		}
	}
	visit(v, 0)
	return out
}

func fieldOfAddr(addr ssa.Value, recv *ssa.Parameter) string {
	fa, ok := addr.(*ssa.FieldAddr)
	if !ok {
		return ""
	}
	base := fa.X
	if u, ok := base.(*ssa.UnOp); ok && u.Op == token.MUL {
		base = u.X
	}
	if base == ssa.Value(recv) || Describe(base) == "p:"+ParamName(recv) {
		return fieldName(fa.X.Type(), fa.Field)
	}
	return ""
}

// WireOps extracts the operation sequence of fn on buffer parameter buf.
// writer selects PutX methods, otherwise the reading methods.
func WireOps(fn *ssa.Function, recv, buf *ssa.Parameter, writer bool) ([]WireOp, error) {
	var ops []WireOp
	succ := SuccessReturns(fn)
	if len(succ) == 0 {
		return nil, fmt.Errorf("no success return")
	}
	onSpine := func(i ssa.Instruction) bool {
		for _, r := range succ {
			if !Dominates(i, r) {
				return false
			}
		}
		return true
	}
	for _, call := range Calls(fn) {
		cc := call.Common()
		id := CalleeID(cc)
		args := Args(cc)
		op := WireOp{Instr: call}
		isBufArg := func(v ssa.Value) bool { return v == ssa.Value(buf) }
		switch {
		case strings.HasPrefix(id, "(*bin.Buffer).") && len(args) > 0 && isBufArg(args[0]):
			m := strings.TrimPrefix(id, "(*bin.Buffer).")
			if writer {
				if !strings.HasPrefix(m, "Put") {
					if m == "Encode" && len(args) > 1 {
						op.Kind = "Rest"
						op.Field = fieldOf(args[1], recv)
						break
					}
					continue
				}
				op.Kind = strings.TrimPrefix(m, "Put")
				if op.Kind == "" {
					op.Kind = "Raw"
				}
				if len(args) > 1 {
					op.Field = fieldOf(args[1], recv)
					if op.Kind == "ID" {
						if n, ok := ConstInt(args[1]); ok {
							op.Kind = fmt.Sprintf("ID(%#x)", uint32(n))
						}
					}
					if op.Field == "" {
						// len(field) carried as a length prefix
						if lc := CallOf(stripConv(args[1])); lc != nil && CalleeID(lc.Common()) == "builtin.len" {
							if f := fieldOf(lc.Common().Args[0], recv); f != "" {
								op.Field = "len(" + f + ")"
							}
						}
					}
				}
			} else {
				switch m {
				case "Long", "Int", "Int32", "Uint32", "Int53", "Double", "Bool", "String", "Bytes", "Int128", "Int256", "ID", "Uint64", "VectorHeader":
					op.Kind = m
					if v := call.Value(); v != nil {
						op.Field = storedField(v, recv)
					}
				case "ConsumeID":
					op.Kind = "ID"
					if n, ok := ConstInt(args[1]); ok {
						op.Kind = fmt.Sprintf("ID(%#x)", uint32(n))
					}
				case "ConsumeN":
					op.Kind = "Raw"
					op.Field = fieldOf(args[1], recv)
				case "Skip", "Len", "PeekID", "PeekN", "Reset", "ResetTo", "Copy", "Raw":
					continue
				default:
					continue
				}
			}
		case len(args) > 1 && isBufArg(args[len(args)-1]) && cc.StaticCallee() != nil &&
			(strings.HasSuffix(id, ").Encode") || strings.HasSuffix(id, ").Decode") || strings.HasSuffix(id, ").EncodeBare") || strings.HasSuffix(id, ").DecodeBare")):
			// nested object
			t := id[:strings.LastIndex(id, ")")]
			t = strings.TrimLeft(t, "(*")
			if strings.HasSuffix(id, "Bare") {
				op.Kind = "ObjBare(" + t + ")"
			} else {
				op.Kind = "Obj(" + t + ")"
			}
			if (writer && !strings.Contains(id, ").Encode")) || (!writer && !strings.Contains(id, ").Decode")) {
				continue
			}
			if args[0] == ssa.Value(recv) {
				// delegation to a sibling method of the same receiver: not a nested object
				op.Kind = "Self." + id[strings.LastIndex(id, ".")+1:]
			}
		default:
			// a helper of the same package that is handed the receiver and the buffer
			// (e.putHeader(b)): its operations happen here, in its order
			h := cc.StaticCallee()
			if h == nil || len(h.Blocks) == 0 || h.Pkg != fn.Pkg || wireDepth > 2 {
				continue
			}
			var hBuf, hRecv *ssa.Parameter
			for i, a := range args {
				if i >= len(h.Params) {
					break
				}
				switch {
				case isBufArg(a):
					hBuf = h.Params[i]
				case recv != nil && (a == ssa.Value(recv) || Describe(a) == "p:"+ParamName(recv)):
					hRecv = h.Params[i]
				}
			}
			if hBuf == nil || hRecv == nil {
				// only helpers working on this very receiver are part of its codec; a
				// field's own encode/decode is a nested codec with its own pair
				continue
			}
			wireDepth++
			inner, err := WireOps(h, hRecv, hBuf, writer)
			wireDepth--
			if err != nil {
				return nil, fmt.Errorf("helper %s: %v", h.Name(), err)
			}
			loop, cond := InCycle(call), !onSpine(call)
			for k, in := range inner {
				in.Instr, in.sub = call, k+1
				in.Loop = in.Loop || loop
				in.Cond = in.Cond || (!in.Loop && cond)
				ops = append(ops, in)
			}
			continue
		}
		op.Loop = InCycle(call)
		op.Cond = !op.Loop && !onSpine(call)
		ops = append(ops, op)
	}
	if !writer {
		// "rest of buffer" reads: a store to a receiver field of a value derived from buf.Buf
		Instrs(fn, func(i ssa.Instruction) {
			st, ok := i.(*ssa.Store)
			if !ok {
				return
			}
			f := fieldOfAddr(st.Addr, recv)
			if f == "" {
				return
			}
			rest := false
			WalkBack(st.Val, func(v ssa.Value) bool {
				if _, b, _, ok := fieldLoad(v); ok && b == ssa.Value(buf) {
					rest = true
				}
				if c, ok := v.(*ssa.Call); ok && CalleeID(c.Common()) != "builtin.append" {
					return false
				}
				return !rest
			})
			if rest {
				ops = append(ops, WireOp{Kind: "Rest", Field: f, Instr: st, Loop: InCycle(st), Cond: !onSpine(st)})
			}
		})
	}
	// order by dominance (stable topological order over the dominator relation)
	sort.SliceStable(ops, func(i, j int) bool {
		a, b := ops[i].Instr, ops[j].Instr
		if a == b {
			return ops[i].sub < ops[j].sub
		}
		if Dominates(a, b) {
			return true
		}
		if Dominates(b, a) {
			return false
		}
		return a.Block().Index < b.Block().Index
	})
	return ops, nil
}

// OpsString renders a sequence.
func OpsString(ops []WireOp) string {
	var s []string
	for _, o := range ops {
		s = append(s, o.String())
	}
	return strings.Join(s, " ")
}

// CompatibleOps compares a writer and a reader sequence: same length, same
// kinds (Raw/Bytes written last ≅ Rest read last; ID constants equal), same
// loop/conditional marking, and equal fields wherever both sides name one.
func CompatibleOps(w, r []WireOp) (bool, string) {
	if len(w) != len(r) {
		return false, fmt.Sprintf("writer has %d wire operations, reader %d", len(w), len(r))
	}
	for i := range w {
		a, b := w[i], r[i]
		ka, kb := a.Kind, b.Kind
		if i == len(w)-1 && (ka == "Raw" || ka == "Rest") && (kb == "Rest" || kb == "Raw") {
			ka, kb = "Rest", "Rest"
		}
		if strings.HasPrefix(ka, "Obj") && strings.HasPrefix(kb, "Obj") {
			// same nested type, same boxed/bare form
			if ka != kb {
				return false, fmt.Sprintf("operation %d: writer %s, reader %s", i, a, b)
			}
		} else if ka != kb {
			return false, fmt.Sprintf("operation %d: writer %s, reader %s", i, a, b)
		}
		if a.Loop != b.Loop || a.Cond != b.Cond {
			return false, fmt.Sprintf("operation %d: writer %s and reader %s differ in loop/conditional placement", i, a, b)
		}
		fa, fb := strings.TrimSuffix(strings.TrimPrefix(a.Field, "len("), ")"), b.Field
		if a.Field != "" && b.Field != "" && fa != fb && !strings.HasPrefix(a.Field, "len(") {
			return false, fmt.Sprintf("operation %d: writer carries field %s, reader fills field %s", i, a.Field, b.Field)
		}
		_ = fa
	}
	return true, ""
}
