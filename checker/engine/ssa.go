package engine

import (
	"fmt"
	"go/constant"
	"go/token"
	"go/types"
	"sort"
	"strings"

	"golang.org/x/tools/go/ssa"
)

// ---------------------------------------------------------------------------
// iteration

// WithAnon returns fn and all functions literally nested in it.
func WithAnon(fn *ssa.Function) []*ssa.Function {
	if fn == nil {
		return nil
	}
	out := []*ssa.Function{fn}
	for _, a := range fn.AnonFuncs {
		out = append(out, WithAnon(a)...)
	}
	return out
}

// Instrs visits every instruction of fn (not nested closures).
func Instrs(fn *ssa.Function, visit func(ssa.Instruction)) {
	if fn == nil {
		return
	}
	for _, b := range fn.Blocks {
		for _, i := range b.Instrs {
			visit(i)
		}
	}
}

// Short strips the module prefix from a qualified name.
func Short(s string) string {
	return strings.ReplaceAll(s, Module+"/", "")
}

// CalleeID names the callee of a call: "crypto.MessageKey",
// "(*bin.Buffer).Int", "(transport.Conn).Recv" (interface method),
// "builtin.len", "" for dynamic closure calls.
func CalleeID(cc *ssa.CallCommon) string {
	if cc.IsInvoke() {
		return Short(cc.Method.FullName())
	}
	switch v := cc.Value.(type) {
	case *ssa.Builtin:
		return "builtin." + v.Name()
	case *ssa.Function:
		return FuncID(v)
	case *ssa.MakeClosure:
		return FuncID(v.Fn.(*ssa.Function))
	}
	return ""
}

// FuncID is the short qualified name of a function.
func FuncID(f *ssa.Function) string {
	if f == nil {
		return ""
	}
	if f.Origin() != nil {
		f = f.Origin()
	}
	if o := f.Object(); o != nil {
		if fo, ok := o.(*types.Func); ok {
			return Short(fo.FullName())
		}
	}
	return Short(f.String())
}

// Calls returns the call instructions (call, go, defer) in fn.
func Calls(fn *ssa.Function) []ssa.CallInstruction {
	var out []ssa.CallInstruction
	Instrs(fn, func(i ssa.Instruction) {
		if c, ok := i.(ssa.CallInstruction); ok {
			out = append(out, c)
		}
	})
	return out
}

// CallsTo returns call instructions in fn (optionally nested closures) whose
// callee id is one of ids.
func CallsTo(fn *ssa.Function, anon bool, ids ...string) []ssa.CallInstruction {
	want := map[string]bool{}
	for _, i := range ids {
		want[i] = true
	}
	var out []ssa.CallInstruction
	fns := []*ssa.Function{fn}
	if anon {
		fns = WithAnon(fn)
	}
	for _, f := range fns {
		for _, c := range Calls(f) {
			if want[CalleeID(c.Common())] {
				out = append(out, c)
			}
		}
	}
	return out
}

// Args returns the actual arguments including the receiver first for
// statically dispatched methods (as go/ssa stores them); for invoke calls the
// receiver is prepended.
func Args(cc *ssa.CallCommon) []ssa.Value {
	if cc.IsInvoke() {
		return append([]ssa.Value{cc.Value}, cc.Args...)
	}
	return cc.Args
}

// ---------------------------------------------------------------------------
// CFG reachability

type edge struct{ from, to *ssa.BasicBlock }

// reach computes blocks reachable from start without traversing cut edges or
// entering blocked blocks. start itself is included.
func reach(start *ssa.BasicBlock, cut map[edge]bool, blocked map[*ssa.BasicBlock]bool) map[*ssa.BasicBlock]bool {
	seen := map[*ssa.BasicBlock]bool{}
	if blocked[start] {
		return seen
	}
	stack := []*ssa.BasicBlock{start}
	seen[start] = true
	for len(stack) > 0 {
		b := stack[len(stack)-1]
		stack = stack[:len(stack)-1]
		for _, s := range b.Succs {
			if cut[edge{b, s}] || blocked[s] || seen[s] {
				continue
			}
			seen[s] = true
			stack = append(stack, s)
		}
	}
	return seen
}

// ReachFrom returns the blocks reachable from b's successors (b included only
// if it lies on a cycle).
func ReachFrom(b *ssa.BasicBlock) map[*ssa.BasicBlock]bool {
	seen := map[*ssa.BasicBlock]bool{}
	for _, s := range b.Succs {
		for k := range reach(s, nil, nil) {
			seen[k] = true
		}
	}
	return seen
}

func indexOf(i ssa.Instruction) int {
	for k, x := range i.Block().Instrs {
		if x == i {
			return k
		}
	}
	return -1
}

// Dominates reports whether instruction a is executed on every path from the
// function entry to instruction b (same function).
func Dominates(a, b ssa.Instruction) bool {
	if a.Block() == b.Block() {
		return indexOf(a) < indexOf(b)
	}
	return a.Block().Dominates(b.Block())
}

// PathExists reports whether some CFG path leads from (after) a to b.
func PathExists(a, b ssa.Instruction) bool {
	if a.Block() == b.Block() && indexOf(a) < indexOf(b) {
		return true
	}
	return ReachFrom(a.Block())[b.Block()]
}

// PathExistsAvoiding reports whether a path from after a reaches b without
// passing any barrier instruction.
func PathExistsAvoiding(a, b ssa.Instruction, barrier func(ssa.Instruction) bool) bool {
	// instruction-level search
	type pt struct {
		b *ssa.BasicBlock
		i int
	}
	seen := map[*ssa.BasicBlock]bool{}
	var walk func(blk *ssa.BasicBlock, from int) bool
	walk = func(blk *ssa.BasicBlock, from int) bool {
		for k := from; k < len(blk.Instrs); k++ {
			in := blk.Instrs[k]
			if in == b {
				return true
			}
			if barrier != nil && barrier(in) {
				return false
			}
		}
		for _, s := range blk.Succs {
			if seen[s] {
				continue
			}
			seen[s] = true
			if walk(s, 0) {
				return true
			}
		}
		return false
	}
	return walk(a.Block(), indexOf(a)+1)
}

// Guard is a conditional edge every path to a sink must take.
type Guard struct {
	If     *ssa.If
	Branch bool // true: the "then" edge (Succs[0]) must be taken
	// Val, when set, is the boolean value the guard speaks about instead of
	// If.Cond: a fact implied by the edge (see impliedGuards), "Val == Branch".
	Val ssa.Value
}

// impliedGuards: the facts that hold when the given edge of iff is taken — the
// condition itself and, when the condition is a boolean kept in a variable
// (ok := a && b; if ok …: a phi of booleans), what its value implies: if only
// one incoming edge of the phi can carry the value the branch needs, the path
// came through that edge, so the guards of that predecessor, the edge's own
// condition and the incoming value hold as well.
func impliedGuards(g Guard, depth int) []Guard {
	out := []Guard{g}
	if depth > 3 {
		return out
	}
	v := g.If.Cond
	if g.Val != nil {
		v = g.Val
	}
	want := g.Branch
	for {
		if u, ok := v.(*ssa.UnOp); ok && u.Op == token.NOT {
			v, want = u.X, !want
			continue
		}
		break
	}
	phi, ok := v.(*ssa.Phi)
	if !ok {
		return out
	}
	if b, isB := phi.Type().Underlying().(*types.Basic); !isB || b.Kind() != types.Bool {
		return out
	}
	via := -1
	for i, e := range phi.Edges {
		if c, isK := ConstBool(e); isK && c != want {
			continue // this edge cannot carry the needed value
		}
		if via >= 0 {
			return out // two edges may carry it: nothing more is known
		}
		via = i
	}
	if via < 0 || via >= len(phi.Block().Preds) {
		return out
	}
	pred := phi.Block().Preds[via]
	last := pred.Instrs[len(pred.Instrs)-1]
	// the incoming value itself
	if _, isK := ConstBool(phi.Edges[via]); !isK {
		out = append(out, impliedGuards(Guard{If: g.If, Branch: want, Val: phi.Edges[via]}, depth+1)...)
	}
	// the edge pred → phi block
	if pif, isIf := last.(*ssa.If); isIf && len(pred.Succs) == 2 && pred.Succs[0] != pred.Succs[1] {
		out = append(out, impliedGuards(Guard{If: pif, Branch: pred.Succs[0] == phi.Block()}, depth+1)...)
	}
	// what dominates the predecessor
	for _, pg := range guardsRaw(last) {
		out = append(out, impliedGuards(pg, depth+1)...)
	}
	return out
}

// guardImplies: taking the edge of g guarantees a comparison that match
// accepts — the condition itself, or, for a condition kept in a boolean
// variable (a phi), a fact on *every* way the variable can have the needed
// value: for each incoming edge that can carry it, the incoming value, the
// edge's own condition or a guard of that predecessor must match. One way is
// a conjunction (ok := a && b, true edge), several are a disjunction each
// alternative of which has to match (ok := a || b, true edge, with a
// predicate that accepts a and accepts b).
func guardImplies(g Guard, match func(Cmp) bool, depth int) bool {
	c := g.Cmp()
	if match(c) || match(c.Swap()) {
		return true
	}
	if depth > 3 {
		return false
	}
	v := g.If.Cond
	if g.Val != nil {
		v = g.Val
	}
	want := g.Branch
	for {
		if u, ok := v.(*ssa.UnOp); ok && u.Op == token.NOT {
			v, want = u.X, !want
			continue
		}
		break
	}
	phi, ok := v.(*ssa.Phi)
	if !ok {
		return false
	}
	if b, isB := phi.Type().Underlying().(*types.Basic); !isB || b.Kind() != types.Bool {
		return false
	}
	ways := 0
	for i, e := range phi.Edges {
		if k, isK := ConstBool(e); isK && k != want {
			continue
		}
		if i >= len(phi.Block().Preds) {
			return false
		}
		ways++
		pred := phi.Block().Preds[i]
		last := pred.Instrs[len(pred.Instrs)-1]
		okWay := false
		if _, isK := ConstBool(e); !isK && guardImplies(Guard{If: g.If, Branch: want, Val: e}, match, depth+1) {
			okWay = true
		}
		if pif, isIf := last.(*ssa.If); !okWay && isIf && len(pred.Succs) == 2 && pred.Succs[0] != pred.Succs[1] {
			okWay = guardImplies(Guard{If: pif, Branch: pred.Succs[0] == phi.Block()}, match, depth+1)
		}
		if !okWay {
			for _, pg := range guardsRaw(last) {
				if guardImplies(pg, match, depth+1) {
					okWay = true
					break
				}
			}
		}
		if !okWay {
			return false
		}
	}
	return ways > 0
}

// Guards returns all conditional edges that every entry→sink path traverses,
// together with the facts those edges imply (impliedGuards).
func Guards(sink ssa.Instruction) []Guard {
	var out []Guard
	for _, g := range guardsRaw(sink) {
		out = append(out, impliedGuards(g, 0)...)
	}
	return out
}

func guardsRaw(sink ssa.Instruction) []Guard {
	fn := sink.Parent()
	var out []Guard
	entry := fn.Blocks[0]
	for _, b := range fn.Blocks {
		if len(b.Instrs) == 0 {
			continue
		}
		iff, ok := b.Instrs[len(b.Instrs)-1].(*ssa.If)
		if !ok || b.Succs[0] == b.Succs[1] {
			continue
		}
		for k := 0; k < 2; k++ {
			r := reach(entry, map[edge]bool{{b, b.Succs[k]}: true}, nil)
			if !r[sink.Block()] {
				out = append(out, Guard{If: iff, Branch: k == 0})
			}
		}
	}
	return out
}

// Cmp is a normalised comparison.
type Cmp struct {
	Op   token.Token // EQL NEQ LSS LEQ GTR GEQ, or ILLEGAL for a plain boolean value
	X, Y ssa.Value   // for ILLEGAL: X is the boolean value
	Via  *ssa.Call   // the equality helper call the comparison was normalised from (bytes.Equal …), if any
}

// CondCmp decodes the condition of a guard into a comparison that holds on the
// guarded edge (negating for the else edge, unwrapping !).
func (g Guard) Cmp() Cmp {
	v := g.If.Cond
	if g.Val != nil {
		v = g.Val
	}
	neg := !g.Branch
	for {
		if u, ok := v.(*ssa.UnOp); ok && u.Op == token.NOT {
			v = u.X
			neg = !neg
			continue
		}
		break
	}
	if b, ok := v.(*ssa.BinOp); ok {
		op := b.Op
		switch op {
		case token.EQL, token.NEQ, token.LSS, token.LEQ, token.GTR, token.GEQ:
			if neg {
				op = negate(op)
			}
			// subtle.ConstantTimeCompare(a, b) == 1 / != 1 / == 0
			for _, side := range [][2]ssa.Value{{b.X, b.Y}, {b.Y, b.X}} {
				if c, ok := side[0].(*ssa.Call); ok && CalleeID(c.Common()) == "crypto/subtle.ConstantTimeCompare" {
					if k, isK := ConstInt(side[1]); isK && (op == token.EQL || op == token.NEQ) {
						eq := (op == token.EQL) == (k == 1)
						o := token.EQL
						if !eq {
							o = token.NEQ
						}
						return Cmp{Op: o, X: c.Common().Args[0], Y: c.Common().Args[1], Via: c}
					}
				}
			}
			// canonical form: a constant operand is on the right ("0 < x" is "x > 0"),
			// so that rules read the same comparison however it is spelled
			k := Cmp{Op: op, X: b.X, Y: b.Y}
			if _, xc := b.X.(*ssa.Const); xc {
				if _, yc := b.Y.(*ssa.Const); !yc {
					k = k.Swap()
				}
			}
			return k
		}
	}
	// equality helpers on byte slices: bytes.Equal(a, b), hmac.Equal(a, b),
	// subtle.ConstantTimeCompare(a, b) == 1 are normalised to a == b
	if c, ok := v.(*ssa.Call); ok {
		switch CalleeID(c.Common()) {
		case "bytes.Equal", "crypto/hmac.Equal":
			op := token.EQL
			if neg {
				op = token.NEQ
			}
			return Cmp{Op: op, X: c.Common().Args[0], Y: c.Common().Args[1], Via: c}
		}
	}
	// boolean value: express as v == true / v == false
	if neg {
		return Cmp{Op: token.EQL, X: v, Y: boolConst(false)}
	}
	return Cmp{Op: token.EQL, X: v, Y: boolConst(true)}
}

// CmpOf reads a comparison instruction in canonical form (a constant operand on
// the right: "K == x" is "x == K", "K < x" is "x > K"); ok is false for other
// binary operations.
func CmpOf(b *ssa.BinOp) (Cmp, bool) {
	switch b.Op {
	case token.EQL, token.NEQ, token.LSS, token.LEQ, token.GTR, token.GEQ:
	default:
		return Cmp{}, false
	}
	k := Cmp{Op: b.Op, X: b.X, Y: b.Y}
	if _, xc := b.X.(*ssa.Const); xc {
		if _, yc := b.Y.(*ssa.Const); !yc {
			k = k.Swap()
		}
	}
	return k, true
}

func boolConst(b bool) *ssa.Const {
	return ssa.NewConst(constant.MakeBool(b), types.Typ[types.Bool])
}

// NegateOp: the comparison that holds when op does not.
func NegateOp(op token.Token) token.Token { return negate(op) }

func negate(op token.Token) token.Token {
	switch op {
	case token.EQL:
		return token.NEQ
	case token.NEQ:
		return token.EQL
	case token.LSS:
		return token.GEQ
	case token.LEQ:
		return token.GTR
	case token.GTR:
		return token.LEQ
	case token.GEQ:
		return token.LSS
	}
	return op
}

// Swap returns the comparison with operands exchanged.
func (c Cmp) Swap() Cmp {
	op := c.Op
	switch op {
	case token.LSS:
		op = token.GTR
	case token.LEQ:
		op = token.GEQ
	case token.GTR:
		op = token.LSS
	case token.GEQ:
		op = token.LEQ
	}
	return Cmp{Op: op, X: c.Y, Y: c.X, Via: c.Via}
}

func (c Cmp) String() string {
	return fmt.Sprintf("%s %s %s", Describe(c.X), c.Op, Describe(c.Y))
}

// IsNil reports whether v is the nil constant.
func IsNil(v ssa.Value) bool {
	k, ok := v.(*ssa.Const)
	return ok && k.Value == nil && !isBasic(k.Type())
}

func isBasic(t types.Type) bool {
	_, ok := t.Underlying().(*types.Basic)
	return ok
}

// ConstInt returns the integer value of a constant.
func ConstInt(v ssa.Value) (int64, bool) {
	v = stripConv(v)
	k, ok := v.(*ssa.Const)
	if !ok || k.Value == nil {
		return 0, false
	}
	if k.Value.Kind() == constant.Int {
		i, exact := constant.Int64Val(k.Value)
		if exact {
			return i, true
		}
		u, exact := constant.Uint64Val(k.Value)
		return int64(u), exact
	}
	if k.Value.Kind() == constant.Float {
		f, _ := constant.Float64Val(k.Value)
		if f == float64(int64(f)) {
			return int64(f), true
		}
	}
	return 0, false
}

// ConstBool returns the boolean value of a constant.
func ConstBool(v ssa.Value) (bool, bool) {
	k, ok := v.(*ssa.Const)
	if !ok || k.Value == nil || k.Value.Kind() != constant.Bool {
		return false, false
	}
	return constant.BoolVal(k.Value), true
}

func stripConv(v ssa.Value) ssa.Value {
	for {
		switch x := v.(type) {
		case *ssa.Convert:
			v = x.X
		case *ssa.ChangeType:
			v = x.X
		default:
			return v
		}
	}
}

// ---------------------------------------------------------------------------
// value description (canonical rendering of resolved SSA values)

// Describe renders v as a canonical expression over parameters, fields,
// calls and constants. Loads, conversions and interface boxing are
// transparent. The rendering is independent of local variable names for
// everything but parameters.
func Describe(v ssa.Value) string {
	return describe(v, map[ssa.Value]bool{}, 0)
}

// allocName: the name of a local cell; for the cell a parameter is spilled to
// (a parameter that is assigned or captured by reference) the parameter's
// baseline name, so that renaming the parameter does not change descriptions.
func allocName(a *ssa.Alloc) string {
	if p := spilledParam(a); p != nil {
		return ParamName(p)
	}
	return a.Comment
}

// spilledParam: the parameter whose value is stored into a as its first content
// (go/ssa spills a parameter that is address-taken or captured into a cell of
// the same name, initialised from the parameter at function entry).
func spilledParam(a *ssa.Alloc) *ssa.Parameter {
	refs := a.Referrers()
	if refs == nil {
		return nil
	}
	for _, r := range *refs {
		if st, ok := r.(*ssa.Store); ok && st.Addr == ssa.Value(a) {
			if p, isP := st.Val.(*ssa.Parameter); isP && p.Name() == a.Comment && st.Block() != nil && st.Block().Index == 0 {
				return p
			}
		}
	}
	return nil
}

// FreeVarName: the name a free variable is described under: when it is bound
// (through any number of closure levels) to a parameter, or to the cell a
// parameter is spilled to, the parameter's baseline name; its own name
// otherwise.
func FreeVarName(fv *ssa.FreeVar) string {
	cur := fv
	for i := 0; i < 6; i++ {
		fn := cur.Parent()
		if fn == nil || fn.Parent() == nil {
			break
		}
		idx := -1
		for k, f := range fn.FreeVars {
			if f == cur {
				idx = k
			}
		}
		if idx < 0 {
			break
		}
		var bound ssa.Value
		for _, b := range fn.Parent().Blocks {
			for _, in := range b.Instrs {
				if mc, ok := in.(*ssa.MakeClosure); ok && mc.Fn == ssa.Value(fn) && idx < len(mc.Bindings) {
					bound = mc.Bindings[idx]
				}
			}
		}
		switch x := bound.(type) {
		case *ssa.Parameter:
			return ParamName(x)
		case *ssa.Alloc:
			if p := spilledParam(x); p != nil {
				return ParamName(p)
			}
			return fv.Name()
		case *ssa.FreeVar:
			cur = x
			continue
		}
		break
	}
	return fv.Name()
}

func describe(v ssa.Value, seen map[ssa.Value]bool, depth int) string {
	if v == nil {
		return "<nil>"
	}
	if depth > 12 {
		return "…"
	}
	if seen[v] {
		return "↺"
	}
	seen[v] = true
	defer delete(seen, v)
	d := func(x ssa.Value) string { return describe(x, seen, depth+1) }
	switch x := v.(type) {
	case *ssa.Parameter:
		return "p:" + ParamName(x)
	case *ssa.FreeVar:
		return "fv:" + FreeVarName(x)
	case *ssa.Const:
		if x.Value == nil {
			return "nil"
		}
		return x.Value.ExactString()
	case *ssa.Global:
		return "g:" + Short(x.String())
	case *ssa.Function:
		return "fn:" + FuncID(x)
	case *ssa.Builtin:
		return "builtin." + x.Name()
	case *ssa.Alloc:
		// single-store local: describe the stored value
		if st := singleStore(x); st != nil {
			return d(st)
		}
		return "alloc:" + allocName(x)
	case *ssa.UnOp:
		if x.Op == token.MUL {
			return d(x.X)
		}
		if x.Op == token.ARROW {
			return "<-" + d(x.X)
		}
		return x.Op.String() + d(x.X)
	case *ssa.FieldAddr:
		return d(x.X) + "." + fieldName(x.X.Type(), x.Field)
	case *ssa.Field:
		return d(x.X) + "." + fieldName(x.X.Type(), x.Field)
	case *ssa.IndexAddr:
		return d(x.X) + "[" + d(x.Index) + "]"
	case *ssa.Index:
		return d(x.X) + "[" + d(x.Index) + "]"
	case *ssa.Lookup:
		return d(x.X) + "[" + d(x.Index) + "]"
	case *ssa.Slice:
		lo, hi := "", ""
		if x.Low != nil {
			lo = d(x.Low)
		}
		if x.High != nil {
			hi = d(x.High)
		}
		return d(x.X) + "[" + lo + ":" + hi + "]"
	case *ssa.Convert:
		return d(x.X)
	case *ssa.ChangeType:
		return d(x.X)
	case *ssa.ChangeInterface:
		return d(x.X)
	case *ssa.MakeInterface:
		return d(x.X)
	case *ssa.SliceToArrayPointer:
		return d(x.X)
	case *ssa.TypeAssert:
		return d(x.X) + ".(" + Short(types.TypeString(x.AssertedType, nil)) + ")"
	case *ssa.Extract:
		return d(x.Tuple) + "#" + fmt.Sprint(x.Index)
	case *ssa.Call:
		id := CalleeID(x.Common())
		if id == "" {
			id = "dyn:" + d(x.Common().Value)
		}
		var as []string
		for _, a := range Args(x.Common()) {
			as = append(as, d(a))
		}
		return id + "(" + strings.Join(as, ", ") + ")"
	case *ssa.BinOp:
		return "(" + d(x.X) + " " + x.Op.String() + " " + d(x.Y) + ")"
	case *ssa.Phi:
		var es []string
		set := map[string]bool{}
		for _, e := range x.Edges {
			s := d(e)
			if !set[s] {
				set[s] = true
				es = append(es, s)
			}
		}
		sort.Strings(es)
		if len(es) == 1 {
			return es[0]
		}
		return "phi(" + strings.Join(es, " | ") + ")"
	case *ssa.MakeClosure:
		return "closure:" + FuncID(x.Fn.(*ssa.Function))
	case *ssa.MakeSlice:
		return "make[](" + d(x.Len) + ")"
	case *ssa.MakeChan:
		return "makechan(" + d(x.Size) + ")"
	case *ssa.MakeMap:
		return "makemap"
	case *ssa.Select:
		return "select"
	case *ssa.Next:
		return "next(" + d(x.Iter) + ")"
	case *ssa.Range:
		return "range(" + d(x.X) + ")"
	}
	return fmt.Sprintf("%T", v)
}

func fieldName(t types.Type, idx int) string {
	if p, ok := t.Underlying().(*types.Pointer); ok {
		t = p.Elem()
	}
	if s, ok := t.Underlying().(*types.Struct); ok && idx < s.NumFields() {
		return s.Field(idx).Name()
	}
	return fmt.Sprint("#", idx)
}

// singleStore returns the unique value stored to a non-escaping alloc, or nil.
// Field/element addresses taken from the alloc are tolerated as long as they
// are only loaded from (a spilled struct or array parameter).
func singleStore(a *ssa.Alloc) ssa.Value {
	var val ssa.Value
	n := 0
	for _, r := range *a.Referrers() {
		switch s := r.(type) {
		case *ssa.Store:
			if s.Addr == ssa.Value(a) {
				n++
				val = s.Val
			} else {
				return nil // the address itself is stored somewhere
			}
		case *ssa.UnOp, *ssa.DebugRef:
		case *ssa.FieldAddr:
			if !onlyLoaded(s) {
				return nil
			}
		case *ssa.IndexAddr:
			if !onlyLoaded(s) {
				return nil
			}
		case *ssa.Slice:
			// slicing an array alloc: the slice may be written through; accept only
			// when the alloc is a spilled parameter (its single store is a Parameter)
		case *ssa.MakeClosure:
			// captured by a closure: fine if the closure (transitively) only reads it
			for i, b := range s.Bindings {
				if b == ssa.Value(a) {
					if fn, ok := s.Fn.(*ssa.Function); !ok || i >= len(fn.FreeVars) || !onlyLoaded(fn.FreeVars[i]) {
						return nil
					}
				}
			}
		default:
			return nil
		}
	}
	if n != 1 {
		return nil
	}
	for _, r := range *a.Referrers() {
		if _, ok := r.(*ssa.Slice); ok {
			if _, isParam := val.(*ssa.Parameter); !isParam {
				return nil
			}
		}
	}
	return val
}

func onlyLoaded(addr ssa.Value) bool {
	refs := addr.Referrers()
	if refs == nil {
		return false
	}
	for _, r := range *refs {
		switch x := r.(type) {
		case *ssa.UnOp, *ssa.DebugRef:
		case *ssa.FieldAddr:
			if !onlyLoaded(x) {
				return false
			}
		case *ssa.IndexAddr:
			if !onlyLoaded(x) {
				return false
			}
		case *ssa.MakeClosure:
			for i, b := range x.Bindings {
				if b == addr {
					if fn, ok := x.Fn.(*ssa.Function); !ok || i >= len(fn.FreeVars) || !onlyLoaded(fn.FreeVars[i]) {
						return false
					}
				}
			}
		default:
			return false
		}
	}
	return true
}

// Unwrap strips loads of single-store allocs, conversions and interface
// boxing, returning the underlying value.
func Unwrap(v ssa.Value) ssa.Value {
	for i := 0; i < 20; i++ {
		switch x := v.(type) {
		case *ssa.Convert:
			v = x.X
		case *ssa.ChangeType:
			v = x.X
		case *ssa.ChangeInterface:
			v = x.X
		case *ssa.MakeInterface:
			v = x.X
		case *ssa.UnOp:
			if x.Op == token.MUL {
				if a, ok := x.X.(*ssa.Alloc); ok {
					if s := singleStore(a); s != nil {
						v = s
						continue
					}
				}
			}
			return v
		default:
			return v
		}
	}
	return v
}

// Leaves returns the non-transparent origins of v: Phi edges are expanded,
// Extract is mapped to its call.
func Leaves(v ssa.Value) []ssa.Value {
	var out []ssa.Value
	seen := map[ssa.Value]bool{}
	var walk func(ssa.Value)
	walk = func(v ssa.Value) {
		v = Unwrap(v)
		if seen[v] {
			return
		}
		seen[v] = true
		switch x := v.(type) {
		case *ssa.Phi:
			for _, e := range x.Edges {
				walk(e)
			}
		default:
			out = append(out, v)
		}
	}
	walk(v)
	return out
}

// CallOf returns the call producing v (directly or through Extract), or nil.
func CallOf(v ssa.Value) *ssa.Call {
	v = Unwrap(v)
	// x[:] of a local array initialised once from a call result
	if sl, ok := v.(*ssa.Slice); ok && sl.Low == nil && sl.High == nil {
		if a, ok := sl.X.(*ssa.Alloc); ok {
			if init := allocInit(a); init != nil {
				v = Unwrap(init)
			}
		}
	}
	if e, ok := v.(*ssa.Extract); ok {
		v = e.Tuple
	}
	c, _ := v.(*ssa.Call)
	return c
}

// ---------------------------------------------------------------------------
// returns

// Returns lists the return instructions of fn.
func Returns(fn *ssa.Function) []*ssa.Return {
	var out []*ssa.Return
	Instrs(fn, func(i ssa.Instruction) {
		if r, ok := i.(*ssa.Return); ok && i.Block() != fn.Recover {
			out = append(out, r)
		}
	})
	return out
}

// PassThrough resolves v = f(...)#k to the argument it always returns: if
// every return of the (statically known, same-program) callee yields its
// parameter j in result position k, the j-th actual argument is returned.
// Otherwise v is returned unchanged.
func PassThrough(v ssa.Value) ssa.Value {
	for i := 0; i < 5; i++ {
		u := Unwrap(v)
		idx := 0
		var call *ssa.Call
		switch x := u.(type) {
		case *ssa.Extract:
			idx = x.Index
			call, _ = x.Tuple.(*ssa.Call)
		case *ssa.Call:
			call = x
		}
		if call == nil {
			return u
		}
		callee := call.Common().StaticCallee()
		if callee == nil || len(callee.Blocks) == 0 {
			return u
		}
		pj := -1
		for _, r := range Returns(callee) {
			if idx >= len(r.Results) {
				return u
			}
			rv := Unwrap(r.Results[idx])
			found := -1
			for j, p := range callee.Params {
				if rv == ssa.Value(p) {
					found = j
				}
			}
			if found < 0 || (pj >= 0 && pj != found) {
				return u
			}
			pj = found
		}
		if pj < 0 {
			return u
		}
		v = call.Common().Args[pj]
	}
	return v
}

// ErrIndex returns the index of the last result if it is of type error, else -1.
func ErrIndex(fn *ssa.Function) int {
	res := fn.Signature.Results()
	if res.Len() == 0 {
		return -1
	}
	if types.TypeString(res.At(res.Len()-1).Type(), nil) == "error" {
		return res.Len() - 1
	}
	return -1
}

// ReturnKind classifies the error operand of a return: "nil", "nonnil" or
// "maybe" (a value that may be either).
func ReturnKind(r *ssa.Return, idx int) string {
	if idx < 0 || idx >= len(r.Results) {
		return "maybe"
	}
	return nilness(RetVal(r, idx), r, map[ssa.Value]bool{})
}

func nilness(v ssa.Value, at ssa.Instruction, seen map[ssa.Value]bool) string {
	if seen[v] {
		return "maybe"
	}
	seen[v] = true
	switch x := v.(type) {
	case *ssa.Const:
		if x.Value == nil {
			return "nil"
		}
		return "nonnil"
	case *ssa.MakeInterface:
		return "nonnil"
	case *ssa.Phi:
		kind := ""
		for _, e := range x.Edges {
			k := nilness(e, at, seen)
			if kind == "" {
				kind = k
			} else if kind != k {
				return "maybe"
			}
		}
		return kind
	case *ssa.Call:
		id := CalleeID(x.Common())
		switch id {
		case "github.com/go-faster/errors.Wrap", "github.com/go-faster/errors.Wrapf",
			"github.com/go-faster/errors.New", "github.com/go-faster/errors.Errorf", "fmt.Errorf", "errors.New":
			return "nonnil"
		}
	case *ssa.UnOp:
		if x.Op == token.MUL {
			if g, ok := x.X.(*ssa.Global); ok && strings.HasPrefix(g.Name(), "Err") || ok && strings.HasPrefix(g.Name(), "err") {
				return "nonnil" // sentinel error variable
			}
		}
	}
	// value known non-nil through a dominating guard v != nil
	if at != nil {
		for _, g := range Guards(at) {
			c := g.Cmp()
			if c.Op == token.NEQ && ((c.X == v && IsNil(c.Y)) || (c.Y == v && IsNil(c.X))) {
				return "nonnil"
			}
			if c.Op == token.EQL && ((c.X == v && IsNil(c.Y)) || (c.Y == v && IsNil(c.X))) {
				return "nil"
			}
		}
	}
	return "maybe"
}

// SuccessReturns are returns whose error operand is nil or may be nil.
func SuccessReturns(fn *ssa.Function) []*ssa.Return {
	idx := ErrIndex(fn)
	var out []*ssa.Return
	for _, r := range Returns(fn) {
		if idx < 0 || ReturnKind(r, idx) != "nonnil" {
			out = append(out, r)
		}
	}
	return out
}

// GuardedBy reports whether sink is guarded by a comparison satisfying match
// (tried in both operand orders).
func GuardedBy(sink ssa.Instruction, match func(Cmp) bool) bool {
	for _, g := range guardsRaw(sink) {
		if guardImplies(g, match, 0) {
			return true
		}
	}
	return false
}

// ---------------------------------------------------------------------------
// locksets (must-held, intraprocedural)

// Locksets computes, for each instruction of fn, the set of mutexes that are
// held on every path reaching it. Mutexes are named by Describe of the
// receiver of Lock/RLock. Deferred unlocks keep the lock held to the end.
func Locksets(fn *ssa.Function) map[ssa.Instruction]map[string]bool {
	type set = map[string]bool
	in := map[*ssa.BasicBlock]set{}
	out := map[*ssa.BasicBlock]set{}
	res := map[ssa.Instruction]map[string]bool{}
	clone := func(s set) set {
		n := set{}
		for k := range s {
			n[k] = true
		}
		return n
	}
	transfer := func(b *ssa.BasicBlock, s set, record bool) set {
		s = clone(s)
		for _, i := range b.Instrs {
			if record {
				res[i] = clone(s)
			}
			c, ok := i.(*ssa.Call)
			if !ok {
				continue
			}
			id := CalleeID(c.Common())
			switch id {
			case "(*sync.Mutex).Lock", "(*sync.RWMutex).Lock", "(*sync.RWMutex).RLock":
				s[Describe(c.Common().Args[0])] = true
			case "(*sync.Mutex).Unlock", "(*sync.RWMutex).Unlock", "(*sync.RWMutex).RUnlock":
				delete(s, Describe(c.Common().Args[0]))
			}
		}
		return s
	}
	if len(fn.Blocks) == 0 {
		return res
	}
	// initialise: entry empty, others "top" (nil = unvisited)
	in[fn.Blocks[0]] = set{}
	changed := true
	for iter := 0; changed && iter < 50; iter++ {
		changed = false
		for _, b := range fn.Blocks {
			var s set
			if b == fn.Blocks[0] {
				s = set{}
			} else {
				first := true
				for _, p := range b.Preds {
					po, ok := out[p]
					if !ok {
						continue
					}
					if first {
						s = clone(po)
						first = false
					} else {
						for k := range s {
							if !po[k] {
								delete(s, k)
							}
						}
					}
				}
				if first {
					continue // no visited pred yet
				}
			}
			in[b] = s
			o := transfer(b, s, false)
			if prev, ok := out[b]; !ok || !sameSet(prev, o) {
				out[b] = o
				changed = true
			}
		}
	}
	for _, b := range fn.Blocks {
		if s, ok := in[b]; ok {
			transfer(b, s, true)
		}
	}
	return res
}

func sameSet(a, b map[string]bool) bool {
	if len(a) != len(b) {
		return false
	}
	for k := range a {
		if !b[k] {
			return false
		}
	}
	return true
}

// InCycle reports whether the block of i lies on a CFG cycle.
func InCycle(i ssa.Instruction) bool {
	return ReachFrom(i.Block())[i.Block()]
}

// WalkBack visits v and, transitively, the values it is computed from
// (operands; loads of single-store allocs look through the store). visit
// returns false to stop descending below a value.
func WalkBack(v ssa.Value, visit func(ssa.Value) bool) {
	seen := map[ssa.Value]bool{}
	var walk func(v ssa.Value, d int)
	walk = func(v ssa.Value, d int) {
		if v == nil || seen[v] || d > 40 {
			return
		}
		seen[v] = true
		if !visit(v) {
			return
		}
		if a, ok := v.(*ssa.Alloc); ok {
			for _, r := range *a.Referrers() {
				if s, ok := r.(*ssa.Store); ok && s.Addr == a {
					walk(s.Val, d+1)
				}
				// stores through field/element addresses of the alloc (composite literals)
				if fa, ok := r.(ssa.Value); ok {
					switch r.(type) {
					case *ssa.FieldAddr, *ssa.IndexAddr:
						if fa.Referrers() != nil {
							for _, rr := range *fa.Referrers() {
								if s, ok := rr.(*ssa.Store); ok && s.Addr == fa {
									walk(s.Val, d+1)
								}
							}
						}
					}
				}
			}
			return
		}
		if in, ok := v.(ssa.Instruction); ok {
			for _, op := range in.Operands(nil) {
				if *op != nil {
					walk(*op, d+1)
				}
			}
		}
	}
	walk(v, 0)
}

// FindCallBack returns the calls to id among the values v is computed from.
func FindCallBack(v ssa.Value, id string) []*ssa.Call {
	var out []*ssa.Call
	WalkBack(v, func(x ssa.Value) bool {
		if c, ok := x.(*ssa.Call); ok && CalleeID(c.Common()) == id {
			out = append(out, c)
			return false
		}
		return true
	})
	return out
}

// DependsOn reports whether v is computed from target.
func DependsOn(v, target ssa.Value) bool {
	found := false
	WalkBack(v, func(x ssa.Value) bool {
		if x == target {
			found = true
		}
		return !found
	})
	return found
}

// StructFieldValue returns the value stored into field `name` of the struct
// literal that v was loaded from (v = *alloc with per-field stores), or nil.
func StructFieldValue(v ssa.Value, name string) ssa.Value {
	for {
		if mi, ok := v.(*ssa.MakeInterface); ok {
			v = mi.X
			continue
		}
		if ct, ok := v.(*ssa.ChangeType); ok {
			v = ct.X
			continue
		}
		break
	}
	// base address: &T{...}, a load of a variable, or the address of a nested
	// struct field that is initialised in place
	var a ssa.Value
	switch x := v.(type) {
	case *ssa.Alloc:
		a = x
	case *ssa.FieldAddr:
		a = x
	case *ssa.UnOp:
		if x.Op != token.MUL {
			return nil
		}
		switch y := x.X.(type) {
		case *ssa.Alloc:
			a = y
		case *ssa.FieldAddr:
			a = y
		default:
			return nil
		}
	default:
		return nil
	}
	if a.Referrers() == nil {
		return nil
	}
	var val ssa.Value
	var nested *ssa.FieldAddr
	n := 0
	for _, r := range *a.Referrers() {
		fa, ok := r.(*ssa.FieldAddr)
		if !ok || fieldName(fa.X.Type(), fa.Field) != name {
			continue
		}
		for _, rr := range *fa.Referrers() {
			if st, ok := rr.(*ssa.Store); ok && st.Addr == fa {
				val = st.Val
				n++
			}
			if sub, ok := rr.(*ssa.FieldAddr); ok && sub.X == ssa.Value(fa) {
				nested = fa
			}
		}
	}
	if n == 1 {
		return val
	}
	if n == 0 && nested != nil {
		return nested // a nested struct literal built in place: its address
	}
	if n == 0 {
		// the variable was assigned as a whole (x := T{...}; or *x = *tmp):
		// the field is that of the single stored value
		var whole ssa.Value
		m := 0
		for _, r := range *a.Referrers() {
			if st, ok := r.(*ssa.Store); ok && st.Addr == a {
				whole = st.Val
				m++
			}
		}
		if m == 1 && whole != v {
			return StructFieldValue(whole, name)
		}
	}
	return nil
}

// RejectEdge reports whether every return reachable from the given successor
// of an If has a definitely non-nil error (or, for functions returning a bool
// last, the constant false) — i.e. taking the edge rejects.
func RejectEdge(iff *ssa.If, branch bool) bool {
	b := iff.Block()
	succ := b.Succs[1]
	if branch {
		succ = b.Succs[0]
	}
	fn := iff.Parent()
	idx := ErrIndex(fn)
	any := false
	for blk := range reach(succ, nil, nil) {
		if len(blk.Instrs) == 0 {
			continue
		}
		r, ok := blk.Instrs[len(blk.Instrs)-1].(*ssa.Return)
		if !ok {
			continue
		}
		any = true
		if idx >= 0 {
			if ReturnKind(r, idx) != "nonnil" {
				return false
			}
			continue
		}
		// boolean result: must be constant false
		if len(r.Results) == 0 {
			return false
		}
		bv, isB := ConstBool(RetVal(r, len(r.Results)-1))
		if !isB || bv {
			return false
		}
	}
	return any
}

// RetVal returns the i-th result of a return, looking through the spill that
// go/ssa inserts in functions with defers (*res = v; rundefers; t = *res;
// return t): the value stored in the same block is returned.
func RetVal(r *ssa.Return, i int) ssa.Value {
	if i < 0 || i >= len(r.Results) {
		return nil
	}
	v := r.Results[i]
	u, ok := v.(*ssa.UnOp)
	if !ok || u.Op != token.MUL {
		return v
	}
	a, ok := u.X.(*ssa.Alloc)
	if !ok {
		return v
	}
	instrs := r.Block().Instrs
	for k := len(instrs) - 1; k >= 0; k-- {
		if st, ok := instrs[k].(*ssa.Store); ok && st.Addr == ssa.Value(a) {
			return st.Val
		}
	}
	// stored in a dominating block: unique store overall
	if s := singleStore(a); s != nil {
		return s
	}
	return v
}

// FieldPathStores returns the values stored to root.path[0].path[1]… where
// root is an address (alloc) and the stores go through nested FieldAddr.
func FieldPathStores(root ssa.Value, path []string) []ssa.Value {
	if root.Referrers() == nil {
		return nil
	}
	var out []ssa.Value
	for _, r := range *root.Referrers() {
		if len(path) == 0 {
			if st, ok := r.(*ssa.Store); ok && st.Addr == root {
				out = append(out, st.Val)
			}
			continue
		}
		if fa, ok := r.(*ssa.FieldAddr); ok && fieldName(fa.X.Type(), fa.Field) == path[0] {
			out = append(out, FieldPathStores(fa, path[1:])...)
		}
	}
	return out
}

// DescribeVal is Describe with a trailing full-slice "[:]" removed, so that
// k[:] and k name the same thing in comparisons normalised from bytes.Equal.
func DescribeVal(v ssa.Value) string {
	d := Describe(v)
	if sl, ok := Unwrap(v).(*ssa.Slice); ok && sl.Low == nil && sl.High == nil {
		if a, ok := sl.X.(*ssa.Alloc); ok {
			if init := allocInit(a); init != nil {
				return Describe(init)
			}
		}
	}
	return strings.TrimSuffix(d, "[:]")
}

// SelectCase is one communication clause of a select statement.
type SelectCase struct {
	Index int
	Chan  ssa.Value
	Send  bool
	Body  *ssa.BasicBlock // first block executed when this case is chosen (nil if not found)
}

// SelectCases maps the states of a select to their body blocks through the
// index == k test chain that go/ssa emits. Default is reported with Index -1
// for non-blocking selects (Body = the block taken when no test matches).
func SelectCases(sel *ssa.Select) []SelectCase {
	out := make([]SelectCase, len(sel.States))
	for i, st := range sel.States {
		out[i] = SelectCase{Index: i, Chan: st.Chan, Send: st.Dir == types.SendOnly}
	}
	var idx *ssa.Extract
	for _, r := range *sel.Referrers() {
		if e, ok := r.(*ssa.Extract); ok && e.Index == 0 {
			idx = e
		}
	}
	if idx == nil {
		return out
	}
	for _, r := range *idx.Referrers() {
		b, ok := r.(*ssa.BinOp)
		if !ok || b.Op != token.EQL {
			continue
		}
		k, isK := ConstInt(b.Y)
		if !isK || b.Referrers() == nil {
			continue
		}
		for _, rr := range *b.Referrers() {
			if iff, ok := rr.(*ssa.If); ok && k >= 0 && int(k) < len(out) {
				out[k].Body = iff.Block().Succs[0]
			}
		}
	}
	return out
}

// FieldNameOf names the field a FieldAddr selects.
func FieldNameOf(fa *ssa.FieldAddr) string { return fieldName(fa.X.Type(), fa.Field) }

// PathQuery is a general "exists path" question on one function's CFG.
// From == nil starts at the function entry; otherwise after From. Cut edges
// are never traversed; a Barrier instruction ends the path it lies on.
type PathQuery struct {
	Fn      *ssa.Function
	From    ssa.Instruction
	FromBlk *ssa.BasicBlock // alternative start: the beginning of this block
	Cut     map[[2]*ssa.BasicBlock]bool
	Barrier func(ssa.Instruction) bool
}

// Reaches reports whether some path of the query reaches instruction to.
func (q PathQuery) Reaches(to ssa.Instruction) bool {
	seen := map[*ssa.BasicBlock]bool{}
	var walk func(blk *ssa.BasicBlock, from int) bool
	walk = func(blk *ssa.BasicBlock, from int) bool {
		for k := from; k < len(blk.Instrs); k++ {
			in := blk.Instrs[k]
			if in == to {
				return true
			}
			if q.Barrier != nil && q.Barrier(in) {
				return false
			}
		}
		for _, s := range blk.Succs {
			if seen[s] || q.Cut[[2]*ssa.BasicBlock{blk, s}] {
				continue
			}
			seen[s] = true
			if walk(s, 0) {
				return true
			}
		}
		return false
	}
	if q.From == nil && q.FromBlk != nil {
		seen[q.FromBlk] = false
		return walk(q.FromBlk, 0)
	}
	if q.From == nil {
		if len(q.Fn.Blocks) == 0 {
			return false
		}
		seen[q.Fn.Blocks[0]] = true
		return walk(q.Fn.Blocks[0], 0)
	}
	return walk(q.From.Block(), indexOf(q.From)+1)
}

// EdgesWhere returns the conditional edges of fn on which the comparison
// decoded from the branch condition satisfies match (tried in both operand
// orders). The result is usable as PathQuery.Cut.
func EdgesWhere(fn *ssa.Function, match func(Cmp) bool) map[[2]*ssa.BasicBlock]bool {
	out := map[[2]*ssa.BasicBlock]bool{}
	for _, b := range fn.Blocks {
		if len(b.Instrs) == 0 {
			continue
		}
		iff, ok := b.Instrs[len(b.Instrs)-1].(*ssa.If)
		if !ok || len(b.Succs) != 2 || b.Succs[0] == b.Succs[1] {
			continue
		}
		for k := 0; k < 2; k++ {
			// the edge's own condition, or a fact it implies (a condition kept in a
			// boolean variable)
			if guardImplies(Guard{If: iff, Branch: k == 0}, match, 0) {
				out[[2]*ssa.BasicBlock{b, b.Succs[k]}] = true
			}
		}
	}
	return out
}
