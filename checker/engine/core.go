// Package engine holds the shared analysis machinery of tdcheck: loading the
// repository as a resolved program (go/packages + go/ssa), recording
// obligations, known findings, evidence and replay files.
package engine

import (
	"encoding/json"
	"fmt"
	"go/token"
	"go/types"
	"os"
	"path/filepath"
	"sort"
	"strings"
	"time"

	"golang.org/x/tools/go/packages"
	"golang.org/x/tools/go/ssa"
	"golang.org/x/tools/go/ssa/ssautil"
)

const Module = "github.com/gotd/td"

// Verdict of one obligation.
type Verdict string

const (
	OK        Verdict = "ok"
	Violation Verdict = "violation"
	Undecided Verdict = "undecided"
)

// Obligation is one decided rule instance.
type Obligation struct {
	Rule    string  `json:"rule"`
	Key     string  `json:"key"` // stable: rule + construct, never a line number
	Pos     string  `json:"pos,omitempty"`
	Verdict Verdict `json:"verdict"`
	Detail  string  `json:"detail,omitempty"`
}

// Ctx is the per-run analysis context.
type Ctx struct {
	Prop     string
	Tier     string
	Seed     int64
	RepoDir  string
	VerifDir string
	Overlay  map[string][]byte

	Fset   *token.FileSet
	Pkgs   map[string]*packages.Package
	Prog   *ssa.Program
	SSA    map[string]*ssa.Package
	Loaded []string

	Obls        []Obligation
	Floors      map[string][2]int // rule -> {floor, measured}
	FuncsSeen   map[string]bool
	CallSites   int
	Explanation []string
	NotCovered  []string
	Extra       map[string]any
	start       time.Time
}

func NewCtx(prop, tier string) *Ctx {
	repo := os.Getenv("VERIF_REPO")
	if repo == "" {
		repo = "/repo"
	}
	vd := os.Getenv("VERIF_DIR")
	if vd == "" {
		vd = "/verif"
	}
	return &Ctx{Prop: prop, Tier: tier, RepoDir: repo, VerifDir: vd,
		Pkgs: map[string]*packages.Package{}, SSA: map[string]*ssa.Package{},
		Floors: map[string][2]int{}, FuncsSeen: map[string]bool{}, Extra: map[string]any{},
		start: time.Now()}
}

// Load loads the given repo-relative package paths ("crypto", "telegram/updates")
// with syntax and type information and builds SSA for them. Dependencies come
// from export data. Any load or type error is fatal (the check fails).
func (c *Ctx) Load(rel ...string) error {
	var pats []string
	for _, r := range rel {
		if r == "." || r == "" {
			pats = append(pats, Module)
		} else {
			pats = append(pats, Module+"/"+r)
		}
	}
	cfg := &packages.Config{
		Mode: packages.NeedName | packages.NeedFiles | packages.NeedCompiledGoFiles | packages.NeedImports |
			packages.NeedTypes | packages.NeedTypesSizes | packages.NeedSyntax | packages.NeedTypesInfo | packages.NeedDeps | packages.NeedModule,
		Dir:     c.RepoDir,
		Env:     os.Environ(),
		Overlay: c.Overlay,
	}
	// NeedDeps with NeedTypes makes go/packages type-check dependencies from
	// source only when export data is unavailable; we keep syntax only for roots.
	cfg.Mode &^= packages.NeedDeps
	pkgs, err := packages.Load(cfg, pats...)
	if err != nil {
		return fmt.Errorf("load: %w", err)
	}
	if len(pkgs) == 0 {
		return fmt.Errorf("load: zero packages for %v", pats)
	}
	var errs []string
	for _, p := range pkgs {
		for _, e := range p.Errors {
			errs = append(errs, p.PkgPath+": "+e.Error())
		}
		if p.Types == nil || len(p.Syntax) == 0 {
			errs = append(errs, p.PkgPath+": no types/syntax")
		}
	}
	if len(errs) > 0 {
		return fmt.Errorf("load errors: %s", strings.Join(errs, "; "))
	}
	if len(pkgs) != len(pats) {
		return fmt.Errorf("load: expected %d packages, got %d", len(pats), len(pkgs))
	}
	c.Fset = pkgs[0].Fset
	prog, spkgs := ssautil.Packages(pkgs, ssa.InstantiateGenerics)
	for i, p := range pkgs {
		if spkgs[i] == nil {
			return fmt.Errorf("ssa: no package for %s", p.PkgPath)
		}
		c.Pkgs[strings.TrimPrefix(strings.TrimPrefix(p.PkgPath, Module), "/")] = p
		c.SSA[strings.TrimPrefix(strings.TrimPrefix(p.PkgPath, Module), "/")] = spkgs[i]
		c.Loaded = append(c.Loaded, p.PkgPath)
	}
	prog.Build()
	c.Prog = prog
	c.applyParamBaseline()
	return nil
}

// ParamAlias maps a parameter to the name it had when the rules were written.
// Rules identify values by descriptions such as "p:m.bufCur"; those contain
// parameter (and receiver) names, which a maintainer is free to change. The
// file checker/param_names.json records, per function, the parameter names of
// the tree the rules were written against; a parameter at the same position of
// the same function is described under its recorded name whatever it is called
// today. Functions not in the file, or whose parameter count changed, are
// described with their real names.
var ParamAlias = map[*ssa.Parameter]string{}

// ParamName is the name under which a parameter is described.
func ParamName(p *ssa.Parameter) string {
	if a, ok := ParamAlias[p]; ok {
		return a
	}
	return p.Name()
}

func (c *Ctx) applyParamBaseline() {
	b, err := os.ReadFile(filepath.Join(c.VerifDir, "checker", "param_names.json"))
	if err != nil {
		return
	}
	base := map[string][]string{}
	if json.Unmarshal(b, &base) != nil {
		return
	}
	for _, f := range c.AllSourceFuncs() {
		names, ok := base[FuncID(f)]
		if !ok || len(names) != len(f.Params) {
			continue
		}
		for i, p := range f.Params {
			if names[i] != "" && names[i] != p.Name() {
				ParamAlias[p] = names[i]
			}
		}
	}
}

// AllSourceFuncs lists every function with a body in the loaded packages,
// nested function literals included.
func (c *Ctx) AllSourceFuncs() []*ssa.Function {
	var out []*ssa.Function
	seen := map[*ssa.Function]bool{}
	var add func(f *ssa.Function)
	add = func(f *ssa.Function) {
		if f == nil || seen[f] || len(f.Blocks) == 0 {
			return
		}
		seen[f] = true
		out = append(out, f)
		for _, a := range f.AnonFuncs {
			add(a)
		}
	}
	for _, sp := range c.SSA {
		for _, m := range sp.Members {
			switch x := m.(type) {
			case *ssa.Function:
				add(x)
			case *ssa.Type:
				for _, t := range []types.Type{x.Type(), types.NewPointer(x.Type())} {
					ms := c.Prog.MethodSets.MethodSet(t)
					for i := 0; i < ms.Len(); i++ {
						add(c.Prog.MethodValue(ms.At(i)))
					}
				}
			}
		}
	}
	sort.Slice(out, func(i, j int) bool { return FuncID(out[i]) < FuncID(out[j]) })
	return out
}

// ParamNames is the table written by `tdcheck -dump-params`.
func (c *Ctx) ParamNames() map[string][]string {
	out := map[string][]string{}
	for _, f := range c.AllSourceFuncs() {
		if f.Pkg == nil {
			continue
		}
		if _, mine := c.SSA[strings.TrimPrefix(strings.TrimPrefix(f.Pkg.Pkg.Path(), Module), "/")]; !mine {
			continue
		}
		var names []string
		for _, p := range f.Params {
			names = append(names, p.Name())
		}
		if len(names) > 0 {
			out[FuncID(f)] = names
		}
	}
	return out
}

// Position renders a token.Pos relative to the repository root.
func (c *Ctx) Position(p token.Pos) string {
	if !p.IsValid() || c.Fset == nil {
		return ""
	}
	pp := c.Fset.Position(p)
	f := pp.Filename
	if r, err := filepath.Rel(c.RepoDir, f); err == nil && !strings.HasPrefix(r, "..") {
		f = r
	}
	return fmt.Sprintf("%s:%d", f, pp.Line)
}

func (c *Ctx) add(rule, key string, pos token.Pos, v Verdict, detail string) {
	c.Obls = append(c.Obls, Obligation{Rule: rule, Key: rule + "/" + key, Pos: c.Position(pos), Verdict: v, Detail: detail})
}

func (c *Ctx) Pass(rule, key string, pos token.Pos, detail string, a ...any) {
	c.add(rule, key, pos, OK, fmt.Sprintf(detail, a...))
}
func (c *Ctx) Fail(rule, key string, pos token.Pos, detail string, a ...any) {
	c.add(rule, key, pos, Violation, fmt.Sprintf(detail, a...))
}
func (c *Ctx) Undecided(rule, key string, pos token.Pos, detail string, a ...any) {
	c.add(rule, key, pos, Undecided, fmt.Sprintf(detail, a...))
}

// Check records OK when cond holds, a violation otherwise.
func (c *Ctx) Check(cond bool, rule, key string, pos token.Pos, detail string, a ...any) bool {
	if cond {
		c.Pass(rule, key, pos, detail, a...)
	} else {
		c.Fail(rule, key, pos, detail, a...)
	}
	return cond
}

// Floor states the number of sites a rule must match at least; fewer fails.
func (c *Ctx) Floor(rule string, floor, measured int) {
	c.Floors[rule] = [2]int{floor, measured}
	if measured < floor {
		c.Fail(rule, "floor", token.NoPos, "rule matched %d sites, fewer than the %d confirmed by hand (vacuity guard)", measured, floor)
	}
}

func (c *Ctx) Explain(s string, a ...any)   { c.Explanation = append(c.Explanation, fmt.Sprintf(s, a...)) }
func (c *Ctx) NotCover(s string, a ...any)  { c.NotCovered = append(c.NotCovered, fmt.Sprintf(s, a...)) }
func (c *Ctx) SawFunc(f *ssa.Function)      { if f != nil { c.FuncsSeen[f.String()] = true } }

// ---------------------------------------------------------------------------
// anchors

// Func resolves a function or method by package (repo-relative) and name.
// name is "Func", "T.Method" or "(*T).Method"; pointer-ness is ignored.
func (c *Ctx) Func(pkg, name string) *ssa.Function {
	sp := c.SSA[pkg]
	if sp == nil {
		return nil
	}
	name = strings.NewReplacer("(", "", ")", "", "*", "").Replace(name)
	var fn *ssa.Function
	if i := strings.Index(name, "."); i >= 0 {
		tn, mn := name[:i], name[i+1:]
		obj := sp.Pkg.Scope().Lookup(tn)
		if obj == nil {
			return nil
		}
		named, ok := obj.Type().(*types.Named)
		if !ok {
			return nil
		}
		for i := 0; i < named.NumMethods(); i++ {
			if m := named.Method(i); m.Name() == mn {
				fn = c.Prog.FuncValue(m)
			}
		}
	} else {
		fn = sp.Func(name)
	}
	if fn != nil && len(fn.Blocks) == 0 {
		return nil
	}
	c.SawFunc(fn)
	return fn
}

// MustFunc is Func that records an anchor failure when unresolved.
func (c *Ctx) MustFunc(rule, pkg, name string) *ssa.Function {
	fn := c.Func(pkg, name)
	if fn == nil {
		c.Undecided(rule, "anchor:"+pkg+"."+name, token.NoPos, "anchor function %s.%s does not resolve (renamed or removed?)", pkg, name)
	}
	return fn
}

// ---------------------------------------------------------------------------
// known findings

type KnownFinding struct {
	Property string `json:"property"`
	Key      string `json:"key"`
	Status   string `json:"status"` // known | fixed
	Commit   string `json:"commit,omitempty"`
	What     string `json:"what"`
}

func (c *Ctx) loadKnown() ([]KnownFinding, error) {
	b, err := os.ReadFile(filepath.Join(c.VerifDir, "known_findings.json"))
	if err != nil {
		if os.IsNotExist(err) {
			return nil, nil
		}
		return nil, err
	}
	var k struct {
		Findings []KnownFinding `json:"findings"`
	}
	if err := json.Unmarshal(b, &k); err != nil {
		return nil, err
	}
	return k.Findings, nil
}

// ---------------------------------------------------------------------------
// finish: evidence, replay files, exit code

type Result struct {
	Violations []Obligation
	Known      []Obligation
}

// Finish writes evidence and prints VIOLATION / KNOWN-FINDING lines. It returns
// the process exit code. quiet suppresses evidence writing (mutant mode).
func (c *Ctx) Finish(writeEvidence bool) (int, *Result) {
	known, kerr := c.loadKnown()
	if kerr != nil {
		c.Undecided("E12", "known_findings", token.NoPos, "cannot read known_findings.json: %v", kerr)
	}
	isKnown := map[string]KnownFinding{}
	for _, k := range known {
		if k.Property == c.Prop && k.Status == "known" {
			isKnown[k.Key] = k
		}
	}
	res := &Result{}
	ok := 0
	seenKey := map[string]bool{}
	for _, o := range c.Obls {
		switch o.Verdict {
		case OK:
			ok++
		default:
			if _, k := isKnown[o.Key]; k && o.Verdict == Violation {
				res.Known = append(res.Known, o)
			} else {
				res.Violations = append(res.Violations, o)
			}
		}
		seenKey[o.Key] = true
	}
	sort.SliceStable(res.Violations, func(i, j int) bool { return res.Violations[i].Key < res.Violations[j].Key })
	replayDir := filepath.Join(c.VerifDir, "evidence", "replay")
	if !writeEvidence {
		// mutant/overlay mode: the caller reports; stay quiet
		if len(res.Violations) > 0 {
			return 1, res
		}
		return 0, res
	}
	for _, o := range res.Known {
		fmt.Printf("KNOWN-FINDING: property=%s %s [%s at %s]\n", c.Prop, isKnown[o.Key].What, o.Key, o.Pos)
	}
	for i, o := range res.Violations {
		path := filepath.Join(replayDir, fmt.Sprintf("%s-%d.json", c.Prop, i))
		if writeEvidence {
			_ = os.MkdirAll(replayDir, 0o755)
			b, _ := json.MarshalIndent(map[string]any{"property": c.Prop, "obligation": o,
				"replay": fmt.Sprintf("tdcheck -prop %s -only %q", c.Prop, o.Key)}, "", " ")
			_ = os.WriteFile(path, b, 0o644)
		}
		kind := "rule violated"
		if o.Verdict == Undecided {
			kind = "UNDECIDED (anchor/idiom not recognised)"
		}
		fmt.Printf("VIOLATION property=%s replay=%s\n", c.Prop, path)
		fmt.Printf("  %s: %s at %s: %s\n", kind, o.Key, o.Pos, o.Detail)
	}
	if writeEvidence {
		c.writeEvidence(ok, res)
	}
	if len(res.Violations) > 0 {
		return 1, res
	}
	return 0, res
}

func (c *Ctx) writeEvidence(ok int, res *Result) {
	var samples []any
	perRule := map[string]int{}
	for _, o := range c.Obls {
		perRule[o.Rule]++
		if perRule[o.Rule] <= 4 || o.Verdict != OK {
			samples = append(samples, o)
		}
	}
	if len(samples) > 60 {
		samples = samples[:60]
	}
	rules := make([]string, 0, len(perRule))
	for r := range perRule {
		rules = append(rules, r)
	}
	sort.Strings(rules)
	floors := map[string]any{}
	for r, f := range c.Floors {
		floors[r] = map[string]int{"floor": f[0], "measured": f[1]}
	}
	distinct := map[string]bool{}
	for _, o := range c.Obls {
		distinct[o.Key] = true
	}
	cov := map[string]any{
		"explanation":         strings.Join(c.Explanation, " "),
		"obligations":         len(c.Obls),
		"discharged":          ok,
		"evaluations":         len(c.Obls),
		"distinct_nontrivial": len(distinct),
		"rule":                "one obligation per (rule, construct) instance resolved on the current source; distinct = distinct obligation keys; every obligation is a non-trivial structural fact of the analysed code",
		"rule_instances":      perRule,
		"rules":               rules,
		"floors":              floors,
		"functions_analysed":  len(c.FuncsSeen),
		"call_sites":          c.CallSites,
		"packages":            c.Loaded,
		"samples":             samples,
		"not_covered":         c.NotCovered,
		"known_findings":      len(res.Known),
		"checker_cmd":         fmt.Sprintf("/verif/check.sh %s %s", c.Prop, c.Tier),
		"trusted_base":        []string{"go/types", "golang.org/x/tools/go/ssa v0.29.0", "golang.org/x/tools/go/packages", "/verif/checker engines and rule tables"},
	}
	for k, v := range c.Extra {
		cov[k] = v
	}
	ev := map[string]any{
		"property_id": c.Prop,
		"tier":        c.Tier,
		"seed":        c.Seed,
		"level":       "other",
		"coverage":    cov,
		"assumptions": []string{
			"default build configuration (linux/amd64, no extra tags)",
			"rules are necessary conditions of the property, not the behaviour itself",
			"go/types and go/ssa represent the program the compiler builds",
		},
		"wall_s":     time.Since(c.start).Seconds(),
		"violations": len(res.Violations),
	}
	b, _ := json.MarshalIndent(ev, "", " ")
	dir := filepath.Join(c.VerifDir, "evidence")
	_ = os.MkdirAll(dir, 0o755)
	if err := os.WriteFile(filepath.Join(dir, c.Prop+".json"), b, 0o644); err != nil {
		fmt.Fprintln(os.Stderr, "evidence:", err)
	}
}
