package engine

import (
	"fmt"
	"go/token"
	"go/types"
	"math"

	"golang.org/x/tools/go/ssa"
)

// E5 — intervals. A demand-driven, intraprocedural interval evaluation over SSA
// integers. IntervalAt(v, at) = interval of v's definition (operands evaluated
// at the same program point) intersected with every comparison on a
// conditional edge that all paths to `at` traverse (Guards). Saturating int64
// bounds; MinInt64/MaxInt64 stand for −∞/+∞. Results are always clipped to the
// value's type range, and an arithmetic result that may leave the type range
// becomes the full type range (wrap-around is never assumed away).

const (
	NegInf = math.MinInt64
	PosInf = math.MaxInt64
)

type Interval struct{ Lo, Hi int64 }

func (i Interval) String() string {
	lo, hi := fmt.Sprint(i.Lo), fmt.Sprint(i.Hi)
	if i.Lo == NegInf {
		lo = "-inf"
	}
	if i.Hi == PosInf {
		hi = "+inf"
	}
	return "[" + lo + "," + hi + "]"
}

func (i Interval) Empty() bool { return i.Lo > i.Hi }

func Top() Interval { return Interval{NegInf, PosInf} }

func sadd(a, b int64) int64 {
	if a == NegInf || b == NegInf {
		if a == PosInf || b == PosInf {
			return 0
		}
		return NegInf
	}
	if a == PosInf || b == PosInf {
		return PosInf
	}
	s := a + b
	if a > 0 && b > 0 && s < 0 {
		return PosInf
	}
	if a < 0 && b < 0 && s >= 0 {
		return NegInf
	}
	return s
}

func sneg(a int64) int64 {
	if a == NegInf {
		return PosInf
	}
	if a == PosInf {
		return NegInf
	}
	return -a
}

func smul(a, b int64) int64 {
	if a == 0 || b == 0 {
		return 0
	}
	neg := (a < 0) != (b < 0)
	if a == NegInf || a == PosInf || b == NegInf || b == PosInf {
		if neg {
			return NegInf
		}
		return PosInf
	}
	p := a * b
	if p/b != a {
		if neg {
			return NegInf
		}
		return PosInf
	}
	return p
}

func min64(a ...int64) int64 {
	m := a[0]
	for _, x := range a[1:] {
		if x < m {
			m = x
		}
	}
	return m
}
func max64(a ...int64) int64 {
	m := a[0]
	for _, x := range a[1:] {
		if x > m {
			m = x
		}
	}
	return m
}

func (a Interval) Join(b Interval) Interval {
	if a.Empty() {
		return b
	}
	if b.Empty() {
		return a
	}
	return Interval{min64(a.Lo, b.Lo), max64(a.Hi, b.Hi)}
}
func (a Interval) Meet(b Interval) Interval {
	return Interval{max64(a.Lo, b.Lo), min64(a.Hi, b.Hi)}
}

// TypeRange is the interval of all values of an integer type.
func TypeRange(t types.Type) Interval {
	b, ok := t.Underlying().(*types.Basic)
	if !ok {
		return Top()
	}
	switch b.Kind() {
	case types.Int8:
		return Interval{-128, 127}
	case types.Int16:
		return Interval{-32768, 32767}
	case types.Int32:
		return Interval{math.MinInt32, math.MaxInt32}
	case types.Uint8:
		return Interval{0, 255}
	case types.Uint16:
		return Interval{0, 65535}
	case types.Uint32:
		return Interval{0, math.MaxUint32}
	case types.Uint, types.Uint64, types.Uintptr:
		return Interval{0, PosInf}
	case types.Bool:
		return Interval{0, 1}
	}
	return Top()
}

// Intervals is one analysis session (caches, summaries).
type Intervals struct {
	guards   map[*ssa.BasicBlock][]Guard
	inprog   map[ssa.Value]bool
	depth    int
	sumCache map[*ssa.Function][]Interval
	sumBusy  map[*ssa.Function]bool
	params   map[*ssa.Parameter]Interval // bindings while evaluating a callee in context
	ctxDepth int
	// Equal optionally declares two values equal (load equivalence).
	Equal func(a, b ssa.Value) bool
}

func NewIntervals() *Intervals {
	return &Intervals{guards: map[*ssa.BasicBlock][]Guard{}, inprog: map[ssa.Value]bool{},
		sumCache: map[*ssa.Function][]Interval{}, sumBusy: map[*ssa.Function]bool{}}
}

func (iv *Intervals) guardsOf(at ssa.Instruction) []Guard {
	b := at.Block()
	if g, ok := iv.guards[b]; ok {
		return g
	}
	g := Guards(at)
	iv.guards[b] = g
	return g
}

func (iv *Intervals) same(a, b ssa.Value) bool {
	if a == b {
		return true
	}
	// ChangeType is value-preserving
	for {
		if c, ok := a.(*ssa.ChangeType); ok {
			a = c.X
			continue
		}
		break
	}
	for {
		if c, ok := b.(*ssa.ChangeType); ok {
			b = c.X
			continue
		}
		break
	}
	if a == b {
		return true
	}
	// len/cap of the same immutable slice/string value
	ca, oka := a.(*ssa.Call)
	cb, okb := b.(*ssa.Call)
	if oka && okb {
		ia, ib := CalleeID(ca.Common()), CalleeID(cb.Common())
		if ia == ib && (ia == "builtin.len" || ia == "builtin.cap") && iv.same(ca.Common().Args[0], cb.Common().Args[0]) {
			return true
		}
	}
	// go/ssa does no common-subexpression elimination: "len(s)-i" written
	// twice is two instructions. Arithmetic on the same operands is the same
	// value (operands are SSA values; both instructions dominate the point of
	// use, so no operand phi is re-evaluated between them without both being
	// re-evaluated too).
	ba, okA := a.(*ssa.BinOp)
	bb, okB := b.(*ssa.BinOp)
	if okA && okB && ba.Op == bb.Op {
		switch ba.Op {
		case token.ADD, token.SUB, token.MUL, token.QUO, token.REM, token.AND, token.OR, token.XOR, token.SHL, token.SHR, token.AND_NOT:
			if iv.same(ba.X, bb.X) && iv.same(ba.Y, bb.Y) {
				return true
			}
		}
	}
	if iv.Equal != nil && iv.Equal(a, b) {
		return true
	}
	return false
}

// At returns the interval of integer value v at program point `at`.
func (iv *Intervals) At(v ssa.Value, at ssa.Instruction) Interval {
	iv.depth++
	defer func() { iv.depth-- }()
	if iv.depth > 60 {
		return TypeRange(v.Type())
	}
	base := iv.def(v, at).Meet(TypeRange(v.Type()))
	if at == nil {
		return base
	}
	for _, g := range iv.guardsOf(at) {
		base = iv.refine(base, v, g)
	}
	return base
}

// refine narrows base by the comparison that holds on guard edge g, if it
// mentions v.
func (iv *Intervals) refine(base Interval, v ssa.Value, g Guard) Interval {
	c := g.Cmp()
	for _, k := range []Cmp{c, c.Swap()} {
		if !iv.same(k.X, v) {
			continue
		}
		base = iv.refineCmp(base, k, g.If)
	}
	// a bound tested by a predicate of the package — if invalidLen(v) { return }:
	// on the edge where the predicate said b, v lies in the set of arguments for
	// which the predicate can say b
	if want, isB := ConstBool(c.Y); isB && c.Op == token.EQL {
		if call, ok := c.X.(*ssa.Call); ok {
			h := call.Common().StaticCallee()
			if h != nil && len(h.Blocks) > 0 && h.Pkg != nil && call.Parent() != nil && h.Pkg == call.Parent().Pkg && len(call.Common().Args) == len(h.Params) {
				for i, a := range call.Common().Args {
					if iv.same(a, v) {
						if dom, ok := iv.predicateDomain(h, i, want); ok {
							base = base.Meet(dom)
						}
					}
				}
			}
		}
	}
	return base
}

// predicateDomain: an interval containing every value of integer parameter i
// of the bool function h for which h can return want (other parameters
// unconstrained); ok=false if h is not a bool function or is being analysed.
func (iv *Intervals) predicateDomain(h *ssa.Function, i int, want bool) (Interval, bool) {
	if h.Signature.Results().Len() != 1 || i >= len(h.Params) || iv.sumBusy[h] {
		return Interval{}, false
	}
	if b, ok := h.Signature.Results().At(0).Type().Underlying().(*types.Basic); !ok || b.Kind() != types.Bool {
		return Interval{}, false
	}
	p := h.Params[i]
	if b, ok := p.Type().Underlying().(*types.Basic); !ok || b.Info()&types.IsInteger == 0 {
		return Interval{}, false
	}
	iv.sumBusy[h] = true
	saved := iv.inprog
	iv.inprog = map[ssa.Value]bool{}
	defer func() { iv.inprog = saved; delete(iv.sumBusy, h) }()
	out := Interval{1, 0}
	// the values of p for which bool value x (used at instruction at) may be want
	var may func(x ssa.Value, at ssa.Instruction, d int) Interval
	may = func(x ssa.Value, at ssa.Instruction, d int) Interval {
		here := iv.At(p, at)
		if d > 8 {
			return here
		}
		switch t := x.(type) {
		case *ssa.Const:
			if b, ok := ConstBool(t); ok && b != want {
				return Interval{1, 0}
			}
			return here
		case *ssa.UnOp:
			if t.Op == token.NOT {
				// !y is want where y is !want: evaluate with the roles exchanged
				want = !want
				r := may(t.X, at, d+1)
				want = !want
				return r
			}
		case *ssa.BinOp:
			op := t.Op
			switch op {
			case token.EQL, token.NEQ, token.LSS, token.LEQ, token.GTR, token.GEQ:
				if !want {
					op = negate(op)
				}
				for _, k := range []Cmp{{Op: op, X: t.X, Y: t.Y}, (Cmp{Op: op, X: t.X, Y: t.Y}).Swap()} {
					if iv.same(k.X, p) {
						here = iv.refineCmp(here, k, at)
					}
				}
				return here
			}
		case *ssa.Phi:
			r := Interval{1, 0}
			for k, e := range t.Edges {
				pred := t.Block().Preds[k]
				last := pred.Instrs[len(pred.Instrs)-1]
				ei := may(e, last, d+1)
				if iff, ok := last.(*ssa.If); ok && pred.Succs[0] != pred.Succs[1] {
					ei = ei.Meet(iv.refine(iv.At(p, last), p, Guard{If: iff, Branch: pred.Succs[0] == t.Block()}))
				}
				r = r.Join(ei)
			}
			return r
		}
		return here
	}
	for _, r := range Returns(h) {
		if len(r.Results) != 1 {
			return Interval{}, false
		}
		out = out.Join(may(r.Results[0], r, 0))
	}
	if out.Empty() {
		// the predicate never says want: the edge is dead; leave the value alone
		return Interval{}, false
	}
	return out, true
}

// refineCmp narrows base (the interval of k.X) by "k.X op k.Y".
func (iv *Intervals) refineCmp(base Interval, k Cmp, at ssa.Instruction) Interval {
	// value of the other side at the branch itself
	o := iv.At(k.Y, at)
	switch k.Op {
	case token.EQL:
		base = base.Meet(o)
	case token.LSS:
		base = base.Meet(Interval{NegInf, sadd(o.Hi, -1)})
	case token.LEQ:
		base = base.Meet(Interval{NegInf, o.Hi})
	case token.GTR:
		base = base.Meet(Interval{sadd(o.Lo, 1), PosInf})
	case token.GEQ:
		base = base.Meet(Interval{o.Lo, PosInf})
	case token.NEQ:
		if o.Lo == o.Hi {
			if base.Lo == o.Lo {
				base.Lo = sadd(base.Lo, 1)
			} else if base.Hi == o.Lo {
				base.Hi = sadd(base.Hi, -1)
			}
		}
	}
	return base
}

// refineLen narrows the interval of len(x) by the guard edge g if it compares
// a len() of the same slice value.
func (iv *Intervals) refineLen(base Interval, x ssa.Value, g Guard) Interval {
	c := g.Cmp()
	for _, k := range []Cmp{c, c.Swap()} {
		v := stripConv(k.X)
		call, ok := v.(*ssa.Call)
		if !ok || CalleeID(call.Common()) != "builtin.len" || !iv.same(call.Common().Args[0], x) {
			continue
		}
		base = iv.refineCmp(base, k, g.If)
	}
	return base
}

// LenOf is the interval of len(x) at the given point.
func (iv *Intervals) LenOf(x ssa.Value, at ssa.Instruction) Interval { return iv.lenOf(x, at, false) }

func fits(i Interval, t types.Type) bool {
	r := TypeRange(t)
	return i.Lo >= r.Lo && i.Hi <= r.Hi
}

func (iv *Intervals) def(v ssa.Value, at ssa.Instruction) Interval {
	tr := TypeRange(v.Type())
	if iv.inprog[v] {
		return tr
	}
	switch x := v.(type) {
	case *ssa.Parameter:
		if b, ok := iv.params[x]; ok {
			return b
		}
		return tr
	case *ssa.Const:
		if n, ok := ConstInt(x); ok {
			return Interval{n, n}
		}
		if b, ok := ConstBool(x); ok {
			if b {
				return Interval{1, 1}
			}
			return Interval{0, 0}
		}
		return tr
	case *ssa.Convert:
		in := iv.At(x.X, at)
		if _, isInt := x.X.Type().Underlying().(*types.Basic); !isInt {
			return tr
		}
		if b, ok := x.X.Type().Underlying().(*types.Basic); ok && b.Info()&types.IsInteger == 0 {
			return tr
		}
		if fits(in, v.Type()) {
			return in
		}
		return tr
	case *ssa.ChangeType:
		return iv.At(x.X, at)
	case *ssa.Phi:
		iv.inprog[v] = true
		defer delete(iv.inprog, v)
		res := Interval{1, 0} // empty
		type cycEdge struct {
			v ssa.Value
			k int
		}
		var cyc []cycEdge
		for k, e := range x.Edges {
			if DependsOn(e, x) {
				cyc = append(cyc, cycEdge{e, k})
				continue
			}
			pred := x.Block().Preds[k]
			last := pred.Instrs[len(pred.Instrs)-1]
			ei := iv.At(e, last)
			// the edge pred→phi block itself may be a conditional edge
			if iff, ok := last.(*ssa.If); ok && pred.Succs[0] != pred.Succs[1] {
				ei = iv.refine(ei, e, Guard{If: iff, Branch: pred.Succs[0] == x.Block()})
			}
			res = res.Join(ei)
		}
		for _, ce := range cyc {
			e := ce.v
			// monotone updates keep one bound
			if b, ok := e.(*ssa.BinOp); ok && (b.Op == token.ADD || b.Op == token.SUB) && b.X == ssa.Value(x) {
				if n, ok := ConstInt(b.Y); ok {
					if (b.Op == token.ADD && n >= 0) || (b.Op == token.SUB && n <= 0) {
						res.Hi = PosInf
						continue
					}
					res.Lo = NegInf
					continue
				}
			}
			// general cyclic edge: evaluate with this phi held at its type range
			pred := x.Block().Preds[ce.k]
			last := pred.Instrs[len(pred.Instrs)-1]
			ei := iv.At(e, last)
			if iff, ok := last.(*ssa.If); ok && pred.Succs[0] != pred.Succs[1] {
				ei = iv.refine(ei, e, Guard{If: iff, Branch: pred.Succs[0] == x.Block()})
			}
			res = res.Join(ei)
		}
		if res.Empty() {
			return tr
		}
		return res
	case *ssa.UnOp:
		if x.Op == token.MUL {
			// load of a single-store local
			if a, ok := x.X.(*ssa.Alloc); ok {
				if s := singleStore(a); s != nil {
					return iv.At(s, at)
				}
			}
			return tr
		}
		if x.Op == token.SUB {
			in := iv.At(x.X, at)
			r := Interval{sneg(in.Hi), sneg(in.Lo)}
			if fits(r, v.Type()) {
				return r
			}
		}
		return tr
	case *ssa.BinOp:
		r, ok := iv.BinRaw(x, at)
		if ok && fits(r, v.Type()) {
			return r
		}
		return tr
	case *ssa.Call:
		id := CalleeID(x.Common())
		switch id {
		case "builtin.len", "builtin.cap":
			return iv.lenOf(x.Common().Args[0], at, id == "builtin.cap")
		case "builtin.copy":
			a, b := iv.lenOf(x.Common().Args[0], at, false), iv.lenOf(x.Common().Args[1], at, false)
			return Interval{min64(a.Lo, b.Lo), min64(a.Hi, b.Hi)}
		case "builtin.min":
			r := iv.At(x.Common().Args[0], at)
			for _, a := range x.Common().Args[1:] {
				o := iv.At(a, at)
				r = Interval{min64(r.Lo, o.Lo), min64(r.Hi, o.Hi)}
			}
			return r
		case "builtin.max":
			r := iv.At(x.Common().Args[0], at)
			for _, a := range x.Common().Args[1:] {
				o := iv.At(a, at)
				r = Interval{max64(r.Lo, o.Lo), max64(r.Hi, o.Hi)}
			}
			return r
		}
		if s := iv.inContext(x, at); s != nil && len(s) == 1 {
			return s[0]
		}
		return tr
	case *ssa.Extract:
		if c, ok := x.Tuple.(*ssa.Call); ok {
			// The success summary describes the result only where the call is
			// known to have succeeded; a use before (or without) the err == nil
			// test sees the results of the failing returns as well.
			if callee := c.Common().StaticCallee(); callee != nil && len(callee.Blocks) > 0 {
				if ei := ErrIndex(callee); ei >= 0 && x.Index != ei && !errNilGuarded(c, ei, at) {
					out := Interval{1, 0}
					saved := iv.inprog
					iv.inprog = map[ssa.Value]bool{}
					if !iv.sumBusy[callee] {
						iv.sumBusy[callee] = true
						for _, r := range Returns(callee) {
							if x.Index < len(r.Results) {
								out = out.Join(iv.At(r.Results[x.Index], r))
							}
						}
						delete(iv.sumBusy, callee)
					}
					iv.inprog = saved
					if out.Empty() {
						return tr
					}
					return out
				}
			}
			if s := iv.inContext(c, at); s != nil && x.Index < len(s) {
				return s[x.Index]
			}
		}
		return tr
	}
	return tr
}

func (iv *Intervals) lenOf(s ssa.Value, at ssa.Instruction, isCap bool) Interval {
	base := iv.lenDef(s, at, isCap)
	if at != nil && !isCap {
		for _, g := range iv.guardsOf(at) {
			base = iv.refineLen(base, s, g)
		}
	}
	return base
}

func (iv *Intervals) lenDef(s ssa.Value, at ssa.Instruction, isCap bool) Interval {
	nonneg := Interval{0, PosInf}
	switch x := s.(type) {
	case *ssa.Const:
		if x.Value != nil {
			if str, ok := constString(x); ok {
				return Interval{int64(len(str)), int64(len(str))}
			}
		}
		return Interval{0, 0}
	case *ssa.MakeSlice:
		if isCap {
			return iv.At(x.Cap, at).Meet(nonneg)
		}
		return iv.At(x.Len, at).Meet(nonneg)
	case *ssa.Slice:
		if isCap {
			return nonneg
		}
		lo := Interval{0, 0}
		if x.Low != nil {
			lo = iv.At(x.Low, at)
		}
		if x.High != nil {
			hi := iv.At(x.High, at)
			return Interval{sadd(hi.Lo, sneg(lo.Hi)), sadd(hi.Hi, sneg(lo.Lo))}.Meet(nonneg)
		}
		// x[lo:] of an array pointer
		if n, ok := arrayLen(x.X.Type()); ok {
			return Interval{sadd(n, sneg(lo.Hi)), sadd(n, sneg(lo.Lo))}.Meet(nonneg)
		}
		in := iv.lenOf(x.X, at, false)
		return Interval{sadd(in.Lo, sneg(lo.Hi)), sadd(in.Hi, sneg(lo.Lo))}.Meet(nonneg)
	case *ssa.Convert:
		return iv.lenOf(x.X, at, isCap)
	case *ssa.ChangeType:
		return iv.lenOf(x.X, at, isCap)
	case *ssa.Phi:
		if iv.inprog[x] || isCap {
			return nonneg
		}
		iv.inprog[x] = true
		defer delete(iv.inprog, x)
		res := Interval{1, 0}
		for k, e := range x.Edges {
			pred := x.Block().Preds[k]
			last := pred.Instrs[len(pred.Instrs)-1]
			ei := iv.lenOf(e, last, false)
			if iff, ok := last.(*ssa.If); ok && pred.Succs[0] != pred.Succs[1] {
				ei = iv.refineLen(ei, e, Guard{If: iff, Branch: pred.Succs[0] == x.Block()})
			}
			res = res.Join(ei)
		}
		if res.Empty() {
			return nonneg
		}
		return res.Meet(nonneg)
	case *ssa.UnOp:
		if x.Op == token.MUL {
			if a, ok := x.X.(*ssa.Alloc); ok {
				if st := singleStore(a); st != nil {
					return iv.lenOf(st, at, isCap)
				}
			}
		}
	case *ssa.Extract:
		if c, ok := x.Tuple.(*ssa.Call); ok && !isCap {
			if r, ok := iv.lenOfResult(c, x.Index); ok {
				return r
			}
		}
	case *ssa.Call:
		if !isCap {
			if r, ok := iv.lenOfResult(x, 0); ok {
				return r
			}
		}
	}
	if n, ok := arrayLen(s.Type()); ok {
		return Interval{n, n}
	}
	return nonneg
}

// lenOfResult: the length of result idx of a call of a function with a body,
// as the join over all its returns (its parameters unconstrained): a helper
// that cuts a slice to a maximum keeps that bound at its call sites.
func (iv *Intervals) lenOfResult(c *ssa.Call, idx int) (Interval, bool) {
	callee := c.Common().StaticCallee()
	if callee == nil || len(callee.Blocks) == 0 || iv.sumBusy[callee] {
		return Interval{}, false
	}
	if callee.Pkg == nil || c.Parent() == nil || callee.Pkg != c.Parent().Pkg {
		return Interval{}, false
	}
	iv.sumBusy[callee] = true
	saved := iv.inprog
	iv.inprog = map[ssa.Value]bool{}
	out := Interval{1, 0}
	for _, r := range Returns(callee) {
		if idx >= len(r.Results) {
			out = Interval{0, PosInf}
			break
		}
		out = out.Join(iv.lenOf(RetVal(r, idx), r, false))
	}
	iv.inprog = saved
	delete(iv.sumBusy, callee)
	if out.Empty() {
		return Interval{}, false
	}
	return out.Meet(Interval{0, PosInf}), true
}

func arrayLen(t types.Type) (int64, bool) {
	if p, ok := t.Underlying().(*types.Pointer); ok {
		t = p.Elem()
	}
	if a, ok := t.Underlying().(*types.Array); ok {
		return a.Len(), true
	}
	return 0, false
}

func constString(c *ssa.Const) (string, bool) {
	if c.Value == nil || c.Value.Kind().String() != "String" {
		return "", false
	}
	s := c.Value.ExactString()
	// ExactString is quoted
	if len(s) >= 2 {
		var out string
		if _, err := fmt.Sscanf(s, "%q", &out); err == nil {
			return out, true
		}
	}
	return "", false
}

// Summary returns the interval of each integer result of fn over all returns
// whose error result (if any) is not definitely non-nil; parameters are
// unconstrained. nil when fn has no body or is being computed (recursion).
func (iv *Intervals) Summary(fn *ssa.Function) []Interval {
	if fn == nil || len(fn.Blocks) == 0 {
		return nil
	}
	if s, ok := iv.sumCache[fn]; ok {
		return s
	}
	if iv.sumBusy[fn] {
		return nil
	}
	iv.sumBusy[fn] = true
	defer delete(iv.sumBusy, fn)
	n := fn.Signature.Results().Len()
	out := make([]Interval, n)
	for i := range out {
		out[i] = Interval{1, 0}
	}
	saved := iv.inprog
	iv.inprog = map[ssa.Value]bool{}
	for _, r := range SuccessReturns(fn) {
		for i, res := range r.Results {
			if _, ok := res.Type().Underlying().(*types.Basic); !ok {
				out[i] = Top()
				continue
			}
			out[i] = out[i].Join(iv.At(res, r))
		}
	}
	iv.inprog = saved
	for i := range out {
		if out[i].Empty() {
			out[i] = TypeRange(fn.Signature.Results().At(i).Type())
		}
	}
	iv.sumCache[fn] = out
	return out
}

// BinRaw is the mathematical (unclipped) interval of a binary operation; ok is
// false when the operation is not modelled. A result outside the type range
// means the operation may wrap.
func (iv *Intervals) BinRaw(x *ssa.BinOp, at ssa.Instruction) (Interval, bool) {
	a, b := iv.At(x.X, at), iv.At(x.Y, at)
	var r Interval
		switch x.Op {
		case token.ADD:
			r = Interval{sadd(a.Lo, b.Lo), sadd(a.Hi, b.Hi)}
		case token.SUB:
			r = Interval{sadd(a.Lo, sneg(b.Hi)), sadd(a.Hi, sneg(b.Lo))}
			// x - x%c ∈ [0, x] for x ≥ 0
			if rem, ok := x.Y.(*ssa.BinOp); ok && rem.Op == token.REM && iv.same(rem.X, x.X) && a.Lo >= 0 {
				if c := iv.At(rem.Y, at); c.Lo > 0 {
					r = Interval{0, a.Hi}
				}
			}
		case token.MUL:
			r = Interval{min64(smul(a.Lo, b.Lo), smul(a.Lo, b.Hi), smul(a.Hi, b.Lo), smul(a.Hi, b.Hi)),
				max64(smul(a.Lo, b.Lo), smul(a.Lo, b.Hi), smul(a.Hi, b.Lo), smul(a.Hi, b.Hi))}
		case token.QUO:
			if b.Lo > 0 && b.Hi != PosInf && a.Lo != NegInf && a.Hi != PosInf {
				r = Interval{min64(a.Lo/b.Lo, a.Lo/b.Hi), max64(a.Hi/b.Lo, a.Hi/b.Hi)}
			} else if b.Lo > 0 && a.Lo >= 0 {
				r = Interval{0, a.Hi}
			} else {
				return Interval{}, false
			}
		case token.REM:
			if b.Lo > 0 && b.Hi != PosInf {
				if a.Lo >= 0 {
					r = Interval{0, min64(b.Hi-1, a.Hi)}
				} else {
					r = Interval{-(b.Hi - 1), b.Hi - 1}
				}
			} else {
				return Interval{}, false
			}
		case token.AND:
			if b.Lo >= 0 && a.Lo >= 0 {
				r = Interval{0, min64(a.Hi, b.Hi)}
			} else if b.Lo >= 0 {
				r = Interval{0, b.Hi}
			} else if a.Lo >= 0 {
				r = Interval{0, a.Hi}
			} else {
				return Interval{}, false
			}
		case token.OR, token.XOR:
			if a.Lo >= 0 && b.Lo >= 0 && a.Hi != PosInf && b.Hi != PosInf {
				// next power of two minus one bounds the result
				m := max64(a.Hi, b.Hi)
				p := int64(1)
				for p <= m && p > 0 {
					p <<= 1
				}
				if p <= 0 {
					return Interval{}, false
				}
				lo := int64(0)
				if x.Op == token.OR {
					lo = max64(a.Lo, b.Lo)
				}
				r = Interval{lo, p - 1}
			} else {
				return Interval{}, false
			}
		case token.AND_NOT:
			if a.Lo >= 0 {
				r = Interval{0, a.Hi}
			} else {
				return Interval{}, false
			}
		case token.SHL:
			if b.Lo >= 0 && b.Hi < 63 && b.Lo == b.Hi {
				f := int64(1) << uint(b.Lo)
				r = Interval{smul(a.Lo, f), smul(a.Hi, f)}
			} else {
				return Interval{}, false
			}
		case token.SHR:
			if b.Lo >= 0 && b.Hi < 64 && b.Lo == b.Hi && a.Lo != NegInf && a.Hi != PosInf {
				r = Interval{a.Lo >> uint(b.Lo), a.Hi >> uint(b.Lo)}
			} else if a.Lo >= 0 {
				r = Interval{0, a.Hi}
			} else {
				return Interval{}, false
			}
		default:
			return Interval{}, false
		}
	return r, true
}

// errNilGuarded: instruction at is dominated by the edge on which the error
// result (index ei) of call is nil.
func errNilGuarded(call *ssa.Call, ei int, at ssa.Instruction) bool {
	if at == nil {
		return false
	}
	return GuardedBy(at, func(k Cmp) bool {
		ex, ok := k.X.(*ssa.Extract)
		return ok && ex.Tuple == ssa.Value(call) && ex.Index == ei && IsNil(k.Y) && k.Op == token.EQL
	})
}

// inContext evaluates the integer results of a statically resolved call with
// the callee's integer parameters bound to the intervals of the actual
// arguments (context-sensitive to depth 3); falls back to the context-free
// summary.
func (iv *Intervals) inContext(call *ssa.Call, at ssa.Instruction) []Interval {
	callee := call.Common().StaticCallee()
	if callee == nil || len(callee.Blocks) == 0 {
		return nil
	}
	if iv.ctxDepth >= 3 || iv.sumBusy[callee] {
		return iv.Summary(callee)
	}
	args := call.Common().Args
	bind := map[*ssa.Parameter]Interval{}
	any := false
	for i, p := range callee.Params {
		if i >= len(args) {
			break
		}
		if b, ok := p.Type().Underlying().(*types.Basic); ok && b.Info()&types.IsInteger != 0 {
			a := iv.At(args[i], at)
			bind[p] = a
			if a != TypeRange(p.Type()) {
				any = true
			}
		}
	}
	if !any {
		return iv.Summary(callee)
	}
	savedP, savedIn, savedG := iv.params, iv.inprog, iv.guards
	iv.params, iv.inprog = bind, map[ssa.Value]bool{}
	iv.ctxDepth++
	iv.sumBusy[callee] = true
	n := callee.Signature.Results().Len()
	out := make([]Interval, n)
	for i := range out {
		out[i] = Interval{1, 0}
	}
	for _, r := range SuccessReturns(callee) {
		for i, res := range r.Results {
			if _, ok := res.Type().Underlying().(*types.Basic); !ok {
				out[i] = Top()
				continue
			}
			out[i] = out[i].Join(iv.At(res, r))
		}
	}
	for i := range out {
		if out[i].Empty() {
			out[i] = TypeRange(callee.Signature.Results().At(i).Type())
		}
	}
	delete(iv.sumBusy, callee)
	iv.ctxDepth--
	iv.params, iv.inprog, iv.guards = savedP, savedIn, savedG
	return out
}

// EvalWith evaluates the integer results of fn over its success returns with
// the given parameter bindings (others unconstrained).
func (iv *Intervals) EvalWith(fn *ssa.Function, bind map[*ssa.Parameter]Interval) []Interval {
	savedP, savedIn := iv.params, iv.inprog
	iv.params, iv.inprog = bind, map[ssa.Value]bool{}
	defer func() { iv.params, iv.inprog = savedP, savedIn }()
	n := fn.Signature.Results().Len()
	out := make([]Interval, n)
	for i := range out {
		out[i] = Interval{1, 0}
	}
	for _, r := range SuccessReturns(fn) {
		for i, res := range r.Results {
			if _, ok := res.Type().Underlying().(*types.Basic); !ok {
				out[i] = Top()
				continue
			}
			out[i] = out[i].Join(iv.At(res, r))
		}
	}
	return out
}
