package engine

import (
	"fmt"
	"go/token"

	"golang.org/x/tools/go/ssa"
)

// E11 — call-shape tables: hash inputs and copy splices described by the
// parameter they come from and their (linear) bounds.

// Span is base[lo:hi]; Full means the whole value.
type Span struct {
	Base string // "P<i>" for the i-th parameter (receiver = 0), otherwise a canonical description
	Lo   Lin
	Hi   Lin
	Full bool // no explicit high bound (to the end)
}

func (s Span) String() string {
	f := func(l Lin) string {
		switch {
		case l.A == 0:
			return fmt.Sprint(l.B)
		case l.B == 0:
			return fmt.Sprintf("%dx", l.A)
		}
		return fmt.Sprintf("%dx%+d", l.A, l.B)
	}
	if s.Full && s.Lo == (Lin{}) {
		return s.Base
	}
	if s.Full {
		return fmt.Sprintf("%s[%s:]", s.Base, f(s.Lo))
	}
	return fmt.Sprintf("%s[%s:%s]", s.Base, f(s.Lo), f(s.Hi))
}

// ShapeCtx describes spans inside one function; isX identifies the symbol x
// (offset parameter or getX result) for linear bounds; iv evaluates bounds
// that are not linear in x to exact constants where possible.
type ShapeCtx struct {
	Fn  *ssa.Function
	IsX func(ssa.Value) bool
	IV  *Intervals
}

func (sc *ShapeCtx) lin(v ssa.Value, at ssa.Instruction) (Lin, bool) {
	if v == nil {
		return Lin{}, true
	}
	if l, ok := LinEvalF(v, sc.IsX, 1, 0, func(x ssa.Value) ssa.Value { return Unwrap(x) }); ok {
		return l, true
	}
	if sc.IV != nil {
		i := sc.IV.At(v, at)
		if i.Lo == i.Hi {
			return Lin{0, i.Lo, 0}, true
		}
	}
	return Lin{}, false
}

// baseOf names the root a sliced value comes from.
func (sc *ShapeCtx) baseOf(v ssa.Value) string {
	// strip loads / address-of of spilled parameters
	for i := 0; i < 10; i++ {
		switch x := v.(type) {
		case *ssa.UnOp:
			if x.Op == token.MUL {
				if a, ok := x.X.(*ssa.Alloc); ok {
					if st := singleStore(a); st != nil {
						v = st
						continue
					}
					if st := allocInit(a); st != nil {
						v = st
						continue
					}
				}
				v = x.X
				continue
			}
		case *ssa.Alloc:
			if st := singleStore(x); st != nil {
				v = st
				continue
			}
			if st := allocInit(x); st != nil {
				v = st
				continue
			}
		case *ssa.Convert:
			v = x.X
			continue
		case *ssa.ChangeType:
			v = x.X
			continue
		}
		break
	}
	for i, p := range sc.Fn.Params {
		if v == ssa.Value(p) {
			return fmt.Sprintf("P%d", i)
		}
	}
	for i, p := range sc.Fn.FreeVars {
		if v == ssa.Value(p) {
			return fmt.Sprintf("FV%d", i)
		}
	}
	return Describe(v)
}

// SpanOf describes a byte-slice value.
func (sc *ShapeCtx) SpanOf(v ssa.Value, at ssa.Instruction) (Span, bool) {
	u := Unwrap(v)
	if sl, ok := u.(*ssa.Slice); ok {
		lo, ok1 := sc.lin(sl.Low, at)
		hi, ok2 := sc.lin(sl.High, at)
		if !ok1 || !ok2 {
			return Span{}, false
		}
		inner, ok := sc.SpanOf(sl.X, at)
		if ok && (inner.Lo != Lin{} || !inner.Full) {
			// slice of a slice: compose offsets
			s := Span{Base: inner.Base, Lo: Lin{inner.Lo.A + lo.A, inner.Lo.B + lo.B, 0}}
			if sl.High == nil {
				s.Hi, s.Full = inner.Hi, inner.Full
			} else {
				s.Hi = Lin{inner.Lo.A + hi.A, inner.Lo.B + hi.B, 0}
			}
			return s, true
		}
		base := sc.baseOf(sl.X)
		if ok {
			base = inner.Base
		}
		return Span{Base: base, Lo: lo, Hi: hi, Full: sl.High == nil}, true
	}
	return Span{Base: sc.baseOf(u), Full: true}, true
}

// HashWrites lists, in dominance order, the spans written into hash objects
// (interface calls to Write on a hash.Hash) inside the function.
func (sc *ShapeCtx) HashWrites() ([]Span, []ssa.CallInstruction, error) {
	var spans []Span
	var calls []ssa.CallInstruction
	for _, call := range Calls(sc.Fn) {
		cc := call.Common()
		if !cc.IsInvoke() || cc.Method.Name() != "Write" {
			continue
		}
		if Short(cc.Method.FullName()) != "(io.Writer).Write" && Short(cc.Method.FullName()) != "(hash.Hash).Write" {
			continue
		}
		s, ok := sc.SpanOf(cc.Args[0], call)
		if !ok {
			return nil, nil, fmt.Errorf("hash input %s at %v has non-linear bounds", Describe(cc.Args[0]), call.Pos())
		}
		spans = append(spans, s)
		calls = append(calls, call)
	}
	// dominance order
	for i := 0; i < len(calls); i++ {
		for j := i + 1; j < len(calls); j++ {
			if Dominates(calls[j], calls[i]) {
				calls[i], calls[j] = calls[j], calls[i]
				spans[i], spans[j] = spans[j], spans[i]
			}
		}
	}
	return spans, calls, nil
}

// Copy is one copy(dst, src) splice.
type Copy struct {
	Dst, Src Span
	Call     ssa.CallInstruction
}

func (c Copy) String() string { return c.Dst.String() + " ← " + c.Src.String() }

// Copies lists the builtin copy calls of the function in dominance order.
func (sc *ShapeCtx) Copies() ([]Copy, error) {
	var out []Copy
	for _, call := range CallsTo(sc.Fn, false, "builtin.copy") {
		d, ok1 := sc.SpanOf(call.Common().Args[0], call)
		s, ok2 := sc.SpanOf(call.Common().Args[1], call)
		if !ok1 || !ok2 {
			return nil, fmt.Errorf("copy at %v has non-linear bounds", call.Pos())
		}
		out = append(out, Copy{d, s, call})
	}
	for i := 0; i < len(out); i++ {
		for j := i + 1; j < len(out); j++ {
			if Dominates(out[j].Call, out[i].Call) {
				out[i], out[j] = out[j], out[i]
			}
		}
	}
	return out, nil
}

// allocInit: the unique whole-value store into a local (e.g. sum := sha1.Sum(x)
// later sliced); nil when there are several or none.
func allocInit(a *ssa.Alloc) ssa.Value {
	var val ssa.Value
	n := 0
	for _, r := range *a.Referrers() {
		if st, ok := r.(*ssa.Store); ok && st.Addr == ssa.Value(a) {
			n++
			val = st.Val
		}
	}
	if n == 1 {
		return val
	}
	return nil
}
