package engine

import (
	"fmt"
	"go/constant"
	"go/token"

	"golang.org/x/tools/go/ssa"
)

// E9 — finite comparison classes. A loop-free function whose result depends on
// its inputs only through comparisons is evaluated abstractly: the caller
// supplies, for one order class, the sign of x−y for every compared operand
// pair; the CFG is walked with every branch decided from it.

// Rel answers the sign of x−y (−1, 0, +1) in the current class; ok=false if the
// pair is not one the class speaks about (the evaluation is then UNDECIDED).
type Rel func(x, y ssa.Value) (sign int, ok bool)

// AbstractResult is the outcome of one abstract run.
type AbstractResult struct {
	Ret   *ssa.Return
	Bool  *bool  // result 0 evaluated as a boolean, if it is one
	Const *int64 // result 0 evaluated as an integer constant, if it is one
	Path  []int  // block indices visited
}

// AbstractRun evaluates fn under rel. It fails on loops, on branches whose
// condition is not a comparison it can decide, and on panics/unsupported
// control flow.
func AbstractRun(fn *ssa.Function, rel Rel) (*AbstractResult, error) {
	if len(fn.Blocks) == 0 {
		return nil, fmt.Errorf("no body")
	}
	var pred *ssa.BasicBlock
	b := fn.Blocks[0]
	res := &AbstractResult{}
	visits := map[*ssa.BasicBlock]int{}
	env := map[*ssa.Phi]ssa.Value{}
	var evalBool func(v ssa.Value, from *ssa.BasicBlock, at *ssa.BasicBlock) (bool, error)
	evalBool = func(v ssa.Value, from, at *ssa.BasicBlock) (bool, error) {
		switch x := v.(type) {
		case *ssa.Const:
			if x.Value != nil && x.Value.Kind() == constant.Bool {
				return constant.BoolVal(x.Value), nil
			}
		case *ssa.UnOp:
			if x.Op == token.NOT {
				r, err := evalBool(x.X, from, at)
				return !r, err
			}
		case *ssa.Phi:
			if r, ok := env[x]; ok {
				return evalBool(r, from, at)
			}
			return false, fmt.Errorf("phi not on the evaluated path")
		case *ssa.BinOp:
			switch x.Op {
			case token.EQL, token.NEQ, token.LSS, token.LEQ, token.GTR, token.GEQ:
				// boolean == boolean
				if _, isb := ConstBool(x.Y); isb {
					l, err := evalBool(x.X, from, at)
					if err != nil {
						return false, err
					}
					r, _ := ConstBool(x.Y)
					if x.Op == token.EQL {
						return l == r, nil
					}
					if x.Op == token.NEQ {
						return l != r, nil
					}
				}
				s, ok := rel(x.X, x.Y)
				if !ok {
					return false, fmt.Errorf("comparison %s %s %s is outside the class abstraction", Describe(x.X), x.Op, Describe(x.Y))
				}
				switch x.Op {
				case token.EQL:
					return s == 0, nil
				case token.NEQ:
					return s != 0, nil
				case token.LSS:
					return s < 0, nil
				case token.LEQ:
					return s <= 0, nil
				case token.GTR:
					return s > 0, nil
				case token.GEQ:
					return s >= 0, nil
				}
			}
		}
		return false, fmt.Errorf("cannot evaluate %s (%T) as a comparison", Describe(v), v)
	}
	for steps := 0; steps < 10000; steps++ {
		visits[b]++
		if visits[b] > 1 {
			return nil, fmt.Errorf("loop through block %d", b.Index)
		}
		res.Path = append(res.Path, b.Index)
		for _, in := range b.Instrs {
			phi, ok := in.(*ssa.Phi)
			if !ok {
				break
			}
			for k, pr := range b.Preds {
				if pr == pred {
					v := phi.Edges[k]
					if p2, ok := v.(*ssa.Phi); ok {
						if r, ok := env[p2]; ok {
							v = r
						}
					}
					env[phi] = v
				}
			}
		}
		last := b.Instrs[len(b.Instrs)-1]
		switch t := last.(type) {
		case *ssa.Jump:
			pred, b = b, b.Succs[0]
		case *ssa.If:
			r, err := evalBool(t.Cond, pred, b)
			if err != nil {
				return nil, err
			}
			if r {
				pred, b = b, b.Succs[0]
			} else {
				pred, b = b, b.Succs[1]
			}
		case *ssa.Return:
			res.Ret = t
			if len(t.Results) > 0 {
				v := t.Results[0]
				if p, ok := v.(*ssa.Phi); ok {
					if r, ok := env[p]; ok {
						v = r
					}
				}
				if bv, err := evalBool(v, pred, b); err == nil {
					res.Bool = &bv
				}
				if n, ok := ConstInt(v); ok {
					res.Const = &n
				}
			}
			return res, nil
		default:
			return nil, fmt.Errorf("unsupported terminator %T", last)
		}
	}
	return nil, fmt.Errorf("step bound exceeded")
}

