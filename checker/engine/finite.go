package engine

import (
	"fmt"
	"go/constant"
	"go/token"
	"strings"

	"golang.org/x/tools/go/ssa"
)

// E9 — finite comparison classes. A loop-free function whose result depends on
// its inputs only through comparisons is evaluated abstractly: the caller
// supplies, for one order class, the sign of x−y for every compared operand
// pair; the CFG is walked with every branch decided from it.

// Rel answers the sign of x−y (−1, 0, +1) in the current class; ok=false if the
// pair is not one the class speaks about (the evaluation is then UNDECIDED).
type Rel func(x, y ssa.Value) (sign int, ok bool)

// CurrentEnv is the phi environment of the abstract run in progress (runs are
// sequential); Rel callbacks that need phi resolution read it.
var CurrentEnv map[*ssa.Phi]ssa.Value

// AbstractResult is the outcome of one abstract run.
type AbstractResult struct {
	Ret   *ssa.Return
	Bool  *bool  // result 0 evaluated as a boolean, if it is one
	Const *int64 // result 0 evaluated as an integer constant, if it is one
	Path  []int  // block indices visited
	Value ssa.Value              // result 0 with the phis of the return block resolved along the path
	Env   map[*ssa.Phi]ssa.Value // phi → incoming value on the evaluated path
	// LoadVal maps a load executed on the path to the value a preceding store on
	// the same path wrote to that address (locals, spilled results, fields).
	LoadVal map[*ssa.UnOp]ssa.Value
	Stores  []*ssa.Store // stores executed on the path, in order
}

// Resolve looks through the phis and loads of the evaluated path.
func (r *AbstractResult) Resolve(v ssa.Value) ssa.Value {
	for i := 0; i < 50; i++ {
		switch x := v.(type) {
		case *ssa.Phi:
			if e, ok := r.Env[x]; ok {
				v = e
				continue
			}
		case *ssa.UnOp:
			if e, ok := r.LoadVal[x]; ok {
				v = e
				continue
			}
		}
		break
	}
	return v
}

func addrKey(a ssa.Value) string {
	switch x := a.(type) {
	case *ssa.Alloc:
		return fmt.Sprintf("alloc@%p", x)
	case *ssa.FieldAddr:
		return addrKey(x.X) + "." + fieldName(x.X.Type(), x.Field)
	case *ssa.Parameter:
		return "p:" + ParamName(x)
	case *ssa.UnOp:
		if x.Op == token.MUL {
			return "*" + addrKey(x.X)
		}
	}
	return Describe(a)
}

// AbstractRun evaluates fn under rel. It fails on loops, on branches whose
// condition is not a comparison it can decide, and on panics/unsupported
// control flow.
func AbstractRun(fn *ssa.Function, rel Rel) (*AbstractResult, error) {
	return AbstractRunOpt(fn, rel, nil)
}

// AbstractRunOpt is AbstractRun with an oracle for boolean values that are not
// comparisons (results of calls such as t.Before(u)).
func AbstractRunOpt(fn *ssa.Function, rel Rel, boolOf func(ssa.Value) (bool, bool)) (*AbstractResult, error) {
	if len(fn.Blocks) == 0 {
		return nil, fmt.Errorf("no body")
	}
	var pred *ssa.BasicBlock
	b := fn.Blocks[0]
	res := &AbstractResult{LoadVal: map[*ssa.UnOp]ssa.Value{}}
	mem := map[string]ssa.Value{}
	visits := map[*ssa.BasicBlock]int{}
	env := map[*ssa.Phi]ssa.Value{}
	CurrentEnv = env
	var evalBool func(v ssa.Value, from *ssa.BasicBlock, at *ssa.BasicBlock) (bool, error)
	evalBool = func(v ssa.Value, from, at *ssa.BasicBlock) (bool, error) {
		switch x := v.(type) {
		case *ssa.Const:
			if x.Value != nil && x.Value.Kind() == constant.Bool {
				return constant.BoolVal(x.Value), nil
			}
		case *ssa.Phi:
			if r, ok := env[x]; ok {
				return evalBool(r, from, at)
			}
			return false, fmt.Errorf("phi not on the evaluated path")
		case *ssa.UnOp:
			if x.Op == token.NOT {
				r, err := evalBool(x.X, from, at)
				return !r, err
			}
			if lv, ok := res.LoadVal[x]; ok {
				return evalBool(lv, from, at)
			}
		case *ssa.BinOp:
			switch x.Op {
			case token.EQL, token.NEQ, token.LSS, token.LEQ, token.GTR, token.GEQ:
				// boolean == boolean
				if _, isb := ConstBool(x.Y); isb {
					l, err := evalBool(x.X, from, at)
					if err != nil {
						return false, err
					}
					r, _ := ConstBool(x.Y)
					if x.Op == token.EQL {
						return l == r, nil
					}
					if x.Op == token.NEQ {
						return l != r, nil
					}
				}
				// canonical form: a constant operand on the right (0 < x is x > 0)
				opX, opY, op := x.X, x.Y, x.Op
				if _, xc := opX.(*ssa.Const); xc {
					if _, yc := opY.(*ssa.Const); !yc {
						k := (Cmp{Op: op, X: opX, Y: opY}).Swap()
						opX, opY, op = k.X, k.Y, k.Op
					}
				}
				s, ok := rel(opX, opY)
				if !ok {
					return false, fmt.Errorf("comparison %s %s %s is outside the class abstraction", Describe(x.X), x.Op, Describe(x.Y))
				}
				switch op {
				case token.EQL:
					return s == 0, nil
				case token.NEQ:
					return s != 0, nil
				case token.LSS:
					return s < 0, nil
				case token.LEQ:
					return s <= 0, nil
				case token.GTR:
					return s > 0, nil
				case token.GEQ:
					return s >= 0, nil
				}
			}
		}
		if boolOf != nil {
			if r, ok := boolOf(v); ok {
				return r, nil
			}
		}
		return false, fmt.Errorf("cannot evaluate %s (%T) as a comparison", Describe(v), v)
	}
	for steps := 0; steps < 10000; steps++ {
		visits[b]++
		if visits[b] > 1 {
			return nil, fmt.Errorf("loop through block %d", b.Index)
		}
		res.Path = append(res.Path, b.Index)
		for _, in := range b.Instrs {
			phi, ok := in.(*ssa.Phi)
			if !ok {
				break
			}
			for k, pr := range b.Preds {
				if pr == pred {
					v := phi.Edges[k]
					if p2, ok := v.(*ssa.Phi); ok {
						if r, ok := env[p2]; ok {
							v = r
						}
					}
					env[phi] = v
				}
			}
		}
		for _, in := range b.Instrs {
			switch x := in.(type) {
			case *ssa.Store:
				mem[addrKey(x.Addr)] = x.Val
				res.Stores = append(res.Stores, x)
			case *ssa.UnOp:
				if x.Op == token.MUL {
					if v, ok := mem[addrKey(x.X)]; ok {
						res.LoadVal[x] = v
					}
				}
			case *ssa.Call:
				if _, isB := x.Common().Value.(*ssa.Builtin); !isB {
					for k := range mem {
						if !strings.HasPrefix(k, "alloc@") {
							delete(mem, k)
						}
					}
				}
			}
		}
		last := b.Instrs[len(b.Instrs)-1]
		switch t := last.(type) {
		case *ssa.Jump:
			pred, b = b, b.Succs[0]
		case *ssa.If:
			r, err := evalBool(t.Cond, pred, b)
			if err != nil {
				return nil, err
			}
			if r {
				pred, b = b, b.Succs[0]
			} else {
				pred, b = b, b.Succs[1]
			}
		case *ssa.Return:
			res.Ret = t
			if len(t.Results) > 0 {
				v := t.Results[0]
				if p, ok := v.(*ssa.Phi); ok {
					if r, ok := env[p]; ok {
						v = r
					}
				}
				res.Value, res.Env = v, env
				if bv, err := evalBool(v, pred, b); err == nil {
					res.Bool = &bv
				}
				if n, ok := ConstInt(v); ok {
					res.Const = &n
				}
			}
			return res, nil
		default:
			return nil, fmt.Errorf("unsupported terminator %T", last)
		}
	}
	return nil, fmt.Errorf("step bound exceeded")
}


// ---------------------------------------------------------------------------
// E9r — residue classes. Values are carried as a·q + b for one symbol
// l = M·q + r (q ≥ 0, r fixed per class).

// Lin is a·q + b.
type Lin struct {
	A, B int64
	S    int64 // + S·t for an unknown integer t ≥ 0 (0: none); only sound for congruence checks
}

// LinEval folds v to a linear form in q under "sym = M·q + r". env resolves
// phis of an abstract run. ok=false when v leaves the fragment
// (+, −, × const, / c and % c with c | M·gcd…, constants, conversions).
func LinEval(v ssa.Value, sym ssa.Value, M, r int64, env map[*ssa.Phi]ssa.Value) (Lin, bool) {
	return LinEvalF(v, func(x ssa.Value) bool { return x == sym }, M, r, func(x ssa.Value) ssa.Value {
		if p, ok := x.(*ssa.Phi); ok {
			if e, ok := env[p]; ok {
				return e
			}
		}
		return x
	})
}

// LinEvalF is LinEval with a symbol predicate and a value resolver (phis and
// loads of an abstract run).
func LinEvalF(v ssa.Value, isSym func(ssa.Value) bool, M, r int64, resolve func(ssa.Value) ssa.Value) (Lin, bool) {
	return linEval(v, isSym, M, r, resolve, 0)
}

func linEval(v ssa.Value, isSym func(ssa.Value) bool, M, r int64, resolve func(ssa.Value) ssa.Value, depth int) (Lin, bool) {
	if depth > 60 {
		return Lin{}, false
	}
	if rv := resolve(v); rv != v {
		return linEval(rv, isSym, M, r, resolve, depth+1)
	}
	LinEval := func(v ssa.Value, _ ssa.Value, M, r int64, _ map[*ssa.Phi]ssa.Value) (Lin, bool) {
		return linEval(v, isSym, M, r, resolve, depth+1)
	}
	var sym ssa.Value
	var env map[*ssa.Phi]ssa.Value
	if isSym(v) {
		return Lin{M, r, 0}, true
	}
	switch x := v.(type) {
	case *ssa.Phi:
		if e, ok := env[x]; ok {
			return LinEval(e, sym, M, r, env)
		}
		return Lin{}, false
	case *ssa.Convert:
		return LinEval(x.X, sym, M, r, env)
	case *ssa.ChangeType:
		return LinEval(x.X, sym, M, r, env)
	}
	if v == sym {
		return Lin{M, r, 0}, true
	}
	if n, ok := ConstInt(v); ok {
		return Lin{0, n, 0}, true
	}
	b, ok := v.(*ssa.BinOp)
	if !ok {
		return Lin{}, false
	}
	l, ok1 := LinEval(b.X, sym, M, r, env)
	rr, ok2 := LinEval(b.Y, sym, M, r, env)
	if b.Op == token.MUL && ok1 != ok2 {
		// opaque non-negative factor times a constant: c·t
		k := l
		if !ok1 {
			k = rr
		}
		if k.A == 0 && k.S == 0 && k.B > 0 {
			return Lin{0, 0, k.B}, true
		}
	}
	if !ok1 || !ok2 {
		return Lin{}, false
	}
	gcd := func(a, b int64) int64 {
		for b != 0 {
			a, b = b, a%b
		}
		if a < 0 {
			a = -a
		}
		return a
	}
	switch b.Op {
	case token.ADD:
		return Lin{l.A + rr.A, l.B + rr.B, gcd(l.S, rr.S)}, true
	case token.SUB:
		if rr.S != 0 {
			return Lin{}, false
		}
		return Lin{l.A - rr.A, l.B - rr.B, l.S}, true
	case token.MUL:
		if l.A == 0 && l.S == 0 {
			return Lin{rr.A * l.B, rr.B * l.B, rr.S * l.B}, true
		}
		if rr.A == 0 && rr.S == 0 {
			return Lin{l.A * rr.B, l.B * rr.B, l.S * rr.B}, true
		}
	case token.QUO:
		// (a·q + b) / c with c | a and 0 ≤ b: = (a/c)·q + b/c  (non-negative operands)
		if rr.A == 0 && rr.S == 0 && l.S == 0 && rr.B > 0 && l.A%rr.B == 0 && l.A >= 0 && l.B >= 0 {
			return Lin{l.A / rr.B, l.B / rr.B, 0}, true
		}
	case token.REM:
		if rr.A == 0 && rr.S == 0 && l.S == 0 && rr.B > 0 && l.A%rr.B == 0 && l.A >= 0 && l.B >= 0 {
			return Lin{0, l.B % rr.B, 0}, true
		}
	}
	return Lin{}, false
}

// LinRel builds a Rel for AbstractRun that orders linear forms for all q ≥ 0
// (undecided when the order depends on q).
func LinRel(sym ssa.Value, M, r int64, envOf func() map[*ssa.Phi]ssa.Value) Rel {
	return func(x, y ssa.Value) (int, bool) {
		a, ok1 := LinEval(x, sym, M, r, envOf())
		b, ok2 := LinEval(y, sym, M, r, envOf())
		if !ok1 || !ok2 {
			return 0, false
		}
		if a.S != 0 || b.S != 0 {
			return 0, false
		}
		d := Lin{a.A - b.A, a.B - b.B, 0}
		switch {
		case d.A == 0:
			return sign(d.B), true
		case d.A > 0 && d.B > 0:
			return 1, true
		case d.A < 0 && d.B < 0:
			return -1, true
		}
		return 0, false
	}
}

func sign(x int64) int {
	switch {
	case x < 0:
		return -1
	case x > 0:
		return 1
	}
	return 0
}

// RetValOnPath is the i-th result of the return reached by an abstract run,
// with the defer spill resolved through the run's load map.
func RetValOnPath(r *AbstractResult, i int) ssa.Value {
	if r.Ret == nil || i >= len(r.Ret.Results) {
		return nil
	}
	return r.Resolve(r.Ret.Results[i])
}
