package engine

import (
	"fmt"
	"go/token"
	"go/types"

	"golang.org/x/tools/go/ssa"
)

// E5g — bounds obligations. For every slice/index expression of a function the
// checker must establish 0 ≤ low ≤ high ≤ len(x) (index: 0 ≤ i < len(x)) from
// intervals, dominating len-guards, success-implies summaries of callees
// (PeekID() == nil ⇒ len(b.Buf) ≥ 4) and load equivalence of repeated x.f
// loads with no intervening store or modifying call.

type Bounds struct {
	// SkipUpper disables the "≤ len(x)" obligations (used where the length of
	// the buffer is set relationally by an allocation the engine does not model);
	// non-negativity and low ≤ high are still required.
	SkipUpper bool
	IV       *Intervals
	modCache map[string]bool
	sumCache map[string]int64
	sumBusy  map[string]bool
}

func NewBounds() *Bounds {
	b := &Bounds{IV: NewIntervals(), modCache: map[string]bool{}, sumCache: map[string]int64{}, sumBusy: map[string]bool{}}
	b.IV.Equal = func(x, y ssa.Value) bool { return b.sameValue(x, y) }
	return b
}

// BoundIssue is an unproven bounds obligation.
type BoundIssue struct {
	Instr  ssa.Instruction
	What   string
	Detail string
	negParam *ssa.Parameter
}

// fieldLoad decomposes v = *(&base.field).
func fieldLoad(v ssa.Value) (load *ssa.UnOp, base ssa.Value, field int, ok bool) {
	u, isU := v.(*ssa.UnOp)
	if !isU || u.Op != token.MUL {
		return nil, nil, 0, false
	}
	fa, isFA := u.X.(*ssa.FieldAddr)
	if !isFA {
		return nil, nil, 0, false
	}
	return u, fa.X, fa.Field, true
}

func structOf(t types.Type) *types.Struct {
	if p, ok := t.Underlying().(*types.Pointer); ok {
		t = p.Elem()
	}
	s, _ := t.Underlying().(*types.Struct)
	return s
}

func sameStructType(a, b types.Type) bool {
	sa, sb := structOf(a), structOf(b)
	return sa != nil && sb != nil && types.Identical(sa, sb)
}

// modifies reports whether fn (or what it calls with a pointer to the struct)
// may store to the given field of a value of struct type st.
func (bd *Bounds) modifies(fn *ssa.Function, st types.Type, field int) bool {
	if fn == nil {
		return true
	}
	if len(fn.Blocks) == 0 {
		// no body: can only reach the struct through an interface/pointer argument; decided at the call site
		return false
	}
	key := fmt.Sprintf("%s|%s|%d", fn.String(), st.String(), field)
	if v, ok := bd.modCache[key]; ok {
		return v
	}
	bd.modCache[key] = false // recursion: assume no
	res := false
	for _, f := range WithAnon(fn) {
		Instrs(f, func(i ssa.Instruction) {
			if res {
				return
			}
			if bd.isKill(i, st, field) {
				res = true
			}
		})
	}
	bd.modCache[key] = res
	return res
}

func passesStruct(v ssa.Value, st types.Type) bool {
	v = stripConv(v)
	if mi, ok := v.(*ssa.MakeInterface); ok {
		v = mi.X
	}
	return sameStructType(v.Type(), st) && isPointer(v.Type())
}

func isPointer(t types.Type) bool {
	_, ok := t.Underlying().(*types.Pointer)
	return ok
}

// isKill: instruction i may change base.field for some base of struct type st.
func (bd *Bounds) isKill(i ssa.Instruction, st types.Type, field int) bool {
	switch x := i.(type) {
	case *ssa.Store:
		if fa, ok := x.Addr.(*ssa.FieldAddr); ok && (fa.Field == field || field < 0) && sameStructType(fa.X.Type(), st) {
			return true
		}
		// whole-struct store *p = v
		if sameStructType(x.Addr.Type(), st) && isPointer(x.Addr.Type()) {
			if _, isFA := x.Addr.(*ssa.FieldAddr); !isFA {
				if _, isAlloc := x.Addr.(*ssa.Alloc); !isAlloc {
					return true
				}
			}
		}
	case ssa.CallInstruction:
		cc := x.Common()
		passes := false
		for _, a := range Args(cc) {
			if passesStruct(a, st) {
				passes = true
			}
		}
		if !passes {
			// closures capturing the struct are not tracked; MakeClosure bindings of the pointer count as passing
			if mc, ok := cc.Value.(*ssa.MakeClosure); ok {
				for _, b := range mc.Bindings {
					if passesStruct(b, st) {
						passes = true
					}
				}
			}
		}
		if !passes {
			return false
		}
		callee := cc.StaticCallee()
		if callee == nil {
			return true
		}
		if len(callee.Blocks) == 0 {
			return true
		}
		return bd.modifies(callee, st, field)
	}
	return false
}

// killedBetween: some path a → k → at exists (k a kill) that does not re-execute a.
func (bd *Bounds) killedBetween(a, at ssa.Instruction, st types.Type, field int) bool {
	if a.Parent() != at.Parent() {
		return true
	}
	isA := func(i ssa.Instruction) bool { return i == a }
	killed := false
	Instrs(a.Parent(), func(k ssa.Instruction) {
		if killed || k == a || !bd.isKill(k, st, field) {
			return
		}
		if k != at && PathExists(a, k) && PathExistsAvoiding(k, at, isA) {
			killed = true
		}
	})
	return killed
}

// sameLoad: x and y are loads of the same base.field with no kill between them.
func (bd *Bounds) sameLoad(x, y ssa.Value) bool {
	lx, bx, fx, okx := fieldLoad(x)
	ly, by, fy, oky := fieldLoad(y)
	if !okx || !oky || fx != fy || bx != by {
		return false
	}
	if lx == ly {
		return true
	}
	if Dominates(lx, ly) {
		return !bd.killedBetween(lx, ly, bx.Type(), fx)
	}
	if Dominates(ly, lx) {
		return !bd.killedBetween(ly, lx, bx.Type(), fx)
	}
	// neither dominates the other (one of them sits in an arm of a || b kept in a
	// variable): equal if an earlier load of the same field dominates both with
	// no kill on the way to either
	same := false
	Instrs(lx.Parent(), func(i ssa.Instruction) {
		lz, ok := i.(*ssa.UnOp)
		if same || !ok || lz == lx || lz == ly {
			return
		}
		if _, bz, fz, okz := fieldLoad(lz); !okz || bz != bx || fz != fx {
			return
		}
		if Dominates(lz, lx) && Dominates(lz, ly) && !bd.killedBetween(lz, lx, bx.Type(), fx) && !bd.killedBetween(lz, ly, bx.Type(), fx) {
			same = true
		}
	})
	return same
}

// sameValue extends sameLoad to whole-struct loads through the same pointer
// and to calls of the same pure getter on equal arguments (b.Len() twice).
func (bd *Bounds) sameValue(x, y ssa.Value) bool {
	if x == y || bd.sameLoad(x, y) {
		return true
	}
	ux, okx := x.(*ssa.UnOp)
	uy, oky := y.(*ssa.UnOp)
	if okx && oky && ux.Op == token.MUL && uy.Op == token.MUL && ux.X == uy.X && structOf(ux.X.Type()) != nil {
		if Dominates(ux, uy) {
			return !bd.killedBetween(ux, uy, ux.X.Type(), -1)
		}
		if Dominates(uy, ux) {
			return !bd.killedBetween(uy, ux, ux.X.Type(), -1)
		}
		return false
	}
	cx, okx := x.(*ssa.Call)
	cy, oky := y.(*ssa.Call)
	if okx && oky {
		fx, fy := cx.Common().StaticCallee(), cy.Common().StaticCallee()
		if fx == nil || fx != fy || !pureGetter(fx) || len(cx.Common().Args) != len(cy.Common().Args) {
			return false
		}
		for i := range cx.Common().Args {
			if !bd.sameValue(cx.Common().Args[i], cy.Common().Args[i]) {
				return false
			}
		}
		return true
	}
	return false
}

// pureGetter: single-block function without stores or calls other than len/cap.
func pureGetter(fn *ssa.Function) bool {
	if len(fn.Blocks) != 1 {
		return false
	}
	pure := true
	Instrs(fn, func(i ssa.Instruction) {
		switch x := i.(type) {
		case *ssa.Store:
			if a, ok := x.Addr.(*ssa.Alloc); !ok || a.Heap {
				pure = false
			}
		case *ssa.Go, *ssa.Defer, *ssa.Send, *ssa.MapUpdate, *ssa.Panic:
			pure = false
		case *ssa.Call:
			id := CalleeID(x.Common())
			if id != "builtin.len" && id != "builtin.cap" {
				pure = false
			}
		}
	})
	return pure
}

func (bd *Bounds) sameSlice(x, y ssa.Value) bool {
	if x == y {
		return true
	}
	return bd.sameLoad(x, y)
}

func lenArg(v ssa.Value) (ssa.Value, bool) {
	v = stripConv(v)
	c, ok := v.(*ssa.Call)
	if !ok || CalleeID(c.Common()) != "builtin.len" {
		return nil, false
	}
	return c.Common().Args[0], true
}

// LenLB returns a lower bound of len(x) at instruction at.
func (bd *Bounds) LenLB(x ssa.Value, at ssa.Instruction) int64 {
	lb := bd.IV.lenOf(x, at, false).Lo
	if lb < 0 {
		lb = 0
	}
	_, base, field, isField := fieldLoad(x)
	for _, g := range bd.IV.guardsOf(at) {
		c := g.Cmp()
		for _, k := range []Cmp{c, c.Swap()} {
			if la, ok := lenArg(k.X); ok && bd.sameSliceAt(la, x, at) {
				o := bd.IV.At(k.Y, g.If)
				switch k.Op {
				case token.GEQ, token.EQL:
					lb = max64(lb, o.Lo)
				case token.GTR:
					lb = max64(lb, sadd(o.Lo, 1))
				case token.NEQ:
					if o.Lo == 0 && o.Hi == 0 {
						lb = max64(lb, 1)
					}
				}
			}
			// callee success fact: err == nil for err from F(base, …)
			if isField && k.Op == token.EQL && IsNil(k.Y) {
				if call := CallOf(k.X); call != nil {
					callee := call.Common().StaticCallee()
					args := Args(call.Common())
					if callee != nil && len(callee.Blocks) > 0 && len(args) > 0 && args[0] == base && callee.Signature.Recv() != nil {
						if v := bd.succLenLB(callee, field); v > 0 && !bd.killedBetween(call, at, base.Type(), field) {
							lb = max64(lb, v)
						}
					}
				}
			}
		}
	}
	return lb
}

// sameSliceAt: la (argument of a len() in a guard) denotes the same slice as x
// at `at`. For field loads, x may be a load made after the guard.
func (bd *Bounds) sameSliceAt(la, x ssa.Value, at ssa.Instruction) bool {
	return bd.sameSlice(la, x)
}

// succLenLB: lower bound of len(recv.field) established on every success
// return of method fn (0 if none).
func (bd *Bounds) succLenLB(fn *ssa.Function, field int) int64 {
	key := fmt.Sprintf("%s|%d", fn.String(), field)
	if v, ok := bd.sumCache[key]; ok {
		return v
	}
	if bd.sumBusy[key] {
		return 0
	}
	bd.sumBusy[key] = true
	defer delete(bd.sumBusy, key)
	recv := fn.Params[0]
	res := int64(PosInf)
	n := 0
	for _, r := range SuccessReturns(fn) {
		n++
		best := int64(0)
		for _, g := range Guards(r) {
			c := g.Cmp()
			for _, k := range []Cmp{c, c.Swap()} {
				la, ok := lenArg(k.X)
				if !ok {
					// nested: err == nil of a callee on the same receiver
					if k.Op == token.EQL && IsNil(k.Y) {
						if call := CallOf(k.X); call != nil {
							callee := call.Common().StaticCallee()
							args := Args(call.Common())
							if callee != nil && len(callee.Blocks) > 0 && len(args) > 0 && args[0] == ssa.Value(recv) && callee.Signature.Recv() != nil {
								if v := bd.succLenLB(callee, field); v > 0 && !bd.killedBetween(call, r, recv.Type(), field) {
									best = max64(best, v)
								}
							}
						}
					}
					continue
				}
				ld, b, f, isF := fieldLoad(la)
				if !isF || b != ssa.Value(recv) || f != field || bd.killedBetween(ld, r, recv.Type(), field) {
					continue
				}
				o := bd.IV.At(k.Y, g.If)
				switch k.Op {
				case token.GEQ, token.EQL:
					best = max64(best, o.Lo)
				case token.GTR:
					best = max64(best, sadd(o.Lo, 1))
				}
			}
		}
		res = min64(res, best)
	}
	if n == 0 || res == PosInf {
		res = 0
	}
	bd.sumCache[key] = res
	return res
}

// leLen: v ≤ len(x) − slack at `at`.
func (bd *Bounds) leLen(v ssa.Value, x ssa.Value, slack int64, at ssa.Instruction) bool {
	if bd.SkipUpper {
		return true
	}
	I := bd.IV.At(v, at)
	if I.Hi != PosInf && sadd(I.Hi, slack) <= bd.LenLB(x, at) {
		return true
	}
	s := stripConv(v)
	// v = len(x')
	if la, ok := lenArg(s); ok && bd.sameSlice(la, x) && slack <= 0 {
		return true
	}
	// v = len(x') − c
	if b, ok := s.(*ssa.BinOp); ok && b.Op == token.SUB {
		if la, ok := lenArg(b.X); ok && bd.sameSlice(la, x) {
			if c := bd.IV.At(b.Y, at); c.Lo >= slack {
				return true
			}
		}
	}
	// callee success fact: F(base, …, v, …) == nil ⇒ len(base.field) ≥ v
	if _, base, field, isField := fieldLoad(x); isField && slack <= 0 {
		for _, g := range bd.IV.guardsOf(at) {
			c := g.Cmp()
			for _, k := range []Cmp{c, c.Swap()} {
				if k.Op != token.EQL || !IsNil(k.Y) {
					continue
				}
				call := CallOf(k.X)
				if call == nil {
					continue
				}
				callee := call.Common().StaticCallee()
				args := Args(call.Common())
				if callee == nil || len(callee.Blocks) == 0 || len(args) == 0 || args[0] != base || callee.Signature.Recv() == nil {
					continue
				}
				if pj, ok := bd.succLenParam(callee, field); ok && pj < len(args) && (args[pj] == v || bd.IV.same(args[pj], v)) &&
					!bd.killedBetween(call, at, base.Type(), field) {
					return true
				}
			}
		}
	}
	// guard: g < len(x'), g <= len(x') with v = g + const (linear forms)
	vb, vo := bd.linear(v, at)
	for _, g := range bd.IV.guardsOf(at) {
		c := g.Cmp()
		for _, k := range []Cmp{c, c.Swap()} {
			la, ok := lenArg(k.Y)
			if !ok || !bd.sameSlice(la, x) || (k.Op != token.LSS && k.Op != token.LEQ) {
				continue
			}
			gb, gofs := bd.linear(k.X, g.If)
			if gb != vb && !bd.IV.same(gb, vb) {
				continue
			}
			delta := int64(0)
			if k.Op == token.LSS {
				delta = 1
			}
			if slack <= delta+gofs-vo {
				return true
			}
		}
	}
	return false
}

// Pre is a parameter precondition (parameter ≥ 0) that a function exports to
// its callers instead of failing: the bound in question is a bare parameter.
type Pre struct {
	Fn    *ssa.Function
	Param int
}

// NonNegAt reports whether v ≥ 0 is proven at the given instruction.
func (bd *Bounds) NonNegAt(v ssa.Value, at ssa.Instruction) (bool, Interval) {
	i := bd.IV.At(v, at)
	return i.Lo >= 0, i
}

// NonNegAtAssuming is NonNegAt with the given parameters assumed ≥ 0.
func (bd *Bounds) NonNegAtAssuming(v ssa.Value, at ssa.Instruction, nonneg []*ssa.Parameter) (bool, Interval) {
	saved := bd.IV.params
	bd.IV.params = map[*ssa.Parameter]Interval{}
	for _, p := range nonneg {
		bd.IV.params[p] = Interval{0, PosInf}.Meet(TypeRange(p.Type()))
	}
	i := bd.IV.At(v, at)
	bd.IV.params = saved
	return i.Lo >= 0, i
}

// CheckFuncPre is CheckFunc, but "may be negative" issues on a bare parameter
// are returned as preconditions for the callers.
func (bd *Bounds) CheckFuncPre(fn *ssa.Function) (issues []BoundIssue, pres []Pre, sites int) {
	all, sites := bd.CheckFunc(fn)
	assumed := map[*ssa.Parameter]Interval{}
	for round := 0; round < 4; round++ {
		added := false
		for _, is := range all {
			if is.negParam != nil {
				if _, ok := assumed[is.negParam]; !ok {
					assumed[is.negParam] = Interval{0, PosInf}.Meet(TypeRange(is.negParam.Type()))
					added = true
				}
			}
		}
		if !added {
			break
		}
		// re-check under the exported preconditions
		saved := bd.IV.params
		bd.IV.params = assumed
		all, _ = bd.CheckFunc(fn)
		bd.IV.params = saved
	}
	for p := range assumed {
		for i, q := range fn.Params {
			if p == q {
				pres = append(pres, Pre{fn, i})
			}
		}
	}
	issues = all
	return
}

// CheckFunc returns the unproven bounds obligations of fn and the number of
// sites examined.
func (bd *Bounds) CheckFunc(fn *ssa.Function) (issues []BoundIssue, sites int) {
	defer func() {
		for k := range issues {
			if s, ok := issues[k].Instr.(*ssa.Slice); ok {
				for _, b := range []ssa.Value{s.Low, s.High} {
					if b == nil {
						continue
					}
					if p, ok := stripConv(b).(*ssa.Parameter); ok && bd.IV.At(b, s).Lo < 0 {
						issues[k].negParam = p
					}
				}
			}
		}
	}()
	Instrs(fn, func(i ssa.Instruction) {
		switch x := i.(type) {
		case *ssa.Slice:
			sites++
			if msg := bd.checkSlice(x); msg != "" {
				issues = append(issues, BoundIssue{Instr: x, What: "slice", Detail: msg})
			}
		case *ssa.IndexAddr:
			sites++
			if msg := bd.checkIndex(x, x.X, x.Index); msg != "" {
				issues = append(issues, BoundIssue{Instr: x, What: "index", Detail: msg})
			}
		case *ssa.Index:
			sites++
			if msg := bd.checkIndex(x, x.X, x.Index); msg != "" {
				issues = append(issues, BoundIssue{Instr: x, What: "index", Detail: msg})
			}
		case *ssa.Lookup:
			if _, isMap := x.X.Type().Underlying().(*types.Map); isMap {
				return
			}
			sites++
			if msg := bd.checkIndex(x, x.X, x.Index); msg != "" {
				issues = append(issues, BoundIssue{Instr: x, What: "index", Detail: msg})
			}
		}
	})
	return
}

func (bd *Bounds) checkIndex(at ssa.Instruction, x, idx ssa.Value) string {
	I := bd.IV.At(idx, at)
	if I.Lo < 0 {
		return fmt.Sprintf("index %s ∈ %s may be negative", Describe(idx), I)
	}
	if n, ok := arrayLen(x.Type()); ok {
		if I.Hi < n {
			return ""
		}
		return fmt.Sprintf("index %s ∈ %s not proven < array length %d", Describe(idx), I, n)
	}
	if bd.leLen(idx, x, 1, at) {
		return ""
	}
	return fmt.Sprintf("index %s ∈ %s not proven < len(%s) (known len ≥ %d)", Describe(idx), I, Describe(x), bd.LenLB(x, at))
}

func (bd *Bounds) checkSlice(s *ssa.Slice) string {
	x := s.X
	lo := Interval{0, 0}
	if s.Low != nil {
		lo = bd.IV.At(s.Low, s)
	}
	if lo.Lo < 0 {
		return fmt.Sprintf("low bound %s ∈ %s may be negative", Describe(s.Low), lo)
	}
	if n, ok := arrayLen(x.Type()); ok {
		hiOK := s.High == nil
		if s.High != nil {
			h := bd.IV.At(s.High, s)
			hiOK = h.Hi <= n && h.Lo >= lo.Hi
		} else {
			hiOK = lo.Hi <= n
		}
		if hiOK {
			return ""
		}
		return fmt.Sprintf("bounds [%v:%v] of array of length %d not proven", lo, s.High, n)
	}
	if s.High == nil {
		// x[lo:] needs lo ≤ len(x)
		if s.Low == nil || bd.leLen(s.Low, x, 0, s) {
			return ""
		}
		return fmt.Sprintf("low bound %s ∈ %s not proven ≤ len(%s) (known len ≥ %d)", Describe(s.Low), lo, Describe(x), bd.LenLB(x, s))
	}
	hi := bd.IV.At(s.High, s)
	if hi.Lo < 0 {
		return fmt.Sprintf("high bound %s ∈ %s may be negative", Describe(s.High), hi)
	}
	// high ≤ len(x) (cap would do; len is the sound lower bound)
	if !bd.leLen(s.High, x, 0, s) {
		return fmt.Sprintf("high bound %s ∈ %s not proven ≤ len(%s) (known len ≥ %d)", Describe(s.High), hi, Describe(x), bd.LenLB(x, s))
	}
	// low ≤ high
	if s.Low != nil && lo.Hi > hi.Lo {
		// symbolic: high = len(x) − c, low const: needs low + c ≤ len LB
		if b, ok := stripConv(s.High).(*ssa.BinOp); ok && b.Op == token.SUB {
			if la, ok := lenArg(b.X); ok && bd.sameSlice(la, x) {
				c := bd.IV.At(b.Y, s)
				if c.Hi != PosInf && lo.Hi != PosInf && sadd(lo.Hi, c.Hi) <= bd.LenLB(x, s) {
					return ""
				}
			}
		}
		if la, ok := lenArg(stripConv(s.High)); ok && bd.sameSlice(la, x) && bd.leLen(s.Low, x, 0, s) {
			return ""
		}
		return fmt.Sprintf("low %s ∈ %s not proven ≤ high %s ∈ %s", Describe(s.Low), lo, Describe(s.High), hi)
	}
	return ""
}

// linear folds v to base + off, looking through integer conversions and
// additions/subtractions of constants that provably do not wrap.
func (bd *Bounds) linear(v ssa.Value, at ssa.Instruction) (ssa.Value, int64) {
	off := int64(0)
	for i := 0; i < 10; i++ {
		switch x := v.(type) {
		case *ssa.ChangeType:
			v = x.X
			continue
		case *ssa.Convert:
			if b, ok := x.X.Type().Underlying().(*types.Basic); ok && b.Info()&types.IsInteger != 0 {
				if fits(bd.IV.At(x.X, at), x.Type()) {
					v = x.X
					continue
				}
			}
		case *ssa.BinOp:
			if x.Op == token.ADD {
				if n, ok := ConstInt(x.X); ok {
					if _, isC := x.Y.(*ssa.Const); !isC {
						if r, ok := bd.IV.BinRaw(x, at); ok && fits(r, x.Type()) {
							off += n
							v = x.Y
							continue
						}
					}
				}
			}
			if x.Op == token.ADD || x.Op == token.SUB {
				if n, ok := ConstInt(x.Y); ok {
					if r, ok := bd.IV.BinRaw(x, at); ok && fits(r, x.Type()) {
						if x.Op == token.ADD {
							off += n
						} else {
							off -= n
						}
						v = x.X
						continue
					}
				}
			}
		}
		break
	}
	return v, off
}

// succLenParam: on every success return of method fn, len(recv.field) ≥ the
// value of parameter j (returned), established by a dominating guard with no
// kill before the return.
func (bd *Bounds) succLenParam(fn *ssa.Function, field int) (int, bool) {
	recv := fn.Params[0]
	found := -1
	for _, r := range SuccessReturns(fn) {
		this := -1
		for _, g := range Guards(r) {
			c := g.Cmp()
			for _, k := range []Cmp{c, c.Swap()} {
				la, ok := lenArg(k.X)
				if !ok || (k.Op != token.GEQ && k.Op != token.GTR && k.Op != token.EQL) {
					continue
				}
				ld, b, f, isF := fieldLoad(la)
				if !isF || b != ssa.Value(recv) || f != field || bd.killedBetween(ld, r, recv.Type(), field) {
					continue
				}
				for j, p := range fn.Params {
					if stripConv(k.Y) == ssa.Value(p) {
						this = j
					}
				}
			}
		}
		if this < 0 || (found >= 0 && found != this) {
			return 0, false
		}
		found = this
	}
	return found, found >= 0
}

// Linear is the exported linear-form folding (base + constant offset).
func (bd *Bounds) Linear(v ssa.Value, at ssa.Instruction) (ssa.Value, int64) { return bd.linear(v, at) }
