#!/bin/bash
# Build the checker offline from /verif/checker (module cache only).
set -e
cd "$(dirname "$0")"
. ./env.sh
mkdir -p bin evidence
(cd checker && go build -o ../bin/tdcheck ./cmd/tdcheck)
# warm export data for the repository packages the rules load (go list -export compiles them once)
(cd "$VERIF_REPO" && go build ./... >/dev/null 2>&1 || true)
echo "setup ok: $(go version)"
