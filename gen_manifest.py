#!/usr/bin/env python3
"""Regenerates /verif/MANIFEST.json from claims.json (claimed properties) and
na.json (not-applicable reasons). Every property of properties.jsonl appears in
exactly one of the two lists."""
import json, os, sys
here = os.path.dirname(os.path.abspath(__file__))
props = [json.loads(l)["id"] for l in open(os.path.join(here, "properties.jsonl")) if l.strip()]
claims = json.load(open(os.path.join(here, "claims.json")))
na = json.load(open(os.path.join(here, "na.json")))
baseline = ("cd /repo && . /verif/env.sh && go build ./... && "
            "go test -json -vet=off -count=1 -timeout 25m ./...")
m = {
 "version": 1,
 "setup_cmd": "./setup.sh",
 "hooks": {
  "guard": "verif",
  "enable": "none needed: static analysis reads the unmodified source; no hook commits exist",
  "baseline_off_cmd": baseline,
  "source_commits": [],
  "add_only": True,
 },
 "engines": [
  {"name": "tdcheck", "path": "/verif/checker", "serves_properties": sorted(claims),
   "kind_free_text": "repository-specific static analyser over go/packages + go/types + go/ssa: dominance/guard-edge rules, value-origin tracing, must-held locksets, finite comparison-class enumeration, interval/linear-form folding, writer/reader wire-shape agreement, table extraction; in-memory overlay mutants for self-test"},
 ],
 "checks": [],
 "not_applicable": [],
 "notes": "All checks are static: they re-load and re-type-check /repo's working tree on every invocation and never execute gotd/td code. Level 'other' = structural necessary conditions of the property decided on all paths/call sites (see DESIGN.md §3); a green check is not a proof of the behavioural property. Genuine defects found are listed in /verif/known_findings.json.",
}
for p in props:
    if p in claims:
        c = claims[p]
        m["checks"].append({
            "property_id": p,
            "quick_cmd": f"./check.sh {p} quick",
            "thorough_cmd": f"./check.sh {p} thorough",
            "evidence_file": f"/verif/evidence/{p}.json",
            "replay_cmd_template": "./check.sh --replay {path}",
            "engine": "tdcheck",
            "level_claimed": {"category": "other", "text": c["text"], "design_ref": c.get("design_ref", f"DESIGN.md §3 {p}")},
            "level_note": c["note"],
            "technique": c["technique"],
        })
    else:
        if p not in na:
            sys.exit(f"{p}: neither claimed nor in na.json")
        m["not_applicable"].append({"property_id": p, "reason": na[p]})
json.dump(m, open(os.path.join(here, "MANIFEST.json"), "w"), indent=1)
print(f"MANIFEST.json: {len(m['checks'])} claimed, {len(m['not_applicable'])} not applicable")
